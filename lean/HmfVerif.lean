import HmfVerif.Model.CacheIO
import HmfVerif.Props.C01
