/-!
# `M'` and `S`: the functional cache machine and its cache-free specification

Core Lean only (no Mathlib) so that the driver `Main.lean` can execute it.

* `evalPure`  — specification `S`: cache-free big-step evaluation of a *read program* `Tm`
  under a parameter valuation; returns the result (value or user exception) **and** the list of
  parameters read up to that point.
* `evalM`     — the memoising machine `M'` (functional presentation of `_cache.py` after the
  re-index/rollback repairs): every evaluation returns the parameters it read, the caller appends
  them (this is what "every active ancestor's index receives the read" amounts to); a failing
  quantity records nothing for itself, its successfully evaluated children stay cached;
  `super().q` evaluates the parent body inline.
* `setP`, `update`, `Op`, `run`, `specRun` — operations on one framework instance and the
  specification of a whole history.

Names are `Nat`-coded (the harness owns the name table).
-/
namespace Hmf

abbrev Name := Nat

/-- Values.  Quantity results are *free terms* over what was read. Dict-valued parameters are
    key-sorted association lists, so structural equality is Python `dict.__eq__`. -/
inductive Val where
  | atom : Nat → Val
  | node : Nat → Val → Val → Val
  | dict : List (Nat × Nat) → Val
  deriving DecidableEq, Repr, Inhabited

/-- Read programs: what a quantity body does as far as the cache can see. -/
inductive Tm where
  | p       : Name → Tm                    -- read a parameter (`self.<param>`)
  | q       : Name → Tm                    -- read a cached quantity (`self.<quantity>`)
  | sup     : Nat → Name → Tm              -- `super(owner).<name>`: the body owned by `owner`
  | pair    : Nat → Tm → Tm → Tm           -- uninterpreted function of two sub-results
  | ite     : Nat → Tm → Tm → Tm → Tm      -- `if I c (value of guard) then t else e`
  | raiseIf : Nat → Tm → Tm → Tm           -- raise user exception `c` if `I c guard`, else continue
  | const   : Nat → Tm                     -- a literal
  deriving Repr, Inhabited

/-- Validator family (`parameter` bodies): accept as is; reject if the oracle says so; normalise
    (e.g. `float(val)`, `bool(val)`, `get_mdl(name) ↦ class`) and possibly reject. -/
inductive Vd where
  | id
  | rejectIf (c : Nat)
  | norm (c : Nat)
  | normReject (c : Nat)
  deriving DecidableEq, Repr, Inhabited

/-- A framework class as the cache sees it. `I` is an arbitrary Boolean oracle (data-dependent
    branches), `N` an arbitrary normaliser. -/
structure Env where
  body     : Nat → Name → Tm        -- (owner, name) ↦ body
  resolve  : Name → Nat             -- MRO-resolved owner of a quantity name
  I        : Nat → Val → Bool
  N        : Nat → Val → Val
  vd       : Name → Vd              -- validator of each parameter
  isParam  : Name → Bool            -- declared parameters (update() keyword check)
  isSwitch : Name → Bool            -- `@parameter("switch")`: dependants are deleted, not dirtied
  validate : Tm                     -- the body of `validate()`

/-- user-level exceptions: `user c` = raised by a body/validator/validate with id `c`;
    `badKw` = `update()` leftover keyword. -/
inductive Exn where
  | user (c : Nat)
  | badKw
  deriving DecidableEq, Repr, Inhabited

abbrev Res := Except Exn Val

/-! ## Specification `S` -/

def evalPure (E : Env) (pv : Name → Val) : Nat → Tm → Option (Res × List Name)
  | 0, _ => none
  | _+1, .p n => some (.ok (pv n), [n])
  | _+1, .const c => some (.ok (.atom c), [])
  | f+1, .q n => evalPure E pv f (E.body (E.resolve n) n)
  | f+1, .sup o n => evalPure E pv f (E.body o n)
  | f+1, .pair k a b =>
      match evalPure E pv f a with
      | none => none
      | some (.error e, ra) => some (.error e, ra)
      | some (.ok va, ra) =>
        match evalPure E pv f b with
        | none => none
        | some (.error e, rb) => some (.error e, ra ++ rb)
        | some (.ok vb, rb) => some (.ok (.node k va vb), ra ++ rb)
  | f+1, .ite c g t e =>
      match evalPure E pv f g with
      | none => none
      | some (.error x, rg) => some (.error x, rg)
      | some (.ok vg, rg) =>
        match evalPure E pv f (if E.I c vg then t else e) with
        | none => none
        | some (r, rt) => some (r, rg ++ rt)
  | f+1, .raiseIf c g k =>
      match evalPure E pv f g with
      | none => none
      | some (.error x, rg) => some (.error x, rg)
      | some (.ok vg, rg) =>
        if E.I c vg then some (.error (.user c), rg) else
        match evalPure E pv f k with
        | none => none
        | some (r, rk) => some (r, rg ++ rk)

/-! ## Machine `M'` -/

structure St where
  pv     : Name → Val
  clean  : Name → Bool            -- `recalc[n] == False`: indexed and up to date
  deps   : Name → List Name       -- `recalc_prop_par[n]`
  papr   : Name → List Name       -- `recalc_par_prop[p]`
  cache  : Name → Val
  trace  : List Name              -- ghost: bodies executed so far, most recent first

def upd {β} (f : Name → β) (n : Name) (v : β) : Name → β := fun m => if m = n then v else f m

def St.log (s : St) (n : Name) : St := { s with trace := n :: s.trace }

def evalM (E : Env) : Nat → St → Tm → Option (Res × List Name × St)
  | 0, _, _ => none
  | _+1, s, .p n => some (.ok (s.pv n), [n], s)
  | _+1, s, .const c => some (.ok (.atom c), [], s)
  | f+1, s, .q n =>
      if s.clean n then some (.ok (s.cache n), s.deps n, s)
      else
        -- `_get_property` first copies the *previous* index of `n` (kept while `n` is merely
        -- dirty; `[]` once deleted by a switch or rolled back) into every active ancestor, then
        -- recomputes; so the caller sees `s.deps n ++ r`.
        match evalM E f (s.log n) (E.body (E.resolve n) n) with
        | none => none
        | some (.error e, r, s1) =>                                  -- rollback: nothing recorded for n
          some (.error e, s.deps n ++ r, { s1 with deps := upd s1.deps n [], clean := upd s1.clean n false })
        | some (.ok v, r, s1) =>
          some (.ok v, s.deps n ++ r, { s1 with
            clean := upd s1.clean n true
            deps  := upd s1.deps n r
            cache := upd s1.cache n v
            papr  := fun par => if par ∈ r then n :: s1.papr par else s1.papr par })
  | f+1, s, .sup o n => evalM E f s (E.body o n)
  | f+1, s, .pair k a b =>
      match evalM E f s a with
      | none => none
      | some (.error e, ra, s1) => some (.error e, ra, s1)
      | some (.ok va, ra, s1) =>
        match evalM E f s1 b with
        | none => none
        | some (.error e, rb, s2) => some (.error e, ra ++ rb, s2)
        | some (.ok vb, rb, s2) => some (.ok (.node k va vb), ra ++ rb, s2)
  | f+1, s, .ite c g t e =>
      match evalM E f s g with
      | none => none
      | some (.error x, rg, s1) => some (.error x, rg, s1)
      | some (.ok vg, rg, s1) =>
        match evalM E f s1 (if E.I c vg then t else e) with
        | none => none
        | some (r, rt, s2) => some (r, rg ++ rt, s2)
  | f+1, s, .raiseIf c g k =>
      match evalM E f s g with
      | none => none
      | some (.error x, rg, s1) => some (.error x, rg, s1)
      | some (.ok vg, rg, s1) =>
        if E.I c vg then some (.error (.user c), rg, s1) else
        match evalM E f s1 k with
        | none => none
        | some (r, rk, s2) => some (r, rg ++ rk, s2)

/-! ## Parameter store: validators, dict merge -/

def runVd (E : Env) (n : Name) (v : Val) : Except Exn Val :=
  match E.vd n with
  | .id => .ok v
  | .rejectIf c => if E.I c v then .error (.user c) else .ok v
  | .norm c => .ok (E.N c v)
  | .normReject c => if E.I c v then .error (.user c) else .ok (E.N c v)

def dictInsert : List (Nat × Nat) → Nat × Nat → List (Nat × Nat)
  | [], kv => [kv]
  | (k, w) :: rest, (k', w') =>
      if k' < k then (k', w') :: (k, w) :: rest
      else if k' = k then (k, w') :: rest
      else (k, w) :: dictInsert rest (k', w')

/-- `dict.update` on key-sorted association lists (right-biased). -/
def dictMerge (old new : List (Nat × Nat)) : List (Nat × Nat) := new.foldl dictInsert old

/-- What the setter stores: a non-empty dict merges into an existing dict, anything else
    (including the empty dict) replaces. -/
def storeVal (old new : Val) : Val :=
  match old, new with
  | .dict a, .dict (b :: bs) => .dict (dictMerge a (b :: bs))
  | _, v => v

/-- the parameter-only effect of a (validated) set -/
def pvSet (pv : Name → Val) (n : Name) (v : Val) : Name → Val :=
  if v = pv n then pv else upd pv n (storeVal (pv n) v)

/-- `_set_property` on an already-constructed object, validated value `v`.  Dependants of an
    ordinary parameter are marked dirty (their old index is kept until the next recomputation);
    dependants of a switch lose their cache entry *and* index. -/
def setV (sw : Bool) (s : St) (n : Name) (v : Val) : St :=
  if v = s.pv n then s else
  { s with pv := upd s.pv n (storeVal (s.pv n) v)
           clean := fun m => if m ∈ s.papr n then false else s.clean m
           deps := fun m => if sw && m ∈ s.papr n then [] else s.deps m }

def setP (E : Env) (s : St) (n : Name) (v : Val) : Except Exn Unit × St :=
  match runVd E n v with
  | .error e => (.error e, s)
  | .ok v' => (.ok (), setV (E.isSwitch n) s n v')

/-- the sequential part of `update(**kw)`: stops at the first rejected value; unknown keywords are
    skipped (reported after `validate()`). -/
def setMany (E : Env) : St → List (Name × Val) → Except Exn Unit × St
  | s, [] => (.ok (), s)
  | s, (n, v) :: rest =>
      if E.isParam n then
        match setP E s n v with
        | (.error e, s1) => (.error e, s1)
        | (.ok _, s1) => setMany E s1 rest
      else setMany E s rest

def pvSetMany (E : Env) : (Name → Val) → List (Name × Val) → Except Exn Unit × (Name → Val)
  | pv, [] => (.ok (), pv)
  | pv, (n, v) :: rest =>
      if E.isParam n then
        match runVd E n v with
        | .error e => (.error e, pv)
        | .ok v' => pvSetMany E (pvSet pv n v') rest
      else pvSetMany E pv rest

inductive Op where
  | get (n : Name)                        -- read a quantity
  | getp (n : Name)                       -- read a parameter
  | set (n : Name) (v : Val)              -- direct assignment
  | update (kw : List (Name × Val))       -- `update(**kw)` (also the body of `clone(**kw)`)
  | setv (n : Name) (v : Val)             -- direct assignment with `_validate_every_param_set = True`
  deriving Repr, Inhabited

inductive Out where
  | val (v : Val)
  | exn (e : Exn)
  | unit
  | nofuel
  deriving DecidableEq, Repr, Inhabited

def outOfRes : Res → Out
  | .ok v => .val v
  | .error e => .exn e

/-- outcome of `update()` once all values were accepted, from the result of `validate()` -/
def updOut (E : Env) (kw : List (Name × Val)) : Option Res → Out
  | none => .nofuel
  | some (.error e) => .exn e
  | some (.ok _) => if kw.all (fun kv => E.isParam kv.1) then .unit else .exn .badKw

/-- one operation of the machine -/
def step (E : Env) (fuel : Nat) (s : St) : Op → Out × St
  | .get n =>
      match evalM E fuel s (.q n) with
      | none => (.nofuel, s)
      | some (r, _, s1) => (outOfRes r, s1)
  | .getp n => (.val (s.pv n), s)
  | .set n v =>
      match setP E s n v with
      | (.error e, s1) => (.exn e, s1)
      | (.ok _, s1) => (.unit, s1)
  | .update kw =>
      match setMany E s kw with
      | (.error e, s1) => (.exn e, s1)
      | (.ok _, s1) =>
        match evalM E fuel s1 E.validate with
        | none => (.nofuel, s1)
        | some (r, _, s2) => (updOut E kw (some r), s2)

  | .setv n v =>
      match runVd E n v with
      | .error e => (.exn e, s)
      | .ok v' =>
        if v' = s.pv n then (.unit, s) else      -- equal value: nothing happens, `validate()` is not run
        match evalM E fuel (setV (E.isSwitch n) s n v') E.validate with
        | none => (.nofuel, setV (E.isSwitch n) s n v')
        | some (r, _, s2) => (updOut E [] (some r), s2)

def run (E : Env) (fuel : Nat) : St → List Op → List Out × St
  | s, [] => ([], s)
  | s, op :: ops =>
      let (o, s1) := step E fuel s op
      let (os, s2) := run E fuel s1 ops
      (o :: os, s2)

/-- one operation of the specification: only the parameter valuation is state; every read is a
    from-scratch evaluation (= what a freshly constructed object with these parameters returns). -/
def specStep (E : Env) (fuel : Nat) (pv : Name → Val) : Op → Out × (Name → Val)
  | .get n =>
      match evalPure E pv fuel (.q n) with
      | none => (.nofuel, pv)
      | some (r, _) => (outOfRes r, pv)
  | .getp n => (.val (pv n), pv)
  | .set n v =>
      match runVd E n v with
      | .error e => (.exn e, pv)
      | .ok v' => (.unit, pvSet pv n v')
  | .update kw =>
      match pvSetMany E pv kw with
      | (.error e, pv1) => (.exn e, pv1)
      | (.ok _, pv1) =>
        (updOut E kw ((evalPure E pv1 fuel E.validate).map (·.1)), pv1)

  | .setv n v =>
      match runVd E n v with
      | .error e => (.exn e, pv)
      | .ok v' =>
        if v' = pv n then (.unit, pv) else
        (updOut E [] ((evalPure E (pvSet pv n v') fuel E.validate).map (·.1)), pvSet pv n v')

def specRun (E : Env) (fuel : Nat) : (Name → Val) → List Op → List Out × (Name → Val)
  | pv, [] => ([], pv)
  | pv, op :: ops =>
      let (o, pv1) := specStep E fuel pv op
      let (os, pv2) := specRun E fuel pv1 ops
      (o :: os, pv2)

/-- a freshly constructed object: parameters as given, nothing cached -/
def St.fresh (pv : Name → Val) : St :=
  { pv := pv, clean := fun _ => false, deps := fun _ => [], papr := fun _ => [],
    cache := fun _ => .atom 0, trace := [] }

end Hmf
