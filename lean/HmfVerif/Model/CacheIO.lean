import HmfVerif.Model.Cache
/-!
# Line protocol for the cache machine (driver side): parse a class descriptor + history, run `M'`.
Not used by any proof.
-/
namespace Hmf.IO
open Hmf

/-- oracle shared with the Python harness (`tools/harness/synth.py: oracle_h / oracle_I / oracle_N`) -/
def hV : Val → Nat
  | .atom k => k % 1000003
  | .node k a b => (k + 3 * hV a + 5 * hV b + 1) % 1000003
  | .dict kvs => (kvs.foldl (fun acc kv => acc + kv.1 * 31 + kv.2 + 7) 2) % 1000003

def oracleI (c : Nat) (v : Val) : Bool := (c * 7 + hV v) % 3 == 0
def oracleN (_c : Nat) : Val → Val
  | .atom k => .atom (k - k % 2)
  | v => v

partial def showVal : Val → String
  | .atom k => s!"a{k}"
  | .node k a b => s!"(n{k} {showVal a} {showVal b})"
  | .dict kvs => "{" ++ ",".intercalate (kvs.map fun kv => s!"{kv.1}:{kv.2}") ++ "}"

def showOut : Out → String
  | .val v => "v:" ++ showVal v
  | .exn (.user c) => s!"x:u{c}"
  | .exn .badKw => "x:kw"
  | .unit => "u"
  | .nofuel => "nofuel"

abbrev P := StateT (List String) (Except String)

def tok : P String := do
  match (← get) with
  | [] => throw "eof"
  | t :: ts => set ts; pure t

def nat : P Nat := do
  let t ← tok
  match t.toNat? with
  | some n => pure n
  | none => throw s!"nat expected: {t}"

def expect (s : String) : P Unit := do
  let t ← tok
  if t != s then throw s!"expected {s} got {t}"

def rep {α} (n : Nat) (p : P α) : P (List α) := do
  let mut out := []
  for _ in [0:n] do out := (← p) :: out
  pure out.reverse

partial def tm : P Tm := do
  match (← tok) with
  | "p" => pure (.p (← nat))
  | "q" => pure (.q (← nat))
  | "s" => do let o ← nat; let n ← nat; pure (.sup o n)
  | "c" => pure (.const (← nat))
  | "P" => do let k ← nat; let a ← tm; let b ← tm; pure (.pair k a b)
  | "I" => do let c ← nat; let g ← tm; let t ← tm; let e ← tm; pure (.ite c g t e)
  | "R" => do let c ← nat; let g ← tm; let k ← tm; pure (.raiseIf c g k)
  | t => throw s!"bad tm {t}"

def val : P Val := do
  match (← tok) with
  | "a" => pure (.atom (← nat))
  | "d" => do
      let k ← nat
      let kvs ← rep k (do let a ← nat; let b ← nat; pure (a, b))
      pure (.dict (dictMerge [] kvs))
  | t => throw s!"bad val {t}"

def vd : P Vd := do
  match (← tok) with
  | "id" => pure .id
  | "rej" => pure (.rejectIf (← nat))
  | "norm" => pure (.norm (← nat))
  | "nrej" => pure (.normReject (← nat))
  | t => throw s!"bad vd {t}"

def op : P Op := do
  match (← tok) with
  | "G" => pure (.get (← nat))
  | "g" => pure (.getp (← nat))
  | "S" => do let n ← nat; let v ← val; pure (.set n v)
  | "V" => do let n ← nat; let v ← val; pure (.setv n v)
  | "U" => do
      let k ← nat
      let kw ← rep k (do let n ← nat; let v ← val; pure (n, v))
      pure (.update kw)
  | t => throw s!"bad op {t}"

structure Case where
  nparams : Nat
  env : Env
  init : List Val
  ops : List Op

def case : P Case := do
  expect "ENV"
  let np ← nat
  let vds ← rep np vd
  let sws ← rep np nat
  let nb ← nat
  let bodies ← rep nb (do let o ← nat; let n ← nat; let t ← tm; pure (o, n, t))
  let validate ← tm
  expect "RES"
  let nr ← nat
  let res ← rep nr (do let n ← nat; let o ← nat; pure (n, o))
  expect "INIT"
  let init ← rep np val
  expect "OPS"
  let no ← nat
  let ops ← rep no op
  let env : Env := {
    body := fun o n => match bodies.find? (fun b => b.1 == o && b.2.1 == n) with
      | some b => b.2.2
      | none => .raiseIf 424242 (.const 0) (.const 0)
    resolve := fun n => match res.find? (fun r => r.1 == n) with
      | some r => r.2
      | none => 0
    I := oracleI, N := oracleN
    vd := fun n => vds.getD n .id
    isParam := fun n => n < np
    isSwitch := fun n => sws.getD n 0 == 1
    validate := validate }
  pure { nparams := np, env := env, init := init, ops := ops }

/-- run a case: constructor (validators on initial values, then `validate()`), then the history.
    One output record per op: `<out>|<bodies executed during this op, in order>`; finally the
    parameter values. -/
def runCase (fuel : Nat) (c : Case) : String := Id.run do
  -- constructor: first-time sets run the validator, no merge
  let mut pv : Name → Val := fun _ => .atom 0
  let mut i := 0
  for v in c.init do
    match runVd c.env i v with
    | .error e => return s!"ctor:{showOut (.exn e)}"
    | .ok v' => pv := upd pv i v'
    i := i + 1
  let s0 := St.fresh pv
  let (o0, s1) := match evalM c.env fuel s0 c.env.validate with
    | none => (Out.nofuel, s0)
    | some (r, _, s) => (updOut c.env [] (some r), s)
  let tr0 := " ".intercalate (s1.trace.reverse.map toString)
  let mut recs := [s!"ctor:{showOut o0}|{tr0}"]
  if o0 != .unit then return recs[0]!
  let mut s := s1
  for o in c.ops do
    let before := s.trace.length
    let (out, s') := step c.env fuel s o
    let new := (s'.trace.take (s'.trace.length - before)).reverse
    recs := s!"{showOut out}|{" ".intercalate (new.map toString)}" :: recs
    s := s'
  let pvs := " ".intercalate ((List.range c.nparams).map fun n => showVal (s.pv n))
  return ";".intercalate recs.reverse ++ ";pv:" ++ pvs

def handle (line : String) : String :=
  let toks := (line.splitOn " ").filter (· != "")
  match (case.run toks) with
  | .error e => s!"parse-error {e}"
  | .ok (c, _) => runCase 100000 c

end Hmf.IO
