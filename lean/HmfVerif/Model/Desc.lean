import HmfVerif.Model.Cache
/-!
# Class descriptors (what `tools/pyflow.py` generates) and their well-formedness check `WF`.
Core Lean only.
-/
namespace Hmf

def Tm.depth : Tm → Nat
  | .p _ => 0
  | .q _ => 0
  | .sup _ _ => 0
  | .const _ => 0
  | .pair _ a b => max a.depth b.depth + 1
  | .ite _ g t e => max g.depth (max t.depth e.depth) + 1
  | .raiseIf _ g k => max g.depth k.depth + 1

structure ClassDesc where
  mro : List Nat                          -- owners, most-derived first (C3 linearisation)
  params : List (Name × Bool)             -- (name, isSwitch)
  bodies : List (Nat × Name × Tm)         -- (owner, quantity, read program)
  validate : Tm
  ctorKw : List Name                      -- keywords accepted by the constructors along the MRO
  ctorAssigned : List Name                -- `self.<name> = …` assignments in those constructors
  hgt : List ((Nat × Name) × Nat)         -- topological certificate for the read graph
  plainAttrReads : List String            -- `self.x` reads that are neither parameter, quantity nor method
  selfWrites : List String                -- `self.x = …` inside quantity bodies / validate
  mutableDefaults : List String           -- mutable default arguments of constructors
  usesSubframework : Bool
  deriving Repr, Inhabited

namespace ClassDesc

def bodyOf (C : ClassDesc) (o : Nat) (n : Name) : Option Tm :=
  (C.bodies.find? (fun b => b.1 == o && b.2.1 == n)).map (·.2.2)

def resolve (C : ClassDesc) (n : Name) : Nat :=
  (C.mro.find? (fun o => (C.bodyOf o n).isSome)).getD 0

def isParam (C : ClassDesc) (n : Name) : Bool := C.params.any (·.1 == n)
def isSwitch (C : ClassDesc) (n : Name) : Bool := C.params.any (fun p => p.1 == n && p.2)
def isQuant (C : ClassDesc) (n : Name) : Bool := C.bodies.any (·.2.1 == n)
def quantNames (C : ClassDesc) : List Name := (C.bodies.map (·.2.1)).eraseDups

def hgtOf (C : ClassDesc) (o : Nat) (n : Name) : Nat :=
  ((C.hgt.find? (fun e => e.1.1 == o && e.1.2 == n)).map (·.2)).getD 0

/-- the class as an `Env` for the machine, for any oracle, normaliser and validator assignment -/
def toEnv (C : ClassDesc) (I : Nat → Val → Bool) (N : Nat → Val → Val) (vd : Name → Vd) : Env where
  body := fun o n => (C.bodyOf o n).getD (.const 0)
  resolve := C.resolve
  I := I
  N := N
  vd := vd
  isParam := C.isParam
  isSwitch := C.isSwitch
  validate := C.validate

/-- every read of `t` names a declared parameter, or a quantity/`super` body that exists and sits
    strictly below height `h` in the certificate -/
def okReads (C : ClassDesc) (h : Nat) : Tm → Bool
  | .p x => C.isParam x
  | .q m => (C.bodyOf (C.resolve m) m).isSome && C.hgtOf (C.resolve m) m < h
  | .sup o n => (C.bodyOf o n).isSome && C.hgtOf o n < h
  | .const _ => true
  | .pair _ a b => okReads C h a && okReads C h b
  | .ite _ g t e => okReads C h g && okReads C h t && okReads C h e
  | .raiseIf _ g k => okReads C h g && okReads C h k

def maxHgt (C : ClassDesc) : Nat := C.hgt.foldl (fun m e => max m e.2) 0
def maxDepth (C : ClassDesc) : Nat := C.bodies.foldl (fun m b => max m b.2.2.depth) 0

/-- W1 (acyclic read graph, topological certificate) + W2 (every read is a declared parameter or
    an existing quantity body) for all bodies and for `validate()` -/
def wfReads (C : ClassDesc) : Bool :=
  C.bodies.all (fun b => okReads C (C.hgtOf b.1 b.2.1) b.2.2 && b.2.2.depth ≤ C.maxDepth &&
                         C.hgtOf b.1 b.2.1 ≤ C.maxHgt) &&
  okReads C (C.maxHgt + 1) C.validate

/-- W4: constructor keywords are exactly the declared parameters, each assigned in a constructor -/
def wfCtor (C : ClassDesc) : Bool :=
  C.ctorKw.all C.isParam && C.ctorKw.all (fun k => C.ctorAssigned.contains k) &&
  C.ctorAssigned.all C.isParam && C.params.all (fun p => C.ctorKw.contains p.1)

/-- W5/W8: purity and aliasing facts of the translator are empty -/
def wfFacts (C : ClassDesc) : Bool :=
  C.plainAttrReads.isEmpty && C.selfWrites.isEmpty && C.mutableDefaults.isEmpty && !C.usesSubframework

/-- parameters and quantities do not share names; every body's owner is in the MRO -/
def wfNames (C : ClassDesc) : Bool :=
  C.bodies.all (fun b => !C.isParam b.2.1 && C.mro.contains b.1)

def WF (C : ClassDesc) : Bool := C.wfReads && C.wfCtor && C.wfFacts && C.wfNames

/-! ## Static cones -/

/-- parameters syntactically reachable from a term through quantity and `super` reads, exploring
    to depth `fuel` (same fuel discipline as `evalPure`; both branches of every test are included) -/
def coneTm (C : ClassDesc) : Nat → Tm → List Name
  | 0, _ => []
  | _+1, .p x => [x]
  | _+1, .const _ => []
  | f+1, .q m => coneTm C f ((C.bodyOf (C.resolve m) m).getD (.const 0))
  | f+1, .sup o n => coneTm C f ((C.bodyOf o n).getD (.const 0))
  | f+1, .pair _ a b => coneTm C f a ++ coneTm C f b
  | f+1, .ite _ g t e => coneTm C f g ++ (coneTm C f t ++ coneTm C f e)
  | f+1, .raiseIf _ g k => coneTm C f g ++ coneTm C f k

/-- fuel at which the cone of a quantity read is saturated on a well-formed descriptor -/
def coneFuel (C : ClassDesc) : Nat := 1 + (C.maxHgt + 1) * (C.maxDepth + 2)

/-- the static cone of quantity `n`: every parameter any evaluation of `n` can possibly read -/
def cone (C : ClassDesc) (n : Name) : List Name := C.coneTm C.coneFuel (.q n)

end ClassDesc
end Hmf
