/-!
# Deep embedding of the closed-form numerical bodies (`E`), generic over the scalar carrier (`Sci`).
Core Lean only: `evalS` at `Float` is what the driver runs; `Real/` instantiates the same definition at ℝ.
-/
namespace Hmf

/-- scalar carrier: the operations the translated numpy bodies use -/
class Sci (α : Type) where
  ofInt : Int → α
  pi : α
  add : α → α → α
  sub : α → α → α
  mul : α → α → α
  div : α → α → α
  neg : α → α
  exp : α → α
  log : α → α
  sqrt : α → α
  sin : α → α
  cos : α → α
  cosh : α → α
  abs : α → α
  pow : α → α → α          -- real power  (`**` with a non-integer-literal exponent)
  lt : α → α → Bool
  le : α → α → Bool
  beq : α → α → Bool

inductive U | neg | exp | log | log10 | sqrt | sin | cos | cosh | abs
  deriving DecidableEq, Repr
inductive B | add | sub | mul | div | pow | min | max
  deriving DecidableEq, Repr
inductive Cmp | lt | le | gt | ge | eq | ne
  deriving DecidableEq, Repr

/-- scalar / elementwise expressions.  `lit m e` is the exact decimal `m · 10^e`.
    `call f a` is an opaque external function (Γ, a spline object, `cosmo.Om`, …).
    `nonElem tag a` marks array operations that are **not** elementwise (reversal, cumulative sums,
    reductions, indexing): present only so that locality checks can see them. -/
inductive E where
  | lit (m : Int) (e : Int)
  | pi
  | var (x : String)
  | un (op : U) (a : E)
  | bin (op : B) (a b : E)
  | powi (a : E) (n : Int)
  | ite (c : Cmp) (a b : E) (t f : E)
  | call (f : String) (a : E)
  | nonElem (tag : String) (a : E)
  deriving Repr, Inhabited, DecidableEq

namespace E

/-- every node is elementwise (no reversal / cumsum / reduction / indexing anywhere) -/
def isElementwise : E → Bool
  | lit _ _ => true
  | pi => true
  | var _ => true
  | un _ a => a.isElementwise
  | bin _ a b => a.isElementwise && b.isElementwise
  | powi a _ => a.isElementwise
  | ite _ a b t f => a.isElementwise && b.isElementwise && t.isElementwise && f.isElementwise
  | call _ a => a.isElementwise
  | nonElem _ _ => false

def freeVars : E → List String
  | lit _ _ => []
  | pi => []
  | var x => [x]
  | un _ a => a.freeVars
  | bin _ a b => a.freeVars ++ b.freeVars
  | powi a _ => a.freeVars
  | ite _ a b t f => a.freeVars ++ b.freeVars ++ t.freeVars ++ f.freeVars
  | call _ a => a.freeVars
  | nonElem _ a => a.freeVars

def calls : E → List String
  | lit _ _ => []
  | pi => []
  | var _ => []
  | un _ a => a.calls
  | bin _ a b => a.calls ++ b.calls
  | powi a _ => a.calls
  | ite _ a b t f => a.calls ++ b.calls ++ t.calls ++ f.calls
  | call g a => g :: a.calls
  | nonElem _ a => a.calls

def size : E → Nat
  | lit _ _ => 1
  | pi => 1
  | var _ => 1
  | un _ a => a.size + 1
  | bin _ a b => a.size + b.size + 1
  | powi a _ => a.size + 1
  | ite _ a b t f => a.size + b.size + t.size + f.size + 1
  | call _ a => a.size + 1
  | nonElem _ a => a.size + 1

end E

section eval
variable {α : Type} [Sci α]

def Sci.ofNatPow10 (n : Nat) : α := Sci.ofInt (α := α) ((10 : Int) ^ n)

/-- exact decimal literal `m · 10^e` -/
def Sci.dec (m : Int) (e : Int) : α :=
  match e with
  | .ofNat n => Sci.mul (Sci.ofInt m) (Sci.ofNatPow10 n)
  | .negSucc n => Sci.div (Sci.ofInt m) (Sci.ofNatPow10 (n + 1))

/-- integer power by repeated multiplication (numpy's `x ** 2` etc.) -/
def Sci.npow (x : α) : Nat → α
  | 0 => Sci.ofInt 1
  | n + 1 => Sci.mul (Sci.npow x n) x

def Sci.zpow (x : α) : Int → α
  | .ofNat n => Sci.npow x n
  | .negSucc n => Sci.div (Sci.ofInt 1) (Sci.npow x (n + 1))

def evalCmp (c : Cmp) (a b : α) : Bool :=
  match c with
  | .lt => Sci.lt a b
  | .le => Sci.le a b
  | .gt => Sci.lt b a
  | .ge => Sci.le b a
  | .eq => Sci.beq a b
  | .ne => !Sci.beq a b

/-- evaluation; `opq` interprets opaque external functions -/
def evalS (opq : String → α → α) (ρ : String → α) : E → α
  | .lit m e => Sci.dec m e
  | .pi => Sci.pi
  | .var x => ρ x
  | .un .neg a => Sci.neg (evalS opq ρ a)
  | .un .exp a => Sci.exp (evalS opq ρ a)
  | .un .log a => Sci.log (evalS opq ρ a)
  | .un .log10 a => Sci.div (Sci.log (evalS opq ρ a)) (Sci.log (Sci.ofInt 10))
  | .un .sqrt a => Sci.sqrt (evalS opq ρ a)
  | .un .sin a => Sci.sin (evalS opq ρ a)
  | .un .cos a => Sci.cos (evalS opq ρ a)
  | .un .cosh a => Sci.cosh (evalS opq ρ a)
  | .un .abs a => Sci.abs (evalS opq ρ a)
  | .bin .add a b => Sci.add (evalS opq ρ a) (evalS opq ρ b)
  | .bin .sub a b => Sci.sub (evalS opq ρ a) (evalS opq ρ b)
  | .bin .mul a b => Sci.mul (evalS opq ρ a) (evalS opq ρ b)
  | .bin .div a b => Sci.div (evalS opq ρ a) (evalS opq ρ b)
  | .bin .pow a b => Sci.pow (evalS opq ρ a) (evalS opq ρ b)
  | .bin .min a b => if Sci.lt (evalS opq ρ b) (evalS opq ρ a) then evalS opq ρ b else evalS opq ρ a
  | .bin .max a b => if Sci.lt (evalS opq ρ a) (evalS opq ρ b) then evalS opq ρ b else evalS opq ρ a
  | .powi a n => Sci.zpow (evalS opq ρ a) n
  | .ite c a b t f => if evalCmp c (evalS opq ρ a) (evalS opq ρ b) then evalS opq ρ t else evalS opq ρ f
  | .call g a => opq g (evalS opq ρ a)
  | .nonElem g a => opq g (evalS opq ρ a)

end eval

instance : Sci Float where
  ofInt := Float.ofInt
  pi := 3.141592653589793
  add := (· + ·)
  sub := (· - ·)
  mul := (· * ·)
  div := (· / ·)
  neg := fun x => -x
  exp := Float.exp
  log := Float.log
  sqrt := Float.sqrt
  sin := Float.sin
  cos := Float.cos
  cosh := Float.cosh
  abs := Float.abs
  pow := Float.pow
  lt := fun a b => a < b
  le := fun a b => a ≤ b
  beq := fun a b => a == b

/-- evaluation depends only on the free variables -/
theorem evalS_congr {α} [Sci α] (opq : String → α → α) (ρ ρ' : String → α) :
    ∀ (e : E), (∀ x ∈ e.freeVars, ρ x = ρ' x) → evalS opq ρ e = evalS opq ρ' e := by
  intro e
  induction e with
  | lit m e => intro _; rfl
  | pi => intro _; rfl
  | var x => intro h; exact h x (by simp [E.freeVars])
  | un op a ih =>
    intro h
    have := ih (fun x hx => h x (by simpa [E.freeVars] using hx))
    cases op <;> simp only [evalS, this]
  | bin op a b iha ihb =>
    intro h
    have ha := iha (fun x hx => h x (by simp [E.freeVars, hx]))
    have hb := ihb (fun x hx => h x (by simp [E.freeVars, hx]))
    cases op <;> simp only [evalS, ha, hb]
  | powi a n ih =>
    intro h
    have := ih (fun x hx => h x (by simpa [E.freeVars] using hx))
    simp only [evalS, this]
  | ite c a b t f iha ihb iht ihf =>
    intro h
    have ha := iha (fun x hx => h x (by simp [E.freeVars, hx]))
    have hb := ihb (fun x hx => h x (by simp [E.freeVars, hx]))
    have ht := iht (fun x hx => h x (by simp [E.freeVars, hx]))
    have hf := ihf (fun x hx => h x (by simp [E.freeVars, hx]))
    simp only [evalS, ha, hb, ht, hf]
  | call g a ih =>
    intro h
    have := ih (fun x hx => h x (by simpa [E.freeVars] using hx))
    simp only [evalS, this]
  | nonElem g a ih =>
    intro h
    have := ih (fun x hx => h x (by simpa [E.freeVars] using hx))
    simp only [evalS, this]

end Hmf
