import HmfVerif.Model.Expr
/-!
# A small notation layer so that hand-written specification terms read like the documented formulae.
`(A * ((e / σ) ^ᵣ b + c) * exp (-d / σ ^ 2) : E)` builds the syntax tree; nothing is evaluated here.
-/
namespace Hmf.E

instance : Add E := ⟨fun a b => .bin .add a b⟩
instance : Sub E := ⟨fun a b => .bin .sub a b⟩
instance : Mul E := ⟨fun a b => .bin .mul a b⟩
instance : Div E := ⟨fun a b => .bin .div a b⟩
instance : Neg E := ⟨fun a => .un .neg a⟩
instance (n : Nat) : OfNat E n := ⟨.lit n 0⟩
/-- decimal literals: `0.707 : E` is the exact decimal `707 · 10^-3` -/
instance : OfScientific E := ⟨fun m s e => if s then .lit m (-(e : Int)) else .lit m e⟩
/-- integer power `σ ^ 2` -/
instance : HPow E Nat E := ⟨fun a n => .powi a n⟩
instance : HPow E Int E := ⟨fun a n => .powi a n⟩

/-- real power -/
def rpow (a b : E) : E := .bin .pow a b
infixr:75 " ^ᵣ " => rpow

def v (x : String) : E := .var x
def exp (a : E) : E := .un .exp a
def log (a : E) : E := .un .log a
def log10 (a : E) : E := .un .log10 a
def sqrt (a : E) : E := .un .sqrt a
def sin (a : E) : E := .un .sin a
def cos (a : E) : E := .un .cos a
def cosh (a : E) : E := .un .cosh a
def abs (a : E) : E := .un .abs a
def emin (a b : E) : E := .bin .min a b
def emax (a b : E) : E := .bin .max a b
def Γ (a : E) : E := .call "Gamma" a
def cond (c : Cmp) (a b t f : E) : E := .ite c a b t f

end Hmf.E
