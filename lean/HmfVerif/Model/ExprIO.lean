import HmfVerif.Model.Expr
import HmfVerif.Model.CacheIO
/-!
Line protocol for expression terms:
`EVALV <n> <nvars> (<hexname> <kind s|v> <bits…>)* <ncalls> (<hexfname> <argbits> <resbits>)*`
evaluates the term at each of the `n` elements; floats travel as IEEE-754 bit patterns (decimal UInt64).
The term itself is selected by the dispatcher (`Main.lean`) from the generated tables.
-/
namespace Hmf.ExprIO
open Hmf.IO

def hexVal (c : Char) : Nat :=
  if c.isDigit then c.toNat - '0'.toNat else if 'a' ≤ c ∧ c ≤ 'f' then c.toNat - 'a'.toNat + 10 else 0

def unhex (s : String) : String := Id.run do
  let cs := s.toList
  let mut out : List Char := []
  let mut i := 0
  let arr := cs.toArray
  let mut bytes : ByteArray := ByteArray.empty
  while i + 1 < arr.size do
    bytes := bytes.push (UInt8.ofNat (hexVal arr[i]! * 16 + hexVal arr[i+1]!))
    i := i + 2
  match String.fromUTF8? bytes with
  | some s => return s
  | none => return String.ofList out

def fbits : P Float := do
  let n ← nat
  pure (Float.ofBits (UInt64.ofNat n))

structure Req where
  n : Nat
  vars : List (String × Bool × Array Float)     -- name, isVector, values
  calls : List (String × Float × Float)

def req : P Req := do
  let n ← nat
  let nv ← nat
  let vars ← rep nv (do
    let nm ← tok
    let kind ← tok
    if kind == "v" then
      let vs ← rep n fbits
      pure (unhex nm, true, vs.toArray)
    else
      let v ← fbits
      pure (unhex nm, false, #[v]))
  let nc ← nat
  let calls ← rep nc (do let f ← tok; let a ← fbits; let r ← fbits; pure (unhex f, a, r))
  pure { n := n, vars := vars, calls := calls }

def nan : Float := 0.0 / 0.0

def mkOpq (calls : List (String × Float × Float)) : String → Float → Float := fun f x =>
  match calls.find? (fun c => c.1 == f && (c.2.1 == x || Float.abs (c.2.1 - x) ≤ 1e-9 * Float.abs x)) with
  | some c => c.2.2
  | none => nan

def mkEnv (vars : List (String × Bool × Array Float)) (i : Nat) : String → Float := fun x =>
  match vars.find? (fun v => v.1 == x) with
  | some v => if v.2.1 then v.2.2.getD i nan else v.2.2.getD 0 nan
  | none => nan

def run (e : E) (r : Req) : String :=
  let opq := mkOpq r.calls
  " ".intercalate ((List.range r.n).map fun i => toString (evalS opq (mkEnv r.vars i) e).toBits.toNat)

def handle (lookup : String → Option E) (line : String) : String :=
  let toks := (line.splitOn " ").filter (· != "")
  match toks with
  | "EVALV" :: name :: rest =>
    match lookup name with
    | none => s!"unknown-term {name}"
    | some e =>
      match req.run rest with
      | .error err => s!"parse-error {err}"
      | .ok (r, _) => run e r
  | _ => "bad-request"

end Hmf.ExprIO
