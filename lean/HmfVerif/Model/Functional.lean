/-!
# `helpers/functional.py`: `itertools.product`, the loop structure of `get_hmf`, `_make_label`,
`get_best_param_order`'s insertion loop.  Core Lean only; executable.
-/
namespace Hmf.Fn

/-- `itertools.product(*ls)`: rightmost list varies fastest -/
def product {α} : List (List α) → List (List α)
  | [] => [[]]
  | l :: ls => l.flatMap (fun x => (product ls).map (x :: ·))

/-- the insertion loop of `get_best_param_order`: keep `(key, num)` sorted ascending by `num`,
    a new item goes *before* the first existing item whose `num` is ≥ its own -/
def insertItem : List (Nat × Nat) → Nat × Nat → List (Nat × Nat)
  | [], kv => [kv]
  | (k, n) :: rest, (k', n') => if n ≥ n' then (k', n') :: (k, n) :: rest else (k, n) :: insertItem rest (k', n')

/-- `get_best_param_order`: fold the insertion over the dict items, then reverse (outermost loop =
    the parameter with most dependants) -/
def bestOrder (items : List (Nat × Nat)) : List Nat := ((items.foldl insertItem []).map (·.1)).reverse

/-- what `get_hmf` does with its keyword arguments: `(key, values)`; lists of length ≥ 2 are looped
    over, length-1 lists are demoted to scalars (and scalars are encoded as length-1 lists) -/
def loopLists (kwargs : List (Nat × List Nat)) : List (Nat × List Nat) := kwargs.filter (fun kv => kv.2.length > 1)

/-- order the loop lists: first those named in `order` (in that order), then the rest -/
def orderLists (order : List Nat) (lists : List (Nat × List Nat)) : List (Nat × List Nat) :=
  (order.filterMap (fun k => lists.find? (·.1 == k))) ++ lists.filter (fun kv => !order.contains kv.1)

/-- the sequence of update() calls `get_hmf` performs = the sequence of combinations it yields:
    each is a list of (key, value) in loop order -/
def combos (order : List Nat) (kwargs : List (Nat × List Nat)) : List (List (Nat × Nat)) :=
  let lists := loopLists kwargs
  match lists with
  | [] => [[]]                                   -- no list-valued argument: exactly one item
  | [(k, vs)] => vs.map (fun v => [(k, v)])      -- one list: no ordering run is made
  | _ =>
    let ol := orderLists order lists
    (product (ol.map (·.2))).map (fun vs => (ol.map (·.1)).zip vs)

/-- `_make_label` on tokens: every (key, value) renders to `key<eq>value`, joined by `delim` -/
def makeLabel (delim : String) (render : Nat → Nat → String) (combo : List (Nat × Nat)) : String :=
  delim.intercalate (combo.map (fun kv => render kv.1 kv.2))

end Hmf.Fn
