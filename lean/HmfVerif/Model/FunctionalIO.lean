import HmfVerif.Model.Functional
import HmfVerif.Model.CacheIO
namespace Hmf.Fn.IO
open Hmf.IO Hmf.Fn

def combosCase : P String := do
  expect "COMBOS"
  let no ← nat
  let order ← rep no nat
  let nk ← nat
  let kw ← rep nk (do let k ← nat; let n ← nat; let vs ← rep n nat; pure (k, vs))
  let cs := combos order kw
  pure (";".intercalate (cs.map fun c => ",".intercalate (c.map fun kv => s!"{kv.1}={kv.2}")))

def orderCase : P String := do
  expect "ORDER"
  let n ← nat
  let items ← rep n (do let k ← nat; let v ← nat; pure (k, v))
  pure (" ".intercalate ((bestOrder items).map toString))

def handle (line : String) : String :=
  let toks := (line.splitOn " ").filter (· != "")
  let p := if line.startsWith "COMBOS" then combosCase else orderCase
  match p.run toks with
  | .error e => s!"parse-error {e}"
  | .ok (s, _) => s
end Hmf.Fn.IO
