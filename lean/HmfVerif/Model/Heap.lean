/-!
# Address-level aliasing model of dict-valued parameters (`Heap`)

Cells are Python dicts; an instance holds one *address* per dict-valued parameter slot; the caller
owns the dicts it passes in; component classes own their `_defaults`.  `copyOnStore = true` is the
parameter setter after the "store a copy" repair (`Cfg.current`); `false` is the legacy behaviour
kept for the counterexample.  Core Lean only; executable.
-/
namespace Hmf.Heap


abbrev Cell := List (Nat × Nat)

inductive Owner where
  | inst (i : Nat)
  | caller
  | cls           -- class-level `_defaults` / constructor default arguments
  deriving DecidableEq, Repr

structure H where
  cells : Nat → Option Cell
  owner : Nat → Owner
  next  : Nat                         -- allocation pointer: every address ≥ next is free
  slot  : Nat → Nat → Option Nat      -- instance → dict-parameter → address held

def dInsert : Cell → Nat × Nat → Cell
  | [], kv => [kv]
  | (k, w) :: rest, (k', w') =>
      if k' < k then (k', w') :: (k, w) :: rest
      else if k' = k then (k, w') :: rest
      else (k, w) :: dInsert rest (k', w')
def dMerge (old new : Cell) : Cell := new.foldl dInsert old

def H.empty : H := { cells := fun _ => none, owner := fun _ => .cls, next := 0, slot := fun _ _ => none }

def alloc (h : H) (o : Owner) (c : Cell) : H × Nat :=
  ({ h with cells := fun a => if a = h.next then some c else h.cells a
            owner := fun a => if a = h.next then o else h.owner a
            next := h.next + 1 }, h.next)

def content (h : H) (a : Nat) : Cell := (h.cells a).getD []

inductive Op where
  | callerNew (c : Cell)                          -- the caller builds a dict (gets address `next`)
  | callerWrite (a : Nat) (k v : Nat)            -- the caller mutates a dict it owns
  | clsNew (c : Cell)                             -- a class-level default dict
  | construct (i p : Nat) (arg : Option Nat)     -- constructor stores parameter p (None ⇒ `or {}`)
  | update (i p : Nat) (arg : Nat)               -- `update(p = <dict at arg>)` / direct assignment
  | copy (i j : Nat) (ps : List Nat)              -- j := deepcopy / clone / pickle round trip of i
  | instantiate (i p : Nat) (defaults : Nat)     -- Component(**self.<p>): copy(_defaults) + update
  deriving Repr

/-- store a (validated) dict value into a slot of instance `i` for the first time or as a replacement -/
def store (copyOnStore : Bool) (h : H) (i p : Nat) (a : Nat) : H :=
  if copyOnStore then
    let (h1, b) := alloc h (.inst i) (content h a)
    { h1 with slot := fun i' p' => if i' = i ∧ p' = p then some b else h1.slot i' p' }
  else
    { h with slot := fun i' p' => if i' = i ∧ p' = p then some a else h.slot i' p' }

/-- deep-copy one slot of instance `i` (as it is in `h0`) into instance `j` -/
def copyStep (h0 : H) (i j : Nat) (hh : H) (p : Nat) : H :=
  match h0.slot i p with
  | none => hh
  | some a =>
    let r := alloc hh (.inst j) (content h0 a)
    { r.1 with slot := fun i' p' => if i' = j ∧ p' = p then some r.2 else r.1.slot i' p' }

def step (copyOnStore : Bool) (h : H) : Op → H
  | .callerNew c => (alloc h .caller c).1
  | .clsNew c => (alloc h .cls c).1
  | .callerWrite a k v =>
      if h.owner a = .caller ∧ a < h.next then
        { h with cells := fun a' => if a' = a then some (dInsert (content h a) (k, v)) else h.cells a' }
      else h
  | .construct i p arg =>
      match arg with
      | none =>        -- `x or {}` : a brand-new empty dict, then the setter stores (a copy of) it
          let (h1, a) := alloc h (.inst i) []
          store copyOnStore h1 i p a
      | some a =>
          if content h a = [] then
            let (h1, a') := alloc h (.inst i) []
            store copyOnStore h1 i p a'
          else store copyOnStore h i p a
  | .update i p arg =>
      match h.slot i p with
      | none => store copyOnStore h i p arg
      | some cur =>
          if content h arg = content h cur then h            -- obj_eq: equal ⇒ nothing happens
          else if content h arg = [] then store copyOnStore h i p arg      -- empty dict replaces
          else                                               -- non-empty dict merges **in place**
            { h with cells := fun a' => if a' = cur then some (dMerge (content h cur) (content h arg)) else h.cells a' }
  | .copy i j ps => ps.foldl (copyStep h i j) h
  | .instantiate i p defaults =>
      match h.slot i p with
      | none => h
      | some a => (alloc h (.inst i) (dMerge (content h defaults) (content h a))).1

def run (copyOnStore : Bool) (h : H) (ops : List Op) : H := ops.foldl (step copyOnStore) h

/-- which instance an operation acts on (`none`: a caller / class-level action) -/
def Op.actor : Op → Option Nat
  | .construct i _ _ => some i
  | .update i _ _ => some i
  | .copy _ j _ => some j
  | .instantiate i _ _ => some i
  | _ => none

end Hmf.Heap
