import HmfVerif.Model.Heap
import HmfVerif.Model.CacheIO
/-! line protocol for the heap model (driver side) -/
namespace Hmf.Heap.IO
open Hmf.IO Hmf.Heap

def cell : P Cell := do
  let k ← nat
  let kvs ← rep k (do let a ← nat; let b ← nat; pure (a, b))
  pure (dMerge [] kvs)

/-- ops refer to caller / class dicts by *creation index* (`c3` = 4th caller dict); the reader keeps the
    address table (an address is the allocation counter at creation time) -/
structure RS where
  h : H
  callers : List Nat
  clss : List Nat

def ref (rs : RS) : P Nat := do
  let t ← tok
  let n := (t.drop 1).toString.toNat?.getD 0
  if t.startsWith "c" then pure (rs.callers.getD n 0)
  else if t.startsWith "l" then pure (rs.clss.getD n 0)
  else throw s!"bad ref {t}"

def opStep (cos : Bool) (rs : RS) : P RS := do
  match (← tok) with
  | "CN" => do
      let c ← cell
      pure { rs with h := step cos rs.h (.callerNew c), callers := rs.callers ++ [rs.h.next] }
  | "LN" => do
      let c ← cell
      pure { rs with h := step cos rs.h (.clsNew c), clss := rs.clss ++ [rs.h.next] }
  | "CW" => do let a ← ref rs; let k ← nat; let v ← nat; pure { rs with h := step cos rs.h (.callerWrite a k v) }
  | "CO" => do
      let i ← nat; let p ← nat
      let t ← tok
      if t == "-" then pure { rs with h := step cos rs.h (.construct i p none) }
      else
        let n := (t.drop 1).toString.toNat?.getD 0
        pure { rs with h := step cos rs.h (.construct i p (some (rs.callers.getD n 0))) }
  | "UP" => do let i ← nat; let p ← nat; let a ← ref rs; pure { rs with h := step cos rs.h (.update i p a) }
  | "CP" => do let i ← nat; let j ← nat; let n ← nat; let ps ← rep n nat; pure { rs with h := step cos rs.h (.copy i j ps) }
  | "IN" => do let i ← nat; let p ← nat; let d ← ref rs; pure { rs with h := step cos rs.h (.instantiate i p d) }
  | t => throw s!"bad heap op {t}"

def showCell (c : Cell) : String := "{" ++ ",".intercalate (c.map fun kv => s!"{kv.1}:{kv.2}") ++ "}"

/-- dump the roots: caller cells and class cells in allocation order, then slots (i, p) for
    i < ni, p < np; each as `<alias-class>:<content>` with alias classes numbered by first occurrence -/
def dump (h : H) (ni np : Nat) : String := Id.run do
  let mut roots : List (String × Nat) := []
  for a in [0:h.next] do
    match h.owner a with
    | .caller => roots := roots ++ [(s!"caller{a}", a)]
    | .cls => roots := roots ++ [(s!"cls{a}", a)]
    | _ => pure ()
  -- names of caller/cls roots are positional (k-th caller dict), not raw addresses
  let mut out : List String := []
  let mut seen : List Nat := []
  let label (seen : List Nat) (a : Nat) : Nat × List Nat :=
    match seen.idxOf? a with
    | some k => (k, seen)
    | none => (seen.length, seen ++ [a])
  let mut kc := 0
  let mut kl := 0
  for (nm, a) in roots do
    let (l, s') := label seen a
    seen := s'
    if nm.startsWith "caller" then
      out := out ++ [s!"c{kc}={l}:{showCell (content h a)}"]; kc := kc + 1
    else
      out := out ++ [s!"l{kl}={l}:{showCell (content h a)}"]; kl := kl + 1
  for i in [0:ni] do
    for p in [0:np] do
      match h.slot i p with
      | none => pure ()
      | some a =>
        let (l, s') := label seen a
        seen := s'
        out := out ++ [s!"s{i}.{p}={l}:{showCell (content h a)}"]
  return " ".intercalate out

def case : P String := do
  expect "HEAP"
  let cos ← nat
  let ni ← nat
  let np ← nat
  let n ← nat
  let mut rs : RS := { h := H.empty, callers := [], clss := [] }
  for _ in [0:n] do
    rs ← opStep (cos == 1) rs
  pure (dump rs.h ni np)

def handle (line : String) : String :=
  let toks := (line.splitOn " ").filter (· != "")
  match case.run toks with
  | .error e => s!"parse-error {e}"
  | .ok (s, _) => s

end Hmf.Heap.IO
