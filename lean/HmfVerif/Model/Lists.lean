import HmfVerif.Model.Quad
/-!
# `hmf_integral_gtm` (integrate_hmf.py) as a list program, generic over the carrier.
Inputs are the NaN-free table (`m`, `dndm` ascending in `m`, log-uniform) and the number `nUpper` of points
`np.arange(ln m_last, ln 1e18, dlnm)` produces.
-/
namespace Hmf.Lists
open Hmf.Quad
variable {α : Type} [Sci α]

def lastD (l : List α) : α := l.getLastD zero
def last2D (l : List α) : α := (l.dropLast).getLastD zero

/-- k=1 spline through (x, y) evaluated at x₀ ≥ the last node: linear extrapolation of the last segment -/
def linExtrap (xs ys : List α) (x : α) : α :=
  let x1 := lastD xs; let x0 := last2D xs; let y1 := lastD ys; let y0 := last2D ys
  Sci.add y1 (Sci.mul (Sci.sub x x1) (Sci.div (Sci.sub y1 y0) (Sci.sub x1 x0)))

/-- the extrapolated upper tail integral `int_upper` -/
def intUpper (massDensity : Bool) (m dndm : List α) (nUpper : Nat) : α :=
  let lnm := m.map Sci.log
  let lny := (m.zip dndm).map (fun p => Sci.log (Sci.mul p.1 p.2))
  let dlnm := Sci.sub (lnm.getD 1 zero) (lnm.getD 0 zero)
  let start := lastD lnm
  let mUpper := (List.range nUpper).map (fun (i : Nat) => Sci.add start (Sci.mul (Sci.ofInt (Int.ofNat i)) dlnm))
  let mf := mUpper.map (linExtrap lnm lny)
  let integrand := if massDensity then (mUpper.zip mf).map (fun p => Sci.exp (Sci.add p.1 p.2)) else mf.map Sci.exp
  let dx := Sci.sub (mUpper.getD 2 zero) (mUpper.getD 1 zero)
  simps .first dx integrand

/-- `hmf_integral_gtm(M, dndm, mass_density)` given whether the upper-tail branch is taken -/
def hmfIntegralGtm (massDensity : Bool) (extend : Bool) (m dndm : List α) (nUpper : Nat) : List α :=
  let dndlnm := (m.zip dndm).map (fun p => Sci.mul p.1 p.2)
  let integrand := if massDensity then (m.zip dndlnm).map (fun p => Sci.mul p.1 p.2) else dndlnm
  let dlnm := Sci.sub (Sci.log (m.getD 1 zero)) (Sci.log (m.getD 0 zero))
  let up := if extend then intUpper massDensity m dndm nUpper else zero
  (cumtrapzRev dlnm integrand).map (fun x => Sci.add x up)

/-- `M[~isnan(dndm)]`, `dndm[~isnan(dndm)]`: rows whose dn/dm is not equal to itself (NaN) are dropped -/
def dropBy (keep : α → Bool) (m dndm : List α) : List α × List α :=
  let rows := (m.zip dndm).filter (fun p => keep p.2)
  (rows.map (·.1), rows.map (·.2))

def dropNaN (m dndm : List α) : List α × List α := dropBy (fun x => Sci.beq x x) m dndm

/-- `hmf_integral_gtm` on the raw table (NaN rows still in) -/
def hmfIntegralGtmRaw (massDensity : Bool) (extend : Bool) (M dndm : List α) (nUpper : Nat) : List α :=
  hmfIntegralGtm massDensity extend (dropNaN M dndm).1 (dropNaN M dndm).2 nUpper

end Hmf.Lists
