import HmfVerif.Model.Expr
/-!
# Quadrature kernels as the code uses them (generic over `Sci`; executable at `Float`).
`simps` is scipy ≤ 1.10's `integrate.simps(y, dx=dx, even=…)` on equally spaced samples (the compat shim
re-implements exactly this); `trapz`; reverse cumulative trapezoid; the discretised σ(R).
-/
namespace Hmf.Quad
variable {α : Type} [Sci α]

def two : α := Sci.ofInt 2
def three : α := Sci.ofInt 3
def four : α := Sci.ofInt 4
def zero : α := Sci.ofInt 0

/-- scipy `_basic_simps` with `x=None`: Σ dx/3 (y₂ⱼ + 4 y₂ⱼ₊₁ + y₂ⱼ₊₂); a trailing leftover sample is ignored -/
def basicSimps (dx : α) : List α → α
  | y0 :: y1 :: y2 :: rest =>
      Sci.add (Sci.mul (Sci.div dx three) (Sci.add (Sci.add y0 (Sci.mul four y1)) y2)) (basicSimps dx (y2 :: rest))
  | _ => zero

inductive Even | avg | first | last
  deriving DecidableEq, Repr

/-- trapezoid on one interval -/
def trap1 (dx a b : α) : α := Sci.mul (Sci.mul (Sci.div (Sci.ofInt 1) two) dx) (Sci.add a b)

/-- `simps(y, dx=dx, even=mode)` -/
def simps (mode : Even) (dx : α) (y : List α) : α :=
  if y.length % 2 = 1 then basicSimps dx y
  else
    let n := y.length
    let firstPart := Sci.add (basicSimps dx (y.take (n - 1))) (trap1 dx (y.getD (n - 2) zero) (y.getD (n - 1) zero))
    let lastPart := Sci.add (basicSimps dx (y.drop 1)) (trap1 dx (y.getD 0 zero) (y.getD 1 zero))
    match mode with
    | .first => firstPart
    | .last => lastPart
    | .avg => Sci.div (Sci.add firstPart lastPart) two

/-- `np.trapz(y, dx=dx)` -/
def trapz (dx : α) : List α → α
  | a :: b :: rest => Sci.add (trap1 dx a b) (trapz dx (b :: rest))
  | _ => zero

/-- reverse cumulative trapezoid: out[i] = ∫ from sample i to the last sample (`cumtrapz(y[::-1])[::-1]`), out[last] = 0 -/
def cumtrapzRev (dx : α) : List α → List α
  | [] => []
  | [_] => [zero]
  | a :: b :: rest =>
      let tail := cumtrapzRev dx (b :: rest)
      Sci.add (trap1 dx a b) (tail.headD zero) :: tail

/-- the discretised variance integral of `Filter.sigma`: σ(R) = √( (1/2π²) · simps_avg( Pⱼ kⱼ^(3+2n) W(R kⱼ)², dlnk ) ) -/
def sigmaDisc (W : α → α) (ks Ps : List α) (order : Nat) (dlnk r : α) : α :=
  let integ := (ks.zip Ps).map (fun kp => Sci.mul (Sci.mul kp.2 (Sci.npow kp.1 (3 + 2 * order))) (Sci.npow (W (Sci.mul r kp.1)) 2))
  Sci.sqrt (Sci.mul (Sci.div (Sci.div (Sci.ofInt 1) two) (Sci.npow Sci.pi 2)) (simps .avg dlnk integ))

end Hmf.Quad
