import HmfVerif.Model.Quad
import HmfVerif.Model.Lists
import HmfVerif.Model.ExprIO
/-!
`QUAD sigma <n> <order> <dlnk> <nr> <k…> <P…> <r…>` with the window term chosen by the dispatcher;
`QUAD simps <mode 0|1|2> <n> <dx> <y…>`; `QUAD cumtrapz <n> <dx> <y…>`; `QUAD trapz <n> <dx> <y…>` (floats as bit patterns)
-/
namespace Hmf.Quad.IO
open Hmf.IO Hmf.ExprIO Hmf.Quad

def showF (x : Float) : String := toString x.toBits.toNat

def sigmaCase (window : E) : P String := do
  let n ← nat
  let order ← nat
  let dlnk ← fbits
  let nr ← nat
  let ks ← rep n fbits
  let ps ← rep n fbits
  let rs ← rep nr fbits
  let W : Float → Float := fun x => evalS (fun _ _ => nan) (fun _ => x) window
  pure (" ".intercalate (rs.map fun r => showF (sigmaDisc W ks ps order dlnk r)))

def listCase (kind : String) : P String := do
  match kind with
  | "simps" => do
      let m ← nat
      let n ← nat
      let dx ← fbits
      let ys ← rep n fbits
      let mode := if m == 0 then Even.avg else if m == 1 then Even.first else Even.last
      pure (showF (simps mode dx ys))
  | "trapz" => do
      let n ← nat; let dx ← fbits; let ys ← rep n fbits
      pure (showF (trapz dx ys))
  | "cumtrapz" => do
      let n ← nat; let dx ← fbits; let ys ← rep n fbits
      pure (" ".intercalate ((cumtrapzRev dx ys).map showF))
  | "gtm" => do
      -- QUAD gtm <massDensity 0|1> <extend 0|1> <nUpper> <n> <m…> <dndm…>
      let md ← nat; let ext ← nat; let nu ← nat; let n ← nat
      let ms ← rep n fbits; let ds ← rep n fbits
      pure (" ".intercalate ((Hmf.Lists.hmfIntegralGtm (md == 1) (ext == 1) ms ds nu).map showF))
  | "gtmraw" => do
      -- QUAD gtmraw <massDensity 0|1> <extend 0|1> <nUpper> <n> <M…> <dndm…>   (NaN rows still in the table)
      let md ← nat; let ext ← nat; let nu ← nat; let n ← nat
      let ms ← rep n fbits; let ds ← rep n fbits
      pure (" ".intercalate ((Hmf.Lists.hmfIntegralGtmRaw (md == 1) (ext == 1) ms ds nu).map showF))
  | k => throw s!"bad quad kind {k}"

def handle (lookup : String → Option E) (line : String) : String :=
  let toks := (line.splitOn " ").filter (· != "")
  match toks with
  | "QUAD" :: "sigma" :: wname :: rest =>
    match lookup wname with
    | none => s!"unknown-window {wname}"
    | some w => match (sigmaCase w).run rest with
      | .error e => s!"parse-error {e}"
      | .ok (s, _) => s
  | "QUAD" :: kind :: rest =>
    match (listCase kind).run rest with
    | .error e => s!"parse-error {e}"
    | .ok (s, _) => s
  | _ => "bad-request"
end Hmf.Quad.IO
