/-!
# Plugin registry (`pluggable`, `__init_subclass__`, `get_mdl`) and `Component.__init__` parameter merge.
Core Lean only; executable (driven by `Main.lean` against the real `_framework.py`).
-/
namespace Hmf.Reg

/-- registry state: (component kind, model name) ↦ class id — `kind._plugins[name]` -/
abbrev Registry := Nat → Nat → Option Nat

def Registry.empty : Registry := fun _ _ => none

/-- a class statement `class <name>(<a subclass of kind>, abstract=<abstract>)`:
    `__init_subclass__` stores `kls._plugins[kls.__name__] = kls` unless abstract -/
structure Def where
  kind : Nat
  name : Nat
  cls : Nat
  abstract : Bool
  deriving Repr, DecidableEq

def define (r : Registry) (d : Def) : Registry :=
  if d.abstract then r else fun k n => if k = d.kind ∧ n = d.name then some d.cls else r k n

def defineAll (r : Registry) (ds : List Def) : Registry := ds.foldl define r

/-- `get_mdl(name: str, kind)` : the registered class or a `ValueError` (`none`) -/
def getMdl (r : Registry) (kind name : Nat) : Option Nat := r kind name

/-! ## `Component.__init__(**model_params)` -/

abbrev Params := List (Nat × Nat)      -- key ↦ value, in `_defaults` order

def hasKey (d : Params) (k : Nat) : Bool := d.any (·.1 == k)

def setKey : Params → Nat → Nat → Params
  | [], _, _ => []
  | (k0, v0) :: rest, k, v => if k0 = k then (k0, v) :: rest else (k0, v0) :: setKey rest k v

/-- `self.params = copy(_defaults); self.params.update(model_params)` after the unknown-key check;
    `none` = `ValueError("… is not a valid argument …")` -/
def mkParams (defaults : Params) (user : Params) : Option Params :=
  if user.all (fun kv => hasKey defaults kv.1) then
    some (user.foldl (fun acc kv => setKey acc kv.1 kv.2) defaults)
  else none

end Hmf.Reg
