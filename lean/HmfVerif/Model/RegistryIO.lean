import HmfVerif.Model.Registry
import HmfVerif.Model.CacheIO
/-! line protocol for the registry model (driver side) -/
namespace Hmf.Reg.IO
open Hmf.IO Hmf.Reg

def regCase : P String := do
  expect "REG"
  let nd ← nat
  let ds ← rep nd (do let k ← nat; let n ← nat; let c ← nat; let a ← nat; pure (⟨k, n, c, a == 1⟩ : Def))
  let nq ← nat
  let qs ← rep nq (do let k ← nat; let n ← nat; pure (k, n))
  let r := defineAll Registry.empty ds
  pure (" ".intercalate (qs.map fun q => match getMdl r q.1 q.2 with | some c => toString c | none => "none"))

def paramsCase : P String := do
  expect "PARAMS"
  let nd ← nat
  let d ← rep nd (do let k ← nat; let v ← nat; pure (k, v))
  let nu ← nat
  let u ← rep nu (do let k ← nat; let v ← nat; pure (k, v))
  pure (match mkParams d u with
    | none => "none"
    | some p => " ".intercalate (p.map fun kv => s!"{kv.1}:{kv.2}"))

def handle (line : String) : String :=
  let toks := (line.splitOn " ").filter (· != "")
  let p := if line.startsWith "REG" then regCase else paramsCase
  match p.run toks with
  | .error e => s!"parse-error {e}"
  | .ok (s, _) => s

end Hmf.Reg.IO
