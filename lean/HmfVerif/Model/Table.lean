import HmfVerif.Model.Expr
/-!
# Table-driven transfer models (`FromFile.lnt`, `FromArray.lnt` of `transfer_models.py`), generic over `Sci`

A table is a list of knots `(ln k, ln T)`.  `FromFile.lnt(lnk)` / `FromArray.lnt(lnk)`:

```
if lnk[0] < table_lnk[0]:  lnkout, lnT = _check_low_k(table_lnk, table_lnT, lnk[0])
else:                       lnkout, lnT = table_lnk, table_lnT
return InterpolatedUnivariateSpline(lnkout, lnT, k=1)(lnk)
```

`_check_low_k` looks for the first interval whose slope is flatter than 1e-4 (index `start`, 0 when there is none), drops the rows before
it (a low-k "turn-up" of some Boltzmann outputs) and moves the first remaining wavenumber down to the requested minimum.  A degree-1
interpolating spline is piecewise linear through all knots and (scipy `ext=0`) continues its end pieces linearly outside.
-/
namespace Hmf.Table
variable {α : Type} [Sci α]

abbrev Knot (α : Type) := α × α

/-- the flatness test of `_check_low_k`: `abs((lnT[i+1]-lnT[i])/(lnk[i+1]-lnk[i])) < 0.0001` -/
def flat (a b : Knot α) : Bool :=
  Sci.lt (Sci.abs (Sci.div (Sci.sub b.2 a.2) (Sci.sub b.1 a.1))) (Sci.dec 1 (-4))

/-- index of the first flat interval (the `for … break` loop), `none` when no interval is flat -/
def firstFlat : List (Knot α) → Option Nat
  | a :: b :: rest => if flat a b then some 0 else (firstFlat (b :: rest)).map (· + 1)
  | _ => none

/-- `start` of `_check_low_k` -/
def start (tab : List (Knot α)) : Nat := (firstFlat tab).getD 0

/-- `_check_low_k(lnk, lnT, lnkmin)` -/
def checkLowK (tab : List (Knot α)) (lnkmin : α) : List (Knot α) :=
  match tab.drop (start tab) with
  | [] => []
  | a :: rest => (lnkmin, a.2) :: rest

/-- the knots the spline is built on, for a request whose first wavenumber is `x0` -/
def knots (tab : List (Knot α)) (x0 : α) : List (Knot α) :=
  match tab with
  | [] => []
  | a :: _ => if Sci.lt x0 a.1 then checkLowK tab x0 else tab

/-- the straight line through two knots -/
def seg (a b : Knot α) (x : α) : α :=
  Sci.add a.2 (Sci.mul (Sci.div (Sci.sub b.2 a.2) (Sci.sub b.1 a.1)) (Sci.sub x a.1))

/-- degree-1 interpolating spline with linear continuation of the end pieces -/
def interp : List (Knot α) → α → α
  | [], _ => Sci.ofInt 0
  | [a], _ => a.2
  | a :: b :: rest, x =>
      if rest.isEmpty || Sci.lt x b.1 then seg a b x else interp (b :: rest) x

/-- `FromFile.lnt` / `FromArray.lnt` on a request (its first element decides the branch) -/
def lnt (tab : List (Knot α)) (req : List α) : List α :=
  match req with
  | [] => []
  | x0 :: _ => req.map (interp (knots tab x0))

end Hmf.Table
