import HmfVerif.Model.Table
import HmfVerif.Model.ExprIO
/-!
`TABLE lnt <n> <m> <lnk…(n)> <lnT…(n)> <req…(m)>` → the m values of `Hmf.Table.lnt` at `Float` (floats as bit patterns);
`TABLE start <n> <lnk…> <lnT…>` → the `start` index of `_check_low_k`
-/
namespace Hmf.Table.IO
open Hmf.IO Hmf.ExprIO Hmf.Table

def showF (x : Float) : String := toString x.toBits.toNat

def case (kind : String) : P String := do
  match kind with
  | "lnt" => do
      let n ← nat; let m ← nat
      let ks ← rep n fbits; let ts ← rep n fbits; let req ← rep m fbits
      pure (" ".intercalate ((lnt (ks.zip ts) req).map showF))
  | "start" => do
      let n ← nat
      let ks ← rep n fbits; let ts ← rep n fbits
      pure (toString (start (ks.zip ts)))
  | k => throw s!"bad table kind {k}"

def handle (line : String) : String :=
  let toks := (line.splitOn " ").filter (· != "")
  match toks with
  | "TABLE" :: kind :: rest =>
    match (case kind).run rest with
    | .error e => s!"parse-error {e}"
    | .ok (s, _) => s
  | _ => "bad-request"
end Hmf.Table.IO
