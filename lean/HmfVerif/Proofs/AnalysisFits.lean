import Mathlib.Analysis.SpecialFunctions.Exp
import Mathlib.Analysis.SpecialFunctions.Sqrt
import Mathlib.Analysis.Calculus.Deriv.MeanValue
import Mathlib.Analysis.SpecialFunctions.ExpDeriv
/-!
# Analysis lemmas for the fitting-function shapes (helper lemmas for Props/C07)

`g(x) = √x · e^{−x/2}` is the Press–Schechter shape in the variable x = ν²: it rises on [0,1], falls on [1,∞), and
tends to 0 at both ends.
-/
namespace Hmf.AnalysisFits
open Real Set Filter Topology


theorem xexp_deriv (x : ℝ) : HasDerivAt (fun x : ℝ => x * exp (-x)) ((1 - x) * exp (-x)) x := by
  have h1 : HasDerivAt (fun x : ℝ => exp (-x)) (exp (-x) * (-1)) x := (hasDerivAt_neg x).exp
  exact ((hasDerivAt_id' x).mul h1).congr_deriv (by ring)

theorem xexp_mono : MonotoneOn (fun x : ℝ => x * exp (-x)) (Icc 0 1) := by
  apply monotoneOn_of_deriv_nonneg (convex_Icc 0 1)
  · exact (Continuous.continuousOn (by continuity))
  · intro x _; exact (xexp_deriv x).differentiableAt.differentiableWithinAt
  · intro x hx
    rw [interior_Icc] at hx
    rw [(xexp_deriv x).deriv]
    exact mul_nonneg (by linarith [hx.2]) (exp_pos _).le

theorem xexp_anti : AntitoneOn (fun x : ℝ => x * exp (-x)) (Ici 1) := by
  apply antitoneOn_of_deriv_nonpos (convex_Ici 1)
  · exact (Continuous.continuousOn (by continuity))
  · intro x _; exact (xexp_deriv x).differentiableAt.differentiableWithinAt
  · intro x hx
    rw [interior_Ici] at hx
    rw [(xexp_deriv x).deriv]
    exact mul_nonpos_of_nonpos_of_nonneg (by linarith [show (1:ℝ) < x from hx]) (exp_pos _).le

theorem psShape_eq (x : ℝ) (hx : 0 ≤ x) : sqrt x * exp (-x / 2) = sqrt (x * exp (-x)) := by
  rw [Real.sqrt_mul hx]
  congr 1
  have : exp (-x) = exp (-x / 2) * exp (-x / 2) := by rw [← exp_add]; congr 1; ring
  rw [this, Real.sqrt_mul_self (exp_pos _).le]

theorem psShape_mono : MonotoneOn (fun x : ℝ => sqrt x * exp (-x / 2)) (Icc 0 1) := by
  intro a ha b hb hab
  simp only
  rw [psShape_eq a ha.1, psShape_eq b hb.1]
  exact Real.sqrt_le_sqrt (xexp_mono ha hb hab)

theorem psShape_anti : AntitoneOn (fun x : ℝ => sqrt x * exp (-x / 2)) (Ici 1) := by
  intro a ha b hb hab
  have ha' : (1:ℝ) ≤ a := ha
  have hb' : (1:ℝ) ≤ b := hb
  simp only
  rw [psShape_eq a (by linarith), psShape_eq b (by linarith)]
  exact Real.sqrt_le_sqrt (xexp_anti ha hb hab)

theorem sqrt_mul_exp_tendsto : Tendsto (fun x : ℝ => sqrt x * exp (-x / 2)) atTop (𝓝 0) := by
  have h1 : Tendsto (fun x : ℝ => exp (-(x / 2))) atTop (𝓝 0) :=
    tendsto_exp_neg_atTop_nhds_zero.comp (tendsto_id.atTop_div_const (by norm_num : (0:ℝ) < 2))
  have h2 : Tendsto (fun x : ℝ => (x / 2) ^ 1 * exp (-(x / 2))) atTop (𝓝 0) :=
    (Real.tendsto_pow_mul_exp_neg_atTop_nhds_zero 1).comp (tendsto_id.atTop_div_const (by norm_num : (0:ℝ) < 2))
  have h3 : Tendsto (fun x : ℝ => exp (-(x / 2)) + 2 * ((x / 2) ^ 1 * exp (-(x / 2)))) atTop (𝓝 0) := by
    simpa using h1.add (h2.const_mul 2)
  refine squeeze_zero' ?_ ?_ h3
  · filter_upwards with x using mul_nonneg (sqrt_nonneg _) (exp_pos _).le
  · filter_upwards [eventually_ge_atTop (0:ℝ)] with x hx
    have hs : sqrt x ≤ 1 + x := by
      have := Real.sqrt_le_sqrt (show x ≤ (1 + x) ^ 2 by nlinarith)
      rwa [Real.sqrt_sq (by linarith)] at this
    have he : exp (-x / 2) = exp (-(x / 2)) := by ring_nf
    rw [he]
    have hp := (exp_pos (-(x / 2))).le
    calc sqrt x * exp (-(x / 2)) ≤ (1 + x) * exp (-(x / 2)) := mul_le_mul_of_nonneg_right hs hp
      _ = exp (-(x / 2)) + 2 * ((x / 2) ^ 1 * exp (-(x / 2))) := by ring


end Hmf.AnalysisFits
