import Mathlib.Analysis.SpecialFunctions.Pow.Real
import Mathlib.Analysis.SpecialFunctions.Log.Basic
import Mathlib.Analysis.Real.Pi.Bounds
import Mathlib.Tactic
/-! real-analysis facts about the Viel05 suppression, the half-mode factor and the recalibration factors -/
namespace Hmf.Analysis
open Real

/-- Viel05 suppression  S(k) = (1 + (λ k)^(2μ))^(-5/μ) -/
noncomputable def S (lam mu k : ℝ) : ℝ := (1 + (lam * k) ^ (2 * mu)) ^ (-5 / mu)

theorem S_pos (lam mu k : ℝ) (hl : 0 ≤ lam) (hk : 0 ≤ k) : 0 < S lam mu k := by
  unfold S
  have : 0 < 1 + (lam * k) ^ (2 * mu) := by
    have := rpow_nonneg (mul_nonneg hl hk) (2 * mu); linarith
  exact rpow_pos_of_pos this _

theorem S_le_one (lam mu k : ℝ) (hl : 0 ≤ lam) (hk : 0 ≤ k) (hmu : 0 < mu) : S lam mu k ≤ 1 := by
  unfold S
  have h1 : 1 ≤ 1 + (lam * k) ^ (2 * mu) := by
    have := rpow_nonneg (mul_nonneg hl hk) (2 * mu); linarith
  have hneg : -5 / mu ≤ 0 := by
    apply div_nonpos_of_nonpos_of_nonneg <;> linarith
  exact rpow_le_one_of_one_le_of_nonpos h1 hneg

theorem S_zero (lam mu : ℝ) (hmu : 0 < mu) : S lam mu 0 = 1 := by
  unfold S
  have : (2 * mu) ≠ 0 := by positivity
  simp [zero_rpow this]

theorem S_antitone (lam mu : ℝ) (hl : 0 ≤ lam) (hmu : 0 < mu) :
    AntitoneOn (S lam mu) (Set.Ici 0) := by
  intro k1 hk1 k2 hk2 h12
  simp only [Set.mem_Ici] at hk1 hk2
  unfold S
  have hb1 : 0 < 1 + (lam * k1) ^ (2 * mu) := by
    have := rpow_nonneg (mul_nonneg hl hk1) (2 * mu); linarith
  have hle : 1 + (lam * k1) ^ (2 * mu) ≤ 1 + (lam * k2) ^ (2 * mu) := by
    have : (lam * k1) ^ (2 * mu) ≤ (lam * k2) ^ (2 * mu) :=
      rpow_le_rpow (mul_nonneg hl hk1) (mul_le_mul_of_nonneg_left h12 hl) (by positivity)
    linarith
  have hneg : -5 / mu ≤ 0 := by
    apply div_nonpos_of_nonpos_of_nonneg <;> linarith
  exact rpow_le_rpow_of_nonpos hb1 hle hneg

/-- a smaller free-streaming scale (heavier particle) suppresses less -/
theorem S_antitone_lam (mu k : ℝ) (hk : 0 ≤ k) (hmu : 0 < mu) (l1 l2 : ℝ) (h1 : 0 ≤ l1) (h12 : l1 ≤ l2) :
    S l2 mu k ≤ S l1 mu k := by
  have := S_antitone k mu hk hmu (Set.mem_Ici.mpr h1) (Set.mem_Ici.mpr (le_trans h1 h12)) h12
  simpa [S, mul_comm] using this

theorem hm_factor_gt_one (mu : ℝ) (hmu : 0 < mu) :
    1 < 2 * π * ((2:ℝ) ^ (mu / 5) - 1) ^ (-(1/2) / mu) := by
  have h2 : (1:ℝ) < 2 ^ (mu / 5) := one_lt_rpow (by norm_num) (by positivity)
  have hbase : 0 < (2:ℝ) ^ (mu / 5) - 1 := by linarith
  have hlt : (2:ℝ) ^ (mu / 5) - 1 < 2 ^ (mu / 5) := by linarith
  have hneg : -(1/2) / mu < 0 := by
    apply div_neg_of_neg_of_pos <;> linarith
  have h3 : ((2:ℝ) ^ (mu / 5)) ^ (-(1/2) / mu) ≤ ((2:ℝ) ^ (mu / 5) - 1) ^ (-(1/2) / mu) :=
    rpow_le_rpow_of_nonpos hbase hlt.le hneg.le
  have h4 : ((2:ℝ) ^ (mu / 5)) ^ (-(1/2) / mu) = 2 ^ (-(1/10 : ℝ)) := by
    rw [← rpow_mul (by norm_num : (0:ℝ) ≤ 2)]
    congr 1
    field_simp
    ring
  have h5 : (1/2 : ℝ) ≤ 2 ^ (-(1/10 : ℝ)) := by
    have : (2:ℝ) ^ (-(1:ℝ)) ≤ 2 ^ (-(1/10 : ℝ)) :=
      rpow_le_rpow_of_exponent_le (by norm_num) (by norm_num)
    simpa [rpow_neg_one] using this
  have hpi : 3 < π := pi_gt_three
  have : (1/2 : ℝ) ≤ ((2:ℝ) ^ (mu / 5) - 1) ^ (-(1/2) / mu) := by
    calc (1/2:ℝ) ≤ 2 ^ (-(1/10 : ℝ)) := h5
      _ = ((2:ℝ) ^ (mu / 5)) ^ (-(1/2) / mu) := h4.symm
      _ ≤ _ := h3
  nlinarith [this, hpi]

/-- recalibration factor (1 + g·M/m)^(−β) ∈ (0, 1] for M, m > 0, g ≥ 0, β ≥ 0 -/
theorem recal_range (g M m β : ℝ) (hg : 0 ≤ g) (hM : 0 ≤ M) (hm : 0 < m) (hβ : 0 ≤ β) :
    0 < (1 + g * M / m) ^ (-β) ∧ (1 + g * M / m) ^ (-β) ≤ 1 := by
  have h1 : 1 ≤ 1 + g * M / m := by
    have : 0 ≤ g * M / m := div_nonneg (mul_nonneg hg hM) hm.le
    linarith
  exact ⟨rpow_pos_of_pos (by linarith) _, rpow_le_one_of_one_le_of_nonpos h1 (by linarith)⟩

/-- the factor increases with mass -/
theorem recal_mono (g M β : ℝ) (hg : 0 ≤ g) (hM : 0 ≤ M) (hβ : 0 ≤ β) (m1 m2 : ℝ) (h1 : 0 < m1) (h12 : m1 ≤ m2) :
    (1 + g * M / m1) ^ (-β) ≤ (1 + g * M / m2) ^ (-β) := by
  have hm2 : 0 < m2 := lt_of_lt_of_le h1 h12
  have hb : 0 < 1 + g * M / m2 := by
    have : 0 ≤ g * M / m2 := div_nonneg (mul_nonneg hg hM) hm2.le
    linarith
  have hle : 1 + g * M / m2 ≤ 1 + g * M / m1 := by
    have : g * M / m2 ≤ g * M / m1 := div_le_div_of_nonneg_left (mul_nonneg hg hM) h1 h12
    linarith
  exact rpow_le_rpow_of_nonpos hb hle (by linarith)

end Hmf.Analysis
