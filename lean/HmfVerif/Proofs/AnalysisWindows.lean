import Mathlib.Analysis.SpecialFunctions.Trigonometric.Deriv
import Mathlib.Analysis.Calculus.Deriv.MeanValue
import Mathlib.Analysis.SpecialFunctions.Trigonometric.Bounds
import Mathlib.Analysis.SpecialFunctions.ExpDeriv
import Mathlib.Tactic
/-! real-analysis facts about the top-hat and Gaussian windows -/
namespace Hmf.Analysis
open Real

theorem sin_sub_le (x : ℝ) (hx : 0 ≤ x) : sin x - x * cos x ≤ x^3 / 3 := by
  have hder : ∀ y : ℝ, HasDerivAt (fun x : ℝ => x^3/3 - (sin x - x * cos x)) (y * (y - sin y)) y := by
    intro y
    have h := ((hasDerivAt_pow 3 y).div_const 3).sub
      ((hasDerivAt_sin y).sub ((hasDerivAt_id' y).mul (hasDerivAt_cos y)))
    refine (h.congr_of_eventuallyEq ?_).congr_deriv ?_
    · exact Filter.Eventually.of_forall (fun z => by simp)
    · simp; ring
  have hmono : MonotoneOn (fun x : ℝ => x^3/3 - (sin x - x * cos x)) (Set.Ici 0) := by
    apply monotoneOn_of_deriv_nonneg (convex_Ici 0)
    · exact fun y _ => (hder y).continuousAt.continuousWithinAt
    · exact fun y _ => (hder y).differentiableAt.differentiableWithinAt
    · intro y hy
      simp only [interior_Ici, Set.mem_Ioi] at hy
      rw [(hder y).deriv]
      exact mul_nonneg hy.le (sub_nonneg.mpr (sin_le hy.le))
  have := hmono (Set.mem_Ici.mpr le_rfl) (Set.mem_Ici.mpr hx) hx
  simp at this
  linarith

theorem neg_le_sin_sub (x : ℝ) (hx : 0 ≤ x) : -(x^3 / 3) ≤ sin x - x * cos x := by
  have hder : ∀ y : ℝ, HasDerivAt (fun x : ℝ => x^3/3 + (sin x - x * cos x)) (y * (y + sin y)) y := by
    intro y
    have h := ((hasDerivAt_pow 3 y).div_const 3).add
      ((hasDerivAt_sin y).sub ((hasDerivAt_id' y).mul (hasDerivAt_cos y)))
    refine (h.congr_of_eventuallyEq ?_).congr_deriv ?_
    · exact Filter.Eventually.of_forall (fun z => by simp)
    · simp; ring
  have hmono : MonotoneOn (fun x : ℝ => x^3/3 + (sin x - x * cos x)) (Set.Ici 0) := by
    apply monotoneOn_of_deriv_nonneg (convex_Ici 0)
    · exact fun y _ => (hder y).continuousAt.continuousWithinAt
    · exact fun y _ => (hder y).differentiableAt.differentiableWithinAt
    · intro y hy
      simp only [interior_Ici, Set.mem_Ioi] at hy
      rw [(hder y).deriv]
      have h3 : |sin y| ≤ |y| := abs_sin_le_abs
      have : -y ≤ sin y := by
        have := neg_abs_le (sin y)
        rw [abs_of_nonneg hy.le] at h3
        linarith
      exact mul_nonneg hy.le (by linarith)
  have := hmono (Set.mem_Ici.mpr le_rfl) (Set.mem_Ici.mpr hx) hx
  simp at this
  linarith

/-- |W_TH(x)| ≤ 1 for x > 0 -/
theorem tophat_abs_le_one (x : ℝ) (hx : 0 < x) : |3 / x^3 * (sin x - x * cos x)| ≤ 1 := by
  have hx3 : 0 < x^3 := by positivity
  rw [abs_le]
  constructor
  · have := neg_le_sin_sub x hx.le
    have h : -1 = 3 / x^3 * (-(x^3/3)) := by field_simp
    rw [h]
    exact mul_le_mul_of_nonneg_left this (by positivity)
  · have := sin_sub_le x hx.le
    have h : (1:ℝ) = 3 / x^3 * (x^3/3) := by field_simp
    rw [h]
    exact mul_le_mul_of_nonneg_left this (by positivity)

/-- the analytic top-hat window derivative is the true derivative with respect to ln(kR):
    d/ds W(eˢ) = (9x cos x + 3(x² − 3) sin x)/x³ at x = eˢ -/
theorem tophat_dw_is_derivative (s : ℝ) :
    HasDerivAt (fun s => 3 / (exp s)^3 * (sin (exp s) - exp s * cos (exp s)))
      ((9 * exp s * cos (exp s) + 3 * ((exp s)^2 - 3) * sin (exp s)) / (exp s)^3) s := by
  have hx : exp s ≠ 0 := (exp_pos s).ne'
  have hW : HasDerivAt (fun x : ℝ => 3 / x^3 * (sin x - x * cos x))
      ((-(3 * (3 * (exp s)^2)) / ((exp s)^3)^2) * (sin (exp s) - exp s * cos (exp s))
        + 3 / (exp s)^3 * (cos (exp s) - (1 * cos (exp s) + exp s * (-sin (exp s))))) (exp s) := by
    have h1 : HasDerivAt (fun x : ℝ => 3 / x^3) (-(3 * (3 * (exp s)^2)) / ((exp s)^3)^2) (exp s) := by
      have := (hasDerivAt_const (exp s) (3:ℝ)).div (hasDerivAt_pow 3 (exp s)) (pow_ne_zero 3 hx)
      refine (this.congr_of_eventuallyEq (Filter.Eventually.of_forall fun z => by simp)).congr_deriv ?_
      norm_num
    have h2 : HasDerivAt (fun x : ℝ => sin x - x * cos x) (cos (exp s) - (1 * cos (exp s) + exp s * (-sin (exp s)))) (exp s) :=
      (hasDerivAt_sin _).sub ((hasDerivAt_id' _).mul (hasDerivAt_cos _))
    exact h1.mul h2
  have hc := hW.comp s (hasDerivAt_exp s)
  refine (hc.congr_of_eventuallyEq (Filter.Eventually.of_forall fun _ => rfl)).congr_deriv ?_
  field_simp
  ring

/-- Gaussian window: d/ds exp(−e^{2s}/2) = −x² W(x) at x = eˢ -/
theorem gaussian_dw_is_derivative (s : ℝ) :
    HasDerivAt (fun s => exp (-((exp s)^2) / 2)) (-((exp s)^2) * exp (-((exp s)^2) / 2)) s := by
  have h1 : HasDerivAt (fun s => -((exp s)^2) / 2) (-(2 * exp s * exp s) / 2) s := by
    have := (((hasDerivAt_exp s).pow 2).neg).div_const 2
    refine (this.congr_of_eventuallyEq (Filter.Eventually.of_forall fun z => by simp)).congr_deriv ?_
    norm_num
  have := h1.exp
  refine this.congr_deriv ?_
  ring

/-- Gaussian window range -/
theorem gaussian_range (x : ℝ) : 0 < exp (-(x^2) / 2) ∧ exp (-(x^2) / 2) ≤ 1 := by
  refine ⟨exp_pos _, ?_⟩
  rw [exp_le_one_iff]
  have := sq_nonneg x
  linarith

end Hmf.Analysis
