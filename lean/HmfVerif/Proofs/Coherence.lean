import HmfVerif.Model.Cache
/-!
# Refinement `M' ⊑ S`: fuel monotonicity, frame lemma, invariant, refinement lemma.
Core Lean only.
-/
namespace Hmf

theorem evalPure_mono (E : Env) (pv : Name → Val) :
    ∀ (f : Nat) (t : Tm) (res), evalPure E pv f t = some res → evalPure E pv (f+1) t = some res := by
  intro f
  induction f with
  | zero => intro t res h; simp [evalPure] at h
  | succ f ih =>
    intro t res h
    cases t with
    | p n => simpa [evalPure] using h
    | const c => simpa [evalPure] using h
    | q n => simp only [evalPure] at h ⊢; exact ih _ _ h
    | sup o n => simp only [evalPure] at h ⊢; exact ih _ _ h
    | pair k a b =>
      simp only [evalPure] at h ⊢
      cases ha : evalPure E pv f a with
      | none => simp [ha] at h
      | some ra =>
        rw [ih _ _ ha]; rw [ha] at h
        obtain ⟨ra1, ra2⟩ := ra
        cases ra1 with
        | error e => simpa using h
        | ok va =>
          simp only at h ⊢
          cases hb : evalPure E pv f b with
          | none => simp [hb] at h
          | some rb => rw [ih _ _ hb]; rw [hb] at h; exact h
    | ite c g t e =>
      simp only [evalPure] at h ⊢
      cases hg : evalPure E pv f g with
      | none => simp [hg] at h
      | some rg =>
        rw [ih _ _ hg]; rw [hg] at h
        obtain ⟨rg1, rg2⟩ := rg
        cases rg1 with
        | error e => simpa using h
        | ok vg =>
          simp only at h ⊢
          cases ht : evalPure E pv f (if E.I c vg then t else e) with
          | none => simp [ht] at h
          | some rt => rw [ih _ _ ht]; rw [ht] at h; exact h
    | raiseIf c g k =>
      simp only [evalPure] at h ⊢
      cases hg : evalPure E pv f g with
      | none => simp [hg] at h
      | some rg =>
        rw [ih _ _ hg]; rw [hg] at h
        obtain ⟨rg1, rg2⟩ := rg
        cases rg1 with
        | error e => simpa using h
        | ok vg =>
          simp only at h ⊢
          split at h
          · rename_i hc; simp only [hc, if_true]; exact h
          · rename_i hc; simp only [hc]
            cases hk : evalPure E pv f k with
            | none => simp [hk] at h
            | some rk => rw [ih _ _ hk]; rw [hk] at h; simpa using h

theorem evalPure_mono' (E : Env) (pv : Name → Val) (f g : Nat) (hfg : f ≤ g) (t : Tm) (res)
    (h : evalPure E pv f t = some res) : evalPure E pv g t = some res := by
  induction hfg with
  | refl => exact h
  | step _ ih => exact evalPure_mono E pv _ t res ih

theorem evalPure_frame (E : Env) (pv pv' : Name → Val) :
    ∀ (f : Nat) (t : Tm) (res : Res) (r : List Name), evalPure E pv f t = some (res, r) →
      (∀ x ∈ r, pv' x = pv x) → evalPure E pv' f t = some (res, r) := by
  intro f
  induction f with
  | zero => intro t v r h; simp [evalPure] at h
  | succ f ih =>
    intro t res r h hag
    cases t with
    | p n =>
      simp only [evalPure, Option.some.injEq, Prod.mk.injEq] at h ⊢
      obtain ⟨hv, hr⟩ := h
      subst hr; subst hv
      exact ⟨by rw [hag n (by simp)], rfl⟩
    | const c => simpa [evalPure] using h
    | q n => simp only [evalPure] at h ⊢; exact ih _ _ _ h hag
    | sup o n => simp only [evalPure] at h ⊢; exact ih _ _ _ h hag
    | pair k a b =>
      simp only [evalPure] at h ⊢
      cases ha : evalPure E pv f a with
      | none => simp [ha] at h
      | some ra =>
        obtain ⟨ra1, ra2⟩ := ra
        rw [ha] at h
        cases ra1 with
        | error e =>
          simp only [Option.some.injEq, Prod.mk.injEq] at h
          obtain ⟨hv, hr⟩ := h; subst hr; subst hv
          rw [ih _ _ _ ha hag]
        | ok va =>
          simp only at h
          cases hb : evalPure E pv f b with
          | none => simp [hb] at h
          | some rb =>
            obtain ⟨rb1, rb2⟩ := rb
            rw [hb] at h
            cases rb1 with
            | error e =>
              simp only [Option.some.injEq, Prod.mk.injEq] at h
              obtain ⟨hv, hr⟩ := h; subst hr; subst hv
              rw [ih _ _ _ ha (fun x hx => hag x (by simp [hx])),
                  ih _ _ _ hb (fun x hx => hag x (by simp [hx]))]
            | ok vb =>
              simp only [Option.some.injEq, Prod.mk.injEq] at h
              obtain ⟨hv, hr⟩ := h; subst hr; subst hv
              rw [ih _ _ _ ha (fun x hx => hag x (by simp [hx])),
                  ih _ _ _ hb (fun x hx => hag x (by simp [hx]))]
    | ite c g t e =>
      simp only [evalPure] at h ⊢
      cases hg : evalPure E pv f g with
      | none => simp [hg] at h
      | some rg =>
        obtain ⟨rg1, rg2⟩ := rg
        rw [hg] at h
        cases rg1 with
        | error x =>
          simp only [Option.some.injEq, Prod.mk.injEq] at h
          obtain ⟨hv, hr⟩ := h; subst hr; subst hv
          rw [ih _ _ _ hg hag]
        | ok vg =>
          simp only at h
          cases ht : evalPure E pv f (if E.I c vg then t else e) with
          | none => simp [ht] at h
          | some rt =>
            obtain ⟨rt1, rt2⟩ := rt
            rw [ht] at h
            simp only [Option.some.injEq, Prod.mk.injEq] at h
            obtain ⟨hv, hr⟩ := h; subst hr; subst hv
            rw [ih _ _ _ hg (fun x hx => hag x (by simp [hx]))]
            simp only
            rw [ih _ _ _ ht (fun x hx => hag x (by simp [hx]))]
    | raiseIf c g k =>
      simp only [evalPure] at h ⊢
      cases hg : evalPure E pv f g with
      | none => simp [hg] at h
      | some rg =>
        obtain ⟨rg1, rg2⟩ := rg
        rw [hg] at h
        cases rg1 with
        | error x =>
          simp only [Option.some.injEq, Prod.mk.injEq] at h
          obtain ⟨hv, hr⟩ := h; subst hr; subst hv
          rw [ih _ _ _ hg hag]
        | ok vg =>
          simp only at h
          split at h
          · rename_i hc
            simp only [Option.some.injEq, Prod.mk.injEq] at h
            obtain ⟨hv, hr⟩ := h; subst hr; subst hv
            rw [ih _ _ _ hg hag]; simp [hc]
          · rename_i hc
            cases hk : evalPure E pv f k with
            | none => simp [hk] at h
            | some rk =>
              obtain ⟨rk1, rk2⟩ := rk
              rw [hk] at h
              simp only [Option.some.injEq, Prod.mk.injEq] at h
              obtain ⟨hv, hr⟩ := h; subst hr; subst hv
              rw [ih _ _ _ hg (fun x hx => hag x (by simp [hx]))]
              simp only [hc]
              rw [ih _ _ _ hk (fun x hx => hag x (by simp [hx]))]
              simp

/-- The cache invariant: every clean entry stores the from-scratch value of its body at the
    *current* parameters; its index covers every parameter that evaluation reads (it may also hold
    stale names — over-invalidation is allowed, under-invalidation is not), and the index is inverted
    into the parameter→quantity table. -/
def CInv (E : Env) (s : St) : Prop :=
  ∀ n, s.clean n = true →
    (∃ f r0, evalPure E s.pv f (E.body (E.resolve n) n) = some (.ok (s.cache n), r0) ∧
        ∀ x ∈ r0, x ∈ s.deps n) ∧
    (∀ par ∈ s.deps n, n ∈ s.papr par)

theorem CInv_log (E : Env) (s : St) (n : Name) (h : CInv E s) : CInv E (s.log n) := h

/-- **Refinement lemma.** Whatever the memoising machine returns for a read program — value or
    exception — is what the cache-free semantics returns at the same parameters; the read list it
    reports covers the parameters the cache-free evaluation reads; the invariant is preserved on
    every exit; parameters are untouched. -/
theorem evalM_refines (E : Env) :
    ∀ (f : Nat) (s : St) (t : Tm) (res : Res) (r : List Name) (s' : St),
      CInv E s → evalM E f s t = some (res, r, s') →
      (∃ f' r0, evalPure E s.pv f' t = some (res, r0) ∧ ∀ x ∈ r0, x ∈ r) ∧ CInv E s' ∧ s'.pv = s.pv := by
  intro f
  induction f with
  | zero => intro s t v r s' _ h; simp [evalM] at h
  | succ f ih =>
    intro s t res r s' hinv h
    cases t with
    | p n =>
      simp only [evalM, Option.some.injEq, Prod.mk.injEq] at h
      obtain ⟨hv, hr, hs⟩ := h
      subst hv; subst hr; subst hs
      exact ⟨⟨1, [n], by simp [evalPure], fun x hx => hx⟩, hinv, rfl⟩
    | const c =>
      simp only [evalM, Option.some.injEq, Prod.mk.injEq] at h
      obtain ⟨hv, hr, hs⟩ := h
      subst hv; subst hr; subst hs
      exact ⟨⟨1, [], by simp [evalPure], fun x hx => hx⟩, hinv, rfl⟩
    | sup o n =>
      simp only [evalM] at h
      obtain ⟨⟨f1, r0, hf1, hsub⟩, hi, hp⟩ := ih _ _ _ _ _ hinv h
      exact ⟨⟨f1+1, r0, by simpa [evalPure] using hf1, hsub⟩, hi, hp⟩
    | q n =>
      simp only [evalM] at h
      split at h
      · rename_i hc
        simp only [Option.some.injEq, Prod.mk.injEq] at h
        obtain ⟨hv, hr, hs⟩ := h
        subst hv; subst hr; subst hs
        obtain ⟨⟨f0, r0, hf0, hsub⟩, _⟩ := hinv n hc
        exact ⟨⟨f0+1, r0, by simpa [evalPure] using hf0, hsub⟩, hinv, rfl⟩
      · rename_i hc
        cases hb : evalM E f (s.log n) (E.body (E.resolve n) n) with
        | none => simp [hb] at h
        | some resb =>
          obtain ⟨rb, r1, s1⟩ := resb
          rw [hb] at h
          obtain ⟨⟨f1, r0, hf1, hsub⟩, hinv1, hpv1⟩ := ih _ _ _ _ _ (CInv_log E s n hinv) hb
          simp only [St.log] at hf1 hpv1
          cases rb with
          | error e =>
            simp only [Option.some.injEq, Prod.mk.injEq] at h
            obtain ⟨hv, hr, hs⟩ := h
            subst hv; subst hr; subst hs
            refine ⟨⟨f1+1, r0, by simpa [evalPure] using hf1,
              fun x hx => List.mem_append_right _ (hsub x hx)⟩, ?_, hpv1⟩
            intro m hm
            by_cases hmn : m = n
            · subst hmn; simp [upd] at hm
            · simp only [upd, hmn, if_false] at hm ⊢
              exact hinv1 m hm
          | ok v =>
            simp only [Option.some.injEq, Prod.mk.injEq] at h
            obtain ⟨hv, hr, hs⟩ := h
            subst hv; subst hr
            refine ⟨⟨f1+1, r0, by simpa [evalPure] using hf1,
              fun x hx => List.mem_append_right _ (hsub x hx)⟩, ?_, ?_⟩
            · subst hs
              intro m hm
              by_cases hmn : m = n
              · subst hmn
                simp only [upd, if_true]
                refine ⟨⟨f1, r0, by simpa [hpv1] using hf1, hsub⟩, ?_⟩
                intro par hpar
                simp [hpar]
              · simp only [upd, hmn, if_false] at hm ⊢
                obtain ⟨hex, hpp⟩ := hinv1 m hm
                refine ⟨hex, ?_⟩
                intro par hpar
                have := hpp par hpar
                by_cases hin : par ∈ r1 <;> simp [hin, this]
            · subst hs; exact hpv1
    | pair k a b =>
      simp only [evalM] at h
      cases ha : evalM E f s a with
      | none => simp [ha] at h
      | some resa =>
        obtain ⟨ra, la, s1⟩ := resa
        rw [ha] at h
        obtain ⟨⟨fa, ra0, hfa, hsa⟩, hinv1, hpv1⟩ := ih _ _ _ _ _ hinv ha
        cases ra with
        | error e =>
          simp only [Option.some.injEq, Prod.mk.injEq] at h
          obtain ⟨hv, hr, hs⟩ := h
          subst hv; subst hr; subst hs
          exact ⟨⟨fa+1, ra0, by simp [evalPure, hfa], hsa⟩, hinv1, hpv1⟩
        | ok va =>
          simp only at h
          cases hb : evalM E f s1 b with
          | none => simp [hb] at h
          | some resb =>
            obtain ⟨rb, lb, s2⟩ := resb
            rw [hb] at h
            obtain ⟨⟨fb, rb0, hfb, hsb⟩, hinv2, hpv2⟩ := ih _ _ _ _ _ hinv1 hb
            rw [hpv1] at hfb
            have ha' := evalPure_mono' E s.pv fa (max fa fb) (Nat.le_max_left _ _) _ _ hfa
            have hb' := evalPure_mono' E s.pv fb (max fa fb) (Nat.le_max_right _ _) _ _ hfb
            have hsub : ∀ x ∈ ra0 ++ rb0, x ∈ la ++ lb := by
              intro x hx
              rcases List.mem_append.mp hx with hx | hx
              · exact List.mem_append_left _ (hsa x hx)
              · exact List.mem_append_right _ (hsb x hx)
            cases rb with
            | error e =>
              simp only [Option.some.injEq, Prod.mk.injEq] at h
              obtain ⟨hv, hr, hs⟩ := h
              subst hv; subst hr; subst hs
              exact ⟨⟨max fa fb + 1, ra0 ++ rb0, by simp [evalPure, ha', hb'], hsub⟩, hinv2, by rw [hpv2, hpv1]⟩
            | ok vb =>
              simp only [Option.some.injEq, Prod.mk.injEq] at h
              obtain ⟨hv, hr, hs⟩ := h
              subst hv; subst hr; subst hs
              exact ⟨⟨max fa fb + 1, ra0 ++ rb0, by simp [evalPure, ha', hb'], hsub⟩, hinv2, by rw [hpv2, hpv1]⟩
    | ite c g t e =>
      simp only [evalM] at h
      cases hg : evalM E f s g with
      | none => simp [hg] at h
      | some resg =>
        obtain ⟨rg, lg, s1⟩ := resg
        rw [hg] at h
        obtain ⟨⟨fg, rg0, hfg, hsg⟩, hinv1, hpv1⟩ := ih _ _ _ _ _ hinv hg
        cases rg with
        | error x =>
          simp only [Option.some.injEq, Prod.mk.injEq] at h
          obtain ⟨hv, hr, hs⟩ := h
          subst hv; subst hr; subst hs
          exact ⟨⟨fg+1, rg0, by simp [evalPure, hfg], hsg⟩, hinv1, hpv1⟩
        | ok vg =>
          simp only at h
          cases ht : evalM E f s1 (if E.I c vg then t else e) with
          | none => simp [ht] at h
          | some rest =>
            obtain ⟨rt, lt, s2⟩ := rest
            rw [ht] at h
            simp only [Option.some.injEq, Prod.mk.injEq] at h
            obtain ⟨hv, hr, hs⟩ := h
            subst hv; subst hr; subst hs
            obtain ⟨⟨ft, rt0, hft, hst⟩, hinv2, hpv2⟩ := ih _ _ _ _ _ hinv1 ht
            rw [hpv1] at hft
            have hg' := evalPure_mono' E s.pv fg (max fg ft) (Nat.le_max_left _ _) _ _ hfg
            have ht' := evalPure_mono' E s.pv ft (max fg ft) (Nat.le_max_right _ _) _ _ hft
            have hsub : ∀ x ∈ rg0 ++ rt0, x ∈ lg ++ lt := by
              intro x hx
              rcases List.mem_append.mp hx with hx | hx
              · exact List.mem_append_left _ (hsg x hx)
              · exact List.mem_append_right _ (hst x hx)
            exact ⟨⟨max fg ft + 1, rg0 ++ rt0, by simp [evalPure, hg', ht'], hsub⟩, hinv2, by rw [hpv2, hpv1]⟩
    | raiseIf c g k =>
      simp only [evalM] at h
      cases hg : evalM E f s g with
      | none => simp [hg] at h
      | some resg =>
        obtain ⟨rg, lg, s1⟩ := resg
        rw [hg] at h
        obtain ⟨⟨fg, rg0, hfg, hsg⟩, hinv1, hpv1⟩ := ih _ _ _ _ _ hinv hg
        cases rg with
        | error x =>
          simp only [Option.some.injEq, Prod.mk.injEq] at h
          obtain ⟨hv, hr, hs⟩ := h
          subst hv; subst hr; subst hs
          exact ⟨⟨fg+1, rg0, by simp [evalPure, hfg], hsg⟩, hinv1, hpv1⟩
        | ok vg =>
          simp only at h
          split at h
          · rename_i hc
            simp only [Option.some.injEq, Prod.mk.injEq] at h
            obtain ⟨hv, hr, hs⟩ := h
            subst hv; subst hr; subst hs
            exact ⟨⟨fg+1, rg0, by simp [evalPure, hfg, hc], hsg⟩, hinv1, hpv1⟩
          · rename_i hc
            cases hk : evalM E f s1 k with
            | none => simp [hk] at h
            | some resk =>
              obtain ⟨rk, lk, s2⟩ := resk
              rw [hk] at h
              simp only [Option.some.injEq, Prod.mk.injEq] at h
              obtain ⟨hv, hr, hs⟩ := h
              subst hv; subst hr; subst hs
              obtain ⟨⟨fk, rk0, hfk, hsk⟩, hinv2, hpv2⟩ := ih _ _ _ _ _ hinv1 hk
              rw [hpv1] at hfk
              have hg' := evalPure_mono' E s.pv fg (max fg fk) (Nat.le_max_left _ _) _ _ hfg
              have hk' := evalPure_mono' E s.pv fk (max fg fk) (Nat.le_max_right _ _) _ _ hfk
              have hsub : ∀ x ∈ rg0 ++ rk0, x ∈ lg ++ lk := by
                intro x hx
                rcases List.mem_append.mp hx with hx | hx
                · exact List.mem_append_left _ (hsg x hx)
                · exact List.mem_append_right _ (hsk x hx)
              exact ⟨⟨max fg fk + 1, rg0 ++ rk0, by simp [evalPure, hg', hk', hc], hsub⟩, hinv2, by rw [hpv2, hpv1]⟩

end Hmf
