import HmfVerif.Proofs.Terminates
/-!
# Static cones: whatever the machine ever records as a dependency lies in the syntactic cone.
Core Lean only.
-/
namespace Hmf
open ClassDesc

/-- `x` is syntactically reachable from `t` (no fuel: an inductive relation) -/
inductive InCone (C : ClassDesc) (x : Name) : Tm → Prop where
  | p : InCone C x (.p x)
  | q (m : Name) : InCone C x ((C.bodyOf (C.resolve m) m).getD (.const 0)) → InCone C x (.q m)
  | sup (o : Nat) (n : Name) : InCone C x ((C.bodyOf o n).getD (.const 0)) → InCone C x (.sup o n)
  | pairL (k a b) : InCone C x a → InCone C x (.pair k a b)
  | pairR (k a b) : InCone C x b → InCone C x (.pair k a b)
  | iteG (c g t e) : InCone C x g → InCone C x (.ite c g t e)
  | iteT (c g t e) : InCone C x t → InCone C x (.ite c g t e)
  | iteE (c g t e) : InCone C x e → InCone C x (.ite c g t e)
  | raiseG (c g k) : InCone C x g → InCone C x (.raiseIf c g k)
  | raiseK (c g k) : InCone C x k → InCone C x (.raiseIf c g k)

/-- dependency invariant: every recorded index entry lies in the cone of its quantity -/
def PInv (C : ClassDesc) (s : St) : Prop :=
  (∀ n x, x ∈ s.deps n → InCone C x (.q n)) ∧ (∀ p m, m ∈ s.papr p → InCone C p (.q m))

theorem PInv_log (C : ClassDesc) (s : St) (n : Name) (h : PInv C s) : PInv C (s.log n) := h

theorem evalM_reads_in_cone (C : ClassDesc) (I : Nat → Val → Bool) (N : Nat → Val → Val) (vd : Name → Vd) :
    ∀ (f : Nat) (s : St) (t : Tm) (res : Res) (r : List Name) (s' : St),
      PInv C s → evalM (C.toEnv I N vd) f s t = some (res, r, s') →
      (∀ x ∈ r, InCone C x t) ∧ PInv C s' := by
  intro f
  induction f with
  | zero => intro s t res r s' _ h; simp [evalM] at h
  | succ f ih =>
    intro s t res r s' hinv h
    cases t with
    | p n =>
      simp only [evalM, Option.some.injEq, Prod.mk.injEq] at h
      obtain ⟨_, hr, hs⟩ := h
      subst hr; subst hs
      exact ⟨fun x hx => by simp at hx; subst hx; exact .p, hinv⟩
    | const c =>
      simp only [evalM, Option.some.injEq, Prod.mk.injEq] at h
      obtain ⟨_, hr, hs⟩ := h
      subst hr; subst hs
      exact ⟨fun x hx => by simp at hx, hinv⟩
    | sup o n =>
      simp only [evalM] at h
      obtain ⟨hr, hi⟩ := ih _ _ _ _ _ hinv h
      exact ⟨fun x hx => .sup o n (by simpa [toEnv] using hr x hx), hi⟩
    | q n =>
      simp only [evalM] at h
      split at h
      · simp only [Option.some.injEq, Prod.mk.injEq] at h
        obtain ⟨_, hr, hs⟩ := h
        subst hr; subst hs
        exact ⟨fun x hx => hinv.1 n x hx, hinv⟩
      · cases hb : evalM (C.toEnv I N vd) f (s.log n) ((C.toEnv I N vd).body ((C.toEnv I N vd).resolve n) n) with
        | none => simp [hb] at h
        | some resb =>
          obtain ⟨rb, r1, s1⟩ := resb
          rw [hb] at h
          obtain ⟨hr1, hi1⟩ := ih _ _ _ _ _ (PInv_log C s n hinv) hb
          have hr1' : ∀ x ∈ r1, InCone C x (.q n) := fun x hx => .q n (by simpa [toEnv] using hr1 x hx)
          have hall : ∀ x ∈ s.deps n ++ r1, InCone C x (.q n) := by
            intro x hx
            rcases List.mem_append.mp hx with hx | hx
            · exact hinv.1 n x hx
            · exact hr1' x hx
          cases rb with
          | error e =>
            simp only [Option.some.injEq, Prod.mk.injEq] at h
            obtain ⟨_, hr, hs⟩ := h
            subst hr; subst hs
            refine ⟨hall, ?_, hi1.2⟩
            intro m x hx
            simp only [upd] at hx
            split at hx
            · simp at hx
            · exact hi1.1 m x hx
          | ok v =>
            simp only [Option.some.injEq, Prod.mk.injEq] at h
            obtain ⟨_, hr, hs⟩ := h
            subst hr; subst hs
            refine ⟨hall, ?_, ?_⟩
            · intro m x hx
              simp only [upd] at hx
              split at hx
              · rename_i hmn; subst hmn; exact hr1' x hx
              · exact hi1.1 m x hx
            · intro p m hm
              simp only at hm
              split at hm
              · rename_i hp
                rcases List.mem_cons.mp hm with hm | hm
                · subst hm; exact hr1' p hp
                · exact hi1.2 p m hm
              · exact hi1.2 p m hm
    | pair k a b =>
      simp only [evalM] at h
      cases ha : evalM (C.toEnv I N vd) f s a with
      | none => simp [ha] at h
      | some resa =>
        obtain ⟨ra, la, s1⟩ := resa
        rw [ha] at h
        obtain ⟨hra, hi1⟩ := ih _ _ _ _ _ hinv ha
        cases ra with
        | error e =>
          simp only [Option.some.injEq, Prod.mk.injEq] at h
          obtain ⟨_, hr, hs⟩ := h
          subst hr; subst hs
          exact ⟨fun x hx => .pairL k a b (hra x hx), hi1⟩
        | ok va =>
          simp only at h
          cases hb : evalM (C.toEnv I N vd) f s1 b with
          | none => simp [hb] at h
          | some resb =>
            obtain ⟨rb, lb, s2⟩ := resb
            rw [hb] at h
            obtain ⟨hrb, hi2⟩ := ih _ _ _ _ _ hi1 hb
            have hall : ∀ x ∈ la ++ lb, InCone C x (.pair k a b) := by
              intro x hx
              rcases List.mem_append.mp hx with hx | hx
              · exact .pairL k a b (hra x hx)
              · exact .pairR k a b (hrb x hx)
            cases rb with
            | error e =>
              simp only [Option.some.injEq, Prod.mk.injEq] at h
              obtain ⟨_, hr, hs⟩ := h
              subst hr; subst hs
              exact ⟨hall, hi2⟩
            | ok vb =>
              simp only [Option.some.injEq, Prod.mk.injEq] at h
              obtain ⟨_, hr, hs⟩ := h
              subst hr; subst hs
              exact ⟨hall, hi2⟩
    | ite c g t e =>
      simp only [evalM] at h
      cases hg : evalM (C.toEnv I N vd) f s g with
      | none => simp [hg] at h
      | some resg =>
        obtain ⟨rg, lg, s1⟩ := resg
        rw [hg] at h
        obtain ⟨hrg, hi1⟩ := ih _ _ _ _ _ hinv hg
        cases rg with
        | error x =>
          simp only [Option.some.injEq, Prod.mk.injEq] at h
          obtain ⟨_, hr, hs⟩ := h
          subst hr; subst hs
          exact ⟨fun y hy => .iteG c g t e (hrg y hy), hi1⟩
        | ok vg =>
          simp only at h
          cases ht : evalM (C.toEnv I N vd) f s1 (if (C.toEnv I N vd).I c vg then t else e) with
          | none => simp [ht] at h
          | some rest =>
            obtain ⟨rt, lt, s2⟩ := rest
            rw [ht] at h
            simp only [Option.some.injEq, Prod.mk.injEq] at h
            obtain ⟨_, hr, hs⟩ := h
            subst hr; subst hs
            obtain ⟨hrt, hi2⟩ := ih _ _ _ _ _ hi1 ht
            refine ⟨?_, hi2⟩
            intro y hy
            rcases List.mem_append.mp hy with hy | hy
            · exact .iteG c g t e (hrg y hy)
            · by_cases hc : (C.toEnv I N vd).I c vg = true
              · simp only [hc, if_true] at hrt; exact .iteT c g t e (hrt y hy)
              · have hc' : (C.toEnv I N vd).I c vg = false := by simpa using hc
                simp only [hc', Bool.false_eq_true, if_false] at hrt; exact .iteE c g t e (hrt y hy)
    | raiseIf c g k =>
      simp only [evalM] at h
      cases hg : evalM (C.toEnv I N vd) f s g with
      | none => simp [hg] at h
      | some resg =>
        obtain ⟨rg, lg, s1⟩ := resg
        rw [hg] at h
        obtain ⟨hrg, hi1⟩ := ih _ _ _ _ _ hinv hg
        cases rg with
        | error x =>
          simp only [Option.some.injEq, Prod.mk.injEq] at h
          obtain ⟨_, hr, hs⟩ := h
          subst hr; subst hs
          exact ⟨fun y hy => .raiseG c g k (hrg y hy), hi1⟩
        | ok vg =>
          simp only at h
          split at h
          · simp only [Option.some.injEq, Prod.mk.injEq] at h
            obtain ⟨_, hr, hs⟩ := h
            subst hr; subst hs
            exact ⟨fun y hy => .raiseG c g k (hrg y hy), hi1⟩
          · cases hk : evalM (C.toEnv I N vd) f s1 k with
            | none => simp [hk] at h
            | some resk =>
              obtain ⟨rk, lk, s2⟩ := resk
              rw [hk] at h
              simp only [Option.some.injEq, Prod.mk.injEq] at h
              obtain ⟨_, hr, hs⟩ := h
              subst hr; subst hs
              obtain ⟨hrk, hi2⟩ := ih _ _ _ _ _ hi1 hk
              refine ⟨?_, hi2⟩
              intro y hy
              rcases List.mem_append.mp hy with hy | hy
              · exact .raiseG c g k (hrg y hy)
              · exact .raiseK c g k (hrk y hy)

theorem setV_PInv (C : ClassDesc) (sw : Bool) (s : St) (n : Name) (v : Val) (h : PInv C s) :
    PInv C (setV sw s n v) := by
  unfold setV
  split
  · exact h
  · refine ⟨?_, h.2⟩
    intro m x hx
    simp only at hx
    split at hx
    · simp at hx
    · exact h.1 m x hx

theorem fresh_PInv (C : ClassDesc) (pv : Name → Val) : PInv C (St.fresh pv) :=
  ⟨fun n x hx => by simp [St.fresh] at hx, fun p m hm => by simp [St.fresh] at hm⟩

theorem setMany_PInv (C : ClassDesc) (I N vd) : ∀ (kw : List (Name × Val)) (s : St), PInv C s →
    PInv C (setMany (C.toEnv I N vd) s kw).2 := by
  intro kw
  induction kw with
  | nil => intro s h; exact h
  | cons kv rest ih =>
    intro s h
    obtain ⟨n, v⟩ := kv
    simp only [setMany]
    split
    · simp only [setP]
      cases runVd (C.toEnv I N vd) n v with
      | error e => exact h
      | ok v' => exact ih _ (setV_PInv C _ s n v' h)
    · exact ih s h

theorem step_PInv (C : ClassDesc) (I N vd) (fuel : Nat) (s : St) (op : Op) (h : PInv C s) :
    PInv C (step (C.toEnv I N vd) fuel s op).2 := by
  cases op with
  | get n =>
    simp only [step]
    cases hm : evalM (C.toEnv I N vd) fuel s (.q n) with
    | none => exact h
    | some res =>
      obtain ⟨r, l, s1⟩ := res
      exact (evalM_reads_in_cone C I N vd fuel s _ _ _ _ h hm).2
  | getp n => exact h
  | set n v =>
    simp only [step, setP]
    cases runVd (C.toEnv I N vd) n v with
    | error e => exact h
    | ok v' => exact setV_PInv C _ s n v' h
  | update kw =>
    simp only [step]
    have hs := setMany_PInv C I N vd kw s h
    cases hsm : setMany (C.toEnv I N vd) s kw with
    | mk r s1 =>
      rw [hsm] at hs
      cases r with
      | error e => exact hs
      | ok u =>
        simp only
        cases hm : evalM (C.toEnv I N vd) fuel s1 (C.toEnv I N vd).validate with
        | none => exact hs
        | some res =>
          obtain ⟨rv, l, s2⟩ := res
          exact (evalM_reads_in_cone C I N vd fuel s1 _ _ _ _ hs hm).2

  | setv n v =>
    simp only [step]
    cases runVd (C.toEnv I N vd) n v with
    | error e => exact h
    | ok v' =>
      simp only
      split
      · exact h
      · have hs := setV_PInv C ((C.toEnv I N vd).isSwitch n) s n v' h
        cases hm : evalM (C.toEnv I N vd) fuel (setV ((C.toEnv I N vd).isSwitch n) s n v') (C.toEnv I N vd).validate with
        | none => exact hs
        | some res =>
          obtain ⟨rv, l, s2⟩ := res
          exact (evalM_reads_in_cone C I N vd fuel _ _ _ _ _ hs hm).2

theorem run_PInv (C : ClassDesc) (I N vd) (fuel : Nat) : ∀ (ops : List Op) (s : St), PInv C s →
    PInv C (run (C.toEnv I N vd) fuel s ops).2 := by
  intro ops
  induction ops with
  | nil => intro s h; exact h
  | cons op ops ih => intro s h; simp only [run]; exact ih _ (step_PInv C I N vd fuel s op h)

/-! ## from the inductive cone to the computable one -/

theorem coneTm_mono (C : ClassDesc) : ∀ (f : Nat) (t : Tm) (x : Name), x ∈ C.coneTm f t → x ∈ C.coneTm (f+1) t := by
  intro f
  induction f with
  | zero => intro t x h; simp [coneTm] at h
  | succ f ih =>
    intro t x h
    cases t with
    | p n => simpa [coneTm] using h
    | const c => simp [coneTm] at h
    | q m => simp only [coneTm] at h ⊢; exact ih _ _ h
    | sup o n => simp only [coneTm] at h ⊢; exact ih _ _ h
    | pair k a b =>
      simp only [coneTm, List.mem_append] at h ⊢
      rcases h with h | h
      · exact Or.inl (ih _ _ h)
      · exact Or.inr (ih _ _ h)
    | ite c g t e =>
      simp only [coneTm, List.mem_append] at h ⊢
      rcases h with h | h | h
      · exact Or.inl (ih _ _ h)
      · exact Or.inr (Or.inl (ih _ _ h))
      · exact Or.inr (Or.inr (ih _ _ h))
    | raiseIf c g k =>
      simp only [coneTm, List.mem_append] at h ⊢
      rcases h with h | h
      · exact Or.inl (ih _ _ h)
      · exact Or.inr (ih _ _ h)

theorem coneTm_mono' (C : ClassDesc) (f g : Nat) (hfg : f ≤ g) (t : Tm) (x : Name)
    (h : x ∈ C.coneTm f t) : x ∈ C.coneTm g t := by
  induction hfg with
  | refl => exact h
  | step _ ih => exact coneTm_mono C _ t x ih

theorem InCone_coneTm (C : ClassDesc) (x : Name) (t : Tm) (h : InCone C x t) : ∃ f, x ∈ C.coneTm f t := by
  induction h with
  | p => exact ⟨1, by simp [coneTm]⟩
  | q m _ ih => obtain ⟨f, hf⟩ := ih; exact ⟨f+1, by simpa [coneTm] using hf⟩
  | sup o n _ ih => obtain ⟨f, hf⟩ := ih; exact ⟨f+1, by simpa [coneTm] using hf⟩
  | pairL k a b _ ih => obtain ⟨f, hf⟩ := ih; exact ⟨f+1, by simp [coneTm, hf]⟩
  | pairR k a b _ ih => obtain ⟨f, hf⟩ := ih; exact ⟨f+1, by simp [coneTm, hf]⟩
  | iteG c g t e _ ih => obtain ⟨f, hf⟩ := ih; exact ⟨f+1, by simp [coneTm, hf]⟩
  | iteT c g t e _ ih => obtain ⟨f, hf⟩ := ih; exact ⟨f+1, by simp [coneTm, hf]⟩
  | iteE c g t e _ ih => obtain ⟨f, hf⟩ := ih; exact ⟨f+1, by simp [coneTm, hf]⟩
  | raiseG c g k _ ih => obtain ⟨f, hf⟩ := ih; exact ⟨f+1, by simp [coneTm, hf]⟩
  | raiseK c g k _ ih => obtain ⟨f, hf⟩ := ih; exact ⟨f+1, by simp [coneTm, hf]⟩

/-- saturation: on a well-formed descriptor, exploring deeper than `fuelBound` finds nothing new -/
theorem coneTm_saturates (C : ClassDesc) (hwf : C.wfReads = true) :
    ∀ (h : Nat) (t : Tm), C.okReads h t = true → ∀ (f g : Nat), fuelBound C h t ≤ g →
      ∀ x, x ∈ C.coneTm f t → x ∈ C.coneTm g t := by
  intro h
  induction h using Nat.strongRecOn with
  | _ h ihh =>
    intro t
    induction t with
    | p y =>
      intro _ f g hg x hx
      cases g with
      | zero => simp [fuelBound] at hg
      | succ g => cases f with
        | zero => simp [coneTm] at hx
        | succ f => simpa [coneTm] using hx
    | const c =>
      intro _ f g hg x hx
      cases f with
      | zero => simp [coneTm] at hx
      | succ f => simp [coneTm] at hx
    | q m =>
      intro hok f g hg x hx
      simp only [okReads, Bool.and_eq_true, decide_eq_true_eq] at hok
      obtain ⟨hsome, hlt⟩ := hok
      cases hb : C.bodyOf (C.resolve m) m with
      | none => simp [hb] at hsome
      | some tb =>
        have hmem := bodyOf_mem C _ _ _ hb
        have hall : C.bodies.all (fun b => okReads C (C.hgtOf b.1 b.2.1) b.2.2 && decide (b.2.2.depth ≤ C.maxDepth) &&
                         decide (C.hgtOf b.1 b.2.1 ≤ C.maxHgt)) = true := by
          unfold wfReads at hwf; simp only [Bool.and_eq_true] at hwf; exact hwf.1
        have hb' := List.all_eq_true.mp hall _ hmem
        simp only [Bool.and_eq_true, decide_eq_true_eq] at hb'
        obtain ⟨⟨hokb, hdep⟩, _⟩ := hb'
        cases g with
        | zero => simp [fuelBound] at hg
        | succ g =>
          cases f with
          | zero => simp [coneTm] at hx
          | succ f =>
            simp only [coneTm, hb, Option.getD_some] at hx ⊢
            have hfb : fuelBound C (C.hgtOf (C.resolve m) m) tb ≤ g := by
              simp only [fuelBound, Tm.depth] at hg ⊢
              have : (C.hgtOf (C.resolve m) m + 1) * (C.maxDepth + 2) ≤ h * (C.maxDepth + 2) :=
                Nat.mul_le_mul_right _ hlt
              rw [Nat.add_mul] at this
              omega
            exact ihh _ hlt tb hokb f g hfb x hx
    | sup o n =>
      intro hok f g hg x hx
      simp only [okReads, Bool.and_eq_true, decide_eq_true_eq] at hok
      obtain ⟨hsome, hlt⟩ := hok
      cases hb : C.bodyOf o n with
      | none => simp [hb] at hsome
      | some tb =>
        have hmem := bodyOf_mem C _ _ _ hb
        have hall : C.bodies.all (fun b => okReads C (C.hgtOf b.1 b.2.1) b.2.2 && decide (b.2.2.depth ≤ C.maxDepth) &&
                         decide (C.hgtOf b.1 b.2.1 ≤ C.maxHgt)) = true := by
          unfold wfReads at hwf; simp only [Bool.and_eq_true] at hwf; exact hwf.1
        have hb' := List.all_eq_true.mp hall _ hmem
        simp only [Bool.and_eq_true, decide_eq_true_eq] at hb'
        obtain ⟨⟨hokb, hdep⟩, _⟩ := hb'
        cases g with
        | zero => simp [fuelBound] at hg
        | succ g =>
          cases f with
          | zero => simp [coneTm] at hx
          | succ f =>
            simp only [coneTm, hb, Option.getD_some] at hx ⊢
            have hfb : fuelBound C (C.hgtOf o n) tb ≤ g := by
              simp only [fuelBound, Tm.depth] at hg ⊢
              have : (C.hgtOf o n + 1) * (C.maxDepth + 2) ≤ h * (C.maxDepth + 2) :=
                Nat.mul_le_mul_right _ hlt
              rw [Nat.add_mul] at this
              omega
            exact ihh _ hlt tb hokb f g hfb x hx
    | pair k a b iha ihb =>
      intro hok f g hg x hx
      simp only [okReads, Bool.and_eq_true] at hok
      cases g with
      | zero => simp [fuelBound] at hg
      | succ g =>
        cases f with
        | zero => simp [coneTm] at hx
        | succ f =>
          have hga : fuelBound C h a ≤ g := by simp only [fuelBound, Tm.depth] at hg ⊢; omega
          have hgb : fuelBound C h b ≤ g := by simp only [fuelBound, Tm.depth] at hg ⊢; omega
          simp only [coneTm, List.mem_append] at hx ⊢
          rcases hx with hx | hx
          · exact Or.inl (iha hok.1 f g hga x hx)
          · exact Or.inr (ihb hok.2 f g hgb x hx)
    | ite c gd t e ihg iht ihe =>
      intro hok f g hg x hx
      simp only [okReads, Bool.and_eq_true] at hok
      cases g with
      | zero => simp [fuelBound] at hg
      | succ g =>
        cases f with
        | zero => simp [coneTm] at hx
        | succ f =>
          have hgg : fuelBound C h gd ≤ g := by simp only [fuelBound, Tm.depth] at hg ⊢; omega
          have hgt : fuelBound C h t ≤ g := by simp only [fuelBound, Tm.depth] at hg ⊢; omega
          have hge : fuelBound C h e ≤ g := by simp only [fuelBound, Tm.depth] at hg ⊢; omega
          simp only [coneTm, List.mem_append] at hx ⊢
          rcases hx with hx | hx | hx
          · exact Or.inl (ihg hok.1.1 f g hgg x hx)
          · exact Or.inr (Or.inl (iht hok.1.2 f g hgt x hx))
          · exact Or.inr (Or.inr (ihe hok.2 f g hge x hx))
    | raiseIf c gd k ihg ihk =>
      intro hok f g hg x hx
      simp only [okReads, Bool.and_eq_true] at hok
      cases g with
      | zero => simp [fuelBound] at hg
      | succ g =>
        cases f with
        | zero => simp [coneTm] at hx
        | succ f =>
          have hgg : fuelBound C h gd ≤ g := by simp only [fuelBound, Tm.depth] at hg ⊢; omega
          have hgk : fuelBound C h k ≤ g := by simp only [fuelBound, Tm.depth] at hg ⊢; omega
          simp only [coneTm, List.mem_append] at hx ⊢
          rcases hx with hx | hx
          · exact Or.inl (ihg hok.1 f g hgg x hx)
          · exact Or.inr (ihk hok.2 f g hgk x hx)

end Hmf

namespace Hmf
open ClassDesc

/-- the computable cone is complete for the inductive one on a well-formed descriptor -/
theorem cone_complete (C : ClassDesc) (hwf : C.wfReads = true) (n : Name) (x : Name)
    (hq : (C.bodyOf (C.resolve n) n).isSome = true) (h : InCone C x (.q n)) : x ∈ C.cone n := by
  obtain ⟨f, hf⟩ := InCone_coneTm C x _ h
  have hok : C.okReads (C.maxHgt + 1) (.q n) = true := by
    simp only [okReads, Bool.and_eq_true, decide_eq_true_eq]
    refine ⟨hq, ?_⟩
    cases hb : C.bodyOf (C.resolve n) n with
    | none => simp [hb] at hq
    | some tb =>
      have hmem := bodyOf_mem C _ _ _ hb
      have hall : C.bodies.all (fun b => okReads C (C.hgtOf b.1 b.2.1) b.2.2 && decide (b.2.2.depth ≤ C.maxDepth) &&
                       decide (C.hgtOf b.1 b.2.1 ≤ C.maxHgt)) = true := by
        unfold wfReads at hwf; simp only [Bool.and_eq_true] at hwf; exact hwf.1
      have hb' := List.all_eq_true.mp hall _ hmem
      simp only [Bool.and_eq_true, decide_eq_true_eq] at hb'
      omega
  exact coneTm_saturates C hwf _ _ hok f C.coneFuel (by simp [fuelBound, coneFuel, Tm.depth]) x hf

/-- **Static independence.** On a well-formed class, if parameter `x` is outside the static cone of
    quantity `n`, then after *any* history from a fresh object `n` is never indexed under `x` —
    so changing `x` can never invalidate `n`. -/
theorem never_indexed_outside_cone (C : ClassDesc) (I N vd) (hwf : C.wfReads = true) (fuel : Nat)
    (ops : List Op) (pv : Name → Val) (n x : Name)
    (hq : (C.bodyOf (C.resolve n) n).isSome = true) (hx : x ∉ C.cone n) :
    n ∉ (run (C.toEnv I N vd) fuel (St.fresh pv) ops).2.papr x := by
  intro hm
  have hp := run_PInv C I N vd fuel ops _ (fresh_PInv C pv)
  exact hx (cone_complete C hwf n x hq (hp.2 x n hm))

end Hmf
