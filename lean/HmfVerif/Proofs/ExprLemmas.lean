import HmfVerif.Model.Expr
/-!
# Vector semantics of expression terms and the locality theorem. Core Lean only.
An array input is an index function `Nat → α`; scalar inputs are constant functions.
-/
namespace Hmf

/-- array semantics: elementwise nodes act pointwise, `nonElem` nodes are *arbitrary* array
    transformers (reversal, cumulative sums, …) -/
def evalV {α} [Sci α] (opq : String → α → α) (ne : String → (Nat → α) → (Nat → α)) (env : String → Nat → α) :
    E → Nat → α
  | .nonElem g a => ne g (evalV opq ne env a)
  | .lit m e => fun _ => Sci.dec m e
  | .pi => fun _ => Sci.pi
  | .var x => env x
  | .un op a => fun i => evalS opq (fun _ => evalV opq ne env a i) (.un op (.var ""))
  | .bin op a b => fun i =>
      evalS opq (fun x => if x = "a" then evalV opq ne env a i else evalV opq ne env b i) (.bin op (.var "a") (.var "b"))
  | .powi a n => fun i => Sci.zpow (evalV opq ne env a i) n
  | .ite c a b t f => fun i =>
      if evalCmp c (evalV opq ne env a i) (evalV opq ne env b i) then evalV opq ne env t i else evalV opq ne env f i
  | .call g a => fun i => opq g (evalV opq ne env a i)

/-- **Locality.** For an elementwise term the value at element `i` is the scalar evaluation on the
    inputs at element `i` — it depends on nothing else. -/
theorem evalV_elementwise {α} [Sci α] (opq : String → α → α) (ne) (env : String → Nat → α) :
    ∀ (e : E), e.isElementwise = true → ∀ i, evalV opq ne env e i = evalS opq (fun x => env x i) e := by
  intro e
  induction e with
  | lit m e => intro _ i; rfl
  | pi => intro _ i; rfl
  | var x => intro _ i; rfl
  | un op a ih =>
    intro h i
    have := ih (by simpa [E.isElementwise] using h) i
    cases op <;> simp [evalV, evalS, this]
  | bin op a b iha ihb =>
    intro h i
    simp only [E.isElementwise, Bool.and_eq_true] at h
    have ha := iha h.1 i
    have hb := ihb h.2 i
    cases op <;> simp [evalV, evalS, ha, hb]
  | powi a n ih =>
    intro h i
    simp [evalV, evalS, ih (by simpa [E.isElementwise] using h) i]
  | ite c a b t f iha ihb iht ihf =>
    intro h i
    simp only [E.isElementwise, Bool.and_eq_true] at h
    simp [evalV, evalS, iha h.1.1.1 i, ihb h.1.1.2 i, iht h.1.2 i, ihf h.2 i]
  | call g a ih =>
    intro h i
    simp [evalV, evalS, ih (by simpa [E.isElementwise] using h) i]
  | nonElem g a _ => intro h; simp [E.isElementwise] at h

/-- permuting (or subsetting: any re-indexing `π`) the inputs re-indexes the outputs exactly -/
theorem evalV_reindex {α} [Sci α] (opq : String → α → α) (ne) (env : String → Nat → α) (π : Nat → Nat)
    (e : E) (h : e.isElementwise = true) (i : Nat) :
    evalV opq ne (fun x j => env x (π j)) e i = evalV opq ne env e (π i) := by
  rw [evalV_elementwise opq ne _ e h i, evalV_elementwise opq ne _ e h (π i)]

/-- two input arrays that agree at element `i` (on the variables the term mentions) give the same
    output at element `i`, whatever they hold elsewhere -/
theorem evalV_local {α} [Sci α] (opq : String → α → α) (ne) (env env' : String → Nat → α)
    (e : E) (h : e.isElementwise = true) (i : Nat) (hag : ∀ x ∈ e.freeVars, env x i = env' x i) :
    evalV opq ne env e i = evalV opq ne env' e i := by
  rw [evalV_elementwise opq ne _ e h i, evalV_elementwise opq ne _ e h i]
  exact evalS_congr opq _ _ e hag

end Hmf
