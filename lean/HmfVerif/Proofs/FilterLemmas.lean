import Mathlib.Analysis.SpecialFunctions.Pow.Real
import Mathlib.Analysis.SpecialFunctions.Trigonometric.Basic
import Mathlib.Tactic
/-!
# mass ↔ radius closed forms of the filters are mutual inverses (real lemmas shared by C02 and C04)
-/
namespace Hmf.FilterLemmas
open Real

theorem cube_root_cube (r : ℝ) (hr : 0 ≤ r) : (r ^ 3) ^ ((1:ℝ) / 3) = r := by
  rw [← Real.rpow_natCast r 3, ← Real.rpow_mul hr]; norm_num

theorem tophat_rt_real (r d : ℝ) (hd : 0 < d) (hr : 0 ≤ r) :
    (3 * (4 * π * r ^ 3 * d / 3) / (4 * π * d)) ^ ((1:ℝ) / 3) = r := by
  have hp : (0:ℝ) < π := Real.pi_pos
  have : 3 * (4 * π * r ^ 3 * d / 3) / (4 * π * d) = r ^ 3 := by field_simp
  rw [this]
  exact cube_root_cube _ hr

theorem gaussian_rt_real (r d : ℝ) (hd : 0 < d) (hr : 0 ≤ r) :
    ((2 * π) ^ ((3:ℝ) / 2) * r ^ 3 * d / d) ^ ((1:ℝ) / 3) / Real.sqrt (2 * π) = r := by
  have hp : (0:ℝ) < π := Real.pi_pos
  have h2p : (0:ℝ) ≤ 2 * π := by positivity
  have e1 : ((2 * π : ℝ) ^ ((3:ℝ) / 2)) = (Real.sqrt (2 * π)) ^ 3 := by
    have : ((3:ℝ) / 2) = (1/2) * 3 := by norm_num
    rw [this, Real.rpow_mul h2p, ← Real.sqrt_eq_rpow]
    norm_num
  rw [e1]
  have e2 : (Real.sqrt (2 * π)) ^ 3 * r ^ 3 * d / d = (Real.sqrt (2 * π) * r) ^ 3 := by
    field_simp
  rw [e2, cube_root_cube _ (by positivity)]
  have hs : 0 < Real.sqrt (2 * π) := Real.sqrt_pos.mpr (by positivity)
  field_simp


theorem sharpk_rt_real (r d c : ℝ) (hd : 0 < d) (hc : 0 < c) (hr : 0 ≤ r) :
    1 / c * (3 * (4 * π * (c * r) ^ 3 * d / 3) / (4 * π * d)) ^ ((1:ℝ) / 3) = r := by
  rw [tophat_rt_real (c * r) d hd (by positivity)]
  field_simp

end Hmf.FilterLemmas
