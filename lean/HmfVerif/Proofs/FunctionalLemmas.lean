import HmfVerif.Model.Functional
import Mathlib.Data.List.Nodup
import Mathlib.Data.List.Perm.Basic
import Mathlib.Data.List.Sort
import Mathlib.Algebra.BigOperators.Group.List.Basic
/-! lemmas about `product` and the insertion loop -/
namespace Hmf.Fn

theorem product_length {α} : ∀ (ls : List (List α)), (product ls).length = (ls.map List.length).prod
  | [] => by simp [product]
  | l :: ls => by
    have ih := product_length ls
    simp only [product, List.length_flatMap, List.length_map, ih, List.map_cons, List.prod_cons]
    induction l with
    | nil => simp
    | cons x xs ihx => simp [List.sum_cons, Nat.succ_mul, Nat.add_comm]

theorem mem_product {α} : ∀ (ls : List (List α)) (v : List α),
    v ∈ product ls ↔ List.Forall₂ (fun x l => x ∈ l) v ls
  | [], v => by
    simp only [product, List.mem_singleton]
    constructor
    · intro h; subst h; exact List.Forall₂.nil
    · intro h; cases h; rfl
  | l :: ls, v => by
    simp only [product, List.mem_flatMap, List.mem_map]
    constructor
    · rintro ⟨x, hx, w, hw, rfl⟩
      exact List.Forall₂.cons hx ((mem_product ls w).mp hw)
    · intro h
      cases h with
      | cons hx hrest => exact ⟨_, hx, _, (mem_product ls _).mpr hrest, rfl⟩

theorem product_nodup {α} : ∀ (ls : List (List α)), (∀ l ∈ ls, l.Nodup) → (product ls).Nodup
  | [], _ => by simp [product]
  | l :: ls, h => by
    have ih := product_nodup ls (fun l' hl' => h l' (List.mem_cons_of_mem _ hl'))
    have hl := h l (List.mem_cons_self)
    simp only [product]
    rw [List.nodup_flatMap]
    refine ⟨?_, ?_⟩
    · intro x _
      exact ih.map (fun a b hab => by simpa using hab)
    · apply hl.pairwise_of_forall_ne
      intro a _ b _ hab
      simp only [Function.onFun, List.disjoint_left, List.mem_map]
      rintro w ⟨w1, _, rfl⟩ ⟨w2, _, h2⟩
      simp only [List.cons.injEq] at h2
      exact hab h2.1.symm

theorem insertItem_perm (l : List (Nat × Nat)) (kv : Nat × Nat) : (insertItem l kv).Perm (kv :: l) := by
  induction l with
  | nil => simp [insertItem]
  | cons a rest ih =>
    obtain ⟨k, n⟩ := a; obtain ⟨k', n'⟩ := kv
    simp only [insertItem]
    split
    · exact List.Perm.refl _
    · exact (List.Perm.cons _ ih).trans (List.Perm.swap _ _ _)

theorem insertItem_sorted (l : List (Nat × Nat)) (kv : Nat × Nat)
    (h : l.Pairwise (fun a b => a.2 ≤ b.2)) : (insertItem l kv).Pairwise (fun a b => a.2 ≤ b.2) := by
  induction l with
  | nil => simp [insertItem]
  | cons a rest ih =>
    obtain ⟨k, n⟩ := a; obtain ⟨k', n'⟩ := kv
    simp only [insertItem]
    rw [List.pairwise_cons] at h
    split
    · rename_i hge
      rw [List.pairwise_cons]
      refine ⟨?_, List.pairwise_cons.mpr h⟩
      intro b hb
      rcases List.mem_cons.mp hb with hb | hb
      · subst hb; exact hge
      · exact Nat.le_trans hge (h.1 b hb)
    · rename_i hlt
      rw [List.pairwise_cons]
      refine ⟨?_, ih h.2⟩
      intro b hb
      have := (insertItem_perm rest (k', n')).mem_iff.mp hb
      rcases List.mem_cons.mp this with hb | hb
      · subst hb; simp only; omega
      · exact h.1 b hb

theorem foldl_insert_perm : ∀ (items acc : List (Nat × Nat)), (items.foldl insertItem acc).Perm (items ++ acc)
  | [], acc => by simp
  | x :: xs, acc => by
    simp only [List.foldl_cons, List.cons_append]
    refine (foldl_insert_perm xs (insertItem acc x)).trans ?_
    refine (List.Perm.append_left xs (insertItem_perm acc x)).trans ?_
    exact List.perm_middle

theorem foldl_insert_sorted : ∀ (items acc : List (Nat × Nat)), acc.Pairwise (fun a b => a.2 ≤ b.2) →
    (items.foldl insertItem acc).Pairwise (fun a b => a.2 ≤ b.2)
  | [], _, h => h
  | x :: xs, acc, h => foldl_insert_sorted xs _ (insertItem_sorted acc x h)

end Hmf.Fn
