import HmfVerif.Model.Heap
/-! Separation invariant of the heap model and the bystander theorem. Core Lean only. -/
namespace Hmf.Heap

/-- every slot of an instance points to an allocated cell owned by that instance -/
def Sep (h : H) : Prop := ∀ i p a, h.slot i p = some a → a < h.next ∧ h.owner a = .inst i

theorem sep_empty : Sep H.empty := by intro i p a h; simp [H.empty] at h

theorem alloc_next (h : H) (o : Owner) (c : Cell) : (alloc h o c).1.next = h.next + 1 := rfl
theorem alloc_addr (h : H) (o : Owner) (c : Cell) : (alloc h o c).2 = h.next := rfl
theorem alloc_slot (h : H) (o : Owner) (c : Cell) : (alloc h o c).1.slot = h.slot := rfl
theorem alloc_cells_old (h : H) (o : Owner) (c : Cell) (a : Nat) (ha : a < h.next) :
    (alloc h o c).1.cells a = h.cells a := by
  simp [alloc]; intro he; omega
theorem alloc_owner_old (h : H) (o : Owner) (c : Cell) (a : Nat) (ha : a < h.next) :
    (alloc h o c).1.owner a = h.owner a := by
  simp [alloc]; intro he; omega

theorem sep_alloc (h : H) (o : Owner) (c : Cell) (hs : Sep h) : Sep (alloc h o c).1 := by
  intro i p a ha
  rw [alloc_slot] at ha
  obtain ⟨h1, h2⟩ := hs i p a ha
  exact ⟨by rw [alloc_next]; omega, by rw [alloc_owner_old h o c a h1]; exact h2⟩

theorem sep_store (h : H) (i p : Nat) (a : Nat) (hs : Sep h) : Sep (store true h i p a) := by
  intro i' p' b hb
  simp only [store, if_true] at hb ⊢
  by_cases hip : i' = i ∧ p' = p
  · simp only [hip, and_self, if_true, Option.some.injEq] at hb
    subst hb
    obtain ⟨hi, _⟩ := hip; subst hi
    exact ⟨by simp [alloc], by simp [alloc]⟩
  · simp only [hip, if_false] at hb
    have := sep_alloc h (.inst i) (content h a) hs i' p' b hb
    exact this

/-- cells below the allocation pointer are untouched by `store` -/
theorem store_cells_old (h : H) (i p : Nat) (a b : Nat) (hb : b < h.next) :
    (store true h i p a).cells b = h.cells b := by
  simp only [store, if_true]
  exact alloc_cells_old h _ _ b hb

theorem store_slot_other (h : H) (i p : Nat) (a : Nat) (i' p' : Nat) (hne : ¬ (i' = i ∧ p' = p)) :
    (store true h i p a).slot i' p' = h.slot i' p' := by
  simp [store, hne, alloc]

theorem store_next (h : H) (i p : Nat) (a : Nat) : (store true h i p a).next = h.next + 1 := rfl

theorem copyStep_sep (h0 : H) (i j : Nat) (hh : H) (p : Nat) (hs : Sep hh) : Sep (copyStep h0 i j hh p) := by
  unfold copyStep
  cases h0.slot i p with
  | none => exact hs
  | some a =>
    intro i' p' b hb
    simp only at hb ⊢
    by_cases hip : i' = j ∧ p' = p
    · simp only [hip, and_self, if_true, Option.some.injEq] at hb
      subst hb; obtain ⟨hi, _⟩ := hip; subst hi
      exact ⟨by simp [alloc], by simp [alloc]⟩
    · simp only [hip, if_false] at hb
      exact sep_alloc hh (.inst j) (content h0 a) hs i' p' b hb

theorem copy_fold_sep (h0 : H) (i j : Nat) : ∀ (ps : List Nat) (hh : H), Sep hh →
    Sep (ps.foldl (copyStep h0 i j) hh) := by
  intro ps
  induction ps with
  | nil => intro hh hs; exact hs
  | cons p ps ih => intro hh hs; simp only [List.foldl_cons]; exact ih _ (copyStep_sep h0 i j hh p hs)

theorem copyStep_old (h0 : H) (i j : Nat) (hh : H) (p : Nat) :
    hh.next ≤ (copyStep h0 i j hh p).next ∧
    (∀ a, a < hh.next → (copyStep h0 i j hh p).cells a = hh.cells a) ∧
    (∀ i' p', i' ≠ j → (copyStep h0 i j hh p).slot i' p' = hh.slot i' p') := by
  unfold copyStep
  cases h0.slot i p with
  | none => exact ⟨Nat.le_refl _, fun _ _ => rfl, fun _ _ _ => rfl⟩
  | some a =>
    refine ⟨by simp [alloc], fun b hb => alloc_cells_old hh (.inst j) (content h0 a) b hb, ?_⟩
    intro i' p' hne
    simp [hne, alloc]

theorem copy_fold_old (h0 : H) (i j : Nat) : ∀ (ps : List Nat) (hh : H),
    hh.next ≤ (ps.foldl (copyStep h0 i j) hh).next ∧
    (∀ a, a < hh.next → (ps.foldl (copyStep h0 i j) hh).cells a = hh.cells a) ∧
    (∀ i' p', i' ≠ j → (ps.foldl (copyStep h0 i j) hh).slot i' p' = hh.slot i' p') := by
  intro ps
  induction ps with
  | nil => intro hh; exact ⟨Nat.le_refl _, fun _ _ => rfl, fun _ _ _ => rfl⟩
  | cons p ps ih =>
    intro hh
    simp only [List.foldl_cons]
    obtain ⟨a1, a2, a3⟩ := copyStep_old h0 i j hh p
    obtain ⟨b1, b2, b3⟩ := ih (copyStep h0 i j hh p)
    refine ⟨Nat.le_trans a1 b1, ?_, ?_⟩
    · intro a ha; rw [b2 a (Nat.lt_of_lt_of_le ha a1)]; exact a2 a ha
    · intro i' p' hne; rw [b3 i' p' hne]; exact a3 i' p' hne

/-- **Separation is preserved by every operation** (with the copy-on-store setter). -/
theorem sep_step (h : H) (op : Op) (hs : Sep h) : Sep (step true h op) := by
  cases op with
  | callerNew c => exact sep_alloc h _ c hs
  | clsNew c => exact sep_alloc h _ c hs
  | callerWrite a k v =>
    simp only [step]
    split
    · intro i p b hb; exact hs i p b hb
    · exact hs
  | construct i p arg =>
    simp only [step]
    cases arg with
    | none => exact sep_store _ i p _ (sep_alloc h _ _ hs)
    | some a =>
      simp only
      split
      · exact sep_store _ i p _ (sep_alloc h _ _ hs)
      · exact sep_store h i p a hs
  | update i p arg =>
    simp only [step]
    cases hcur : h.slot i p with
    | none => exact sep_store h i p arg hs
    | some cur =>
      simp only
      split
      · exact hs
      · split
        · exact sep_store h i p arg hs
        · intro i' p' b hb; exact hs i' p' b hb
  | copy i j ps => exact copy_fold_sep h i j ps h hs
  | instantiate i p d =>
    simp only [step]
    cases h.slot i p with
    | none => exact hs
    | some a => exact sep_alloc h _ _ hs

theorem sep_run (ops : List Op) : ∀ (h : H), Sep h → Sep (run true h ops) := by
  induction ops with
  | nil => intro h hs; exact hs
  | cons op ops ih => intro h hs; simp only [run, List.foldl_cons]; exact ih _ (sep_step h op hs)

/-- **Bystander theorem.** An operation acting on instance `i` (or a class-level / caller
    allocation) leaves unchanged every allocated cell not owned by `i` — other instances' dicts,
    class-level defaults, the caller's dicts — and every slot of every other instance.
    (`callerWrite` is the caller mutating its own dict: it changes that one caller cell only.) -/
theorem bystander_unchanged (h : H) (op : Op) (hs : Sep h) :
    (∀ a, a < h.next → (∀ i, op.actor = some i → h.owner a ≠ .inst i) →
        (∀ t k v, op = .callerWrite t k v → a ≠ t) → (step true h op).cells a = h.cells a) ∧
    (∀ i' p', (∀ i, op.actor = some i → i' ≠ i) → (step true h op).slot i' p' = h.slot i' p') := by
  cases op with
  | callerNew c => exact ⟨fun a ha _ _ => alloc_cells_old h _ c a ha, fun _ _ _ => rfl⟩
  | clsNew c => exact ⟨fun a ha _ _ => alloc_cells_old h _ c a ha, fun _ _ _ => rfl⟩
  | callerWrite t k v =>
    refine ⟨?_, ?_⟩
    · intro a ha _ hne
      simp only [step]
      split
      · simp [hne t k v rfl]
      · rfl
    · intro i' p' _
      simp only [step]; split <;> rfl
  | construct i p arg =>
    refine ⟨?_, ?_⟩
    · intro a ha _ _
      simp only [step]
      cases arg with
      | none =>
        simp only
        rw [store_cells_old _ i p _ a (by simp [alloc]; omega)]
        exact alloc_cells_old h _ _ a ha
      | some b =>
        simp only
        split
        · rw [store_cells_old _ i p _ a (by simp [alloc]; omega)]
          exact alloc_cells_old h _ _ a ha
        · exact store_cells_old h i p b a ha
    · intro i' p' hne
      have hi : i' ≠ i := hne i rfl
      simp only [step]
      cases arg with
      | none => simp only; rw [store_slot_other _ i p _ i' p' (by simp [hi])]; rfl
      | some b =>
        simp only
        split
        · rw [store_slot_other _ i p _ i' p' (by simp [hi])]; rfl
        · exact store_slot_other h i p b i' p' (by simp [hi])
  | update i p arg =>
    refine ⟨?_, ?_⟩
    · intro a ha hown _
      simp only [step]
      cases hcur : h.slot i p with
      | none => exact store_cells_old h i p arg a ha
      | some cur =>
        simp only
        split
        · rfl
        · split
          · exact store_cells_old h i p arg a ha
          · have hne : a ≠ cur := by
              intro he; subst he
              exact hown i rfl (hs i p a hcur).2
            simp [hne]
    · intro i' p' hne
      have hi : i' ≠ i := hne i rfl
      simp only [step]
      cases hcur : h.slot i p with
      | none => exact store_slot_other h i p arg i' p' (by simp [hi])
      | some cur =>
        simp only
        split
        · rfl
        · split
          · exact store_slot_other h i p arg i' p' (by simp [hi])
          · rfl
  | copy i j ps =>
    obtain ⟨_, h2, h3⟩ := copy_fold_old h i j ps h
    exact ⟨fun a ha _ _ => h2 a ha, fun i' p' hne => h3 i' p' (hne j rfl)⟩
  | instantiate i p d =>
    refine ⟨?_, ?_⟩
    · intro a ha _ _
      simp only [step]
      cases h.slot i p with
      | none => rfl
      | some b => exact alloc_cells_old h _ _ a ha
    · intro i' p' _
      simp only [step]
      cases h.slot i p with
      | none => rfl
      | some b => rfl

theorem store_owner_old (h : H) (i p : Nat) (a b : Nat) (hb : b < h.next) :
    (store true h i p a).owner b = h.owner b := by
  simp only [store, if_true]
  exact alloc_owner_old h _ _ b hb

theorem copyStep_owner_old (h0 : H) (i j : Nat) (hh : H) (p : Nat) :
    ∀ a, a < hh.next → (copyStep h0 i j hh p).owner a = hh.owner a := by
  unfold copyStep
  cases h0.slot i p with
  | none => intro _ _; rfl
  | some a => intro b hb; exact alloc_owner_old hh (.inst j) (content h0 a) b hb

theorem copy_fold_owner_old (h0 : H) (i j : Nat) : ∀ (ps : List Nat) (hh : H),
    ∀ a, a < hh.next → (ps.foldl (copyStep h0 i j) hh).owner a = hh.owner a := by
  intro ps
  induction ps with
  | nil => intro hh a _; rfl
  | cons p ps ih =>
    intro hh a ha
    simp only [List.foldl_cons]
    rw [ih _ a (Nat.lt_of_lt_of_le ha (copyStep_old h0 i j hh p).1)]
    exact copyStep_owner_old h0 i j hh p a ha

/-- no operation frees an address or changes who owns an allocated cell -/
theorem step_old (h : H) (op : Op) :
    h.next ≤ (step true h op).next ∧ ∀ a, a < h.next → (step true h op).owner a = h.owner a := by
  cases op with
  | callerNew c => exact ⟨by simp [step, alloc], fun a ha => alloc_owner_old h _ c a ha⟩
  | clsNew c => exact ⟨by simp [step, alloc], fun a ha => alloc_owner_old h _ c a ha⟩
  | callerWrite t k v =>
    simp only [step]
    split <;> exact ⟨Nat.le_refl _, fun _ _ => rfl⟩
  | construct i p arg =>
    have hfresh : h.next ≤ (store true (alloc h (.inst i) []).1 i p (alloc h (.inst i) []).2).next ∧
        ∀ a, a < h.next → (store true (alloc h (.inst i) []).1 i p (alloc h (.inst i) []).2).owner a = h.owner a := by
      refine ⟨by rw [store_next, alloc_next]; omega, fun a ha => ?_⟩
      rw [store_owner_old _ i p _ a (by rw [alloc_next]; omega)]
      exact alloc_owner_old h _ _ a ha
    simp only [step]
    cases arg with
    | none => exact hfresh
    | some b =>
      simp only
      split
      · exact hfresh
      · exact ⟨by rw [store_next]; omega, fun a ha => store_owner_old h i p b a ha⟩
  | update i p arg =>
    simp only [step]
    cases h.slot i p with
    | none => exact ⟨by rw [store_next]; omega, fun a ha => store_owner_old h i p arg a ha⟩
    | some cur =>
      simp only
      split
      · exact ⟨Nat.le_refl _, fun _ _ => rfl⟩
      · split
        · exact ⟨by rw [store_next]; omega, fun a ha => store_owner_old h i p arg a ha⟩
        · exact ⟨Nat.le_refl _, fun _ _ => rfl⟩
  | copy i j ps =>
    exact ⟨(copy_fold_old h i j ps h).1, copy_fold_owner_old h i j ps h⟩
  | instantiate i p d =>
    simp only [step]
    cases h.slot i p with
    | none => exact ⟨Nat.le_refl _, fun _ _ => rfl⟩
    | some b => exact ⟨by simp [alloc], fun a ha => alloc_owner_old h _ _ a ha⟩

/-- **Whole-program bystander theorem.** A cell that no instance owns — a class-level default dict
    or a dict the caller built — holds the same content after any program that contains no caller
    write to that very cell. -/
theorem unowned_cells_never_change (ops : List Op) : ∀ (h : H), Sep h → ∀ a, a < h.next →
    (∀ i, h.owner a ≠ .inst i) → (∀ op ∈ ops, ∀ k v, op ≠ .callerWrite a k v) →
    (run true h ops).cells a = h.cells a := by
  induction ops with
  | nil => intro h _ a _ _ _; rfl
  | cons op ops ih =>
    intro h hs a ha hown hnw
    obtain ⟨hn, ho⟩ := step_old h op
    have h1 : (step true h op).cells a = h.cells a :=
      (bystander_unchanged h op hs).1 a ha (fun i _ => hown i)
        (fun t k v he hat => hnw op (List.mem_cons_self ..) k v (by rw [he, hat]))
    have h2 := ih (step true h op) (sep_step h op hs) a (Nat.lt_of_lt_of_le ha hn)
      (fun i => by rw [ho a ha]; exact hown i) (fun o hmem => hnw o (List.mem_cons_of_mem _ hmem))
    simp only [run, List.foldl_cons] at h2 ⊢
    rw [h2, h1]

/-- instance `j`'s slot `p` holds a cell with the content that `a` had in `h0` -/
def CopiedTo (h0 : H) (j p a : Nat) (hh : H) : Prop :=
  ∃ b, hh.slot j p = some b ∧ b < hh.next ∧ hh.cells b = some (content h0 a)

theorem copyStep_establishes (h0 : H) (i j : Nat) (hh : H) (p a : Nat) (hsl : h0.slot i p = some a) :
    CopiedTo h0 j p a (copyStep h0 i j hh p) := by
  unfold copyStep; rw [hsl]
  exact ⟨hh.next, by simp [alloc], by simp [alloc], by simp [alloc]⟩

theorem copyStep_keeps (h0 : H) (i j : Nat) (hh : H) (p a p' : Nat) (hsl : h0.slot i p = some a)
    (hc : CopiedTo h0 j p a hh) : CopiedTo h0 j p a (copyStep h0 i j hh p') := by
  by_cases hpp : p' = p
  · subst hpp; exact copyStep_establishes h0 i j hh p' a hsl
  · obtain ⟨b, h1, h2, h3⟩ := hc
    obtain ⟨a1, a2, _⟩ := copyStep_old h0 i j hh p'
    refine ⟨b, ?_, Nat.lt_of_lt_of_le h2 a1, by rw [a2 b h2]; exact h3⟩
    unfold copyStep
    cases h0.slot i p' with
    | none => exact h1
    | some a' => simp [alloc, Ne.symm hpp, h1]

theorem copy_fold_faithful (h0 : H) (i j p a : Nat) (hsl : h0.slot i p = some a) : ∀ (ps : List Nat) (hh : H),
    (CopiedTo h0 j p a hh ∨ p ∈ ps) → CopiedTo h0 j p a (ps.foldl (copyStep h0 i j) hh) := by
  intro ps
  induction ps with
  | nil =>
    intro hh h
    rcases h with h | h
    · exact h
    · cases h
  | cons q ps ih =>
    intro hh h
    simp only [List.foldl_cons]
    apply ih
    rcases h with h | h
    · exact Or.inl (copyStep_keeps h0 i j hh p a q hsl h)
    · rcases List.mem_cons.mp h with rfl | h
      · exact Or.inl (copyStep_establishes h0 i j hh p a hsl)
      · exact Or.inr h

end Hmf.Heap
