import HmfVerif.Proofs.Coherence
/-!
# Whole-history coherence of `M'` against `S`.
Core Lean only.
-/
namespace Hmf

theorem setV_pv (sw : Bool) (s : St) (n : Name) (v : Val) : (setV sw s n v).pv = pvSet s.pv n v := by
  unfold setV pvSet; split <;> rfl

theorem setV_inv (E : Env) (sw : Bool) (s : St) (n : Name) (v : Val) (h : CInv E s) :
    CInv E (setV sw s n v) := by
  unfold setV
  split
  · exact h
  · intro m hm
    simp only at hm ⊢
    split at hm
    · simp at hm
    · rename_i hnot
      obtain ⟨⟨f, r0, hf, hsub⟩, hpp⟩ := h m hm
      have hdeps : (if (sw && decide (m ∈ s.papr n)) = true then [] else s.deps m) = s.deps m := by
        simp [hnot]
      rw [hdeps]
      refine ⟨⟨f, r0, ?_, hsub⟩, ?_⟩
      · apply evalPure_frame E s.pv _ f _ _ _ hf
        intro x hx
        have hxn : x ≠ n := by
          intro hxe; subst hxe
          exact hnot (hpp x (hsub x hx))
        simp [upd, hxn]
      · intro par hpar
        exact hpp par hpar

theorem setP_spec (E : Env) (s : St) (n : Name) (v : Val) (h : CInv E s) :
    CInv E (setP E s n v).2 ∧
    (match runVd E n v with
     | .error e => (setP E s n v) = (.error e, s)
     | .ok v' => (setP E s n v).1 = .ok () ∧ (setP E s n v).2.pv = pvSet s.pv n v') := by
  unfold setP
  cases hv : runVd E n v with
  | error e => exact ⟨h, rfl⟩
  | ok v' => exact ⟨setV_inv E _ s n v' h, rfl, setV_pv _ s n v'⟩

theorem setMany_spec (E : Env) : ∀ (kw : List (Name × Val)) (s : St), CInv E s →
    CInv E (setMany E s kw).2 ∧ (setMany E s kw).1 = (pvSetMany E s.pv kw).1 ∧
    (setMany E s kw).2.pv = (pvSetMany E s.pv kw).2 := by
  intro kw
  induction kw with
  | nil => intro s h; exact ⟨h, rfl, rfl⟩
  | cons kv rest ih =>
    intro s h
    obtain ⟨n, v⟩ := kv
    simp only [setMany, pvSetMany]
    split
    · have hs := setP_spec E s n v h
      cases hv : runVd E n v with
      | error e =>
        rw [hv] at hs
        simp only at hs
        rw [hs.2]
        exact ⟨h, rfl, rfl⟩
      | ok v' =>
        rw [hv] at hs
        simp only at hs
        obtain ⟨hi, h1, h2⟩ := hs
        cases hsp : setP E s n v with
        | mk r s1 =>
          rw [hsp] at hi h1 h2
          simp only at hi h1 h2
          subst h1
          simp only
          have := ih s1 hi
          rw [h2] at this
          exact this
    · exact ih s h

/-- One operation: the machine's observable output is the specification's output (for some fuel),
    the parameter valuation evolves exactly as in the specification, and the invariant is kept —
    on **every** exit path, including rejected values and exceptions raised inside bodies or
    `validate()`. -/
theorem step_refines (E : Env) (fuel : Nat) (s : St) (op : Op) (h : CInv E s) :
    CInv E (step E fuel s op).2 ∧
    (∀ f', (specStep E f' s.pv op).2 = (step E fuel s op).2.pv) ∧
    ((step E fuel s op).1 ≠ .nofuel → ∃ f', (specStep E f' s.pv op).1 = (step E fuel s op).1) := by
  cases op with
  | get n =>
    simp only [step, specStep]
    cases hm : evalM E fuel s (.q n) with
    | none =>
      refine ⟨h, ?_, by simp⟩
      intro f'; cases evalPure E s.pv f' (.q n) <;> rfl
    | some res =>
      obtain ⟨r, l, s1⟩ := res
      obtain ⟨⟨f1, _, hf1, _⟩, hinv1, hpv1⟩ := evalM_refines E fuel s _ _ _ _ h hm
      refine ⟨hinv1, ?_, ?_⟩
      · intro f'; simp only [hpv1]; cases evalPure E s.pv f' (.q n) <;> rfl
      · intro _; exact ⟨f1, by simp [hf1]⟩
  | getp n => exact ⟨h, fun _ => rfl, fun _ => ⟨0, rfl⟩⟩
  | set n v =>
    simp only [step, specStep]
    have hs := setP_spec E s n v h
    cases hv : runVd E n v with
    | error e =>
      rw [hv] at hs; simp only at hs
      rw [hs.2]
      exact ⟨h, fun _ => rfl, fun _ => ⟨0, rfl⟩⟩
    | ok v' =>
      rw [hv] at hs; simp only at hs
      obtain ⟨hi, h1, h2⟩ := hs
      cases hsp : setP E s n v with
      | mk r s1 =>
        rw [hsp] at hi h1 h2
        simp only at hi h1 h2
        subst h1
        exact ⟨hi, fun _ => h2.symm, fun _ => ⟨0, rfl⟩⟩
  | update kw =>
    simp only [step, specStep]
    obtain ⟨hi, h1, h2⟩ := setMany_spec E kw s h
    cases hsm : setMany E s kw with
    | mk r s1 =>
      rw [hsm] at hi h1 h2
      simp only at hi h1 h2
      cases hps : pvSetMany E s.pv kw with
      | mk r' pv1 =>
        rw [hps] at h1 h2
        simp only at h1 h2
        subst h1
        cases r with
        | error e => exact ⟨hi, fun _ => h2.symm, fun _ => ⟨0, rfl⟩⟩
        | ok u =>
          simp only
          cases hm : evalM E fuel s1 E.validate with
          | none => exact ⟨hi, fun _ => h2.symm, by simp [updOut]⟩
          | some res =>
            obtain ⟨rv, l, s2⟩ := res
            obtain ⟨⟨f1, _, hf1, _⟩, hinv2, hpv2⟩ := evalM_refines E fuel s1 _ _ _ _ hi hm
            rw [h2] at hf1
            refine ⟨hinv2, ?_, ?_⟩
            · intro f'; simp only [hpv2, h2]
            · intro _; exact ⟨f1, by simp [hf1]⟩

  | setv n v =>
    simp only [step, specStep]
    cases hv : runVd E n v with
    | error e => exact ⟨h, fun _ => rfl, fun _ => ⟨0, rfl⟩⟩
    | ok v' =>
      simp only
      by_cases heq : v' = s.pv n
      · simp only [heq, if_true]; exact ⟨h, fun _ => trivial, fun _ => ⟨0, trivial⟩⟩
      · simp only [heq, if_false]
        have hi := setV_inv E (E.isSwitch n) s n v' h
        have hp := setV_pv (E.isSwitch n) s n v'
        cases hm : evalM E fuel (setV (E.isSwitch n) s n v') E.validate with
        | none => exact ⟨hi, fun _ => hp.symm, by simp [updOut]⟩
        | some res =>
          obtain ⟨rv, l, s2⟩ := res
          obtain ⟨⟨f1, _, hf1, _⟩, hinv2, hpv2⟩ := evalM_refines E fuel _ _ _ _ _ hi hm
          rw [hp] at hf1
          refine ⟨hinv2, ?_, ?_⟩
          · intro f'; simp only [hpv2, hp]
          · intro _; exact ⟨f1, by simp [hf1]⟩

theorem run_inv (E : Env) (fuel : Nat) : ∀ (ops : List Op) (s : St), CInv E s →
    CInv E (run E fuel s ops).2 := by
  intro ops
  induction ops with
  | nil => intro s h; exact h
  | cons op ops ih =>
    intro s h
    simp only [run]
    exact ih _ (step_refines E fuel s op h).1

theorem run_pv (E : Env) (fuel f' : Nat) : ∀ (ops : List Op) (s : St), CInv E s →
    (specRun E f' s.pv ops).2 = (run E fuel s ops).2.pv := by
  intro ops
  induction ops with
  | nil => intro s _; rfl
  | cons op ops ih =>
    intro s h
    simp only [run, specRun]
    obtain ⟨hi, hp, _⟩ := step_refines E fuel s op h
    rw [hp f']
    exact ih _ hi

/-- **Whole-history coherence.** From any coherent state (in particular a freshly constructed
    object), for every finite history of reads, direct assignments and `update`s (accepted or
    rejected), every answer the memoising machine gives — value *or exception* — is the answer of
    the cache-free specification at the parameters in force at that point. -/
theorem run_coherent (E : Env) (fuel : Nat) : ∀ (ops : List Op) (s : St), CInv E s →
    ∀ (i : Nat) (o : Out), (run E fuel s ops).1[i]? = some o → o ≠ .nofuel →
      ∃ f', (specRun E f' s.pv ops).1[i]? = some o := by
  intro ops
  induction ops with
  | nil => intro s _ i o h; simp [run] at h
  | cons op ops ih =>
    intro s hinv i o h hne
    simp only [run] at h
    obtain ⟨hi, hp, ho⟩ := step_refines E fuel s op hinv
    cases i with
    | zero =>
      simp only [List.getElem?_cons_zero, Option.some.injEq] at h
      rw [h] at ho
      obtain ⟨f', hf'⟩ := ho hne
      exact ⟨f', by simp [specRun, hf']⟩
    | succ i =>
      simp only [List.getElem?_cons_succ] at h
      obtain ⟨f', hf'⟩ := ih _ hi i o h hne
      refine ⟨f', ?_⟩
      simp only [specRun, List.getElem?_cons_succ]
      rw [hp f']
      exact hf'

theorem fresh_inv (E : Env) (pv : Name → Val) : CInv E (St.fresh pv) := by
  intro n hn; simp [St.fresh] at hn

end Hmf
