import HmfVerif.Model.Quad
import HmfVerif.Real.Basic
import Mathlib.Tactic
import Mathlib.Analysis.SpecialFunctions.Log.Deriv
import Mathlib.Analysis.SpecialFunctions.Sqrt
/-! linearity, positivity and telescoping of the quadrature kernels over ℝ -/
namespace Hmf.Quad
open Hmf

@[simp] theorem two_r : (two : ℝ) = 2 := by simp [two]
@[simp] theorem three_r : (three : ℝ) = 3 := by simp [three]
@[simp] theorem four_r : (four : ℝ) = 4 := by simp [four]
@[simp] theorem zero_r : (zero : ℝ) = 0 := by simp [zero]

theorem basicSimps_cons3 (dx y0 y1 y2 : ℝ) (rest : List ℝ) :
    basicSimps dx (y0 :: y1 :: y2 :: rest) = dx / 3 * (y0 + 4 * y1 + y2) + basicSimps dx (y2 :: rest) := by
  simp [basicSimps]

theorem basicSimps_smul (dx a : ℝ) : ∀ ys : List ℝ, basicSimps dx (ys.map (a * ·)) = a * basicSimps dx ys := by
  intro ys
  induction ys using basicSimps.induct (α := ℝ) with
  | case1 y0 y1 y2 rest ih =>
    simp only [List.map_cons, basicSimps_cons3] at ih ⊢
    rw [ih]; ring
  | case2 ys h =>
    match ys, h with
    | [], _ => simp [basicSimps]
    | [y], _ => simp [basicSimps]
    | [y0, y1], _ => simp [basicSimps]
    | y0 :: y1 :: y2 :: rest, h => exact absurd rfl (h y0 y1 y2 rest)

theorem basicSimps_nonneg (dx : ℝ) (hdx : 0 ≤ dx) : ∀ ys : List ℝ, (∀ y ∈ ys, 0 ≤ y) → 0 ≤ basicSimps dx ys := by
  intro ys
  induction ys using basicSimps.induct (α := ℝ) with
  | case1 y0 y1 y2 rest ih =>
    intro h
    rw [basicSimps_cons3]
    have h0 := h y0 (by simp); have h1 := h y1 (by simp); have h2 := h y2 (by simp)
    have := ih (fun y hy => h y (by simp at hy ⊢; tauto))
    positivity
  | case2 ys hne =>
    intro _
    match ys, hne with
    | [], _ => simp [basicSimps]
    | [y], _ => simp [basicSimps]
    | [y0, y1], _ => simp [basicSimps]
    | y0 :: y1 :: y2 :: rest, h => exact absurd rfl (h y0 y1 y2 rest)

theorem trap1_r (dx a b : ℝ) : trap1 dx a b = 1 / 2 * dx * (a + b) := by simp [trap1]

theorem getD_map_mul (a : ℝ) (ys : List ℝ) (i : Nat) : (ys.map (a * ·)).getD i 0 = a * ys.getD i 0 := by
  simp only [List.getD_eq_getElem?_getD, List.getElem?_map]
  cases ys[i]? <;> simp

/-- **linearity of the quadrature**: scaling the samples scales the integral, for every sample count and every `even` mode -/
theorem simps_smul (mode : Even) (dx a : ℝ) (ys : List ℝ) : simps mode dx (ys.map (a * ·)) = a * simps mode dx ys := by
  unfold simps
  simp only [List.length_map, zero_r, two_r, sci_add, sci_div]
  split
  · exact basicSimps_smul dx a ys
  · have h1 : basicSimps dx ((ys.map (a * ·)).take (ys.length - 1)) = a * basicSimps dx (ys.take (ys.length - 1)) := by
      rw [← List.map_take]; exact basicSimps_smul dx a _
    have h2 : basicSimps dx ((ys.map (a * ·)).drop 1) = a * basicSimps dx (ys.drop 1) := by
      rw [← List.map_drop]; exact basicSimps_smul dx a _
    cases mode <;> simp only [h1, h2, getD_map_mul, trap1_r] <;> ring

/-- the integral of non-negative samples with a non-negative step is non-negative -/
theorem simps_nonneg (mode : Even) (dx : ℝ) (hdx : 0 ≤ dx) (ys : List ℝ) (h : ∀ y ∈ ys, 0 ≤ y) : 0 ≤ simps mode dx ys := by
  unfold simps
  simp only [zero_r, two_r, sci_add, sci_div]
  have hget : ∀ i, 0 ≤ ys.getD i 0 := by
    intro i
    simp only [List.getD_eq_getElem?_getD]
    cases hi : ys[i]? with
    | none => simp
    | some v => simpa using h v (List.mem_of_getElem? hi)
  split
  · exact basicSimps_nonneg dx hdx ys h
  · have h1 := basicSimps_nonneg dx hdx (ys.take (ys.length - 1)) (fun y hy => h y (List.mem_of_mem_take hy))
    have h2 := basicSimps_nonneg dx hdx (ys.drop 1) (fun y hy => h y (List.mem_of_mem_drop hy))
    have t1 : 0 ≤ trap1 dx (ys.getD (ys.length - 2) 0) (ys.getD (ys.length - 1) 0) := by
      rw [trap1_r]; have := hget (ys.length - 2); have := hget (ys.length - 1); positivity
    have t2 : 0 ≤ trap1 dx (ys.getD 0 0) (ys.getD 1 0) := by
      rw [trap1_r]; have := hget 0; have := hget 1; positivity
    cases mode <;> simp only <;> positivity

/-- telescoping of the reverse cumulative trapezoid: consecutive entries differ by one trapezoid -/
theorem cumtrapzRev_step (dx a b : ℝ) (rest : List ℝ) :
    (cumtrapzRev dx (a :: b :: rest)).headD 0 - (cumtrapzRev dx (b :: rest)).headD 0 = 1 / 2 * dx * (a + b) := by
  simp [cumtrapzRev, trap1_r]

theorem cumtrapzRev_length (dx : ℝ) : ∀ ys : List ℝ, (cumtrapzRev dx ys).length = ys.length
  | [] => rfl
  | [_] => rfl
  | a :: b :: rest => by
    have := cumtrapzRev_length dx (b :: rest)
    simp only [cumtrapzRev, List.length_cons] at this ⊢
    omega

/-- the first entry of the reverse cumulative trapezoid is the trapezoid integral of the whole table -/
theorem cumtrapzRev_head_eq_trapz (dx : ℝ) : ∀ ys : List ℝ, (cumtrapzRev dx ys).headD 0 = trapz dx ys
  | [] => by simp [cumtrapzRev, trapz]
  | [_] => by simp [cumtrapzRev, trapz]
  | a :: b :: rest => by
    have ih := cumtrapzRev_head_eq_trapz dx (b :: rest)
    simp only [cumtrapzRev, trapz, List.headD_cons, sci_add, zero_r] at ih ⊢
    rw [ih]

theorem trapz_nonneg (dx : ℝ) (hdx : 0 ≤ dx) : ∀ ys : List ℝ, (∀ y ∈ ys, 0 ≤ y) → 0 ≤ trapz dx ys
  | [], _ => by simp [trapz]
  | [_], _ => by simp [trapz]
  | a :: b :: rest, h => by
    have ih := trapz_nonneg dx hdx (b :: rest) (fun y hy => h y (by simp at hy ⊢; tauto))
    have ha := h a (by simp); have hb := h b (by simp)
    simp only [trapz, sci_add, trap1_r]
    positivity

/-! ## monotonicity of Simpson's rule in the samples; σ decreases when the squared window does -/

theorem basicSimps_mono (dx : ℝ) (hdx : 0 ≤ dx) : ∀ ys zs : List ℝ, List.Forall₂ (· ≤ ·) ys zs → basicSimps dx ys ≤ basicSimps dx zs := by
  intro ys
  induction ys using basicSimps.induct (α := ℝ) with
  | case1 y0 y1 y2 rest ih =>
    intro zs h
    obtain ⟨z0, t0, h0, ht0, rfl⟩ := List.forall₂_cons_left_iff.mp h
    obtain ⟨z1, t1, h1, ht1, rfl⟩ := List.forall₂_cons_left_iff.mp ht0
    obtain ⟨z2, t2, h2, ht2, rfl⟩ := List.forall₂_cons_left_iff.mp ht1
    rw [basicSimps_cons3, basicSimps_cons3]
    have := ih (z2 :: t2) (List.Forall₂.cons h2 ht2)
    have hd : 0 ≤ dx / 3 := by positivity
    have : dx / 3 * (y0 + 4 * y1 + y2) ≤ dx / 3 * (z0 + 4 * z1 + z2) := mul_le_mul_of_nonneg_left (by linarith) hd
    linarith
  | case2 ys hne =>
    intro zs h
    match ys, hne, h with
    | [], _, h => cases h; simp [basicSimps]
    | [y], _, h =>
      obtain ⟨z0, t0, h0, ht0, rfl⟩ := List.forall₂_cons_left_iff.mp h
      cases ht0; simp [basicSimps]
    | [y0, y1], _, h =>
      obtain ⟨z0, t0, h0, ht0, rfl⟩ := List.forall₂_cons_left_iff.mp h
      obtain ⟨z1, t1, h1, ht1, rfl⟩ := List.forall₂_cons_left_iff.mp ht0
      cases ht1; simp [basicSimps]
    | y0 :: y1 :: y2 :: rest, hne, _ => exact absurd rfl (hne y0 y1 y2 rest)

theorem forall₂_getD {ys zs : List ℝ} (h : List.Forall₂ (· ≤ ·) ys zs) (i : Nat) : ys.getD i 0 ≤ zs.getD i 0 := by
  induction h generalizing i with
  | nil => simp
  | cons hab _ ih =>
    cases i with
    | zero => simpa using hab
    | succ n => simpa using ih n

theorem forall₂_take {ys zs : List ℝ} (h : List.Forall₂ (· ≤ ·) ys zs) (n : Nat) : List.Forall₂ (· ≤ ·) (ys.take n) (zs.take n) :=
  List.forall₂_take n h
theorem forall₂_drop {ys zs : List ℝ} (h : List.Forall₂ (· ≤ ·) ys zs) (n : Nat) : List.Forall₂ (· ≤ ·) (ys.drop n) (zs.drop n) :=
  List.forall₂_drop n h

/-- Simpson's rule (any `even` mode) with a non-negative step is monotone in the samples -/
theorem simps_mono (mode : Even) (dx : ℝ) (hdx : 0 ≤ dx) (ys zs : List ℝ) (h : List.Forall₂ (· ≤ ·) ys zs) :
    simps mode dx ys ≤ simps mode dx zs := by
  have hl : ys.length = zs.length := h.length_eq
  unfold simps
  simp only [zero_r, two_r, sci_add, sci_div, hl]
  split
  · exact basicSimps_mono dx hdx ys zs h
  · have h1 := basicSimps_mono dx hdx _ _ (forall₂_take h (zs.length - 1))
    have h2 := basicSimps_mono dx hdx _ _ (forall₂_drop h 1)
    have g := forall₂_getD h
    have t1 : trap1 dx (ys.getD (zs.length - 2) 0) (ys.getD (zs.length - 1) 0) ≤ trap1 dx (zs.getD (zs.length - 2) 0) (zs.getD (zs.length - 1) 0) := by
      rw [trap1_r, trap1_r]; have := g (zs.length - 2); have := g (zs.length - 1)
      exact mul_le_mul_of_nonneg_left (by linarith) (by positivity)
    have t2 : trap1 dx (ys.getD 0 0) (ys.getD 1 0) ≤ trap1 dx (zs.getD 0 0) (zs.getD 1 0) := by
      rw [trap1_r, trap1_r]; have := g 0; have := g 1
      exact mul_le_mul_of_nonneg_left (by linarith) (by positivity)
    cases mode <;> simp only <;> linarith

theorem forall₂_map_le {β : Type} (l : List β) (f g : β → ℝ) (h : ∀ x ∈ l, f x ≤ g x) : List.Forall₂ (· ≤ ·) (l.map f) (l.map g) := by
  induction l with
  | nil => simp
  | cons a t ih =>
    simp only [List.map_cons]
    exact List.Forall₂.cons (h a (by simp)) (ih (fun x hx => h x (by simp [hx])))

/-- C04: if the squared window at every tabulated wavenumber does not grow from radius r₁ to r₂, neither does σ
    (non-negative spectrum, wavenumbers and step) -/
theorem sigmaDisc_antitone (W : ℝ → ℝ) (ks Ps : List ℝ) (order : Nat) (dlnk r1 r2 : ℝ) (hd : 0 ≤ dlnk)
    (hk : ∀ k ∈ ks, 0 ≤ k) (hP : ∀ p ∈ Ps, 0 ≤ p) (hW : ∀ k ∈ ks, W (r2 * k) ^ 2 ≤ W (r1 * k) ^ 2) :
    sigmaDisc W ks Ps order dlnk r2 ≤ sigmaDisc W ks Ps order dlnk r1 := by
  unfold sigmaDisc
  simp only [sci_sqrt, sci_mul, sci_div, sci_ofInt, sci_npow, sci_pi, two_r]
  apply Real.sqrt_le_sqrt
  apply mul_le_mul_of_nonneg_left _ (by positivity)
  apply simps_mono _ _ hd
  apply forall₂_map_le
  intro kp hkp
  have h1 := hk kp.1 (List.of_mem_zip hkp).1
  have h2 := hP kp.2 (List.of_mem_zip hkp).2
  exact mul_le_mul_of_nonneg_left (hW kp.1 (List.of_mem_zip hkp).1) (by positivity)


/-! ## Simpson's rule commutes with differentiation in a parameter; the discrete σ² and its exact ln R-derivative -/
/-- samples that are differentiable functions of a parameter, with their derivatives at `t` -/
abbrev DerivAt (t : ℝ) (fs : List (ℝ → ℝ)) (ds : List ℝ) : Prop := List.Forall₂ (fun f d => HasDerivAt f d t) fs ds

theorem basicSimps_hasDerivAt (dx t : ℝ) : ∀ (fs : List (ℝ → ℝ)) (ds : List ℝ), DerivAt t fs ds →
    HasDerivAt (fun s => basicSimps dx (fs.map (· s))) (basicSimps dx ds) t
  | [], ds, h => by cases h; simpa [basicSimps] using hasDerivAt_const t (0:ℝ)
  | [f], ds, h => by
    obtain ⟨d0, t0, h0, ht0, rfl⟩ := List.forall₂_cons_left_iff.mp h
    cases ht0; simpa [basicSimps] using hasDerivAt_const t (0:ℝ)
  | [f0, f1], ds, h => by
    obtain ⟨d0, t0, h0, ht0, rfl⟩ := List.forall₂_cons_left_iff.mp h
    obtain ⟨d1, t1, h1, ht1, rfl⟩ := List.forall₂_cons_left_iff.mp ht0
    cases ht1; simpa [basicSimps] using hasDerivAt_const t (0:ℝ)
  | f0 :: f1 :: f2 :: rest, ds, h => by
    obtain ⟨d0, t0, h0, ht0, rfl⟩ := List.forall₂_cons_left_iff.mp h
    obtain ⟨d1, t1, h1, ht1, rfl⟩ := List.forall₂_cons_left_iff.mp ht0
    obtain ⟨d2, t2, h2, ht2, rfl⟩ := List.forall₂_cons_left_iff.mp ht1
    have ih := basicSimps_hasDerivAt dx t (f2 :: rest) (d2 :: t2) (List.Forall₂.cons h2 ht2)
    simp only [List.map_cons, basicSimps_cons3] at ih ⊢
    exact (((h0.add (h1.const_mul 4)).add h2).const_mul (dx / 3)).add ih

theorem derivAt_getD {t : ℝ} {fs : List (ℝ → ℝ)} {ds : List ℝ} (h : DerivAt t fs ds) (i : Nat) :
    HasDerivAt (fun s => (fs.map (· s)).getD i 0) (ds.getD i 0) t := by
  induction h generalizing i with
  | nil => simpa using hasDerivAt_const t (0:ℝ)
  | cons hab _ ih =>
    cases i with
    | zero => simpa using hab
    | succ n => simpa using ih n

/-- Simpson's rule commutes with differentiation with respect to a parameter of the samples -/
theorem simps_hasDerivAt (mode : Even) (dx t : ℝ) (fs : List (ℝ → ℝ)) (ds : List ℝ) (h : DerivAt t fs ds) :
    HasDerivAt (fun s => simps mode dx (fs.map (· s))) (simps mode dx ds) t := by
  have hl : fs.length = ds.length := h.length_eq
  unfold simps
  simp only [zero_r, two_r, sci_add, sci_div, List.length_map, hl]
  split
  · exact basicSimps_hasDerivAt dx t fs ds h
  · have h1 := basicSimps_hasDerivAt dx t _ _ (List.forall₂_take (ds.length - 1) h)
    have h2 := basicSimps_hasDerivAt dx t _ _ (List.forall₂_drop 1 h)
    have g := fun i => derivAt_getD h i
    have t1 : HasDerivAt (fun s => trap1 dx ((fs.map (· s)).getD (ds.length - 2) 0) ((fs.map (· s)).getD (ds.length - 1) 0))
        (trap1 dx (ds.getD (ds.length - 2) 0) (ds.getD (ds.length - 1) 0)) t := by
      simp only [trap1_r]; exact ((g _).add (g _)).const_mul _
    have t2 : HasDerivAt (fun s => trap1 dx ((fs.map (· s)).getD 0 0) ((fs.map (· s)).getD 1 0))
        (trap1 dx (ds.getD 0 0) (ds.getD 1 0)) t := by
      simp only [trap1_r]; exact ((g _).add (g _)).const_mul _
    simp only [List.map_take, List.map_drop] at h1 h2 ⊢
    cases mode
    · exact ((h1.add t1).add (h2.add t2)).div_const 2
    · exact h1.add t1
    · exact h2.add t2


theorem forall₂_map_map {β γ δ : Type} (R : γ → δ → Prop) (l : List β) (f : β → γ) (g : β → δ) (h : ∀ x ∈ l, R (f x) (g x)) :
    List.Forall₂ R (l.map f) (l.map g) := by
  induction l with
  | nil => simp
  | cons a t ih =>
    simp only [List.map_cons]
    exact List.Forall₂.cons (h a (by simp)) (ih (fun x hx => h x (by simp [hx])))

/-- one sample of the σ² integrand as a function of t = ln R -/
theorem window_sq_hasDerivAt (W dW : ℝ → ℝ) (c k t : ℝ) (hk : 0 < k)
    (hW : HasDerivAt (fun s => W (Real.exp s)) (dW (Real.exp t * k)) (Real.log (Real.exp t * k))) :
    HasDerivAt (fun s => c * W (Real.exp s * k) ^ 2) (c * (2 * W (Real.exp t * k) * dW (Real.exp t * k))) t := by
  have hx : 0 < Real.exp t * k := mul_pos (Real.exp_pos t) hk
  have h1 : HasDerivAt (fun s => W (Real.exp s * k)) (dW (Real.exp t * k)) t := by
    have hlog : Real.log (Real.exp t * k) = t + Real.log k := by
      rw [Real.log_mul (Real.exp_pos t).ne' hk.ne', Real.log_exp]
    have h2 := hW
    rw [hlog] at h2
    have h3 : HasDerivAt (fun s : ℝ => s + Real.log k) 1 t := (hasDerivAt_id t).add_const _
    have h4 := h2.scomp t h3
    simp only [smul_eq_mul, one_mul] at h4
    refine h4.congr_of_eventuallyEq (Filter.Eventually.of_forall ?_)
    intro s
    simp only [Function.comp]
    rw [Real.exp_add, Real.exp_log hk]
  have h5 := (h1.mul h1).const_mul c
  have hfun : (fun s => c * W (Real.exp s * k) ^ 2) = fun y => c * (W (Real.exp y * k) * W (Real.exp y * k)) := by funext y; ring
  rw [hfun]
  exact h5.congr_deriv (by ring)

/-- **C05, discrete level.** The Simpson sum defining σ² is differentiable in ln R whenever the window is, and its derivative is
    the Simpson sum of P k^(3+2n) · 2 W dW/dln(kR) over the *same* samples — the integrand `Filter.dlnss_dlnr` integrates. -/
theorem sigma2_hasDerivAt (W dW : ℝ → ℝ) (ks Ps : List ℝ) (order : Nat) (dlnk t : ℝ) (hk : ∀ k ∈ ks, 0 < k)
    (hW : ∀ k ∈ ks, HasDerivAt (fun s => W (Real.exp s)) (dW (Real.exp t * k)) (Real.log (Real.exp t * k))) :
    HasDerivAt (fun s => simps .avg dlnk ((ks.zip Ps).map (fun kp => kp.2 * kp.1 ^ (3 + 2 * order) * W (Real.exp s * kp.1) ^ 2)))
      (simps .avg dlnk ((ks.zip Ps).map (fun kp => kp.2 * kp.1 ^ (3 + 2 * order) * (2 * W (Real.exp t * kp.1) * dW (Real.exp t * kp.1))))) t := by
  have h := simps_hasDerivAt .avg dlnk t
    ((ks.zip Ps).map (fun kp => fun s => kp.2 * kp.1 ^ (3 + 2 * order) * W (Real.exp s * kp.1) ^ 2))
    ((ks.zip Ps).map (fun kp => kp.2 * kp.1 ^ (3 + 2 * order) * (2 * W (Real.exp t * kp.1) * dW (Real.exp t * kp.1))))
    (forall₂_map_map _ _ _ _ (fun kp hkp => window_sq_hasDerivAt W dW _ kp.1 t (hk kp.1 (List.of_mem_zip hkp).1) (hW kp.1 (List.of_mem_zip hkp).1)))
  simpa only [List.map_map, Function.comp_def] using h

/-- hence the logarithmic slope: d ln σ² / d ln R = simps(P k³ W dW) / (π² σ²), with σ² = (1/2π²)·simps(P k³ W²) -/
theorem dlnss_dlnr_exact (W dW : ℝ → ℝ) (ks Ps : List ℝ) (dlnk t : ℝ) (hk : ∀ k ∈ ks, 0 < k)
    (hW : ∀ k ∈ ks, HasDerivAt (fun s => W (Real.exp s)) (dW (Real.exp t * k)) (Real.log (Real.exp t * k)))
    (hpos : 0 < simps .avg dlnk ((ks.zip Ps).map (fun kp => kp.2 * kp.1 ^ 3 * W (Real.exp t * kp.1) ^ 2))) :
    HasDerivAt (fun s => Real.log (1 / 2 / Real.pi ^ 2 * simps .avg dlnk ((ks.zip Ps).map (fun kp => kp.2 * kp.1 ^ 3 * W (Real.exp s * kp.1) ^ 2))))
      (simps .avg dlnk ((ks.zip Ps).map (fun kp => kp.2 * kp.1 ^ 3 * (W (Real.exp t * kp.1) * dW (Real.exp t * kp.1)))) /
        (Real.pi ^ 2 * (1 / 2 / Real.pi ^ 2 * simps .avg dlnk ((ks.zip Ps).map (fun kp => kp.2 * kp.1 ^ 3 * W (Real.exp t * kp.1) ^ 2))))) t := by
  have h := (sigma2_hasDerivAt W dW ks Ps 0 dlnk t hk hW).const_mul (1 / 2 / Real.pi ^ 2)
  simp only [Nat.mul_zero, Nat.add_zero] at h
  have hpi : 0 < Real.pi ^ 2 := by positivity
  have hs : 0 < 1 / 2 / Real.pi ^ 2 * simps .avg dlnk ((ks.zip Ps).map (fun kp => kp.2 * kp.1 ^ 3 * W (Real.exp t * kp.1) ^ 2)) := by positivity
  have hl := h.log hs.ne'
  refine hl.congr_deriv ?_
  have e : (ks.zip Ps).map (fun kp => kp.2 * kp.1 ^ 3 * (2 * W (Real.exp t * kp.1) * dW (Real.exp t * kp.1)))
      = ((ks.zip Ps).map (fun kp => kp.2 * kp.1 ^ 3 * (W (Real.exp t * kp.1) * dW (Real.exp t * kp.1)))).map (2 * ·) := by
    rw [List.map_map]; congr 1; funext kp; simp only [Function.comp]; ring
  rw [e, simps_smul]
  generalize simps Even.avg dlnk ((ks.zip Ps).map (fun kp => kp.2 * kp.1 ^ 3 * (W (Real.exp t * kp.1) * dW (Real.exp t * kp.1)))) = A
  generalize simps Even.avg dlnk ((ks.zip Ps).map (fun kp => kp.2 * kp.1 ^ 3 * W (Real.exp t * kp.1) ^ 2)) = B at hpos hs ⊢
  have hB : B ≠ 0 := hpos.ne'
  have hp : Real.pi ≠ 0 := Real.pi_ne_zero
  field_simp

end Hmf.Quad
