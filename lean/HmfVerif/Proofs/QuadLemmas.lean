import HmfVerif.Model.Quad
import HmfVerif.Real.Basic
import Mathlib.Tactic
/-! linearity, positivity and telescoping of the quadrature kernels over ℝ -/
namespace Hmf.Quad
open Hmf

@[simp] theorem two_r : (two : ℝ) = 2 := by simp [two]
@[simp] theorem three_r : (three : ℝ) = 3 := by simp [three]
@[simp] theorem four_r : (four : ℝ) = 4 := by simp [four]
@[simp] theorem zero_r : (zero : ℝ) = 0 := by simp [zero]

theorem basicSimps_cons3 (dx y0 y1 y2 : ℝ) (rest : List ℝ) :
    basicSimps dx (y0 :: y1 :: y2 :: rest) = dx / 3 * (y0 + 4 * y1 + y2) + basicSimps dx (y2 :: rest) := by
  simp [basicSimps]

theorem basicSimps_smul (dx a : ℝ) : ∀ ys : List ℝ, basicSimps dx (ys.map (a * ·)) = a * basicSimps dx ys := by
  intro ys
  induction ys using basicSimps.induct (α := ℝ) with
  | case1 y0 y1 y2 rest ih =>
    simp only [List.map_cons, basicSimps_cons3] at ih ⊢
    rw [ih]; ring
  | case2 ys h =>
    match ys, h with
    | [], _ => simp [basicSimps]
    | [y], _ => simp [basicSimps]
    | [y0, y1], _ => simp [basicSimps]
    | y0 :: y1 :: y2 :: rest, h => exact absurd rfl (h y0 y1 y2 rest)

theorem basicSimps_nonneg (dx : ℝ) (hdx : 0 ≤ dx) : ∀ ys : List ℝ, (∀ y ∈ ys, 0 ≤ y) → 0 ≤ basicSimps dx ys := by
  intro ys
  induction ys using basicSimps.induct (α := ℝ) with
  | case1 y0 y1 y2 rest ih =>
    intro h
    rw [basicSimps_cons3]
    have h0 := h y0 (by simp); have h1 := h y1 (by simp); have h2 := h y2 (by simp)
    have := ih (fun y hy => h y (by simp at hy ⊢; tauto))
    positivity
  | case2 ys hne =>
    intro _
    match ys, hne with
    | [], _ => simp [basicSimps]
    | [y], _ => simp [basicSimps]
    | [y0, y1], _ => simp [basicSimps]
    | y0 :: y1 :: y2 :: rest, h => exact absurd rfl (h y0 y1 y2 rest)

theorem trap1_r (dx a b : ℝ) : trap1 dx a b = 1 / 2 * dx * (a + b) := by simp [trap1]

theorem getD_map_mul (a : ℝ) (ys : List ℝ) (i : Nat) : (ys.map (a * ·)).getD i 0 = a * ys.getD i 0 := by
  simp only [List.getD_eq_getElem?_getD, List.getElem?_map]
  cases ys[i]? <;> simp

/-- **linearity of the quadrature**: scaling the samples scales the integral, for every sample count and every `even` mode -/
theorem simps_smul (mode : Even) (dx a : ℝ) (ys : List ℝ) : simps mode dx (ys.map (a * ·)) = a * simps mode dx ys := by
  unfold simps
  simp only [List.length_map, zero_r, two_r, sci_add, sci_div]
  split
  · exact basicSimps_smul dx a ys
  · have h1 : basicSimps dx ((ys.map (a * ·)).take (ys.length - 1)) = a * basicSimps dx (ys.take (ys.length - 1)) := by
      rw [← List.map_take]; exact basicSimps_smul dx a _
    have h2 : basicSimps dx ((ys.map (a * ·)).drop 1) = a * basicSimps dx (ys.drop 1) := by
      rw [← List.map_drop]; exact basicSimps_smul dx a _
    cases mode <;> simp only [h1, h2, getD_map_mul, trap1_r] <;> ring

/-- the integral of non-negative samples with a non-negative step is non-negative -/
theorem simps_nonneg (mode : Even) (dx : ℝ) (hdx : 0 ≤ dx) (ys : List ℝ) (h : ∀ y ∈ ys, 0 ≤ y) : 0 ≤ simps mode dx ys := by
  unfold simps
  simp only [zero_r, two_r, sci_add, sci_div]
  have hget : ∀ i, 0 ≤ ys.getD i 0 := by
    intro i
    simp only [List.getD_eq_getElem?_getD]
    cases hi : ys[i]? with
    | none => simp
    | some v => simpa using h v (List.mem_of_getElem? hi)
  split
  · exact basicSimps_nonneg dx hdx ys h
  · have h1 := basicSimps_nonneg dx hdx (ys.take (ys.length - 1)) (fun y hy => h y (List.mem_of_mem_take hy))
    have h2 := basicSimps_nonneg dx hdx (ys.drop 1) (fun y hy => h y (List.mem_of_mem_drop hy))
    have t1 : 0 ≤ trap1 dx (ys.getD (ys.length - 2) 0) (ys.getD (ys.length - 1) 0) := by
      rw [trap1_r]; have := hget (ys.length - 2); have := hget (ys.length - 1); positivity
    have t2 : 0 ≤ trap1 dx (ys.getD 0 0) (ys.getD 1 0) := by
      rw [trap1_r]; have := hget 0; have := hget 1; positivity
    cases mode <;> simp only <;> positivity

/-- telescoping of the reverse cumulative trapezoid: consecutive entries differ by one trapezoid -/
theorem cumtrapzRev_step (dx a b : ℝ) (rest : List ℝ) :
    (cumtrapzRev dx (a :: b :: rest)).headD 0 - (cumtrapzRev dx (b :: rest)).headD 0 = 1 / 2 * dx * (a + b) := by
  simp [cumtrapzRev, trap1_r]

theorem cumtrapzRev_length (dx : ℝ) : ∀ ys : List ℝ, (cumtrapzRev dx ys).length = ys.length
  | [] => rfl
  | [_] => rfl
  | a :: b :: rest => by
    have := cumtrapzRev_length dx (b :: rest)
    simp only [cumtrapzRev, List.length_cons] at this ⊢
    omega

/-- the first entry of the reverse cumulative trapezoid is the trapezoid integral of the whole table -/
theorem cumtrapzRev_head_eq_trapz (dx : ℝ) : ∀ ys : List ℝ, (cumtrapzRev dx ys).headD 0 = trapz dx ys
  | [] => by simp [cumtrapzRev, trapz]
  | [_] => by simp [cumtrapzRev, trapz]
  | a :: b :: rest => by
    have ih := cumtrapzRev_head_eq_trapz dx (b :: rest)
    simp only [cumtrapzRev, trapz, List.headD_cons, sci_add, zero_r] at ih ⊢
    rw [ih]

theorem trapz_nonneg (dx : ℝ) (hdx : 0 ≤ dx) : ∀ ys : List ℝ, (∀ y ∈ ys, 0 ≤ y) → 0 ≤ trapz dx ys
  | [], _ => by simp [trapz]
  | [_], _ => by simp [trapz]
  | a :: b :: rest, h => by
    have ih := trapz_nonneg dx hdx (b :: rest) (fun y hy => h y (by simp at hy ⊢; tauto))
    have ha := h a (by simp); have hb := h b (by simp)
    simp only [trapz, sci_add, trap1_r]
    positivity

end Hmf.Quad
