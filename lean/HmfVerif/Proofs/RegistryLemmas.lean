import HmfVerif.Model.Registry
namespace Hmf.Reg

theorem define_hit (r : Registry) (d : Def) (h : d.abstract = false) :
    getMdl (define r d) d.kind d.name = some d.cls := by
  simp [getMdl, define, h]

theorem define_miss (r : Registry) (d : Def) (k n : Nat) (h : ¬ (k = d.kind ∧ n = d.name)) :
    getMdl (define r d) k n = getMdl r k n := by
  unfold getMdl define
  split
  · rfl
  · simp [h]

theorem define_abstract (r : Registry) (d : Def) (h : d.abstract = true) : define r d = r := by
  simp [define, h]

/-- lookup after a whole sequence of class statements = the **last** non-abstract definition of
    that (kind, name), else what was there before -/
theorem defineAll_spec (ds : List Def) : ∀ (r : Registry) (k n : Nat),
    getMdl (defineAll r ds) k n =
      match (ds.reverse.find? (fun d => !d.abstract && d.kind == k && d.name == n)) with
      | some d => some d.cls
      | none => getMdl r k n := by
  induction ds with
  | nil => intro r k n; rfl
  | cons d rest ih =>
    intro r k n
    simp only [defineAll, List.foldl_cons] at ih ⊢
    rw [ih (define r d) k n]
    simp only [List.reverse_cons, List.find?_append]
    cases hf : rest.reverse.find? (fun d => !d.abstract && d.kind == k && d.name == n) with
    | some d' => simp
    | none =>
      simp only [Option.none_or, List.find?_cons, List.find?_nil]
      by_cases hd : (!d.abstract && d.kind == k && d.name == n) = true
      · simp only [hd]
        simp only [Bool.and_eq_true, Bool.not_eq_true', beq_iff_eq] at hd
        obtain ⟨⟨ha, hk⟩, hn⟩ := hd
        subst hk; subst hn
        exact define_hit r d ha
      · have hd' : (!d.abstract && d.kind == k && d.name == n) = false := by simpa using hd
        simp only [hd']
        by_cases ha : d.abstract = true
        · rw [define_abstract r d ha]
        · apply define_miss
          intro ⟨hk, hn⟩
          apply hd
          simp [ha, hk, hn]

theorem hasKey_setKey (d : Params) (k v k' : Nat) : hasKey (setKey d k v) k' = hasKey d k' := by
  induction d with
  | nil => rfl
  | cons kv rest ih =>
    obtain ⟨k0, v0⟩ := kv
    simp only [setKey]
    split
    · simp [hasKey]
    · simp only [hasKey, List.any_cons] at ih ⊢; rw [ih]

theorem lookup_setKey_same (d : Params) (k v : Nat) (h : hasKey d k = true) :
    (setKey d k v).lookup k = some v := by
  induction d with
  | nil => simp [hasKey] at h
  | cons kv rest ih =>
    obtain ⟨k0, v0⟩ := kv
    simp only [setKey]
    split
    · rename_i hk; subst hk; simp [List.lookup]
    · rename_i hk
      have hne : (k == k0) = false := by simpa using fun h => hk h.symm
      have : hasKey rest k = true := by
        simp only [hasKey, List.any_cons, Bool.or_eq_true, beq_iff_eq] at h
        rcases h with h | h
        · exact absurd h hk
        · exact h
      simp [List.lookup, hne, ih this]

theorem lookup_setKey_other (d : Params) (k v k' : Nat) (h : k' ≠ k) :
    (setKey d k v).lookup k' = d.lookup k' := by
  induction d with
  | nil => rfl
  | cons kv rest ih =>
    obtain ⟨k0, v0⟩ := kv
    simp only [setKey]
    split
    · rename_i hk; subst hk
      have : (k' == k0) = false := by simpa using h
      simp [List.lookup, this]
    · simp only [List.lookup]; split <;> simp_all

end Hmf.Reg
