import HmfVerif.Model.Table
import HmfVerif.Real.Basic
import Mathlib.Tactic
/-!
# Lemmas about the table-driven transfer models over ℝ (`Hmf.Table` at carrier ℝ)
-/
namespace Hmf.Table
open Hmf

abbrev RK := Knot ℝ

/-- the wavenumbers of a table increase strictly -/
def Sorted (tab : List RK) : Prop := tab.Pairwise (fun a b => a.1 < b.1)

theorem seg_left (a b : RK) : seg a b a.1 = a.2 := by simp [seg]

theorem seg_right (a b : RK) (h : a.1 < b.1) : seg a b b.1 = b.2 := by
  have : b.1 - a.1 ≠ 0 := by linarith [h, sub_pos.mpr h]
  simp only [seg, sci_add, sci_mul, sci_div, sci_sub]
  field_simp; ring

/-- on its own interval a segment stays between the two tabulated values -/
theorem seg_between (a b : RK) (x : ℝ) (h : a.1 < b.1) (hx1 : a.1 ≤ x) (hx2 : x ≤ b.1) :
    min a.2 b.2 ≤ seg a b x ∧ seg a b x ≤ max a.2 b.2 := by
  have hd : 0 < b.1 - a.1 := sub_pos.mpr h
  simp only [seg, sci_add, sci_mul, sci_div, sci_sub]
  set t := (x - a.1) / (b.1 - a.1) with ht
  have ht0 : 0 ≤ t := div_nonneg (by linarith) hd.le
  have ht1 : t ≤ 1 := by rw [ht, div_le_one hd]; linarith
  have e : a.2 + (b.2 - a.2) / (b.1 - a.1) * (x - a.1) = (1 - t) * a.2 + t * b.2 := by
    rw [ht]; field_simp; ring
  rw [e]
  constructor
  · have h1 : min a.2 b.2 ≤ a.2 := min_le_left _ _
    have h2 : min a.2 b.2 ≤ b.2 := min_le_right _ _
    nlinarith [mul_le_mul_of_nonneg_left h1 (by linarith : 0 ≤ 1 - t), mul_le_mul_of_nonneg_left h2 ht0]
  · have h1 : a.2 ≤ max a.2 b.2 := le_max_left _ _
    have h2 : b.2 ≤ max a.2 b.2 := le_max_right _ _
    nlinarith [mul_le_mul_of_nonneg_left h1 (by linarith : 0 ≤ 1 - t), mul_le_mul_of_nonneg_left h2 ht0]

theorem interp_cons_cons (a b : RK) (rest : List RK) (x : ℝ) :
    interp (a :: b :: rest) x = if rest.isEmpty || decide (x < b.1) then seg a b x else interp (b :: rest) x := by
  simp [interp]

/-- at or beyond the second knot (and with at least three knots) the first knot is irrelevant -/
theorem interp_skip (a b c : RK) (rest : List RK) (x : ℝ) (hx : b.1 ≤ x) :
    interp (a :: b :: c :: rest) x = interp (b :: c :: rest) x := by
  rw [interp_cons_cons]
  have : ¬ x < b.1 := not_lt.mpr hx
  simp [this]

/-- **nodes are reproduced**: a degree-1 interpolating spline through strictly increasing knots returns every tabulated value at
    its own wavenumber -/
theorem interp_node : ∀ (tab : List RK), Sorted tab → ∀ p ∈ tab, interp tab p.1 = p.2
  | [], _, p, hp => by simp at hp
  | [a], _, p, hp => by
      simp only [List.mem_singleton] at hp; subst hp; simp [interp]
  | a :: b :: rest, hs, p, hp => by
      have hab : a.1 < b.1 := by
        have := List.pairwise_cons.mp hs; exact this.1 b (by simp)
      have hs' : Sorted (b :: rest) := (List.pairwise_cons.mp hs).2
      rw [interp_cons_cons]
      rcases List.mem_cons.mp hp with rfl | hp'
      · -- first knot: p.1 < b.1
        have : (rest.isEmpty || decide (p.1 < b.1)) = true := by simp [hab]
        rw [if_pos this]; exact seg_left p b
      · by_cases hr : rest.isEmpty = true
        · -- two knots only: p = b
          have hrest : rest = [] := List.isEmpty_iff.mp hr
          subst hrest
          simp only [List.mem_singleton] at hp'; subst hp'
          simp [seg_right a p hab]
        · have hge : b.1 ≤ p.1 := by
            rcases List.mem_cons.mp hp' with rfl | hp''
            · exact le_refl _
            · exact le_of_lt ((List.pairwise_cons.mp hs').1 p hp'')
          have hnl : ¬ p.1 < b.1 := not_lt.mpr hge
          have : (rest.isEmpty || decide (p.1 < b.1)) = false := by simp [hr, hnl]
          rw [this]; simp only [Bool.false_eq_true, if_false]
          exact interp_node (b :: rest) hs' p hp'

/-- between the first and the last knot the interpolant stays between the smallest and the largest tabulated value -/
theorem interp_bounds : ∀ (tab : List RK), Sorted tab → ∀ (lo hi x : ℝ), (∀ p ∈ tab, lo ≤ p.2 ∧ p.2 ≤ hi) →
    (∀ a, tab.head? = some a → a.1 ≤ x) → (∀ z, tab.getLast? = some z → x ≤ z.1) → tab ≠ [] → lo ≤ interp tab x ∧ interp tab x ≤ hi
  | [], _, _, _, _, _, _, _, hne => absurd rfl hne
  | [a], _, lo, hi, x, hb, _, _, _ => by simpa [interp] using hb a (by simp)
  | a :: b :: rest, hs, lo, hi, x, hb, hh, hl, _ => by
      have hab : a.1 < b.1 := (List.pairwise_cons.mp hs).1 b (by simp)
      have hs' : Sorted (b :: rest) := (List.pairwise_cons.mp hs).2
      have hax : a.1 ≤ x := hh a rfl
      have ha := hb a (by simp)
      have hbb := hb b (by simp)
      rw [interp_cons_cons]
      by_cases hx : x < b.1
      · have : (rest.isEmpty || decide (x < b.1)) = true := by simp [hx]
        rw [if_pos this]
        obtain ⟨h1, h2⟩ := seg_between a b x hab hax hx.le
        exact ⟨le_trans (le_min ha.1 hbb.1) h1, le_trans h2 (max_le ha.2 hbb.2)⟩
      · by_cases hr : rest.isEmpty = true
        · have hrest : rest = [] := List.isEmpty_iff.mp hr
          subst hrest
          have hxb : x ≤ b.1 := hl b (by simp)
          simp only [List.isEmpty_nil, Bool.true_or, if_true]
          obtain ⟨h1, h2⟩ := seg_between a b x hab hax hxb
          exact ⟨le_trans (le_min ha.1 hbb.1) h1, le_trans h2 (max_le ha.2 hbb.2)⟩
        · have : (rest.isEmpty || decide (x < b.1)) = false := by simp [hr, hx]
          rw [this]; simp only [Bool.false_eq_true, if_false]
          refine interp_bounds (b :: rest) hs' lo hi x (fun p hp => hb p (List.mem_cons_of_mem _ hp)) ?_ ?_ (by simp)
          · intro a' ha'; simp only [List.head?_cons, Option.some.injEq] at ha'; subst ha'; exact not_lt.mp hx
          · intro z hz; apply hl z
            rw [List.getLast?_cons_cons]; exact hz

/-! ### `_check_low_k` -/

theorem firstFlat_lt : ∀ (tab : List RK) (s : Nat), firstFlat tab = some s → s + 2 ≤ tab.length
  | [], s, h => by simp [firstFlat] at h
  | [_], s, h => by simp [firstFlat] at h
  | a :: b :: rest, s, h => by
      simp only [firstFlat] at h
      split at h
      · simp only [Option.some.injEq] at h; subst h; simp
      · cases hf : firstFlat (b :: rest) with
        | none => simp [hf] at h
        | some s' =>
          simp only [hf, Option.map_some, Option.some.injEq] at h; subst h
          have := firstFlat_lt (b :: rest) s' hf
          simp only [List.length_cons] at this ⊢; omega

/-- `start + 2 ≤ length` for every table with at least two rows: the patch always keeps at least two knots -/
theorem start_lt (tab : List RK) (h : 2 ≤ tab.length) : start tab + 2 ≤ tab.length := by
  unfold start
  cases hf : firstFlat tab with
  | none => simpa using h
  | some s => simpa using firstFlat_lt tab s hf

/-- the shape of the patched table: the first `start` rows dropped, the first remaining wavenumber replaced, nothing else touched -/
theorem checkLowK_shape (tab : List RK) (m : ℝ) (h : 2 ≤ tab.length) :
    ∃ a, tab[start tab]? = some a ∧ checkLowK tab m = (m, a.2) :: tab.drop (start tab + 1) := by
  have hs := start_lt tab h
  have hlt : start tab < tab.length := by omega
  refine ⟨tab[start tab], by simp [hlt], ?_⟩
  unfold checkLowK
  rw [List.drop_eq_getElem_cons hlt]

/-- the last tabulated row always survives the patch (the defect repaired by `dfad1c4`: the old code dropped it) -/
theorem checkLowK_getLast (tab : List RK) (m : ℝ) (h : 2 ≤ tab.length) : (checkLowK tab m).getLast? = tab.getLast? := by
  obtain ⟨a, _, hc⟩ := checkLowK_shape tab m h
  have hs := start_lt tab h
  rw [hc]
  have hne : tab.drop (start tab + 1) ≠ [] := by
    intro h0; have := congrArg List.length h0; simp at this; omega
  rw [List.getLast?_cons_of_ne_nil hne] <;> try exact hne
  rw [List.getLast?_drop]
  have : ¬ tab.length ≤ start tab + 1 := by omega
  simp [this]

theorem checkLowK_length (tab : List RK) (m : ℝ) (h : 2 ≤ tab.length) : (checkLowK tab m).length = tab.length - start tab := by
  obtain ⟨a, _, hc⟩ := checkLowK_shape tab m h
  have hs := start_lt tab h
  rw [hc]; simp; omega

/-- a request that starts inside the table (first requested wavenumber not below the first tabulated one — equality included) uses
    the table as it is -/
theorem knots_inside (a : RK) (rest : List RK) (x0 : ℝ) (h : a.1 ≤ x0) : knots (a :: rest) x0 = a :: rest := by
  have : ¬ x0 < a.1 := not_lt.mpr h
  simp [knots, this]

theorem knots_below (a : RK) (rest : List RK) (x0 : ℝ) (h : x0 < a.1) : knots (a :: rest) x0 = checkLowK (a :: rest) x0 := by
  simp [knots, h]

/-- a patched table is still strictly increasing when the requested minimum lies below the table -/
theorem checkLowK_sorted (tab : List RK) (m : ℝ) (hs : Sorted tab) (h : 2 ≤ tab.length)
    (hm : ∀ a, tab.head? = some a → m < a.1) : Sorted (checkLowK tab m) := by
  obtain ⟨a, ha, hc⟩ := checkLowK_shape tab m h
  rw [hc]
  have hst := start_lt tab h
  refine List.pairwise_cons.mpr ⟨?_, ?_⟩
  · intro p hp
    -- every remaining wavenumber is ≥ the first tabulated one > m
    obtain ⟨h0, hh0⟩ : ∃ h0, tab.head? = some h0 := by
      cases tab with
      | nil => simp at h
      | cons x xs => exact ⟨x, rfl⟩
    have hm0 := hm h0 hh0
    have hpm : p ∈ tab := List.mem_of_mem_drop hp
    have : h0.1 ≤ p.1 := by
      cases tab with
      | nil => simp at h
      | cons x xs =>
        simp only [List.head?_cons, Option.some.injEq] at hh0; subst hh0
        rcases List.mem_cons.mp hpm with rfl | hx
        · exact le_refl _
        · exact le_of_lt ((List.pairwise_cons.mp hs).1 p hx)
    show m < p.1
    linarith
  · exact (List.Pairwise.sublist (List.drop_sublist _ _) hs)

/-- skipping `s` leading knots does not change the value at or beyond knot `s+1` (when at least two knots follow knot `s`) -/
theorem interp_drop : ∀ (s : Nat) (tab : List RK) (x : ℝ), Sorted tab → s + 3 ≤ tab.length →
    (∀ b, tab[s + 1]? = some b → b.1 ≤ x) → interp tab x = interp (tab.drop s) x
  | 0, tab, x, _, _, _ => by simp
  | s + 1, [], x, _, h, _ => by simp at h
  | s + 1, [_], x, _, h, _ => by simp at h
  | s + 1, [_, _], x, _, h, _ => by simp at h
  | s + 1, a :: b :: c :: rest, x, hs, h, hx => by
      have hs' : Sorted (b :: c :: rest) := (List.pairwise_cons.mp hs).2
      have hlen : s + 3 ≤ (b :: c :: rest).length := by simp only [List.length_cons] at h ⊢; omega
      have hx' : ∀ d, (b :: c :: rest)[s + 1]? = some d → d.1 ≤ x := by
        intro d hd; apply hx d; simpa using hd
      -- b.1 ≤ x, because b.1 ≤ (knot s+2 of the full table).1 ≤ x
      have hlt : s + 1 < (b :: c :: rest).length := by omega
      have hbx : b.1 ≤ x := by
        have hd := hx' ((b :: c :: rest)[s + 1]) (by simp [hlt])
        have hmem : (b :: c :: rest)[s + 1] ∈ c :: rest := by
          have : (b :: c :: rest)[s + 1] = (c :: rest)[s]'(by simp only [List.length_cons] at hlt ⊢; omega) := by simp
          rw [this]; exact List.getElem_mem _
        have := (List.pairwise_cons.mp hs').1 _ hmem
        linarith
      rw [interp_skip a b c rest x hbx, List.drop_succ_cons]
      exact interp_drop s (b :: c :: rest) x hs' hlen hx'

/-- **the value does not depend on where the request starts**: at and beyond the second kept knot, the patched table (request starting
    below the table) interpolates exactly like the unpatched one (request starting inside it) -/
theorem checkLowK_same_beyond_patch (tab : List RK) (m x : ℝ) (hs : Sorted tab) (h : start tab + 3 ≤ tab.length)
    (hx : ∀ b, tab[start tab + 1]? = some b → b.1 ≤ x) : interp (checkLowK tab m) x = interp tab x := by
  obtain ⟨a, ha, hc⟩ := checkLowK_shape tab m (by omega)
  rw [hc, interp_drop (start tab) tab x hs h hx]
  have hlt : start tab < tab.length := by omega
  rw [List.drop_eq_getElem_cons hlt]
  -- the remaining list has at least two more knots b :: c :: r
  have h1 : start tab + 1 < tab.length := by omega
  have h2 : start tab + 2 < tab.length := by omega
  rw [List.drop_eq_getElem_cons h1, List.drop_eq_getElem_cons h2]
  have hbx := hx (tab[start tab + 1]) (by simp [h1])
  rw [interp_skip _ _ _ _ x hbx, interp_skip _ _ _ _ x hbx]

/-- the value returned at the request's own first wavenumber (below the table) is the first kept tabulated value: the table is
    extended downwards by a constant, finitely and continuously -/
theorem checkLowK_value_at_min (tab : List RK) (m : ℝ) (hs : Sorted tab) (h : 2 ≤ tab.length)
    (hm : ∀ a, tab.head? = some a → m < a.1) :
    ∃ a, tab[start tab]? = some a ∧ interp (checkLowK tab m) m = a.2 := by
  obtain ⟨a, ha, hc⟩ := checkLowK_shape tab m h
  refine ⟨a, ha, ?_⟩
  have hsorted := checkLowK_sorted tab m hs h hm
  have := interp_node (checkLowK tab m) hsorted (m, a.2) (by rw [hc]; simp)
  simpa using this

end Hmf.Table
