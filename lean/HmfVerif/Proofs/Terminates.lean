import HmfVerif.Model.Desc
import HmfVerif.Proofs.Coherence
/-!
# Termination: on a well-formed descriptor every evaluation finishes within an explicit fuel bound
(so no coherence statement is vacuous through fuel exhaustion). Core Lean only.
-/
namespace Hmf
open ClassDesc

theorem bodyOf_mem (C : ClassDesc) (o : Nat) (n : Name) (t : Tm) (h : C.bodyOf o n = some t) :
    (o, n, t) ∈ C.bodies := by
  unfold bodyOf at h
  cases hf : C.bodies.find? (fun b => b.1 == o && b.2.1 == n) with
  | none => simp [hf] at h
  | some b =>
    simp only [hf, Option.map_some, Option.some.injEq] at h
    have hm := List.mem_of_find?_eq_some hf
    have hp := List.find?_some hf
    simp only [Bool.and_eq_true, beq_iff_eq] at hp
    obtain ⟨b1, b2, b3⟩ := b
    simp only at hp h
    obtain ⟨h1, h2⟩ := hp
    subst h1; subst h2; subst h
    exact hm

/-- fuel that suffices for a term whose reads sit below height `h` -/
def fuelBound (C : ClassDesc) (h : Nat) (t : Tm) : Nat := t.depth + 1 + h * (C.maxDepth + 2)

theorem evalPure_total (C : ClassDesc) (I : Nat → Val → Bool) (N : Nat → Val → Val) (vd : Name → Vd)
    (hwf : C.wfReads = true) (pv : Name → Val) :
    ∀ (h : Nat) (t : Tm), C.okReads h t = true → ∀ f, fuelBound C h t ≤ f →
      ∃ r, evalPure (C.toEnv I N vd) pv f t = some r := by
  intro h
  induction h using Nat.strongRecOn with
  | _ h ihh =>
    intro t
    induction t with
    | p x => intro _ f hf; cases f with
      | zero => simp [fuelBound] at hf
      | succ f => exact ⟨_, rfl⟩
    | const c => intro _ f hf; cases f with
      | zero => simp [fuelBound] at hf
      | succ f => exact ⟨_, rfl⟩
    | q m =>
      intro hok f hf
      simp only [okReads, Bool.and_eq_true, decide_eq_true_eq] at hok
      obtain ⟨hsome, hlt⟩ := hok
      cases hb : C.bodyOf (C.resolve m) m with
      | none => simp [hb] at hsome
      | some tb =>
        have hmem := bodyOf_mem C _ _ _ hb
        have hall : C.bodies.all (fun b => okReads C (C.hgtOf b.1 b.2.1) b.2.2 && decide (b.2.2.depth ≤ C.maxDepth) &&
                         decide (C.hgtOf b.1 b.2.1 ≤ C.maxHgt)) = true := by
          unfold wfReads at hwf; simp only [Bool.and_eq_true] at hwf; exact hwf.1
        have hb' := List.all_eq_true.mp hall _ hmem
        simp only [Bool.and_eq_true, decide_eq_true_eq] at hb'
        obtain ⟨⟨hokb, hdep⟩, _⟩ := hb'
        cases f with
        | zero => simp [fuelBound] at hf
        | succ f =>
          have hfb : fuelBound C (C.hgtOf (C.resolve m) m) tb ≤ f := by
            simp only [fuelBound, Tm.depth] at hf ⊢
            have : (C.hgtOf (C.resolve m) m + 1) * (C.maxDepth + 2) ≤ h * (C.maxDepth + 2) :=
              Nat.mul_le_mul_right _ hlt
            rw [Nat.add_mul] at this
            omega
          obtain ⟨r, hr⟩ := ihh _ hlt tb hokb f hfb
          refine ⟨r, ?_⟩
          simp only [evalPure, toEnv, hb, Option.getD_some]
          exact hr
    | sup o n =>
      intro hok f hf
      simp only [okReads, Bool.and_eq_true, decide_eq_true_eq] at hok
      obtain ⟨hsome, hlt⟩ := hok
      cases hb : C.bodyOf o n with
      | none => simp [hb] at hsome
      | some tb =>
        have hmem := bodyOf_mem C _ _ _ hb
        have hall : C.bodies.all (fun b => okReads C (C.hgtOf b.1 b.2.1) b.2.2 && decide (b.2.2.depth ≤ C.maxDepth) &&
                         decide (C.hgtOf b.1 b.2.1 ≤ C.maxHgt)) = true := by
          unfold wfReads at hwf; simp only [Bool.and_eq_true] at hwf; exact hwf.1
        have hb' := List.all_eq_true.mp hall _ hmem
        simp only [Bool.and_eq_true, decide_eq_true_eq] at hb'
        obtain ⟨⟨hokb, hdep⟩, _⟩ := hb'
        cases f with
        | zero => simp [fuelBound] at hf
        | succ f =>
          have hfb : fuelBound C (C.hgtOf o n) tb ≤ f := by
            simp only [fuelBound, Tm.depth] at hf ⊢
            have : (C.hgtOf o n + 1) * (C.maxDepth + 2) ≤ h * (C.maxDepth + 2) :=
              Nat.mul_le_mul_right _ hlt
            rw [Nat.add_mul] at this
            omega
          obtain ⟨r, hr⟩ := ihh _ hlt tb hokb f hfb
          refine ⟨r, ?_⟩
          simp only [evalPure, toEnv, hb, Option.getD_some]
          exact hr
    | pair k a b iha ihb =>
      intro hok f hf
      simp only [okReads, Bool.and_eq_true] at hok
      cases f with
      | zero => simp [fuelBound] at hf
      | succ f =>
        have hfa : fuelBound C h a ≤ f := by simp only [fuelBound, Tm.depth] at hf ⊢; omega
        have hfb : fuelBound C h b ≤ f := by simp only [fuelBound, Tm.depth] at hf ⊢; omega
        obtain ⟨ra, hra⟩ := iha hok.1 f hfa
        obtain ⟨rb, hrb⟩ := ihb hok.2 f hfb
        obtain ⟨ra1, ra2⟩ := ra
        obtain ⟨rb1, rb2⟩ := rb
        simp only [evalPure, hra, hrb]
        cases ra1 <;> cases rb1 <;> exact ⟨_, rfl⟩
    | ite c g t e ihg iht ihe =>
      intro hok f hf
      simp only [okReads, Bool.and_eq_true] at hok
      cases f with
      | zero => simp [fuelBound] at hf
      | succ f =>
        have hfg : fuelBound C h g ≤ f := by simp only [fuelBound, Tm.depth] at hf ⊢; omega
        have hft : fuelBound C h t ≤ f := by simp only [fuelBound, Tm.depth] at hf ⊢; omega
        have hfe : fuelBound C h e ≤ f := by simp only [fuelBound, Tm.depth] at hf ⊢; omega
        obtain ⟨rg, hrg⟩ := ihg hok.1.1 f hfg
        obtain ⟨rt, hrt⟩ := iht hok.1.2 f hft
        obtain ⟨re, hre⟩ := ihe hok.2 f hfe
        obtain ⟨rg1, rg2⟩ := rg
        simp only [evalPure, hrg]
        cases rg1 with
        | error x => exact ⟨_, rfl⟩
        | ok vg =>
          simp only
          by_cases hc : (C.toEnv I N vd).I c vg = true
          · simp only [hc, if_true, hrt]; exact ⟨_, rfl⟩
          · have hc' : (C.toEnv I N vd).I c vg = false := by simpa using hc
            simp only [hc', Bool.false_eq_true, if_false, hre]; exact ⟨_, rfl⟩
    | raiseIf c g k ihg ihk =>
      intro hok f hf
      simp only [okReads, Bool.and_eq_true] at hok
      cases f with
      | zero => simp [fuelBound] at hf
      | succ f =>
        have hfg : fuelBound C h g ≤ f := by simp only [fuelBound, Tm.depth] at hf ⊢; omega
        have hfk : fuelBound C h k ≤ f := by simp only [fuelBound, Tm.depth] at hf ⊢; omega
        obtain ⟨rg, hrg⟩ := ihg hok.1 f hfg
        obtain ⟨rk, hrk⟩ := ihk hok.2 f hfk
        obtain ⟨rg1, rg2⟩ := rg
        simp only [evalPure, hrg]
        cases rg1 with
        | error x => exact ⟨_, rfl⟩
        | ok vg =>
          simp only
          split
          · exact ⟨_, rfl⟩
          · simp only [hrk]; exact ⟨_, rfl⟩

end Hmf
