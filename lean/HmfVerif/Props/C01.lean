import HmfVerif.Proofs.History
import HmfVerif.Proofs.Terminates
import HmfVerif.Gen.Desc
/-!
# C01 — cached outputs always equal a fresh computation

Property theorems only (helper lemmas live in `Proofs/`).  All statements are about the machine `M'`
(`Model/Cache.lean`), for **every** class descriptor `E` (any bodies, any override/`super`
structure, any Boolean oracle for data-dependent branches, any validators), from **every**
coherent state and for **every** finite history; no bound on lengths, names or nesting.
-/
namespace Hmf.C01

/-- C01 (main): every answer in any history equals the answer of the cache-free specification —
    i.e. of a freshly constructed object holding the current parameter values — value or exception. -/
theorem coherent_after_history (E : Env) (fuel : Nat) (ops : List Op) (s : St) (h : CInv E s)
    (i : Nat) (o : Out) (ho : (run E fuel s ops).1[i]? = some o) (hne : o ≠ .nofuel) :
    ∃ f', (specRun E f' s.pv ops).1[i]? = some o :=
  run_coherent E fuel ops s h i o ho hne

/-- a freshly constructed object is a legitimate starting state -/
theorem fresh_is_coherent (E : Env) (pv : Name → Val) : CInv E (St.fresh pv) := fresh_inv E pv

/-- C01: the reported parameter values evolve exactly as in the specification (last successfully
    applied values; a rejected value changes nothing; `update` applies a prefix up to the first
    rejected value), independently of which quantities were read in between. -/
theorem params_are_last_applied (E : Env) (fuel f' : Nat) (ops : List Op) (s : St) (h : CInv E s) :
    (specRun E f' s.pv ops).2 = (run E fuel s ops).2.pv :=
  run_pv E fuel f' ops s h

/-- a rejected direct assignment leaves parameters untouched -/
theorem rejected_set_changes_nothing (E : Env) (pv : Name → Val) (n : Name) (v : Val) (e : Exn) (f : Nat)
    (hr : runVd E n v = .error e) : specStep E f pv (.set n v) = (.exn e, pv) := by
  simp [specStep, hr]

/-- C01 (dict parameters): a non-empty dict merges key-wise (right-biased). -/
theorem dict_merge_spec (a : List (Nat × Nat)) (b : Nat × Nat) (bs : List (Nat × Nat)) :
    storeVal (.dict a) (.dict (b :: bs)) = .dict (dictMerge a (b :: bs)) := rfl

/-- C01 (dict parameters): the empty dict clears. -/
theorem dict_empty_clears (a : List (Nat × Nat)) : storeVal (.dict a) (.dict []) = .dict [] := rfl

/-- C01 (dict parameters): merging looks up right-biased: a key of the new dict gets the new value. -/
theorem dictInsert_lookup (l : List (Nat × Nat)) (k v : Nat) :
    (dictInsert l (k, v)).lookup k = some v := by
  induction l with
  | nil => simp [dictInsert]
  | cons kv rest ih =>
    obtain ⟨k0, w0⟩ := kv
    simp only [dictInsert]
    split
    · simp [List.lookup]
    · split
      · rename_i h; subst h; simp [List.lookup]
      · rename_i h1 h2
        have : (k == k0) = false := by simpa using h2
        simp [List.lookup, this, ih]

/-- keys other than the inserted one keep their value -/
theorem dictInsert_lookup_ne (l : List (Nat × Nat)) (k v k' : Nat) (h : k' ≠ k) :
    (dictInsert l (k, v)).lookup k' = l.lookup k' := by
  have hb : (k' == k) = false := by simpa using h
  induction l with
  | nil => simp [dictInsert, List.lookup, hb]
  | cons kv rest ih =>
    obtain ⟨k0, w0⟩ := kv
    simp only [dictInsert]
    split
    · simp [List.lookup, hb]
    · split
      · rename_i h2; subst h2; simp [List.lookup, hb]
      · simp only [List.lookup]; split <;> simp_all

/-! ## The real classes (descriptors regenerated from /repo/src by `tools/pyflow.py` on every run) -/

/-- the translator met no Python it could not express -/
theorem translator_total : Gen.unsupported = [] := by decide

/-- W1–W5 for the five framework classes as they are in the source **now**: acyclic read graph with
    a topological certificate, every read a declared parameter or an existing quantity body (no
    plain-attribute or hidden-slot reads of instance state), constructor keywords = declared
    parameters each assigned, no writes to `self` inside bodies, no mutable default arguments, no
    sub-frameworks. -/
theorem real_classes_wf : Gen.allDescs.all (fun c => c.2.WF) = true := by decide +kernel

/-- On a well-formed class every quantity read terminates within an explicit fuel bound, for every
    parameter valuation, oracle and validator assignment — so `coherent_after_history` is never
    vacuous through fuel exhaustion. -/
theorem eval_terminates (C : ClassDesc) (I : Nat → Val → Bool) (N : Nat → Val → Val) (vd : Name → Vd)
    (hwf : C.WF = true) (pv : Name → Val) (n : Name) (hq : (C.bodyOf (C.resolve n) n).isSome = true) (f : Nat)
    (hf : C.coneFuel ≤ f) : ∃ r, evalPure (C.toEnv I N vd) pv f (.q n) = some r := by
  have hwr : C.wfReads = true := by
    unfold ClassDesc.WF at hwf; simp only [Bool.and_eq_true] at hwf; exact hwf.1.1.1
  have hok : C.okReads (C.maxHgt + 1) (.q n) = true := by
    simp only [ClassDesc.okReads, Bool.and_eq_true, decide_eq_true_eq]
    refine ⟨hq, ?_⟩
    cases hb : C.bodyOf (C.resolve n) n with
    | none => simp [hb] at hq
    | some tb =>
      have hmem := bodyOf_mem C _ _ _ hb
      have hall : C.bodies.all (fun b => ClassDesc.okReads C (C.hgtOf b.1 b.2.1) b.2.2 && decide (b.2.2.depth ≤ C.maxDepth) &&
                       decide (C.hgtOf b.1 b.2.1 ≤ C.maxHgt)) = true := by
        unfold ClassDesc.wfReads at hwr; simp only [Bool.and_eq_true] at hwr; exact hwr.1
      have hb' := List.all_eq_true.mp hall _ hmem
      simp only [Bool.and_eq_true, decide_eq_true_eq] at hb'
      omega
  exact evalPure_total C I N vd hwr pv _ _ hok f (by simpa [fuelBound, ClassDesc.coneFuel, Tm.depth] using hf)

/-- C01 instantiated: on each real class, any history from a fresh object answers as the
    specification does (any oracle for data-dependent branches, any validators). -/
theorem real_classes_coherent (c : String × ClassDesc) (_hc : c ∈ Gen.allDescs)
    (I : Nat → Val → Bool) (N : Nat → Val → Val) (vd : Name → Vd) (fuel : Nat) (ops : List Op) (pv : Name → Val)
    (i : Nat) (o : Out) (ho : (run (c.2.toEnv I N vd) fuel (St.fresh pv) ops).1[i]? = some o) (hne : o ≠ .nofuel) :
    ∃ f', (specRun (c.2.toEnv I N vd) f' pv ops).1[i]? = some o :=
  run_coherent _ fuel ops _ (fresh_inv _ pv) i o ho hne

/-- non-vacuity: a 3-level descriptor with an override calling `super`, a data-dependent branch and a
    raising branch; a history on it produces a recomputation after a parameter change. -/
def exEnv : Env where
  body := fun o n => match o, n with
    | 0, 10 => .pair 1 (.p 0) (.p 1)
    | 1, 10 => .pair 2 (.sup 0 10) (.p 2)
    | 0, 11 => .ite 3 (.p 0) (.q 10) (.raiseIf 5 (.p 1) (.q 10))
    | _, _ => .const 0
  resolve := fun n => if n = 10 then 1 else 0
  I := fun c v => match v with | .atom k => (k + c) % 2 == 0 | _ => false
  N := fun _ v => v
  vd := fun n => if n = 2 then .rejectIf 0 else .id
  isParam := fun n => n < 3
  isSwitch := fun n => n == 1
  validate := .raiseIf 7 (.p 0) (.const 0)

example :
    (run exEnv 20 (St.fresh fun _ => .atom 1) [.get 11, .set 0 (.atom 2), .get 11, .set 2 (.atom 4), .get 10]).1
      = [.val (.node 2 (.node 1 (.atom 1) (.atom 1)) (.atom 1)),
         .unit,
         .exn (.user 5),
         .exn (.user 0),
         .val (.node 2 (.node 1 (.atom 2) (.atom 1)) (.atom 1))] := by decide

end Hmf.C01
