import HmfVerif.Real.Tactics
import HmfVerif.Gen.ExprFlow
import HmfVerif.Gen.ExprFilters
import HmfVerif.Proofs.FilterLemmas
import HmfVerif.Proofs.ExprLemmas
import HmfVerif.Spec.Wiring
import HmfVerif.Gen.Guards
import HmfVerif.Spec.Guards
/-!
# C02 — dn/dm is assembled exactly from its ingredients, independent of the mass grid
Statements about the bodies of the `MassFunction` quantities as regenerated from `hmf.py`
(`Gen.Flow.*`): each body is a term over the *other* quantities and parameters, which appear as
variables.
-/
set_option linter.unusedSimpArgs false
set_option linter.unusedVariables false
set_option linter.unusedTactic false
namespace Hmf.C02
open Real

section
variable (opq : String → ℝ → ℝ) (ρ : String → ℝ)

/-- C02: with mass-definition conversion disabled and a fit other than Behroozi,
    dndm = f(σ) · ρ₀ · |dlnσ/dlnm| / m² -/
theorem dndm_eq (hB : ρ "flag:isinstance(self.hmf, ff.Behroozi)" ≤ 0.5) (hD : 0.5 < ρ "flag:self.disable_mass_conversion") :
    evalR opq ρ Gen.Flow.MassFunction_dndm = ρ "fsigma" * ρ "mean_density0" * |ρ "_dlnsdlnm"| / ρ "m" ^ 2 := by
  simp only [Gen.Flow.MassFunction_dndm]; expr_unfold; push_cast
  have h1 : ¬ (5 * 10 ^ (-1:ℤ) < ρ "flag:isinstance(self.hmf, ff.Behroozi)") := by norm_num; linarith
  have h2 : (5 * 10 ^ (-1:ℤ) < ρ "flag:self.disable_mass_conversion") := by norm_num; linarith
  simp only [h1, h2, decide_false, decide_true, if_true, if_false, Bool.false_eq_true]
  split_ifs <;> expr_finish

/-- the same when the fit has no measured mass definition or it equals the requested one
    (conversion enabled but nothing to convert) -/
theorem dndm_eq_same_definition (hB : ρ "flag:isinstance(self.hmf, ff.Behroozi)" ≤ 0.5)
    (hS : ρ "hmf.measured_mass_definition" = ρ "mdef") :
    evalR opq ρ Gen.Flow.MassFunction_dndm = ρ "fsigma" * ρ "mean_density0" * |ρ "_dlnsdlnm"| / ρ "m" ^ 2 := by
  simp only [Gen.Flow.MassFunction_dndm]; expr_unfold; push_cast
  have h1 : ¬ (5 * 10 ^ (-1:ℤ) < ρ "flag:isinstance(self.hmf, ff.Behroozi)") := by norm_num; linarith
  simp only [h1, hS, decide_false, decide_true, if_true, if_false, Bool.false_eq_true, ne_eq, not_true_eq_false]
  split_ifs <;> first | (simp_all [zpow_ofNat]; done) | (exfalso; simp_all; done) | (simp only [zpow_ofNat]; ring_nf; done) | (simp only [zpow_ofNat]; field_simp; done) | expr_finish

/-- the Behroozi fit only goes through its own documented correction (the plain product is not returned) -/
theorem behroozi_only_adds_correction (hB : 0.5 < ρ "flag:isinstance(self.hmf, ff.Behroozi)") :
    evalR opq ρ Gen.Flow.MassFunction_dndm = ρ "loc:MassFunction.dndm.dndm" := by
  simp only [Gen.Flow.MassFunction_dndm]; expr_unfold; push_cast
  have h2 : (5 * 10 ^ (-1:ℤ) < ρ "flag:isinstance(self.hmf, ff.Behroozi)") := by norm_num; linarith
  simp only [h2, decide_true, if_true]

/-- dndlnm = m · dndm -/
theorem dndlnm_eq : evalR opq ρ Gen.Flow.MassFunction_dndlnm = ρ "m" * ρ "dndm" := by
  simp only [Gen.Flow.MassFunction_dndlnm]; expr_unfold <;> expr_finish
/-- dndlog10m = ln(10) · m · dndm -/
theorem dndlog10m_eq : evalR opq ρ Gen.Flow.MassFunction_dndlog10m = Real.log 10 * (ρ "m" * ρ "dndm") := by
  simp only [Gen.Flow.MassFunction_dndlog10m]; expr_unfold <;> first | (push_cast; norm_num; ring) | expr_finish
/-- ν = (δc/σ)² -/
theorem nu_eq : evalR opq ρ Gen.Flow.MassFunction_nu = (ρ "delta_c" / ρ "sigma") ^ 2 := by
  simp only [Gen.Flow.MassFunction_nu]; expr_unfold <;> expr_finish
/-- σ(m,z) = growth_factor(z) × σ₀(m) and σ₀ = normalisation × un-normalised σ -/
theorem sigma_eq : evalR opq ρ Gen.Flow.MassFunction_sigma = ρ "_sigma_0" * ρ "growth_factor" := by
  simp only [Gen.Flow.MassFunction_sigma]; expr_unfold <;> expr_finish
theorem sigma0_eq : evalR opq ρ Gen.Flow.MassFunction__sigma_0 = ρ "_normalisation" * ρ "_unn_sigma0" := by
  simp only [Gen.Flow.MassFunction__sigma_0]; expr_unfold <;> expr_finish
/-- f is the stand-alone component's value (the quantity is a pure forward of `hmf.fsigma`) -/
theorem fsigma_is_component : evalR opq ρ Gen.Flow.MassFunction_fsigma = ρ "hmf.fsigma" := by
  simp only [Gen.Flow.MassFunction_fsigma]; expr_unfold
/-- lnσ⁻¹ and the mean density at z -/
theorem lnsigma_eq : evalR opq ρ Gen.Flow.MassFunction_lnsigma = Real.log (1 / ρ "sigma") := by
  simp only [Gen.Flow.MassFunction_lnsigma]; expr_unfold; norm_num
theorem mean_density_eq : evalR opq ρ Gen.Flow.MassFunction_mean_density = ρ "mean_density0" * (1 + ρ "z") ^ 3 := by
  simp only [Gen.Flow.MassFunction_mean_density]; expr_unfold <;> expr_finish
/-- the mass grid: m_i = 10^(Mmin + i·dlog10m) -/
theorem m_grid : evalR opq ρ Gen.Flow.MassFunction_m = (10:ℝ) ^ (ρ "Mmin" + ρ "idx" * ρ "dlog10m") := by
  simp only [Gen.Flow.MassFunction_m]; expr_unfold <;> first | (push_cast; norm_num; done) | (push_cast; norm_num; ring_nf; done) | expr_finish

/-- sign clauses: m > 0; dndm ≥ 0 when f ≥ 0 and ρ₀ ≥ 0 -/
theorem m_pos : 0 < evalR opq ρ Gen.Flow.MassFunction_m := by
  rw [m_grid]; positivity
theorem dndm_nonneg (hB : ρ "flag:isinstance(self.hmf, ff.Behroozi)" ≤ 0.5) (hD : 0.5 < ρ "flag:self.disable_mass_conversion")
    (hf : 0 ≤ ρ "fsigma") (hr : 0 ≤ ρ "mean_density0") : 0 ≤ evalR opq ρ Gen.Flow.MassFunction_dndm := by
  rw [dndm_eq opq ρ hB hD]; positivity
end


/-- C02 ("radius enclosing mass m", and `mass_nonlinear` outside the tabulated range, which maps the radius at which
    σ = δ_c back to a mass with `radius_to_mass`): for each filter, `radius_to_mass` is the exact inverse of the
    `mass_to_radius` map that defines `radii` -/
theorem mass_radius_maps_inverse (hρ : 0 < ρ "rho_mean") (hc : 0 < ρ "p.c") (hr : 0 ≤ ρ "r") :
    evalR opq (Function.update ρ "m" (evalR opq ρ Gen.Filters.TopHat_radius_to_mass)) Gen.Filters.TopHat_mass_to_radius = ρ "r" ∧
    evalR opq (Function.update ρ "m" (evalR opq ρ Gen.Filters.Gaussian_radius_to_mass)) Gen.Filters.Gaussian_mass_to_radius = ρ "r" ∧
    evalR opq (Function.update ρ "m" (evalR opq ρ Gen.Filters.SharpK_radius_to_mass)) Gen.Filters.SharpK_mass_to_radius = ρ "r" ∧
    evalR opq (Function.update ρ "m" (evalR opq ρ Gen.Filters.SharpKEllipsoid_radius_to_mass)) Gen.Filters.SharpKEllipsoid_mass_to_radius = ρ "r" := by
  refine ⟨?_, ?_, ?_, ?_⟩
  · simp only [Gen.Filters.TopHat_radius_to_mass, Gen.Filters.TopHat_mass_to_radius]; expr_unfold; push_cast
    simp only [Function.update_apply, String.reduceEq, if_false, if_true, zpow_ofNat]
    refine Eq.trans ?_ (Hmf.FilterLemmas.tophat_rt_real (ρ "r") (ρ "rho_mean") hρ hr)
    expr_finish
  · simp only [Gen.Filters.Gaussian_radius_to_mass, Gen.Filters.Gaussian_mass_to_radius]; expr_unfold; push_cast
    simp only [Function.update_apply, String.reduceEq, if_false, if_true, zpow_ofNat]
    refine Eq.trans ?_ (Hmf.FilterLemmas.gaussian_rt_real (ρ "r") (ρ "rho_mean") hρ hr)
    expr_finish
  · simp only [Gen.Filters.SharpK_radius_to_mass, Gen.Filters.SharpK_mass_to_radius]; expr_unfold; push_cast
    simp only [Function.update_apply, String.reduceEq, if_false, if_true, zpow_ofNat]
    refine Eq.trans ?_ (Hmf.FilterLemmas.sharpk_rt_real (ρ "r") (ρ "rho_mean") (ρ "p.c") hρ hc hr)
    expr_finish
  · simp only [Gen.Filters.SharpKEllipsoid_radius_to_mass, Gen.Filters.SharpKEllipsoid_mass_to_radius]; expr_unfold; push_cast
    simp only [Function.update_apply, String.reduceEq, if_false, if_true, zpow_ofNat]
    refine Eq.trans ?_ (Hmf.FilterLemmas.sharpk_rt_real (ρ "r") (ρ "rho_mean") (ρ "p.c") hρ hc hr)
    expr_finish

/-- C02 (grid independence): the body of dndm mentions the mass grid only through `m` — `Mmin`,
    `Mmax`, `dlog10m` are not among its inputs — and is elementwise, so its value at a mass is a
    function of the ingredients at that mass only -/
theorem dndm_inputs :
    Gen.Flow.MassFunction_dndm.freeVars.all (fun x => x ∉ ["Mmin", "Mmax", "dlog10m", "idx"]) = true ∧
    Gen.Flow.MassFunction_dndm.isElementwise = true := by decide
theorem sigma_nu_inputs :
    (Gen.Flow.MassFunction_sigma.freeVars ++ Gen.Flow.MassFunction_nu.freeVars ++ Gen.Flow.MassFunction__sigma_0.freeVars).all
      (fun x => x ∉ ["Mmin", "Mmax", "dlog10m", "idx"]) = true := by decide

/-- the fitting-function component is built from the framework's own inputs: masses, ν, z, the mass definition, the object's
    cosmology **with `cosmo_params` applied**, δc, n_eff and the user's `hmf_params` — nothing else -/
theorem hmf_component_wiring : Gen.Flow.wiring.lookup "MassFunction.hmf" = some Spec.Wiring.hmf := by decide
/-- the object's cosmology is the base model with exactly `cosmo_params` applied -/
theorem cosmology_wiring : Gen.Flow.wiring.lookup "Cosmology.cosmo" = some Spec.Wiring.cosmo := by decide

/-- thresholds in hmf.py (the non-linear-mass bracketing tests, the 10^16.5 tail limit, the δc range) are the documented ones; no new special case -/
theorem guards_mass_function : Gen.Guards.massFunction = Spec.Guards.massFunction := by decide

/-- components are constructed (and internal numerical routines called) at exactly the documented places: no second, differently
    parameterised instance is built anywhere in the framework classes -/
theorem wiring_sites : Gen.Flow.wiring.map (·.1) = Spec.Wiring.sites := by decide

end Hmf.C02
