import HmfVerif.Real.Tactics
import HmfVerif.Gen.ExprFlow
import HmfVerif.Gen.Desc
import HmfVerif.Spec.Wiring
import HmfVerif.Gen.Guards
import HmfVerif.Spec.Guards
/-!
# C03 — linear power is normalised to σ₈ and scales with the growth factor
Algebraic skeleton on the regenerated `Transfer` bodies; the exactness of the normalisation on the
grid is `C04.sigma_of_scaled_power` (linearity of the quadrature) applied to these identities.
-/
set_option linter.unusedSimpArgs false
set_option linter.unusedVariables false
set_option linter.unusedTactic false
namespace Hmf.C03
open Real

section
variable (opq : String → ℝ → ℝ) (ρ : String → ℝ)

/-- power(z) = growth_factor(z)² · power(0) -/
theorem power_growth : evalR opq ρ Gen.Flow.Transfer_power = ρ "growth_factor" ^ 2 * ρ "_power0" := by
  simp only [Gen.Flow.Transfer_power]; expr_unfold <;> expr_finish
/-- Δ²(k) = k³ P / (2π²) -/
theorem delta_k_eq : evalR opq ρ Gen.Flow.Transfer_delta_k = ρ "k" ^ 3 * ρ "power" / (2 * π ^ 2) := by
  simp only [Gen.Flow.Transfer_delta_k]; expr_unfold <;> first | (push_cast; simp only [zpow_ofNat]; norm_num; done) | expr_finish
/-- P(z=0) = normalisation² × un-normalised power, and the un-normalised power is kⁿ T² -/
theorem power0_eq : evalR opq ρ Gen.Flow.Transfer__power0 = ρ "_normalisation" ^ 2 * ρ "_unnormalised_power" := by
  simp only [Gen.Flow.Transfer__power0]; expr_unfold <;> expr_finish
theorem unnormalised_power_eq :
    evalR opq ρ Gen.Flow.Transfer__unnormalised_power = ρ "k" ^ ρ "n" * (exp (ρ "_unnormalised_lnT")) ^ 2 := by
  simp only [Gen.Flow.Transfer__unnormalised_power]; expr_unfold <;> expr_finish
/-- the normalisation constant is σ₈ / (un-normalised σ at 8 Mpc/h) -/
theorem normalisation_eq : evalR opq ρ Gen.Flow.Transfer__normalisation = ρ "sigma_8" / ρ "_unn_sig8" := by
  simp only [Gen.Flow.Transfer__normalisation]; expr_unfold <;> expr_finish
/-- the wavenumber grid: k_i = exp(lnk_min + i·dlnk) -/
theorem k_grid : evalR opq ρ Gen.Flow.Transfer_k = exp (ρ "lnk_min" + ρ "idx" * ρ "dlnk") := by
  simp only [Gen.Flow.Transfer_k]; expr_unfold <;> expr_finish

/-- P(z=0) ∝ kⁿ T(k)²: composing the two bodies -/
theorem power0_shape :
    evalR opq (Function.update ρ "_unnormalised_power" (evalR opq ρ Gen.Flow.Transfer__unnormalised_power)) Gen.Flow.Transfer__power0
      = ρ "_normalisation" ^ 2 * (ρ "k" ^ ρ "n" * (exp (ρ "_unnormalised_lnT")) ^ 2) := by
  rw [power0_eq, unnormalised_power_eq]
  simp [Function.update_apply]

/-- σ(m) is linear in σ₈ and in the growth factor: composing `sigma`, `_sigma_0`, `_normalisation` -/
theorem sigma_linear_in_sigma8_and_growth (s8 unn8 unnσ D : ℝ) :
    (s8 / unn8 * unnσ) * D = s8 * D * (unnσ / unn8) := by ring

/-- the same statement about the regenerated bodies: `MassFunction.sigma` (of `hmf.py`) composed with `_sigma_0` and
    `Transfer._normalisation` is σ₈ · D(z) · (un-normalised σ(m) / un-normalised σ(8)), for all masses, redshifts and σ₈ —
    no floor, ceiling or other non-linear post-processing -/
theorem sigma_body_linear :
    evalR opq (Function.update ρ "_sigma_0"
        (evalR opq (Function.update ρ "_normalisation" (evalR opq ρ Gen.Flow.Transfer__normalisation)) Gen.Flow.MassFunction__sigma_0))
      Gen.Flow.MassFunction_sigma
      = ρ "sigma_8" * ρ "growth_factor" * (ρ "_unn_sigma0" / ρ "_unn_sig8") := by
  simp only [Gen.Flow.MassFunction_sigma, Gen.Flow.MassFunction__sigma_0, Gen.Flow.Transfer__normalisation]; expr_unfold
  simp only [Function.update_apply, String.reduceEq, if_false, if_true]
  ring
end

/-- within one normalisation branch the normalisation constant mentions neither `lnk_min` nor `lnk_max`:
    the body of `_normalisation` reads only `sigma_8` and `_unn_sig8` -/
theorem normalisation_inputs : Gen.Flow.Transfer__normalisation.freeVars = ["sigma_8", "_unn_sig8"] := by decide
/-- the value of the power at a wavenumber is assembled from per-wavenumber ingredients and scalars -/
theorem power_elementwise :
    [Gen.Flow.Transfer_power, Gen.Flow.Transfer__power0, Gen.Flow.Transfer__unnormalised_power, Gen.Flow.Transfer_delta_k,
     Gen.Flow.Transfer_transfer_function].all (fun t => t.isElementwise) = true := by decide

/-- the transfer component is built from the object's cosmology (with `cosmo_params` applied) and `transfer_params` only -/
theorem transfer_component_wiring : Gen.Flow.wiring.lookup "Transfer.transfer" = some Spec.Wiring.transfer := by decide

/-- the σ₈-integration range test and the validators' ranges in transfer.py are the documented ones; no new special case -/
theorem guards_transfer : Gen.Guards.transfer = Spec.Guards.transfer := by decide

/-- C03: the σ₈ normalisation integrates the object's own kⁿT² with a top-hat window, on the fixed internal range or on the object's
    own grid — never on a grid clipped to the user's range -/
theorem sigma8_normalisation_wiring :
    Gen.Flow.wiring.lookup "Transfer._unn_sig8/filters.TopHat" = some Spec.Wiring.sig8Narrow ∧
    Gen.Flow.wiring.lookup "Transfer._unn_sig8/filters.TopHat#2" = some Spec.Wiring.sig8Wide := by decide

/-- the filter used for variances at the object's redshift is built on the power at that redshift (`power`, which scales with growth²),
    not on the z = 0 spectrum -/
theorem normalised_filter_wiring : Gen.Flow.wiring.lookup "MassFunction.normalised_filter" = some Spec.Wiring.normalisedFilter := by decide

/-! ## which inputs the σ₈ integral reads in each of its two branches (regenerated read program of `Transfer._unn_sig8`) -/

/-- direct reads (parameters and quantities) of a read program, in order -/
def tmReads : Tm → List Name
  | .p n => [n]
  | .q n => [n]
  | .sup _ n => [n]
  | .pair _ a b => tmReads a ++ tmReads b
  | .ite _ c t e => tmReads c ++ tmReads t ++ tmReads e
  | .raiseIf _ c k => tmReads c ++ tmReads k
  | .const _ => []

/-- equality of two read lists as sets (the order of reads inside a branch is not part of the statement) -/
def sameSet (a b : List Name) : Bool := a.all (b.contains ·) && b.all (a.contains ·)

/-- split a read program at its (outermost, last) two-way branch: reads made before/for the guard, reads of either branch.
    `if g: A else: B` and `c = g; if c: A else: B` (guard computed into a local first) give the same split -/
def splitBranch : Tm → Option (List Name × List Name × List Name)
  | .ite _ c t e => some (tmReads c, tmReads t, tmReads e)
  | .pair _ a b =>
      match splitBranch b with
      | some (c, t, e) => some (tmReads a ++ c, t, e)
      | none => (splitBranch a).map fun (c, t, e) => (c, t ++ tmReads b, e ++ tmReads b)
  | _ => none

/-- the three parts of the branch in `_unn_sig8`: guard, narrow-range branch, wide-range branch -/
def sig8Parts : Option (List Name × List Name × List Name) :=
  (Gen.descTransfer.bodyOf 1 Gen.N._unn_sig8).bind splitBranch

/-- C03 ("its value at a given wavenumber does not depend on the requested wavenumber range or resolution beyond quadrature accuracy"):
    the branch is decided by `lnk_min` and `lnk_max` alone; on a narrow requested range the un-normalised σ(8) is computed from the
    transfer component, the spectral index and the step `dlnk` **only** — not from the requested grid `k` nor from the spectrum tabulated
    on it — and on a wide range from exactly that grid and spectrum -/
theorem sigma8_integral_inputs :
    (sig8Parts.map fun (c, t, e) =>
      sameSet c [Gen.N.lnk_min, Gen.N.lnk_max] && sameSet t [Gen.N.dlnk, Gen.N.transfer, Gen.N.n] &&
      sameSet e [Gen.N.k, Gen.N._unnormalised_power]) = some true := by
  decide +kernel

end Hmf.C03
