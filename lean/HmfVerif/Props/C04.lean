import HmfVerif.Real.Tactics
import HmfVerif.Proofs.FilterLemmas
import HmfVerif.Gen.ExprFilters
import HmfVerif.Proofs.QuadLemmas
import HmfVerif.Proofs.AnalysisWindows
import HmfVerif.Proofs.ExprLemmas
import HmfVerif.Spec.Wiring
import HmfVerif.Gen.ExprFlow
import HmfVerif.Gen.Guards
import HmfVerif.Spec.Guards
/-!
# C04 — mass variance σ(R) equals its defining integral for every filter
`Quad.sigmaDisc` is the discretised object `Filter.sigma` computes (composite Simpson in ln k of
k^(3+2n) P W²/(2π²)), a hand model tied to the code by evaluation at Float; the windows and the
mass↔radius maps are regenerated from `filters.py`.
-/
set_option linter.unusedSimpArgs false
set_option linter.unusedVariables false
set_option linter.unusedTactic false
namespace Hmf.C04
open Hmf.FilterLemmas
open Real Hmf.Quad Hmf.Analysis

/-! ## the discretised σ -/

/-- C04: σ scales as √a when P is multiplied by a ≥ 0 — for every window, grid, moment order and radius -/
theorem sigma_scaling (W : ℝ → ℝ) (ks Ps : List ℝ) (order : Nat) (dlnk r a : ℝ) (ha : 0 ≤ a) (hlen : ks.length = Ps.length) :
    sigmaDisc W ks (Ps.map (a * ·)) order dlnk r = Real.sqrt a * sigmaDisc W ks Ps order dlnk r := by
  unfold sigmaDisc
  simp only [sci_sqrt, sci_mul, sci_div, sci_ofInt, sci_npow, sci_pi, two_r]
  have hz : (ks.zip (Ps.map (a * ·))).map (fun kp => kp.2 * kp.1 ^ (3 + 2 * order) * W (r * kp.1) ^ 2)
      = ((ks.zip Ps).map (fun kp => kp.2 * kp.1 ^ (3 + 2 * order) * W (r * kp.1) ^ 2)).map (a * ·) := by
    rw [List.zip_map_right, List.map_map, List.map_map]
    congr 1
    funext kp
    simp only [Function.comp, Prod.map_snd, Prod.map_fst, id]
    ring
  rw [hz, simps_smul]
  rw [show ((1:ℤ):ℝ) / 2 / π ^ 2 * (a * simps Even.avg dlnk (List.map (fun kp => kp.2 * kp.1 ^ (3 + 2 * order) * W (r * kp.1) ^ 2) (ks.zip Ps)))
      = a * (((1:ℤ):ℝ) / 2 / π ^ 2 * simps Even.avg dlnk (List.map (fun kp => kp.2 * kp.1 ^ (3 + 2 * order) * W (r * kp.1) ^ 2) (ks.zip Ps))) by ring]
  exact Real.sqrt_mul ha _

/-- C04: the quantity under the square root is non-negative for a non-negative spectrum (so σ is a real, finite number) -/
theorem sigma_integral_nonneg (W : ℝ → ℝ) (ks Ps : List ℝ) (order : Nat) (dlnk r : ℝ) (hd : 0 ≤ dlnk)
    (hk : ∀ k ∈ ks, 0 ≤ k) (hP : ∀ p ∈ Ps, 0 ≤ p) :
    0 ≤ simps Even.avg dlnk ((ks.zip Ps).map (fun kp => kp.2 * kp.1 ^ (3 + 2 * order) * W (r * kp.1) ^ 2)) := by
  apply simps_nonneg _ _ hd
  intro y hy
  obtain ⟨kp, hkp, rfl⟩ := List.mem_map.mp hy
  have h1 := hk kp.1 (List.of_mem_zip hkp).1
  have h2 := hP kp.2 (List.of_mem_zip hkp).2
  positivity

/-- linearity used by C03: normalising the spectrum by c² multiplies σ by c, so σ_TopHat(8 Mpc/h) of the
    normalised z=0 spectrum is exactly σ₈ on the grid it was normalised on -/
theorem normalisation_exact (W : ℝ → ℝ) (ks Ps : List ℝ) (dlnk s8 : ℝ) (hs8 : 0 ≤ s8) (hlen : ks.length = Ps.length)
    (hpos : 0 < sigmaDisc W ks Ps 0 dlnk 8) :
    sigmaDisc W ks (Ps.map ((s8 / sigmaDisc W ks Ps 0 dlnk 8) ^ 2 * ·)) 0 dlnk 8 = s8 := by
  rw [sigma_scaling W ks Ps 0 dlnk 8 _ (by positivity) hlen, Real.sqrt_sq (by positivity)]
  field_simp

/-! ## windows (regenerated from filters.py) -/
section
variable (opq : String → ℝ → ℝ) (ρ : String → ℝ)

/-- C04: the top-hat window is 1 at and near zero argument (the guarded branch) … -/
theorem tophat_zero_branch (h : ρ "kr" ≤ 1.4e-6) : evalR opq ρ Gen.Filters.TopHat_k_space = 1 := by
  simp only [Gen.Filters.TopHat_k_space]; expr_unfold; push_cast
  have hn : ¬ (14 * 10 ^ (-7:ℤ) < ρ "kr") := by norm_num at h ⊢; linarith
  rw [if_neg (by simpa using hn)]; norm_num
/-- … and |W| ≤ 1 everywhere -/
theorem tophat_le_one : |evalR opq ρ Gen.Filters.TopHat_k_space| ≤ 1 := by
  simp only [Gen.Filters.TopHat_k_space]; expr_unfold; push_cast
  split_ifs with h
  · have hx : 0 < ρ "kr" := by
      have : (0:ℝ) < 14 * 10 ^ (-7:ℤ) := by norm_num
      simp only [decide_eq_true_eq] at h; linarith
    have := tophat_abs_le_one (ρ "kr") hx
    first
    | simpa [zpow_ofNat] using this
    | (refine le_trans (le_of_eq ?_) this; congr 1; expr_finish)
  · simp
/-- C04: the Gaussian window satisfies 0 < W ≤ 1, W(0) = 1 -/
theorem gaussian_window_range : 0 < evalR opq ρ Gen.Filters.Gaussian_k_space ∧ evalR opq ρ Gen.Filters.Gaussian_k_space ≤ 1 := by
  have := gaussian_range (ρ "kr")
  simp only [Gen.Filters.Gaussian_k_space]; expr_unfold; push_cast
  simpa [zpow_ofNat] using this
theorem gaussian_at_zero (h : ρ "kr" = 0) : evalR opq ρ Gen.Filters.Gaussian_k_space = 1 := by
  simp only [Gen.Filters.Gaussian_k_space]; expr_unfold; push_cast; simp [h]
/-- C04: the sharp-k window takes only the values 0, ½, 1 (so W(0) = 1 and |W| ≤ 1) -/
theorem sharpk_window_values :
    evalR opq ρ Gen.Filters.SharpK_k_space = 0 ∨ evalR opq ρ Gen.Filters.SharpK_k_space = 1/2 ∨ evalR opq ρ Gen.Filters.SharpK_k_space = 1 := by
  simp only [Gen.Filters.SharpK_k_space]; expr_unfold; push_cast
  split_ifs <;> norm_num

/-! ## mass ↔ radius maps are exact mutual inverses -/

/-- TopHat: r ↦ m ↦ r -/
theorem tophat_roundtrip (hρ : 0 < ρ "rho_mean") (hr : 0 ≤ ρ "r") :
    evalR opq (Function.update ρ "m" (evalR opq ρ Gen.Filters.TopHat_radius_to_mass)) Gen.Filters.TopHat_mass_to_radius = ρ "r" := by
  simp only [Gen.Filters.TopHat_radius_to_mass, Gen.Filters.TopHat_mass_to_radius]; expr_unfold; push_cast
  simp only [Function.update_apply, String.reduceEq, if_false, if_true, zpow_ofNat]
  refine Eq.trans ?_ (tophat_rt_real (ρ "r") (ρ "rho_mean") hρ hr)
  expr_finish

/-- Gaussian: r ↦ m ↦ r -/
theorem gaussian_roundtrip (hρ : 0 < ρ "rho_mean") (hr : 0 ≤ ρ "r") :
    evalR opq (Function.update ρ "m" (evalR opq ρ Gen.Filters.Gaussian_radius_to_mass)) Gen.Filters.Gaussian_mass_to_radius = ρ "r" := by
  simp only [Gen.Filters.Gaussian_radius_to_mass, Gen.Filters.Gaussian_mass_to_radius]; expr_unfold; push_cast
  simp only [Function.update_apply, String.reduceEq, if_false, if_true, zpow_ofNat]
  refine Eq.trans ?_ (gaussian_rt_real (ρ "r") (ρ "rho_mean") hρ hr)
  expr_finish
/-- SharpK (and SharpKEllipsoid, which inherits both maps): r ↦ m ↦ r for every positive scale parameter `c` -/
theorem sharpk_roundtrip (hρ : 0 < ρ "rho_mean") (hc : 0 < ρ "p.c") (hr : 0 ≤ ρ "r") :
    evalR opq (Function.update ρ "m" (evalR opq ρ Gen.Filters.SharpK_radius_to_mass)) Gen.Filters.SharpK_mass_to_radius = ρ "r" := by
  simp only [Gen.Filters.SharpK_radius_to_mass, Gen.Filters.SharpK_mass_to_radius]; expr_unfold; push_cast
  simp only [Function.update_apply, String.reduceEq, if_false, if_true, zpow_ofNat]
  refine Eq.trans ?_ (sharpk_rt_real (ρ "r") (ρ "rho_mean") (ρ "p.c") hρ hc hr)
  expr_finish

theorem sharpk_ellipsoid_inherits_maps :
    Gen.Filters.SharpKEllipsoid_radius_to_mass = Gen.Filters.SharpK_radius_to_mass ∧
    Gen.Filters.SharpKEllipsoid_mass_to_radius = Gen.Filters.SharpK_mass_to_radius := ⟨rfl, rfl⟩
end

/-- every window and mass↔radius map is elementwise: σ(R) on a vector of radii is row-local -/
theorem filters_elementwise :
    [Gen.Filters.TopHat_k_space, Gen.Filters.Gaussian_k_space, Gen.Filters.SharpK_k_space, Gen.Filters.TopHat_dw_dlnkr,
     Gen.Filters.Gaussian_dw_dlnkr, Gen.Filters.TopHat_mass_to_radius, Gen.Filters.TopHat_radius_to_mass,
     Gen.Filters.Gaussian_mass_to_radius, Gen.Filters.Gaussian_radius_to_mass, Gen.Filters.SharpK_mass_to_radius,
     Gen.Filters.SharpK_radius_to_mass].all (fun t => t.isElementwise) = true := by decide

/-- the filter objects are built on the framework's wavenumber grid and its un-normalised / normalised power -/
theorem filter_component_wiring :
    Gen.Flow.wiring.lookup "MassFunction.filter" = some Spec.Wiring.filter ∧
    Gen.Flow.wiring.lookup "MassFunction.normalised_filter" = some Spec.Wiring.normalisedFilter := by decide

/-! ## σ(R) is non-increasing in R (Gaussian filter: for every non-negative spectrum) -/
section GaussianMonotone
open Real
variable (opq : String → ℝ → ℝ) (ρ : String → ℝ)
theorem gaussian_closed : evalR opq ρ Gen.Filters.Gaussian_k_space = exp (-(ρ "kr") ^ 2 / 2) := by
  simp only [Gen.Filters.Gaussian_k_space]; expr_unfold; push_cast
  simp [zpow_ofNat]

/-- the window of the generated Gaussian filter as a function of its argument -/
noncomputable def gaussW (x : ℝ) : ℝ := evalR opq (Function.update ρ "kr" x) Gen.Filters.Gaussian_k_space

theorem gaussW_sq_antitone (k r1 r2 : ℝ) (hk : 0 ≤ k) (hr1 : 0 ≤ r1) (hr : r1 ≤ r2) :
    gaussW opq ρ (r2 * k) ^ 2 ≤ gaussW opq ρ (r1 * k) ^ 2 := by
  unfold gaussW
  rw [gaussian_closed, gaussian_closed]
  simp only [Function.update_self]
  have h : (r1 * k) ^ 2 ≤ (r2 * k) ^ 2 := pow_le_pow_left₀ (by positivity) (mul_le_mul_of_nonneg_right hr hk) 2
  exact pow_le_pow_left₀ (exp_pos _).le (exp_le_exp.mpr (by linarith)) 2

/-- C04 (Gaussian filter): σ(R) is non-increasing in R for **every** non-negative tabulated spectrum (so in particular for
    CDM-like ones), every moment order and every logarithmic grid -/
theorem gaussian_sigma_nonincreasing (ks Ps : List ℝ) (order : Nat) (dlnk r1 r2 : ℝ) (hd : 0 ≤ dlnk)
    (hk : ∀ k ∈ ks, 0 ≤ k) (hP : ∀ p ∈ Ps, 0 ≤ p) (hr1 : 0 ≤ r1) (hr : r1 ≤ r2) :
    sigmaDisc (gaussW opq ρ) ks Ps order dlnk r2 ≤ sigmaDisc (gaussW opq ρ) ks Ps order dlnk r1 :=
  sigmaDisc_antitone _ ks Ps order dlnk r1 r2 hd hk hP (fun k hkm => gaussW_sq_antitone opq ρ k r1 r2 (hk k hkm) hr1 hr)
end GaussianMonotone

/-- the small-argument guards of the windows are the documented ones (top-hat 1.4e-6, its derivative 1e-3, sharp-k edge at 1); no new special case -/
theorem guards_filters : Gen.Guards.filters = Spec.Guards.filters := by decide

/-- components are constructed (and internal numerical routines called) at exactly the documented places: no second, differently
    parameterised instance is built anywhere in the framework classes -/
theorem wiring_sites : Gen.Flow.wiring.map (·.1) = Spec.Wiring.sites := by decide

end Hmf.C04
