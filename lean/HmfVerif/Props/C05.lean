import HmfVerif.Real.Tactics
import HmfVerif.Gen.ExprFilters
import HmfVerif.Gen.ExprFlow
import HmfVerif.Proofs.AnalysisWindows
import HmfVerif.Proofs.QuadLemmas
import HmfVerif.Gen.Guards
import HmfVerif.Spec.Guards
/-!
# C05 — the slope dlnσ/dlnm is the derivative of the σ returned
-/
set_option linter.unusedSimpArgs false
set_option linter.unusedVariables false
set_option linter.unusedTactic false
namespace Hmf.C05
open Real Hmf.Analysis

section
variable (opq : String → ℝ → ℝ)

/-- C05: above its small-argument guards, the generated top-hat `dw_dlnkr` is the true derivative of the generated
    top-hat window with respect to ln(kR) -/
theorem tophat_dw_is_derivative (ρ : String → ℝ) (s : ℝ) (hs : 1e-3 < exp s) :
    HasDerivAt (fun t => evalR opq (Function.update ρ "kr" (exp t)) Gen.Filters.TopHat_k_space)
      (evalR opq (Function.update ρ "kr" (exp s)) Gen.Filters.TopHat_dw_dlnkr) s := by
  have hval : evalR opq (Function.update ρ "kr" (exp s)) Gen.Filters.TopHat_dw_dlnkr =
      (9 * exp s * cos (exp s) + 3 * ((exp s)^2 - 3) * sin (exp s)) / (exp s)^3 := by
    simp only [Gen.Filters.TopHat_dw_dlnkr]; expr_unfold; push_cast
    simp only [Function.update_apply, if_true, zpow_ofNat]
    have : (1 * 10 ^ (-3:ℤ) : ℝ) < exp s := by norm_num at hs ⊢; linarith
    rw [if_pos (by simpa using this)]; first | (norm_num; done) | (norm_num; ring_nf; done) | expr_finish
  rw [hval]
  refine (Analysis.tophat_dw_is_derivative s).congr_of_eventuallyEq ?_
  -- near s the window is on its closed-form branch
  have hopen : ∀ᶠ t in nhds s, (14 * 10 ^ (-7:ℤ) : ℝ) < exp t := by
    have hc : ContinuousAt exp s := continuous_exp.continuousAt
    have : (14 * 10 ^ (-7:ℤ) : ℝ) < exp s := by norm_num at hs ⊢; linarith
    exact hc.eventually (lt_mem_nhds this)
  filter_upwards [hopen] with t ht
  simp only [Gen.Filters.TopHat_k_space]; expr_unfold; push_cast
  simp only [Function.update_apply, if_true, zpow_ofNat]
  rw [if_pos (by simpa using ht)]; first | (norm_num; done) | (norm_num; ring_nf; done) | expr_finish

/-- C05: at and below its small-argument guard (kR ≤ 10⁻³, where the closed form is 0/0 in floating point) the generated top-hat
    `dw_dlnkr` is exactly 0 — within 2·10⁻⁷ of the true derivative −(kR)²/5 + O((kR)⁴), which the harness checks on the real code -/
theorem tophat_dw_small_argument (ρ : String → ℝ) (h : ρ "kr" ≤ 1e-3) : evalR opq ρ Gen.Filters.TopHat_dw_dlnkr = 0 := by
  simp only [Gen.Filters.TopHat_dw_dlnkr]; expr_unfold; push_cast
  have hn : ¬ ((1 * 10 ^ (-3:ℤ) : ℝ) < ρ "kr") := by norm_num at h ⊢; linarith
  rw [if_neg (by simpa using hn)]; norm_num

/-- C05: the generated Gaussian `dw_dlnkr` is the true derivative of the generated Gaussian window w.r.t. ln(kR) -/
theorem gaussian_dw_is_derivative (ρ : String → ℝ) (s : ℝ) :
    HasDerivAt (fun t => evalR opq (Function.update ρ "kr" (exp t)) Gen.Filters.Gaussian_k_space)
      (evalR opq (Function.update ρ "kr" (exp s)) Gen.Filters.Gaussian_dw_dlnkr) s := by
  have hval : evalR opq (Function.update ρ "kr" (exp s)) Gen.Filters.Gaussian_dw_dlnkr = -((exp s)^2) * exp (-((exp s)^2) / 2) := by
    simp only [Gen.Filters.Gaussian_dw_dlnkr]; expr_unfold; push_cast
    simp only [Function.update_apply, if_true, zpow_ofNat]; first | (norm_num; done) | (norm_num; ring_nf; done) | expr_finish
  rw [hval]
  refine (Analysis.gaussian_dw_is_derivative s).congr_of_eventuallyEq (Filter.Eventually.of_forall fun t => ?_)
  simp only [Gen.Filters.Gaussian_k_space]; expr_unfold; push_cast
  simp only [Function.update_apply, if_true, zpow_ofNat]; first | (norm_num; done) | (norm_num; ring_nf; done) | expr_finish

variable (ρ : String → ℝ)
/-- C05: n_eff = −3(2·dlnσ/dlnm + 1) -/
theorem n_eff_eq : evalR opq ρ Gen.Flow.MassFunction_n_eff = -3 * (2 * ρ "_dlnsdlnm" + 1) := by
  simp only [Gen.Flow.MassFunction_n_eff]; expr_unfold <;> first | (push_cast; norm_num; done) | (push_cast; norm_num; ring_nf; done) | expr_finish
/-- the σ whose slope this is comes from the *same* filter object at the same radii: `_unn_sigma0` is `filter.sigma(radii)`, whatever the
    wavenumber range (no separate integration grid for σ) -/
theorem unn_sigma0_eq : evalR opq ρ Gen.Flow.MassFunction__unn_sigma0 = ρ "py:self.filter.sigma(self.radii)" := by
  simp only [Gen.Flow.MassFunction__unn_sigma0]; expr_unfold <;> first | rfl | expr_finish
/-- the slope entering dn/dm is half the filter's dlnσ²/dlnm -/
theorem dlnsdlnm_eq : evalR opq ρ Gen.Flow.MassFunction__dlnsdlnm = 1 / 2 * ρ "py:self.filter.dlnss_dlnm(self.radii)" := by
  simp only [Gen.Flow.MassFunction__dlnsdlnm]; expr_unfold <;> first | (push_cast; norm_num; done) | (push_cast; norm_num; ring_nf; done) | expr_finish
/-- dln r/dln m = 1/3 for the top-hat, Gaussian and sharp-k filters -/
theorem dlnr_dlnm_third :
    evalR opq ρ Gen.Filters.TopHat_dlnr_dlnm = 1 / 3 ∧ evalR opq ρ Gen.Filters.Gaussian_dlnr_dlnm = 1 / 3 ∧
    evalR opq ρ Gen.Filters.SharpK_dlnr_dlnm = 1 / 3 := by
  refine ⟨?_, ?_, ?_⟩ <;> (simp only [Gen.Filters.TopHat_dlnr_dlnm, Gen.Filters.Gaussian_dlnr_dlnm, Gen.Filters.SharpK_dlnr_dlnm]; expr_unfold; push_cast; norm_num)
/-- the Gaussian slope integrand W·dW = −x²W² is non-positive: with P > 0 the Gaussian slope is negative -/
theorem gaussian_slope_integrand_nonpos (x : ℝ) : exp (-(x^2)/2) * (-(x^2) * exp (-(x^2)/2)) ≤ 0 := by
  have h1 : 0 < exp (-(x^2)/2) := exp_pos _
  have h2 : 0 ≤ x^2 := sq_nonneg x
  nlinarith [mul_pos h1 h1]
end

/-! ## the slope is the exact derivative of the discretised σ² that `sigma` returns -/
section DiscreteSlope
open Hmf.Quad
variable (opq : String → ℝ → ℝ) (ρ : String → ℝ)
/-- the generated windows and window derivatives as functions of the argument kR -/
noncomputable def gaussW (x : ℝ) : ℝ := evalR opq (Function.update ρ "kr" x) Gen.Filters.Gaussian_k_space
noncomputable def gaussDW (x : ℝ) : ℝ := evalR opq (Function.update ρ "kr" x) Gen.Filters.Gaussian_dw_dlnkr
noncomputable def tophatW (x : ℝ) : ℝ := evalR opq (Function.update ρ "kr" x) Gen.Filters.TopHat_k_space
noncomputable def tophatDW (x : ℝ) : ℝ := evalR opq (Function.update ρ "kr" x) Gen.Filters.TopHat_dw_dlnkr

/-- **C05 (Gaussian filter).** On every tabulated spectrum and logarithmic grid, the quantity `dlnss_dlnr` integrates —
    simps(P k³ W dW)/(π² σ²) with the *generated* window and window derivative — is exactly the derivative with respect to ln R of
    ln σ², σ² being the Simpson sum `sigma` itself returns. No finite-difference or quadrature error is involved. -/
theorem gaussian_slope_is_derivative_of_returned_sigma (ks Ps : List ℝ) (dlnk t : ℝ) (hk : ∀ k ∈ ks, 0 < k)
    (hpos : 0 < simps .avg dlnk ((ks.zip Ps).map (fun kp => kp.2 * kp.1 ^ 3 * gaussW opq ρ (exp t * kp.1) ^ 2))) :
    HasDerivAt (fun s => Real.log (1 / 2 / π ^ 2 * simps .avg dlnk ((ks.zip Ps).map (fun kp => kp.2 * kp.1 ^ 3 * gaussW opq ρ (exp s * kp.1) ^ 2))))
      (simps .avg dlnk ((ks.zip Ps).map (fun kp => kp.2 * kp.1 ^ 3 * (gaussW opq ρ (exp t * kp.1) * gaussDW opq ρ (exp t * kp.1)))) /
        (π ^ 2 * (1 / 2 / π ^ 2 * simps .avg dlnk ((ks.zip Ps).map (fun kp => kp.2 * kp.1 ^ 3 * gaussW opq ρ (exp t * kp.1) ^ 2))))) t := by
  apply dlnss_dlnr_exact (gaussW opq ρ) (gaussDW opq ρ) ks Ps dlnk t hk _ hpos
  intro k hkm
  have hx : 0 < exp t * k := mul_pos (exp_pos t) (hk k hkm)
  have := gaussian_dw_is_derivative opq ρ (Real.log (exp t * k))
  rw [Real.exp_log hx] at this
  exact this

/-- **C05 (top-hat filter).** The same exact statement wherever every sampled argument kR lies above the small-argument guard
    of `dw_dlnkr` (kR > 10⁻³; below it the code sets the derivative to 0 — the harness measures that truncation) -/
theorem tophat_slope_is_derivative_of_returned_sigma (ks Ps : List ℝ) (dlnk t : ℝ) (hk : ∀ k ∈ ks, 0 < k)
    (hguard : ∀ k ∈ ks, 1e-3 < exp t * k)
    (hpos : 0 < simps .avg dlnk ((ks.zip Ps).map (fun kp => kp.2 * kp.1 ^ 3 * tophatW opq ρ (exp t * kp.1) ^ 2))) :
    HasDerivAt (fun s => Real.log (1 / 2 / π ^ 2 * simps .avg dlnk ((ks.zip Ps).map (fun kp => kp.2 * kp.1 ^ 3 * tophatW opq ρ (exp s * kp.1) ^ 2))))
      (simps .avg dlnk ((ks.zip Ps).map (fun kp => kp.2 * kp.1 ^ 3 * (tophatW opq ρ (exp t * kp.1) * tophatDW opq ρ (exp t * kp.1)))) /
        (π ^ 2 * (1 / 2 / π ^ 2 * simps .avg dlnk ((ks.zip Ps).map (fun kp => kp.2 * kp.1 ^ 3 * tophatW opq ρ (exp t * kp.1) ^ 2))))) t := by
  apply dlnss_dlnr_exact (tophatW opq ρ) (tophatDW opq ρ) ks Ps dlnk t hk _ hpos
  intro k hkm
  have hx : 0 < exp t * k := mul_pos (exp_pos t) (hk k hkm)
  have := tophat_dw_is_derivative opq ρ (Real.log (exp t * k)) (by rw [Real.exp_log hx]; exact hguard k hkm)
  rw [Real.exp_log hx] at this
  exact this
end DiscreteSlope

/-- the guards of the window and of its derivative are the documented ones; no new special case -/
theorem guards_filters : Gen.Guards.filters = Spec.Guards.filters := by decide

end Hmf.C05
