import HmfVerif.Real.Tactics
import HmfVerif.Gen.ExprFits
import HmfVerif.Spec.Fits
import HmfVerif.Spec.PublishedFits
import HmfVerif.Gen.Guards
import HmfVerif.Spec.Guards
/-!
# C06 — every built-in fitting function evaluates its documented closed form

`Gen.Fits.X_fsigma` is regenerated from `fitting_functions.py` on every run (tools/pyexpr.py);
`Spec.Fits.X` is the hand-written documented form.  Each theorem: for **all** real inputs and all
values of the model parameters (`p.*` are free variables, so user overrides are covered by the
quantifier) and any interpretation of the opaque externals (Γ, `cosmo.Om`, spline values), the two
denote the same real number.
-/
set_option linter.unusedSimpArgs false
namespace Hmf.C06
open Hmf.Spec.Fits

section
variable (opq : String → ℝ → ℝ) (ρ : String → ℝ)

/-- unfold one generated term (and its shared sub-definitions) and the named spec definitions -/
macro "fit_eq" "[" ds:Lean.Parser.Tactic.simpLemma,* "]" : tactic => `(tactic|
  (simp only [$ds,*, ν, σ, lnσinv, onePlusZ]; expr_unfold; try expr_close))

theorem PS_eq : evalR opq ρ Gen.Fits.PS_fsigma = evalR opq ρ PS := by fit_eq [Gen.Fits.PS_fsigma, PS]
theorem SMT_eq : evalR opq ρ Gen.Fits.SMT_fsigma = evalR opq ρ SMT := by fit_eq [Gen.Fits.SMT_fsigma, SMT, SMTform, SMT_A]
theorem ST_eq : evalR opq ρ Gen.Fits.ST_fsigma = evalR opq ρ SMT := by fit_eq [Gen.Fits.ST_fsigma, SMT, SMTform, SMT_A]
theorem Courtin_eq : evalR opq ρ Gen.Fits.Courtin_fsigma = evalR opq ρ SMT := by fit_eq [Gen.Fits.Courtin_fsigma, SMT, SMTform, SMT_A]
theorem Manera_eq : evalR opq ρ Gen.Fits.Manera_fsigma = evalR opq ρ SMT := by fit_eq [Gen.Fits.Manera_fsigma, SMT, SMTform, SMT_A]
theorem Jenkins_eq : evalR opq ρ Gen.Fits.Jenkins_fsigma = evalR opq ρ Jenkins := by fit_eq [Gen.Fits.Jenkins_fsigma, Jenkins]
theorem Warren_eq : evalR opq ρ Gen.Fits.Warren_fsigma = evalR opq ρ Warren := by fit_eq [Gen.Fits.Warren_fsigma, Warren, Warrenform]
theorem Watson_FoF_eq : evalR opq ρ Gen.Fits.Watson_FoF_fsigma = evalR opq ρ Warren := by fit_eq [Gen.Fits.Watson_FoF_fsigma, Warren, Warrenform]
theorem Pillepich_eq : evalR opq ρ Gen.Fits.Pillepich_fsigma = evalR opq ρ Warren := by fit_eq [Gen.Fits.Pillepich_fsigma, Warren, Warrenform]
theorem Ishiyama_eq : evalR opq ρ Gen.Fits.Ishiyama_fsigma = evalR opq ρ Warren := by fit_eq [Gen.Fits.Ishiyama_fsigma, Warren, Warrenform]
theorem Crocce_eq : evalR opq ρ Gen.Fits.Crocce_fsigma = evalR opq ρ Crocce := by fit_eq [Gen.Fits.Crocce_fsigma, Crocce, Warrenform]
theorem Reed03_eq : evalR opq ρ Gen.Fits.Reed03_fsigma = evalR opq ρ Reed03 := by fit_eq [Gen.Fits.Reed03_fsigma, Reed03, SMT, SMTform, SMT_A]
theorem Reed07_eq : evalR opq ρ Gen.Fits.Reed07_fsigma = evalR opq ρ Reed07 := by fit_eq [Gen.Fits.Reed07_fsigma, Reed07]
theorem Peacock_eq : evalR opq ρ Gen.Fits.Peacock_fsigma = evalR opq ρ Peacock := by fit_eq [Gen.Fits.Peacock_fsigma, Peacock]
theorem Angulo_eq : evalR opq ρ Gen.Fits.Angulo_fsigma = evalR opq ρ Angulo := by fit_eq [Gen.Fits.Angulo_fsigma, Angulo]
theorem AnguloBound_eq : evalR opq ρ Gen.Fits.AnguloBound_fsigma = evalR opq ρ Angulo := by fit_eq [Gen.Fits.AnguloBound_fsigma, Angulo]
theorem Watson_eq : evalR opq ρ Gen.Fits.Watson_fsigma = evalR opq ρ Watson := by fit_eq [Gen.Fits.Watson_fsigma, Watson, Watsonform, WatsonΓ]
theorem Bhattacharya_eq : evalR opq ρ Gen.Fits.Bhattacharya_fsigma = evalR opq ρ Bhattacharya := by fit_eq [Gen.Fits.Bhattacharya_fsigma, Bhattacharya, SMTform]
theorem Tinker08_eq : evalR opq ρ Gen.Fits.Tinker08_fsigma = evalR opq ρ Tinker08 := by fit_eq [Gen.Fits.Tinker08_fsigma, Tinker08]
theorem Tinker10_eq : evalR opq ρ Gen.Fits.Tinker10_fsigma = evalR opq ρ Tinker10 := by
  fit_eq [Gen.Fits.Tinker10_fsigma, Tinker10, T10norm, T10normFormula, T10β, T10φ, T10η, T10γ, T10z]
theorem Behroozi_eq : evalR opq ρ Gen.Fits.Behroozi_fsigma = evalR opq ρ Tinker10 := by
  fit_eq [Gen.Fits.Behroozi_fsigma, Tinker10, T10norm, T10normFormula, T10β, T10φ, T10η, T10γ, T10z]
end

/-- the published default coefficients are unchanged (every fit, every key, as exact decimals) -/
theorem defaults_published : Gen.Fits.defaults = published := by decide +kernel

/-- alias classes are identical to their targets -/
theorem aliases_unchanged : Gen.Fits.aliases = publishedAliases := by decide
theorem alias_ST : Gen.Fits.ST_fsigma = Gen.Fits.SMT_fsigma := rfl

/-- every registered fit has a generated term (none was untranslatable) -/
theorem all_fits_translated : Gen.Fits.table.length = 21 := by decide

/-- no fit has acquired a new special case (threshold, redshift switch, guard) beyond the documented ones -/
theorem guards_fits : Gen.Guards.fits = Spec.Guards.fits := by decide

end Hmf.C06
