import HmfVerif.Real.Tactics
import HmfVerif.Gen.ExprFits
import HmfVerif.Proofs.ExprLemmas
import Mathlib.Analysis.SpecialFunctions.Exp
import Mathlib.Analysis.Real.Pi.Bounds
import Mathlib.Analysis.SpecialFunctions.Gaussian.GaussianIntegral
import HmfVerif.Proofs.AnalysisFits
import HmfVerif.Gen.Guards
import HmfVerif.Spec.Guards
/-!
# C07 — fitting functions are pointwise, finite, non-negative, (PS) single-peaked and bounded

Sign theorems are proved **directly on the generated terms** (unfold + `positivity`), under explicit
sign hypotheses on the coefficients, so they survive edits that keep the sign structure.
"Finite" over ℝ means: the expression is a real number for every input in the stated domain — which
is what these theorems' well-typedness plus the domain hypotheses (σ > 0, i.e. ν² > 0 and δc > 0)
express; binary64 overflow is outside the theorems.
-/
set_option linter.unusedSimpArgs false
set_option linter.unusedVariables false
namespace Hmf.C07
open Real

/-! ## pointwise -/

/-- every generated `fsigma` term is elementwise: no reversal, cumulative sum, reduction or indexing -/
theorem all_fits_elementwise : Gen.Fits.table.all (fun t => t.2.isElementwise) = true := by decide

/-- hence for every registered fit the value at element `i` is the scalar formula at the inputs at
    `i`, and any re-indexing (permutation, subset) of the inputs re-indexes the outputs exactly -/
theorem fits_pointwise (t : String × E) (ht : t ∈ Gen.Fits.table) (opq : String → ℝ → ℝ) (ne)
    (env : String → Nat → ℝ) (perm : Nat → Nat) (i : Nat) :
    evalV opq ne (fun x j => env x (perm j)) t.2 i = evalV opq ne env t.2 (perm i) :=
  evalV_reindex opq ne env perm t.2 (List.all_eq_true.mp all_fits_elementwise t ht) i

/-! ## non-negative -/
section
variable (opq : String → ℝ → ℝ) (ρ : String → ℝ)

macro "fit_unfold" "[" ds:Lean.Parser.Tactic.simpLemma,* "]" : tactic => `(tactic|
  (simp only [$ds,*]; expr_unfold; push_cast))

theorem PS_nonneg : 0 ≤ evalR opq ρ Gen.Fits.PS_fsigma := by
  fit_unfold [Gen.Fits.PS_fsigma]; positivity

theorem SMT_nonneg (hν : 0 < ρ "nu2") (hA : 0 ≤ ρ "p.A") (ha : 0 < ρ "p.a") (hG : ∀ x, 0 < opq "Gamma" x) :
    0 ≤ evalR opq ρ Gen.Fits.SMT_fsigma := by
  fit_unfold [Gen.Fits.SMT_fsigma]
  have := hG (5 * 10 ^ (-1:ℤ) - ρ "p.p"); have := hG (5 * 10 ^ (-1:ℤ))
  split_ifs <;> positivity

theorem Courtin_nonneg (hν : 0 < ρ "nu2") (hA : 0 ≤ ρ "p.A") (ha : 0 < ρ "p.a") (hG : ∀ x, 0 < opq "Gamma" x) :
    0 ≤ evalR opq ρ Gen.Fits.Courtin_fsigma := by
  fit_unfold [Gen.Fits.Courtin_fsigma]
  have := hG (5 * 10 ^ (-1:ℤ) - ρ "p.p"); have := hG (5 * 10 ^ (-1:ℤ))
  split_ifs <;> positivity

theorem Manera_nonneg (hν : 0 < ρ "nu2") (hA : 0 ≤ ρ "p.A") (ha : 0 < ρ "p.a") (hG : ∀ x, 0 < opq "Gamma" x) :
    0 ≤ evalR opq ρ Gen.Fits.Manera_fsigma := by
  fit_unfold [Gen.Fits.Manera_fsigma]
  have := hG (5 * 10 ^ (-1:ℤ) - ρ "p.p"); have := hG (5 * 10 ^ (-1:ℤ))
  split_ifs <;> positivity

theorem Jenkins_nonneg (hA : 0 ≤ ρ "p.A") : 0 ≤ evalR opq ρ Gen.Fits.Jenkins_fsigma := by
  fit_unfold [Gen.Fits.Jenkins_fsigma]; positivity

theorem Warren_nonneg (hν : 0 < ρ "nu2") (hδ : 0 < ρ "delta_c") (hA : 0 ≤ ρ "p.A") (hc : 0 ≤ ρ "p.c") (he : 0 ≤ ρ "p.e") :
    0 ≤ evalR opq ρ Gen.Fits.Warren_fsigma := by
  fit_unfold [Gen.Fits.Warren_fsigma]; positivity
theorem Watson_FoF_nonneg (hν : 0 < ρ "nu2") (hδ : 0 < ρ "delta_c") (hA : 0 ≤ ρ "p.A") (hc : 0 ≤ ρ "p.c") (he : 0 ≤ ρ "p.e") :
    0 ≤ evalR opq ρ Gen.Fits.Watson_FoF_fsigma := by
  fit_unfold [Gen.Fits.Watson_FoF_fsigma]; positivity
theorem Pillepich_nonneg (hν : 0 < ρ "nu2") (hδ : 0 < ρ "delta_c") (hA : 0 ≤ ρ "p.A") (hc : 0 ≤ ρ "p.c") (he : 0 ≤ ρ "p.e") :
    0 ≤ evalR opq ρ Gen.Fits.Pillepich_fsigma := by
  fit_unfold [Gen.Fits.Pillepich_fsigma]; positivity
theorem Ishiyama_nonneg (hν : 0 < ρ "nu2") (hδ : 0 < ρ "delta_c") (hA : 0 ≤ ρ "p.A") (hc : 0 ≤ ρ "p.c") (he : 0 ≤ ρ "p.e") :
    0 ≤ evalR opq ρ Gen.Fits.Ishiyama_fsigma := by
  fit_unfold [Gen.Fits.Ishiyama_fsigma]; positivity

theorem Crocce_nonneg (hν : 0 < ρ "nu2") (hδ : 0 < ρ "delta_c") (hz : 0 ≤ ρ "z") (hA : 0 ≤ ρ "p.A_a") (hc : 0 ≤ ρ "p.c_a")
    (he : 0 ≤ ρ "p.e") : 0 ≤ evalR opq ρ Gen.Fits.Crocce_fsigma := by
  fit_unfold [Gen.Fits.Crocce_fsigma]; positivity

theorem Reed03_nonneg (hν : 0 < ρ "nu2") (hA : 0 ≤ ρ "p.A") (ha : 0 < ρ "p.a") (hG : ∀ x, 0 < opq "Gamma" x) :
    0 ≤ evalR opq ρ Gen.Fits.Reed03_fsigma := by
  fit_unfold [Gen.Fits.Reed03_fsigma]
  have := hG (5 * 10 ^ (-1:ℤ) - ρ "p.p"); have := hG (5 * 10 ^ (-1:ℤ))
  split_ifs <;> positivity

theorem Reed07_nonneg (hν : 0 < ρ "nu2") (hA : 0 ≤ ρ "p.A") (ha : 0 < ρ "p.a") (hc : 0 < ρ "p.c") :
    0 ≤ evalR opq ρ Gen.Fits.Reed07_fsigma := by
  fit_unfold [Gen.Fits.Reed07_fsigma]; positivity

theorem Peacock_nonneg (hν : 0 < ρ "nu2") (ha : 0 ≤ ρ "p.a") (hb : 0 ≤ ρ "p.b") (hc : 0 ≤ ρ "p.c") :
    0 ≤ evalR opq ρ Gen.Fits.Peacock_fsigma := by
  fit_unfold [Gen.Fits.Peacock_fsigma]; positivity

theorem Angulo_nonneg (hν : 0 < ρ "nu2") (hδ : 0 < ρ "delta_c") (hA : 0 ≤ ρ "p.A") (hd : 0 ≤ ρ "p.d") :
    0 ≤ evalR opq ρ Gen.Fits.Angulo_fsigma := by
  fit_unfold [Gen.Fits.Angulo_fsigma]; positivity
theorem AnguloBound_nonneg (hν : 0 < ρ "nu2") (hδ : 0 < ρ "delta_c") (hA : 0 ≤ ρ "p.A") (hd : 0 ≤ ρ "p.d") :
    0 ≤ evalR opq ρ Gen.Fits.AnguloBound_fsigma := by
  fit_unfold [Gen.Fits.AnguloBound_fsigma]; positivity

theorem Bhattacharya_nonneg (hν : 0 < ρ "nu2") (hz : 0 ≤ ρ "z") (hA : 0 ≤ ρ "p.A_a") (ha : 0 < ρ "p.a_a") :
    0 ≤ evalR opq ρ Gen.Fits.Bhattacharya_fsigma := by
  fit_unfold [Gen.Fits.Bhattacharya_fsigma]; positivity

theorem Watson_nonneg (hν : 0 < ρ "nu2") (hδ : 0 < ρ "delta_c") (hz : 0 ≤ ρ "z") (hΔ : 0 < ρ "delta_halo")
    (hOm : 0 ≤ opq "cosmo.Om" (ρ "z"))
    (h1 : 0 ≤ ρ "p.A_0") (h2 : 0 ≤ ρ "p.beta_0") (h3 : 0 ≤ ρ "p.A_hi") (h4 : 0 ≤ ρ "p.beta_hi")
    (h5 : 0 ≤ ρ "p.A_a") (h6 : 0 ≤ ρ "p.A_c") (h7 : 0 ≤ ρ "p.beta_a") (h8 : 0 ≤ ρ "p.beta_c") :
    0 ≤ evalR opq ρ Gen.Fits.Watson_fsigma := by
  fit_unfold [Gen.Fits.Watson_fsigma]
  split_ifs <;> positivity

theorem Tinker08_nonneg (hν : 0 < ρ "nu2") (hδ : 0 < ρ "delta_c") (hz : 0 ≤ ρ "z")
    (hA1 : 0 ≤ ρ "loc:Tinker08.A_0") (hA2 : 0 ≤ ρ "py:self.params[f'A_{int(delta_halo)}']")
    (hb1 : 0 ≤ ρ "loc:Tinker08.b_0") (hb2 : 0 ≤ ρ "py:self.params[f'b_{int(delta_halo)}']") :
    0 ≤ evalR opq ρ Gen.Fits.Tinker08_fsigma := by
  fit_unfold [Gen.Fits.Tinker08_fsigma]
  split_ifs <;> positivity

/-- Tinker et al. (2010), both the tabulated-amplitude branch (z = 0) and the branch that normalises with Γ functions -/
theorem Tinker10_nonneg (hν : 0 < ρ "nu2") (hz : 0 ≤ ρ "z")
    (hα : 0 ≤ ρ "py:self.params[f'alpha_{int(self.delta_halo)}']")
    (hβ : 0 < ρ "py:self.params[f'beta_{int(delta_halo)}']") (hβ0 : 0 < ρ "loc:Tinker10.beta_0")
    (hγ0 : 0 < ρ "loc:Tinker10.gamma_0") (hγ : 0 < ρ "py:self.params[f'gamma_{int(delta_halo)}']")
    (hmz : 0 ≤ ρ "p.max_z") (hG : ∀ x, 0 < opq "Gamma" x) :
    0 ≤ evalR opq ρ Gen.Fits.Tinker10_fsigma := by
  fit_unfold [Gen.Fits.Tinker10_fsigma]
  obtain ⟨lg, hlg⟩ : ∃ lg : ℝ → ℝ, ∀ x, opq "Gamma" x = exp (lg x) :=
    ⟨fun x => log (opq "Gamma" x), fun x => (exp_log (hG x)).symm⟩
  simp only [decide_eq_true_eq, hlg]
  split_ifs <;> positivity

/-- Behroozi et al. (2013) uses the Tinker10 multiplicity (its correction acts on dn/dm, see C02) -/
theorem Behroozi_nonneg (hν : 0 < ρ "nu2") (hz : 0 ≤ ρ "z")
    (hα : 0 ≤ ρ "py:self.params[f'alpha_{int(self.delta_halo)}']")
    (hβ : 0 < ρ "py:self.params[f'beta_{int(delta_halo)}']") (hβ0 : 0 < ρ "loc:Tinker10.beta_0")
    (hγ0 : 0 < ρ "loc:Tinker10.gamma_0") (hγ : 0 < ρ "py:self.params[f'gamma_{int(delta_halo)}']")
    (hmz : 0 ≤ ρ "p.max_z") (hG : ∀ x, 0 < opq "Gamma" x) :
    0 ≤ evalR opq ρ Gen.Fits.Behroozi_fsigma := by
  fit_unfold [Gen.Fits.Behroozi_fsigma]
  obtain ⟨lg, hlg⟩ : ∃ lg : ℝ → ℝ, ∀ x, opq "Gamma" x = exp (lg x) :=
    ⟨fun x => log (opq "Gamma" x), fun x => (exp_log (hG x)).symm⟩
  simp only [decide_eq_true_eq, hlg]
  split_ifs <;> positivity

theorem ST_nonneg (hν : 0 < ρ "nu2") (hA : 0 ≤ ρ "p.A") (ha : 0 < ρ "p.a") (hG : ∀ x, 0 < opq "Gamma" x) :
    0 ≤ evalR opq ρ Gen.Fits.ST_fsigma := by
  fit_unfold [Gen.Fits.ST_fsigma]
  have := hG (5 * 10 ^ (-1:ℤ) - ρ "p.p"); have := hG (5 * 10 ^ (-1:ℤ))
  split_ifs <;> positivity
end

/-! ## Press–Schechter: bounded by its peak, vanishing at large peak height -/

/-- ν e^{−ν²/2} ≤ e^{−1/2} for every real ν -/
theorem nu_exp_le (x : ℝ) : x * exp (-(x ^ 2) / 2) ≤ exp (-1 / 2) := by
  have h1 : x ≤ exp ((x ^ 2 - 1) / 2) := by
    have := Real.add_one_le_exp ((x ^ 2 - 1) / 2)
    nlinarith [sq_nonneg (x - 1)]
  have h2 : exp (-(x ^ 2) / 2) > 0 := exp_pos _
  calc x * exp (-(x ^ 2) / 2) ≤ exp ((x ^ 2 - 1) / 2) * exp (-(x ^ 2) / 2) := by
        apply mul_le_mul_of_nonneg_right h1 h2.le
    _ = exp (-1 / 2) := by rw [← exp_add]; congr 1; ring

/-- C07 (PS): for every peak height the PS multiplicity is at most √(2/π) e^{−1/2} -/
theorem PS_le_peak (opq) (ρ : String → ℝ) (hν : 0 ≤ ρ "nu2") :
    evalR opq ρ Gen.Fits.PS_fsigma ≤ sqrt (2 / π) * exp (-1 / 2) := by
  have hc : evalR opq ρ Gen.Fits.PS_fsigma = sqrt (2 / π) * (sqrt (ρ "nu2") * exp (-(ρ "nu2") / 2)) := by
    fit_unfold [Gen.Fits.PS_fsigma]
    expr_finish
  rw [hc]
  have h := nu_exp_le (sqrt (ρ "nu2"))
  rw [Real.sq_sqrt hν] at h
  exact mul_le_mul_of_nonneg_left h (sqrt_nonneg _)


/-! ## Press–Schechter: limits, single peak, unit collapsed fraction (all on the generated term) -/
section PSAnalysis
open MeasureTheory Set Filter Topology

/-- closed form of the generated PS term as a function of ν² -/
theorem PS_closed (opq) (ρ : String → ℝ) :
    evalR opq ρ Gen.Fits.PS_fsigma = sqrt (2 / π) * sqrt (ρ "nu2") * exp (-(ρ "nu2") / 2) := by
  fit_unfold [Gen.Fits.PS_fsigma]
  first
  | (have e1 : (-5 * 10 ^ (-1:ℤ) * ρ "nu2" : ℝ) = -(ρ "nu2") / 2 := by norm_num; ring
     have e2 : (2 * 10 ^ (0:ℤ) / π : ℝ) = 2 / π := by norm_num
     rw [e1, e2]; done)
  | expr_finish

/-- C07 (PS): f → 0 as σ → 0 (ν² → ∞) -/
theorem PS_tendsto_zero_small_sigma (opq) (ρ : String → ℝ) :
    Tendsto (fun x : ℝ => evalR opq (Function.update ρ "nu2" x) Gen.Fits.PS_fsigma) atTop (𝓝 0) := by
  simp only [PS_closed, Function.update_self]
  have := AnalysisFits.sqrt_mul_exp_tendsto.const_mul (sqrt (2 / π))
  simpa [mul_assoc] using this

/-- C07 (PS): f → 0 as σ → ∞ (ν² → 0⁺) — in fact f is continuous with f(0) = 0 -/
theorem PS_tendsto_zero_large_sigma (opq) (ρ : String → ℝ) :
    Tendsto (fun x : ℝ => evalR opq (Function.update ρ "nu2" x) Gen.Fits.PS_fsigma) (𝓝 0) (𝓝 0) := by
  simp only [PS_closed, Function.update_self]
  have hc : Continuous (fun x : ℝ => sqrt (2 / π) * sqrt x * exp (-x / 2)) := by continuity
  have := hc.tendsto 0
  simpa using this

/-- C07 (PS): the multiplicity integrates to one over all peak heights: ∫₀^∞ f(ν) dν/ν = 1 (ν² substituted into the
    generated term) -/
theorem PS_collapsed_fraction_one (opq) (ρ : String → ℝ) :
    ∫ ν in Ioi (0:ℝ), evalR opq (Function.update ρ "nu2" (ν ^ 2)) Gen.Fits.PS_fsigma / ν = 1 := by
  have h1 : ∀ ν ∈ Ioi (0:ℝ), evalR opq (Function.update ρ "nu2" (ν ^ 2)) Gen.Fits.PS_fsigma / ν
      = sqrt (2/π) * exp (-(1/2) * ν^2) := by
    intro ν hν
    have hν' : (0:ℝ) < ν := hν
    simp only [PS_closed, Function.update_self]
    rw [Real.sqrt_sq hν'.le]
    have : ν ≠ 0 := ne_of_gt hν'
    field_simp
  rw [setIntegral_congr_fun measurableSet_Ioi h1, integral_const_mul, integral_gaussian_Ioi]
  have hpi : 0 < π := pi_pos
  rw [show π / (1/2 : ℝ) = 2 * π by ring]
  have h2 : sqrt (2/π) * sqrt (2*π) = 2 := by
    rw [← sqrt_mul (by positivity), show (2 / π * (2 * π)) = 2^2 by field_simp, sqrt_sq (by norm_num)]
  calc sqrt (2/π) * (sqrt (2*π) / 2) = (sqrt (2/π) * sqrt (2*π)) / 2 := by ring
    _ = 1 := by rw [h2]; norm_num

/-- C07 (PS): single-peaked — as a function of ν² the multiplicity rises on [0, 1] and falls on [1, ∞): the only turning point
    is the peak at ν = 1 -/
theorem PS_unimodal (opq) (ρ : String → ℝ) :
    MonotoneOn (fun x : ℝ => evalR opq (Function.update ρ "nu2" x) Gen.Fits.PS_fsigma) (Set.Icc 0 1) ∧
    AntitoneOn (fun x : ℝ => evalR opq (Function.update ρ "nu2" x) Gen.Fits.PS_fsigma) (Set.Ici 1) := by
  simp only [PS_closed, Function.update_self]
  have hc : 0 ≤ sqrt (2 / π) := sqrt_nonneg _
  constructor
  · intro a ha b hb hab
    have := AnalysisFits.psShape_mono ha hb hab
    simp only at this ⊢
    rw [mul_assoc, mul_assoc]; exact mul_le_mul_of_nonneg_left this hc
  · intro a ha b hb hab
    have := AnalysisFits.psShape_anti ha hb hab
    simp only at this ⊢
    rw [mul_assoc, mul_assoc]; exact mul_le_mul_of_nonneg_left this hc

end PSAnalysis

/-! ## Jenkins: closed form, bound by its amplitude (hence by the PS peak), single peak -/
section JenkinsAnalysis

/-- closed form of the generated Jenkins term -/
theorem Jenkins_closed (opq) (ρ : String → ℝ) :
    evalR opq ρ Gen.Fits.Jenkins_fsigma
      = ρ "p.A" * exp (-(|ρ "p.b" + -Real.log (ρ "delta_c" / sqrt (ρ "nu2"))| ^ ρ "p.c")) := by
  simp only [Gen.Fits.Jenkins_fsigma]
  first
  | (expr_unfold; done)
  | (expr_unfold; first | rfl | expr_finish | (push_cast; expr_finish))

/-- C07 (Jenkins): f never exceeds its amplitude `A`, for every σ, every b and c -/
theorem Jenkins_le_amplitude (opq) (ρ : String → ℝ) (hA : 0 ≤ ρ "p.A") :
    evalR opq ρ Gen.Fits.Jenkins_fsigma ≤ ρ "p.A" := by
  rw [Jenkins_closed]
  have h0 : 0 ≤ |ρ "p.b" + -Real.log (ρ "delta_c" / sqrt (ρ "nu2"))| ^ ρ "p.c" := Real.rpow_nonneg (abs_nonneg _) _
  have h1 : exp (-(|ρ "p.b" + -Real.log (ρ "delta_c" / sqrt (ρ "nu2"))| ^ ρ "p.c")) ≤ 1 := by
    rw [exp_le_one_iff]; linarith
  calc ρ "p.A" * exp _ ≤ ρ "p.A" * 1 := mul_le_mul_of_nonneg_left h1 hA
    _ = ρ "p.A" := mul_one _

/-- the Press–Schechter peak √(2/π)·e^(−1/2) exceeds 0.39 -/
theorem PS_peak_lower_bound : (0.39 : ℝ) < sqrt (2 / π) * exp (-(1:ℝ) / 2) := by
  have hpi : π < 3.15 := Real.pi_lt_d2
  have hpos : (0:ℝ) < π := Real.pi_pos
  have h1 : (0.79 : ℝ) ≤ sqrt (2 / π) := by
    apply Real.le_sqrt_of_sq_le
    rw [le_div_iff₀ hpos]; nlinarith
  have h2 : (0.5 : ℝ) ≤ exp (-(1:ℝ) / 2) := by
    have := Real.add_one_le_exp (-(1:ℝ) / 2); linarith
  have h3 : (0:ℝ) ≤ sqrt (2 / π) := sqrt_nonneg _
  nlinarith

/-- C07 (Jenkins, default amplitude 0.315, independent of redshift): the peak is below the Press–Schechter peak -/
theorem Jenkins_below_PS_peak (opq) (ρ : String → ℝ) (hA : ρ "p.A" = 0.315) :
    evalR opq ρ Gen.Fits.Jenkins_fsigma < sqrt (2 / π) * exp (-(1:ℝ) / 2) := by
  have h := Jenkins_le_amplitude opq ρ (by rw [hA]; norm_num)
  have := PS_peak_lower_bound
  rw [hA] at h; linarith

/-- C07 (Jenkins): single-peaked — as a function of ν² the multiplicity rises up to ν* = δ_c·e^(−b) and falls beyond it
    (for every positive exponent c and non-negative amplitude) -/
theorem Jenkins_unimodal (opq) (ρ : String → ℝ) (hA : 0 ≤ ρ "p.A") (hc : 0 ≤ ρ "p.c") (hd : 0 < ρ "delta_c") :
    MonotoneOn (fun x : ℝ => evalR opq (Function.update ρ "nu2" x) Gen.Fits.Jenkins_fsigma)
      (Set.Ioc 0 ((ρ "delta_c" * exp (-(ρ "p.b"))) ^ 2)) ∧
    AntitoneOn (fun x : ℝ => evalR opq (Function.update ρ "nu2" x) Gen.Fits.Jenkins_fsigma)
      (Set.Ici ((ρ "delta_c" * exp (-(ρ "p.b"))) ^ 2)) := by
  simp only [Jenkins_closed, Function.update_self, Function.update_apply, String.reduceEq, if_false]
  set b := ρ "p.b"
  set d := ρ "delta_c"
  set c := ρ "p.c"
  -- g x = b − ln(d/√x) is increasing in x > 0 and vanishes at x* = (d e^{−b})²
  have hstar : 0 < (d * exp (-b)) ^ 2 := by positivity
  have hg : ∀ x : ℝ, 0 < x → b + -Real.log (d / sqrt x) = b - Real.log d + Real.log x / 2 := by
    intro x hx
    have hs : 0 < sqrt x := Real.sqrt_pos.mpr hx
    rw [Real.log_div hd.ne' hs.ne', Real.log_sqrt hx.le]; ring
  have hgstar : b - Real.log d + Real.log ((d * exp (-b)) ^ 2) / 2 = 0 := by
    rw [Real.log_pow, Real.log_mul hd.ne' (exp_pos _).ne', Real.log_exp]; push_cast; ring
  have key : ∀ u v : ℝ, |u| ≤ |v| → ρ "p.A" * exp (-(|v| ^ c)) ≤ ρ "p.A" * exp (-(|u| ^ c)) := by
    intro u v huv
    apply mul_le_mul_of_nonneg_left _ hA
    rw [exp_le_exp, neg_le_neg_iff]
    exact Real.rpow_le_rpow (abs_nonneg _) huv hc
  constructor
  · intro x hx y hy hxy
    have hx0 : 0 < x := hx.1
    have hy0 : 0 < y := hy.1
    simp only
    rw [hg x hx0, hg y hy0]
    apply key
    -- both arguments are ≤ 0 and g x ≤ g y
    have hlx : Real.log x ≤ Real.log y := Real.log_le_log hx0 hxy
    have hly : Real.log y ≤ Real.log ((d * exp (-b)) ^ 2) := Real.log_le_log hy0 hy.2
    have hy_le : b - Real.log d + Real.log y / 2 ≤ 0 := by linarith
    have hx_le : b - Real.log d + Real.log x / 2 ≤ 0 := by linarith
    rw [abs_of_nonpos hy_le, abs_of_nonpos hx_le]; linarith
  · intro x hx y hy hxy
    have hx0 : 0 < x := lt_of_lt_of_le hstar hx
    have hy0 : 0 < y := lt_of_lt_of_le hstar hy
    simp only
    rw [hg x hx0, hg y hy0]
    apply key
    have hlx : Real.log x ≤ Real.log y := Real.log_le_log hx0 hxy
    have hsx : Real.log ((d * exp (-b)) ^ 2) ≤ Real.log x := Real.log_le_log hstar hx
    have hx_ge : 0 ≤ b - Real.log d + Real.log x / 2 := by linarith
    have hy_ge : 0 ≤ b - Real.log d + Real.log y / 2 := by linarith
    rw [abs_of_nonneg hy_ge, abs_of_nonneg hx_ge]; linarith

/-- non-vacuity of the hypotheses on the *regenerated* default coefficients: A = 0.315, c = 3.8 ≥ 0 -/
theorem Jenkins_defaults_meet_hypotheses :
    ((Gen.Fits.defaults.lookup "Jenkins").bind (fun l => (l.find? (·.1 == "A")).map (fun t => (t.2.1, t.2.2)))) = some (315, -3) ∧
    ((Gen.Fits.defaults.lookup "Jenkins").bind (fun l => (l.find? (·.1 == "c")).map (fun t => decide (0 ≤ t.2.1)))) = some true := by
  decide +kernel

end JenkinsAnalysis

/-- validity masks, the z = 0 branches and the positivity tests of the fits are the documented ones; no new special case in any fit -/
theorem guards_fits : Gen.Guards.fits = Spec.Guards.fits := by decide

end Hmf.C07
