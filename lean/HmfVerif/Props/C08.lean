import HmfVerif.Model.Lists
import HmfVerif.Proofs.QuadLemmas
import HmfVerif.Real.Tactics
import HmfVerif.Gen.ExprFlow
import HmfVerif.Spec.Wiring
import HmfVerif.Gen.Guards
import HmfVerif.Spec.Guards
/-!
# C08 — cumulative number and mass densities are consistent with dn/dm
Statements about the list model of `hmf_integral_gtm` (tied to the code by evaluation at Float) over ℝ:
exact discrete identities for every table, any length.
-/
set_option linter.unusedSimpArgs false
set_option linter.unusedVariables false
namespace Hmf.C08
open Hmf.Quad Hmf.Lists Real

/-- entries of the reverse cumulative trapezoid are non-negative for a non-negative integrand -/
theorem cumtrapzRev_nonneg (dx : ℝ) (hdx : 0 ≤ dx) : ∀ ys : List ℝ, (∀ y ∈ ys, 0 ≤ y) → ∀ x ∈ cumtrapzRev dx ys, 0 ≤ x
  | [], _ => by simp [cumtrapzRev]
  | [_], _ => by simp [cumtrapzRev]
  | a :: b :: rest, h => by
    have ih := cumtrapzRev_nonneg dx hdx (b :: rest) (fun y hy => h y (by simp at hy ⊢; tauto))
    intro x hx
    simp only [cumtrapzRev, List.mem_cons] at hx
    rcases hx with hx | hx
    · subst hx
      have ha := h a (by simp); have hb := h b (by simp)
      have ht : 0 ≤ (cumtrapzRev dx (b :: rest)).headD 0 := by
        cases hc : cumtrapzRev dx (b :: rest) with
        | nil => simp
        | cons c cs => simp only [List.headD_cons]; exact ih c (by rw [hc]; simp)
      simp only [sci_add, trap1_r, zero_r]
      positivity
    · exact ih x hx

/-- C08: the cumulative density is non-increasing in m: each entry exceeds the next by one (non-negative) trapezoid —
    which is also the statement that differences between two masses equal the trapezoid integral of the integrand between them -/
theorem gtm_step (dx up a b : ℝ) (rest : List ℝ) :
    ((cumtrapzRev dx (a :: b :: rest)).map (· + up)).headD 0 - ((cumtrapzRev dx (b :: rest)).map (· + up)).headD 0
      = 1 / 2 * dx * (a + b) := by
  have := cumtrapzRev_step dx a b rest
  cases h1 : cumtrapzRev dx (b :: rest) with
  | nil =>
    have hl := cumtrapzRev_length dx (b :: rest)
    rw [h1] at hl; simp at hl
  | cons c cs =>
    simp only [cumtrapzRev, h1, List.map_cons, List.headD_cons, sci_add, trap1_r, zero_r] at this ⊢
    linarith

/-- C08: the whole list of cumulative values is sorted in non-increasing order of mass (non-negative integrand and step) -/
theorem gtm_sorted (dx up : ℝ) (hdx : 0 ≤ dx) : ∀ ys : List ℝ, (∀ y ∈ ys, 0 ≤ y) →
    List.IsChain (· ≥ ·) ((cumtrapzRev dx ys).map (· + up))
  | [], _ => by simp [cumtrapzRev]
  | [_], _ => by simp [cumtrapzRev]
  | a :: b :: rest, h => by
    have ih := gtm_sorted dx up hdx (b :: rest) (fun y hy => h y (by simp at hy ⊢; tauto))
    have ha := h a (by simp); have hb := h b (by simp)
    cases h1 : cumtrapzRev dx (b :: rest) with
    | nil =>
      have hl := cumtrapzRev_length dx (b :: rest)
      rw [h1] at hl; simp at hl
    | cons c cs =>
      rw [h1] at ih
      simp only [cumtrapzRev, h1, List.map_cons, List.headD_cons, sci_add, trap1_r, zero_r] at ih ⊢
      refine List.IsChain.cons_cons ?_ ih
      have : 0 ≤ 1 / 2 * dx * (a + b) := by positivity
      show 1 / 2 * dx * (a + b) + c + up ≥ c + up
      linarith

/-- C08: n(>m) and ρ(>m) are non-negative whenever dn/dm ≥ 0, the step and the extrapolated tail are non-negative -/
theorem gtm_nonneg (dx up : ℝ) (hdx : 0 ≤ dx) (hup : 0 ≤ up) (ys : List ℝ) (h : ∀ y ∈ ys, 0 ≤ y) :
    ∀ x ∈ (cumtrapzRev dx ys).map (· + up), 0 ≤ x := by
  intro x hx
  obtain ⟨c, hc, rfl⟩ := List.mem_map.mp hx
  have := cumtrapzRev_nonneg dx hdx ys h c hc
  linarith

/-- the result has one entry per tabulated mass -/
theorem gtm_length (dx up : ℝ) (ys : List ℝ) : ((cumtrapzRev dx ys).map (· + up)).length = ys.length := by
  simp [cumtrapzRev_length]

/-- the whole-range value is the trapezoid integral of the table plus the tail -/
theorem gtm_head (dx up : ℝ) (ys : List ℝ) (hne : ys ≠ []) :
    ((cumtrapzRev dx ys).map (· + up)).headD 0 = trapz dx ys + up := by
  have := cumtrapzRev_head_eq_trapz dx ys
  cases h1 : cumtrapzRev dx ys with
  | nil =>
    have := cumtrapzRev_length dx ys
    rw [h1] at this
    cases ys with
    | nil => exact absurd rfl hne
    | cons _ _ => simp at this
  | cons c cs =>
    rw [h1] at this
    simp only [List.map_cons, List.headD_cons] at this ⊢
    rw [this]

/-- the extrapolated tail is non-negative (a Simpson sum of exponentials with a non-negative step) -/
theorem tail_nonneg (dx : ℝ) (hdx : 0 ≤ dx) (zs : List ℝ) : 0 ≤ simps .first dx (zs.map Real.exp) := by
  apply simps_nonneg _ _ hdx
  intro y hy
  obtain ⟨z, _, rfl⟩ := List.mem_map.mp hy
  exact (Real.exp_pos z).le

section
variable (opq : String → ℝ → ℝ) (ρ : String → ℝ)
/-- C08: rho_ltm = mean_density0 − rho_gtm -/
theorem rho_ltm_eq : evalR opq ρ Gen.Flow.MassFunction_rho_ltm = ρ "mean_density0" - ρ "rho_gtm" := by
  simp only [Gen.Flow.MassFunction_rho_ltm]; expr_unfold
/-- C08: how_big = (0.366362 / ngtm)^(1/3) -/
theorem how_big_eq : evalR opq ρ Gen.Flow.MassFunction_how_big = (0.366362 / ρ "ngtm") ^ ((1:ℝ) / 3) := by
  simp only [Gen.Flow.MassFunction_how_big]; expr_unfold; push_cast; norm_num
end

/-- C08: `_gtm` hands the stand-alone integrator the positive part of the table, and the automatic high-mass extension starts one
    grid step above the last tabulated mass and runs to 10^18 — so values at a mass do not depend on where the user's grid stops -/
theorem gtm_wiring :
    Gen.Flow.wiring.lookup "MassFunction.<helper>/hmf_integral_gtm" = some Spec.Wiring.gtmIntegrator ∧
    Gen.Flow.wiring.lookup "MassFunction.<helper>/<derived object>.update" = some Spec.Wiring.gtmExtension := by decide

/-- thresholds of the cumulative integrals (10^16.5 tail limit, positivity mask) are the documented ones; no new special case -/
theorem guards_cumulative : Gen.Guards.massFunction = Spec.Guards.massFunction ∧ Gen.Guards.integrate = Spec.Guards.integrate := by decide

/-! ## NaN rows (any carrier with a "keep" test: for IEEE floats `x == x`) -/
section nan
open Hmf.Lists
variable {α : Type} [Sci α]

theorem dropBy_append (keep : α → Bool) (m₁ m₂ d₁ d₂ : List α) (hl : m₁.length = d₁.length) :
    dropBy keep (m₁ ++ m₂) (d₁ ++ d₂) =
      ((dropBy keep m₁ d₁).1 ++ (dropBy keep m₂ d₂).1, (dropBy keep m₁ d₁).2 ++ (dropBy keep m₂ d₂).2) := by
  simp [dropBy, List.zip_append hl]

theorem dropBy_all_kept (keep : α → Bool) : ∀ (m d : List α), m.length = d.length → (∀ x ∈ d, keep x = true) → dropBy keep m d = (m, d)
  | [], [], _, _ => by simp [dropBy]
  | [], _ :: _, h, _ => by simp at h
  | _ :: _, [], h, _ => by simp at h
  | a :: m, b :: d, h, hk => by
      have ih := dropBy_all_kept keep m d (by simpa using h) (fun x hx => hk x (List.mem_cons_of_mem _ hx))
      have hb : keep b = true := hk b (by simp)
      simp only [dropBy, List.zip_cons_cons, List.filter_cons, hb, if_true, List.map_cons] at ih ⊢
      rw [Prod.mk.injEq] at ih ⊢
      exact ⟨by rw [ih.1], by rw [ih.2]⟩

theorem dropBy_none_kept (keep : α → Bool) : ∀ (m d : List α), (∀ x ∈ d, keep x = false) → dropBy keep m d = ([], [])
  | [], _, _ => by simp [dropBy]
  | _ :: _, [], _ => by simp [dropBy]
  | a :: m, b :: d, hk => by
      have ih := dropBy_none_kept keep m d (fun x hx => hk x (List.mem_cons_of_mem _ hx))
      have hb : keep b = false := hk b (by simp)
      simp only [dropBy, List.zip_cons_cons, List.filter_cons, hb, Bool.false_eq_true, if_false] at ih ⊢
      exact ih

/-- **C08, NaN clause**: a table whose top rows hold NaN (a mass function not evaluated up there) is integrated exactly like the table
    that stops before them — for every length of either part, both integrands and either branch of the tail -/
theorem nan_top_rows_same_as_shorter_table (md ext : Bool) (m₁ m₂ d₁ d₂ : List α) (n : Nat)
    (hl : m₁.length = d₁.length) (h1 : ∀ x ∈ d₁, Sci.beq x x = true) (h2 : ∀ x ∈ d₂, Sci.beq x x = false) :
    hmfIntegralGtmRaw md ext (m₁ ++ m₂) (d₁ ++ d₂) n = hmfIntegralGtm md ext m₁ d₁ n := by
  unfold hmfIntegralGtmRaw dropNaN
  rw [dropBy_append _ _ _ _ _ hl, dropBy_all_kept _ m₁ d₁ hl h1, dropBy_none_kept _ m₂ d₂ h2]
  simp
end nan

end Hmf.C08
