import HmfVerif.Real.Tactics
import HmfVerif.Gen.ExprGrowth
import HmfVerif.Gen.ExprFlow
import HmfVerif.Spec.Wiring
import HmfVerif.Gen.Guards
import HmfVerif.Spec.Guards
/-!
# C09 — growth factor: normalisation, Einstein–de Sitter limits, dispatch  (mostly numerical: see DESIGN)
The integral model (quadrature of 1/(aE)³), the splines and CAMB are opaque; what is algebra on the
regenerated closed forms is proved here.
-/
set_option linter.unusedSimpArgs false
set_option linter.unusedVariables false
set_option linter.unusedTactic false
namespace Hmf.C09
open Real

section
variable (opq : String → ℝ → ℝ) (ρ : String → ℝ)

/-- Carroll+1992: growth_factor(z) is D⁺(z)/D⁺(0) of the *same* closed form … -/
theorem carroll_is_ratio :
    evalR opq ρ Gen.Growth.Carroll1992_growth_factor =
      evalR opq ρ Gen.Growth.Carroll1992__d_plus / evalR opq (Function.update ρ "z" 0) Gen.Growth.Carroll1992__d_plus := by
  simp only [Gen.Growth.Carroll1992_growth_factor, Gen.Growth.Carroll1992__d_plus]; expr_unfold; push_cast
  simp only [Function.update_apply, String.reduceEq, if_false, if_true]
  norm_num
/-- … hence growth_factor(0) = 1 whenever D⁺(0) ≠ 0 -/
theorem carroll_growth_at_zero (hz : ρ "z" = 0) (h0 : evalR opq ρ Gen.Growth.Carroll1992__d_plus ≠ 0) :
    evalR opq ρ Gen.Growth.Carroll1992_growth_factor = 1 := by
  rw [carroll_is_ratio]
  have : Function.update ρ "z" 0 = ρ := by
    funext x; by_cases hx : x = "z"
    · subst hx; simp [hz]
    · simp [Function.update_apply, hx]
  rw [this]; exact div_self h0

/-- C09: in an Einstein–de Sitter universe (Ωm = 1, ΩΛ = 0) the Carroll model gives D⁺(z) = 1/(1+z) exactly -/
theorem carroll_dplus_EdS (hO : ρ "cosmo.Om0" = 1) (hL : ρ "cosmo.Ode0" = 0) (hz : 0 ≤ ρ "z") :
    evalR opq ρ Gen.Growth.Carroll1992__d_plus = 1 / (1 + ρ "z") := by
  simp only [Gen.Growth.Carroll1992__d_plus]; expr_unfold; push_cast
  simp only [hO, hL, zpow_ofNat]
  have hp : (0:ℝ) < 1 + ρ "z" := by linarith
  have h1 : (1:ℝ) / (1 / (1 + ρ "z")) ^ 3 ≠ 0 := by positivity
  first
  | (norm_num; field_simp; norm_num; done)
  | (norm_num; field_simp; ring_nf; done)
  | (norm_num; field_simp; done)
/-- … so (1+z)·growth_factor(z) = 1 -/
theorem carroll_EdS (hO : ρ "cosmo.Om0" = 1) (hL : ρ "cosmo.Ode0" = 0) (hz : 0 ≤ ρ "z") :
    (1 + ρ "z") * evalR opq ρ Gen.Growth.Carroll1992_growth_factor = 1 := by
  rw [carroll_is_ratio, carroll_dplus_EdS opq ρ hO hL hz]
  have h0 := carroll_dplus_EdS opq (Function.update ρ "z" 0) (by simpa [Function.update_apply] using hO)
    (by simpa [Function.update_apply] using hL) (by simp [Function.update_apply])
  rw [h0]
  have hp : (0:ℝ) < 1 + ρ "z" := by linarith
  simp [Function.update_apply]
  field_simp

/-- the growth rate is the expression −1 − Ωm(z)/2 + ΩΛ(z) + 5Ωm(z)/(2 D(z)) with D the *normalised* growth factor -/
theorem carroll_growth_rate_formula :
    evalR opq ρ Gen.Growth.Carroll1992_growth_rate =
      -1 - opq "cosmo.Om" (ρ "z") / 2 + opq "cosmo.Ode" (ρ "z") + 5 * opq "cosmo.Om" (ρ "z") / (2 * evalR opq ρ Gen.Growth.Carroll1992_growth_factor) := by
  simp only [Gen.Growth.Carroll1992_growth_rate, Gen.Growth.Carroll1992_growth_factor]; expr_unfold <;> first | (push_cast; norm_num; done) | (push_cast; norm_num; ring_nf; done) | expr_finish

/-- **known finding, formalised**: in Einstein–de Sitter, where the true growth rate −dlnD/dln(1+z) is exactly 1 (D = 1/(1+z)),
    the code's growth_rate evaluates to (5/2)(1+z) − 3/2 — different from 1 at every z > 0 -/
theorem growth_rate_EdS_value (hO : ρ "cosmo.Om0" = 1) (hL : ρ "cosmo.Ode0" = 0) (hz : 0 ≤ ρ "z")
    (hOm : opq "cosmo.Om" (ρ "z") = 1) (hOde : opq "cosmo.Ode" (ρ "z") = 0) :
    evalR opq ρ Gen.Growth.Carroll1992_growth_rate = 5 / 2 * (1 + ρ "z") - 3 / 2 := by
  rw [carroll_growth_rate_formula, hOm, hOde]
  have h := carroll_EdS opq ρ hO hL hz
  have hp : (0:ℝ) < 1 + ρ "z" := by linarith
  have hD : evalR opq ρ Gen.Growth.Carroll1992_growth_factor = 1 / (1 + ρ "z") := by
    field_simp; linarith
  rw [hD]; field_simp; ring
theorem growth_rate_EdS_ne_one (hO : ρ "cosmo.Om0" = 1) (hL : ρ "cosmo.Ode0" = 0) (hz : 0 < ρ "z")
    (hOm : opq "cosmo.Om" (ρ "z") = 1) (hOde : opq "cosmo.Ode" (ρ "z") = 0) :
    evalR opq ρ Gen.Growth.Carroll1992_growth_rate ≠ 1 := by
  rw [growth_rate_EdS_value opq ρ hO hL hz.le hOm hOde]
  intro h; nlinarith

/-! ## GenMFGrowth (port of the `genmf` closed forms) -/

/-- C09: Einstein–de Sitter (Ωm = 1): the GenMF model returns D(z) = 1/(1+z) exactly, so (1+z)·D(z) = 1 and D(0) = 1 -/
theorem genmf_EdS (hO : ρ "cosmo.Om0" = 1) :
    evalR opq ρ Gen.Growth.GenMFGrowth_growth_factor = 1 / (1 + ρ "z") := by
  simp only [Gen.Growth.GenMFGrowth_growth_factor]; expr_unfold; push_cast
  simp [hO]

/-- C09: open models without a cosmological constant (Ωm ≠ 1, ΩΛ ≤ 0): growth_factor(0) = 1 — the closed form at z = 0 is its own
    normalisation, whatever the (non-zero) value of that normalisation -/
theorem genmf_open_growth_at_zero (hO : ρ "cosmo.Om0" ≠ 1) (hL : ρ "cosmo.Ode0" ≤ 0) (hz : ρ "z" = 0)
    (hden : evalR opq ρ Gen.Growth.GenMFGrowth_growth_factor ≠ 0) :
    evalR opq ρ Gen.Growth.GenMFGrowth_growth_factor = 1 := by
  revert hden
  simp only [Gen.Growth.GenMFGrowth_growth_factor]; expr_unfold; push_cast
  have h1 : ¬ (ρ "cosmo.Om0" = 1 * 10 ^ (0:ℤ)) := by simpa using hO
  have h2 : ¬ (0 * 10 ^ (0:ℤ) < ρ "cosmo.Ode0") := by simpa using not_lt.mpr hL
  simp only [decide_eq_true_eq, h1, h2, if_false, hz]
  norm_num
  all_goals (intro hden; exact div_self (fun h => hden (by rw [h]; simp)))

/-- Transfer.growth_factor evaluates the selected model at the object's z for either setting of the spline option -/
theorem transfer_growth_dispatch :
    evalR opq ρ Gen.Flow.Transfer_growth_factor =
      if 0.5 < ρ "flag:self.use_splined_growth" then ρ "py:self._growth_factor_fn(self.z)" else ρ "py:self.growth.growth_factor(self.z)" := by
  simp only [Gen.Flow.Transfer_growth_factor]; expr_unfold; push_cast
  norm_num
end
/-- the growth component is built from the object's cosmology (with `cosmo_params` applied) and `growth_params` only -/
theorem growth_component_wiring : Gen.Flow.wiring.lookup "Transfer.growth" = some Spec.Wiring.growth := by decide

/-- branch conditions of the closed-form growth models are the documented ones; no new special case -/
theorem guards_growth : Gen.Guards.growth = Spec.Guards.growth := by decide

end Hmf.C09
