import HmfVerif.Real.Tactics
import HmfVerif.Proofs.TableLemmas
import HmfVerif.Gen.ExprTransfer
import HmfVerif.Gen.ExprFlow
import HmfVerif.Spec.Transfer
import HmfVerif.Proofs.ExprLemmas
import Mathlib.Analysis.Convex.SpecificFunctions.Basic
import HmfVerif.Gen.Guards
import HmfVerif.Spec.Guards
/-!
# C10 — transfer functions are pointwise in k, reach 1 on large scales, never exceed 1
-/
set_option linter.unusedSimpArgs false
set_option linter.unusedVariables false
set_option linter.unusedTactic false
namespace Hmf.C10
open Hmf.Spec.Transfer Real

/-- every analytic transfer model's `lnt` is elementwise in `lnk` (no cumulative/reordering operation) -/
theorem analytic_models_elementwise : Gen.Transfer.table.all (fun t => t.2.isElementwise) = true := by decide

/-- hence T evaluated on any array equals T at each k alone, in any order -/
theorem transfer_pointwise (t : String × E) (ht : t ∈ Gen.Transfer.table) (opq : String → ℝ → ℝ) (ne)
    (env : String → Nat → ℝ) (perm : Nat → Nat) (i : Nat) :
    evalV opq ne (fun x j => env x (perm j)) t.2 i = evalV opq ne env t.2 (perm i) :=
  evalV_reindex opq ne env perm t.2 (List.all_eq_true.mp analytic_models_elementwise t ht) i

/-- the only array-valued input of any analytic model is `lnk`: T(k) cannot depend on the rest of the grid -/
theorem analytic_models_inputs :
    Gen.Transfer.table.all (fun t => t.2.freeVars.all (fun x => x == "lnk" || x.startsWith "cosmo." || x.startsWith "p.")) = true := by
  decide +kernel

section
variable (opq : String → ℝ → ℝ) (ρ : String → ℝ)

theorem BBKS_eq : evalR opq ρ Gen.Transfer.BBKS_lnt = evalR opq ρ BBKS_lnt := by
  simp only [Gen.Transfer.BBKS_lnt, BBKS_lnt, bbksT, bbksQ]; expr_unfold; try expr_close
theorem BondEfs_eq : evalR opq ρ Gen.Transfer.BondEfs_lnt = evalR opq ρ BondEfs_lnt := by
  simp only [Gen.Transfer.BondEfs_lnt, BondEfs_lnt, beT, beScale]; expr_unfold; try expr_close

/-- ln(1+x)/x ≤ 1 for x > 0 -/
theorem log_one_add_div_le (x : ℝ) (hx : 0 < x) : Real.log (1 + x) / x ≤ 1 := by
  rw [div_le_one hx]
  have := Real.log_le_sub_one_of_pos (by linarith : 0 < 1 + x)
  linarith

/-- BBKS: 0 < T ≤ 1 for every q > 0 (a > 0, b, d ≥ 0) -/
theorem BBKS_range (a b c d e q : ℝ) (ha : 0 < a) (hb : 0 ≤ b) (hd : 0 ≤ d) (hq : 0 < q) :
    0 < Real.log (1 + a*q) / (a*q) * (1 + b*q + (c*q)^2 + (d*q)^3 + (e*q)^4) ^ (-(1/4 : ℝ)) ∧
    Real.log (1 + a*q) / (a*q) * (1 + b*q + (c*q)^2 + (d*q)^3 + (e*q)^4) ^ (-(1/4 : ℝ)) ≤ 1 := by
  have haq : 0 < a * q := mul_pos ha hq
  have hP : 1 ≤ 1 + b*q + (c*q)^2 + (d*q)^3 + (e*q)^4 := by
    have h1 : 0 ≤ b*q := mul_nonneg hb hq.le
    have h2 : 0 ≤ (c*q)^2 := sq_nonneg _
    have h3 : 0 ≤ (d*q)^3 := pow_nonneg (mul_nonneg hd hq.le) 3
    have h4 : 0 ≤ (e*q)^4 := by positivity
    linarith
  have hlog : 0 < Real.log (1 + a*q) := Real.log_pos (by linarith)
  have hf1 : 0 < Real.log (1 + a*q) / (a*q) := div_pos hlog haq
  have hf1' : Real.log (1 + a*q) / (a*q) ≤ 1 := log_one_add_div_le _ haq
  have hf2 : 0 < (1 + b*q + (c*q)^2 + (d*q)^3 + (e*q)^4) ^ (-(1/4 : ℝ)) := rpow_pos_of_pos (by linarith) _
  have hf2' : (1 + b*q + (c*q)^2 + (d*q)^3 + (e*q)^4) ^ (-(1/4 : ℝ)) ≤ 1 :=
    rpow_le_one_of_one_le_of_nonpos hP (by norm_num)
  exact ⟨mul_pos hf1 hf2, by
    calc _ ≤ 1 * 1 := mul_le_mul hf1' hf2' hf2.le (by norm_num)
      _ = 1 := by norm_num⟩

/-- the generated BBKS term is ln of that expression at the code's own `q` -/
theorem BBKS_lnt_form : evalR opq ρ Gen.Transfer.BBKS_lnt =
    let q := exp (ρ "lnk") / (ρ "cosmo.Om0" * ρ "cosmo.h") *
      exp (ρ "cosmo.Ob0" + sqrt (2 * ρ "cosmo.h") * ρ "cosmo.Ob0" / ρ "cosmo.Om0")
    Real.log (Real.log (1 + ρ "p.a" * q) / (ρ "p.a" * q) *
      (1 + ρ "p.b" * q + (ρ "p.c" * q)^2 + (ρ "p.d" * q)^3 + (ρ "p.e" * q)^4) ^ (-(1/4 : ℝ))) := by
  simp only [Gen.Transfer.BBKS_lnt]; expr_unfold <;> first | (push_cast; norm_num [zpow_ofNat]; done) | (push_cast; norm_num [zpow_ofNat]; ring_nf; done) | expr_finish

/-- C10 (BBKS): T is finite with 0 < T ≤ 1, i.e. ln T ≤ 0, for every wavenumber and every valid cosmology -/
theorem BBKS_lnT_nonpos (hO : 0 < ρ "cosmo.Om0") (hh : 0 < ρ "cosmo.h") (ha : 0 < ρ "p.a") (hb : 0 ≤ ρ "p.b") (hd : 0 ≤ ρ "p.d") :
    evalR opq ρ Gen.Transfer.BBKS_lnt ≤ 0 := by
  rw [BBKS_lnt_form]
  have hq : 0 < exp (ρ "lnk") / (ρ "cosmo.Om0" * ρ "cosmo.h") *
      exp (ρ "cosmo.Ob0" + sqrt (2 * ρ "cosmo.h") * ρ "cosmo.Ob0" / ρ "cosmo.Om0") := by positivity
  obtain ⟨h1, h2⟩ := BBKS_range (ρ "p.a") (ρ "p.b") (ρ "p.c") (ρ "p.d") (ρ "p.e") _ ha hb hd hq
  exact Real.log_nonpos h1.le h2

/-- Bond–Efstathiou: 0 < T ≤ 1 for X = ak + (bk)^1.5 + (ck)² ≥ 0 and ν > 0 -/
theorem BondEfs_range (X ν : ℝ) (hX : 0 ≤ X) (hν : 0 < ν) : 0 < (1 + X ^ ν) ^ (-1 / ν) ∧ (1 + X ^ ν) ^ (-1 / ν) ≤ 1 := by
  have h1 : 1 ≤ 1 + X ^ ν := by have := rpow_nonneg hX ν; linarith
  have hneg : -1 / ν ≤ 0 := by apply div_nonpos_of_nonpos_of_nonneg <;> linarith
  exact ⟨rpow_pos_of_pos (by linarith) _, rpow_le_one_of_one_le_of_nonpos h1 hneg⟩

/-- … and T decreases when X grows (X is increasing in k for non-negative coefficients) -/
theorem BondEfs_antitone (X Y ν : ℝ) (hX : 0 ≤ X) (hXY : X ≤ Y) (hν : 0 < ν) : (1 + Y ^ ν) ^ (-1 / ν) ≤ (1 + X ^ ν) ^ (-1 / ν) := by
  have hb : 0 < 1 + X ^ ν := by have := rpow_nonneg hX ν; linarith
  have hle : 1 + X ^ ν ≤ 1 + Y ^ ν := by have := rpow_le_rpow hX hXY hν.le; linarith
  have hneg : -1 / ν ≤ 0 := by apply div_nonpos_of_nonpos_of_nonneg <;> linarith
  exact rpow_le_rpow_of_nonpos hb hle hneg

/-- the framework's transfer function is the model's T times the k-independent normalisation … -/
theorem transfer_function_is_const_times_T :
    evalR opq ρ Gen.Flow.Transfer_transfer_function = ρ "_normalisation" * exp (ρ "_unnormalised_lnT") := by
  simp only [Gen.Flow.Transfer_transfer_function]; expr_unfold <;> expr_finish
end

/-- … and mentions the grid parameters nowhere: its value at a wavenumber cannot depend on `lnk_min`, `lnk_max`, `dlnk`
    except through the normalisation constant -/
theorem transfer_function_inputs :
    Gen.Flow.Transfer_transfer_function.freeVars.all (fun x => x ∈ ["_normalisation", "_unnormalised_lnT"]) = true := by decide

/-! ## BBKS decreases monotonically with k -/
/-- ln(1+x)/x is non-increasing on (0, ∞) (concavity of the logarithm) -/
theorem log_one_add_div_antitone (x y : ℝ) (hx : 0 < x) (hxy : x ≤ y) :
    Real.log (1 + y) / y ≤ Real.log (1 + x) / x := by
  have hy : 0 < y := lt_of_lt_of_le hx hxy
  have hc := strictConcaveOn_log_Ioi.concaveOn
  have h1 : (1:ℝ) ∈ Set.Ioi (0:ℝ) := by simp
  have h2 : (1 + y) ∈ Set.Ioi (0:ℝ) := by simp; linarith
  have ht0 : 0 ≤ x / y := by positivity
  have ht1 : 0 ≤ 1 - x / y := by rw [sub_nonneg, div_le_one hy]; exact hxy
  have := hc.2 h1 h2 ht1 ht0 (by ring)
  simp only [smul_eq_mul, Real.log_one, mul_zero, zero_add] at this
  have e : (1 - x / y) * 1 + x / y * (1 + y) = 1 + x := by field_simp; ring
  rw [e] at this
  rw [div_le_div_iff₀ hy hx]
  have : x / y * Real.log (1 + y) * y ≤ Real.log (1 + x) * y := mul_le_mul_of_nonneg_right this hy.le
  have e2 : x / y * Real.log (1 + y) * y = Real.log (1 + y) * x := by field_simp
  linarith

/-- BBKS: T decreases monotonically with q (a > 0; b, c-term, d, e-term with non-negative odd coefficients) -/
theorem BBKS_antitone (a b c d e q1 q2 : ℝ) (ha : 0 < a) (hb : 0 ≤ b) (hd : 0 ≤ d) (hq1 : 0 < q1) (hq : q1 ≤ q2) :
    Real.log (1 + a*q2) / (a*q2) * (1 + b*q2 + (c*q2)^2 + (d*q2)^3 + (e*q2)^4) ^ (-(1/4 : ℝ)) ≤
    Real.log (1 + a*q1) / (a*q1) * (1 + b*q1 + (c*q1)^2 + (d*q1)^3 + (e*q1)^4) ^ (-(1/4 : ℝ)) := by
  have hq2 : 0 < q2 := lt_of_lt_of_le hq1 hq
  have hg := log_one_add_div_antitone (a*q1) (a*q2) (mul_pos ha hq1) (mul_le_mul_of_nonneg_left hq ha.le)
  have hP1 : 0 < 1 + b*q1 + (c*q1)^2 + (d*q1)^3 + (e*q1)^4 := by positivity
  have hP : 1 + b*q1 + (c*q1)^2 + (d*q1)^3 + (e*q1)^4 ≤ 1 + b*q2 + (c*q2)^2 + (d*q2)^3 + (e*q2)^4 := by
    have h1 : b*q1 ≤ b*q2 := mul_le_mul_of_nonneg_left hq hb
    have h2 : (c*q1)^2 ≤ (c*q2)^2 := by
      rw [mul_pow, mul_pow]; exact mul_le_mul_of_nonneg_left (pow_le_pow_left₀ hq1.le hq 2) (sq_nonneg c)
    have h3 : (d*q1)^3 ≤ (d*q2)^3 := pow_le_pow_left₀ (by positivity) (mul_le_mul_of_nonneg_left hq hd) 3
    have h4 : (e*q1)^4 ≤ (e*q2)^4 := by
      rw [mul_pow, mul_pow]; exact mul_le_mul_of_nonneg_left (pow_le_pow_left₀ hq1.le hq 4) (by positivity)
    linarith
  have hpow := rpow_le_rpow_of_nonpos hP1 hP (by norm_num : (-(1/4:ℝ)) ≤ 0)
  have hg2 : 0 ≤ Real.log (1 + a*q2) / (a*q2) := by
    apply div_nonneg (Real.log_nonneg (by nlinarith [mul_pos ha hq2])) (mul_pos ha hq2).le
  have hp1 : 0 ≤ (1 + b*q1 + (c*q1)^2 + (d*q1)^3 + (e*q1)^4) ^ (-(1/4 : ℝ)) := rpow_nonneg hP1.le _
  exact mul_le_mul hg hpow (rpow_nonneg (by positivity) _) (le_trans hg2 hg)

/-- C10 (BBKS, a no-wiggle model): ln T of the generated term decreases monotonically in ln k -/
theorem BBKS_lnT_antitone (opq : String → ℝ → ℝ) (ρ : String → ℝ) (hO : 0 < ρ "cosmo.Om0") (hh : 0 < ρ "cosmo.h")
    (ha : 0 < ρ "p.a") (hb : 0 ≤ ρ "p.b") (hd : 0 ≤ ρ "p.d") (l1 l2 : ℝ) (hl : l1 ≤ l2) :
    evalR opq (Function.update ρ "lnk" l2) Gen.Transfer.BBKS_lnt ≤ evalR opq (Function.update ρ "lnk" l1) Gen.Transfer.BBKS_lnt := by
  rw [BBKS_lnt_form, BBKS_lnt_form]
  have hne : ∀ s : String, s ≠ "lnk" → ∀ l, Function.update ρ "lnk" l s = ρ s := fun s hs l => Function.update_of_ne hs l ρ
  simp only [Function.update_self, hne "cosmo.Om0" (by decide), hne "cosmo.h" (by decide), hne "cosmo.Ob0" (by decide),
    hne "p.a" (by decide), hne "p.b" (by decide), hne "p.c" (by decide), hne "p.d" (by decide), hne "p.e" (by decide)]
  set C := exp (ρ "cosmo.Ob0" + sqrt (2 * ρ "cosmo.h") * ρ "cosmo.Ob0" / ρ "cosmo.Om0") with hC
  have hCp : 0 < C := exp_pos _
  have hq1 : 0 < exp l1 / (ρ "cosmo.Om0" * ρ "cosmo.h") * C := by positivity
  have hq : exp l1 / (ρ "cosmo.Om0" * ρ "cosmo.h") * C ≤ exp l2 / (ρ "cosmo.Om0" * ρ "cosmo.h") * C := by
    apply mul_le_mul_of_nonneg_right _ hCp.le
    exact div_le_div_of_nonneg_right (exp_le_exp.mpr hl) (by positivity)
  obtain ⟨hpos2, _⟩ := BBKS_range (ρ "p.a") (ρ "p.b") (ρ "p.c") (ρ "p.d") (ρ "p.e") _ ha hb hd (lt_of_lt_of_le hq1 hq)
  exact Real.log_le_log hpos2 (BBKS_antitone _ _ _ _ _ _ _ ha hb hd hq1 hq)

/-! ## Bond–Efstathiou on the generated term: bounds and monotone decrease -/
section BondEfsGen
variable (opq : String → ℝ → ℝ) (ρ : String → ℝ)
/-- the generated Bond–Efstathiou term is ln of the documented expression at the code's own scaled wavenumber -/
theorem BondEfs_lnt_form : evalR opq ρ Gen.Transfer.BondEfs_lnt =
    let s := 0.3 * 0.75 ^ 2 / (ρ "cosmo.Om0" * ρ "cosmo.h" ^ 2)
    let k := exp (ρ "lnk")
    Real.log ((1 + (ρ "p.a" * s * k + (ρ "p.b" * s * k) ^ (1.5:ℝ) + (ρ "p.c" * s * k) ^ 2) ^ ρ "p.nu") ^ (-1 / ρ "p.nu")) := by
  rw [BondEfs_eq]
  simp only [BondEfs_lnt, beT, beScale]; expr_unfold; push_cast; norm_num

theorem beX_mono (a b c s k1 k2 : ℝ) (ha : 0 ≤ a) (hb : 0 ≤ b) (hs : 0 < s) (hk1 : 0 < k1) (hk : k1 ≤ k2) :
    0 ≤ a * s * k1 + (b * s * k1) ^ (1.5:ℝ) + (c * s * k1) ^ 2 ∧
    a * s * k1 + (b * s * k1) ^ (1.5:ℝ) + (c * s * k1) ^ 2 ≤ a * s * k2 + (b * s * k2) ^ (1.5:ℝ) + (c * s * k2) ^ 2 := by
  have hk2 : 0 < k2 := lt_of_lt_of_le hk1 hk
  have h1 : a * s * k1 ≤ a * s * k2 := mul_le_mul_of_nonneg_left hk (by positivity)
  have h2 : (b * s * k1) ^ (1.5:ℝ) ≤ (b * s * k2) ^ (1.5:ℝ) :=
    rpow_le_rpow (by positivity) (mul_le_mul_of_nonneg_left hk (by positivity)) (by norm_num)
  have h3 : (c * s * k1) ^ 2 ≤ (c * s * k2) ^ 2 := by
    have e1 : (c * s * k1) ^ 2 = (c * s) ^ 2 * k1 ^ 2 := by ring
    have e2 : (c * s * k2) ^ 2 = (c * s) ^ 2 * k2 ^ 2 := by ring
    rw [e1, e2]; exact mul_le_mul_of_nonneg_left (pow_le_pow_left₀ hk1.le hk 2) (sq_nonneg _)
  refine ⟨?_, by linarith⟩
  have : 0 ≤ (b * s * k1) ^ (1.5:ℝ) := rpow_nonneg (by positivity) _
  positivity

/-- C10 (Bond–Efstathiou): 0 < T ≤ 1, i.e. ln T ≤ 0, for all k and valid cosmologies (a, b ≥ 0, ν > 0) -/
theorem BondEfs_lnT_nonpos (hO : 0 < ρ "cosmo.Om0") (hh : 0 < ρ "cosmo.h") (ha : 0 ≤ ρ "p.a") (hb : 0 ≤ ρ "p.b") (hν : 0 < ρ "p.nu") :
    evalR opq ρ Gen.Transfer.BondEfs_lnt ≤ 0 := by
  rw [BondEfs_lnt_form]
  have hs : (0:ℝ) < 0.3 * 0.75 ^ 2 / (ρ "cosmo.Om0" * ρ "cosmo.h" ^ 2) := by positivity
  obtain ⟨hX, _⟩ := beX_mono (ρ "p.a") (ρ "p.b") (ρ "p.c") _ (exp (ρ "lnk")) (exp (ρ "lnk")) ha hb hs (exp_pos _) le_rfl
  obtain ⟨h1, h2⟩ := BondEfs_range _ (ρ "p.nu") hX hν
  exact Real.log_nonpos h1.le h2

/-- C10 (Bond–Efstathiou, a no-wiggle model): ln T decreases monotonically in ln k -/
theorem BondEfs_lnT_antitone (hO : 0 < ρ "cosmo.Om0") (hh : 0 < ρ "cosmo.h") (ha : 0 ≤ ρ "p.a") (hb : 0 ≤ ρ "p.b") (hν : 0 < ρ "p.nu")
    (l1 l2 : ℝ) (hl : l1 ≤ l2) :
    evalR opq (Function.update ρ "lnk" l2) Gen.Transfer.BondEfs_lnt ≤ evalR opq (Function.update ρ "lnk" l1) Gen.Transfer.BondEfs_lnt := by
  rw [BondEfs_lnt_form, BondEfs_lnt_form]
  have hne : ∀ s : String, s ≠ "lnk" → ∀ l, Function.update ρ "lnk" l s = ρ s := fun s hs l => Function.update_of_ne hs l ρ
  simp only [Function.update_self, hne "cosmo.Om0" (by decide), hne "cosmo.h" (by decide),
    hne "p.a" (by decide), hne "p.b" (by decide), hne "p.c" (by decide), hne "p.nu" (by decide)]
  have hs : (0:ℝ) < 0.3 * 0.75 ^ 2 / (ρ "cosmo.Om0" * ρ "cosmo.h" ^ 2) := by positivity
  obtain ⟨hX, hXY⟩ := beX_mono (ρ "p.a") (ρ "p.b") (ρ "p.c") _ (exp l1) (exp l2) ha hb hs (exp_pos _) (exp_le_exp.mpr hl)
  obtain ⟨h1, _⟩ := BondEfs_range _ (ρ "p.nu") (le_trans hX hXY) hν
  exact Real.log_le_log h1 (BondEfs_antitone _ _ _ hX hXY hν)
end BondEfsGen

/-! ## Eisenstein & Hu (1998) without BAO: documented shape at the code's own q_eff, bounds, large-scale value -/
section EHNoBAO
open Real
/-- the effective wavenumber sub-term of a term shaped like EH98 eqs. 28–29: ln( L/(L + C q²) ) -/
def ehQ : E → E
  | .un .log (.bin .div _ (.bin .add _ (.bin .mul q (.bin .mul _ _)))) => q
  | _ => .lit 0 0

/-- Eisenstein & Hu (1998) eqs. 28–29 as a term over q_eff (operands in the translator's canonical order): L₀ = ln(2e + 1.8 q), C₀ = 14.2 + 731/(1 + 62.5 q),
    ln T = ln( L₀/(L₀ + C₀ q²) ) -/
def ehShape (q : E) : E :=
  let L : E := .un .log (.bin .add (.bin .mul (.lit 18 (-1)) q) (.bin .mul (.lit 2 0) (.un .exp (.lit 1 0))))
  let C : E := .bin .add (.lit 142 (-1)) (.bin .div (.lit 731 0) (.bin .add (.lit 1 0) (.bin .mul (.lit 625 (-1)) q)))
  .un .log (.bin .div L (.bin .add L (.bin .mul q (.bin .mul C q))))

/-- the regenerated EH_NoBAO body is exactly that shape at its own q_eff -/
theorem EH_NoBAO_shape : Gen.Transfer.EH_NoBAO_lnt = ehShape (ehQ Gen.Transfer.EH_NoBAO_lnt) := by rfl

theorem eh_range (x : ℝ) (hx : 0 ≤ x) :
    let L := Real.log (2 * exp 1 + 1.8 * x)
    let C := 14.2 + 731 / (1 + 62.5 * x)
    0 < L / (L + C * x * x) ∧ L / (L + C * x * x) ≤ 1 := by
  intro L C
  have he : (2:ℝ) < 2 * exp 1 := by
    have := Real.add_one_le_exp (1:ℝ); linarith
  have hL : 0 < L := Real.log_pos (by nlinarith)
  have hC : 0 < C := by positivity
  have hden : 0 < L + C * x * x := by have : 0 ≤ C * x * x := by positivity
                                      linarith
  refine ⟨div_pos hL hden, ?_⟩
  rw [div_le_one hden]
  have : 0 ≤ C * x * x := by positivity
  linarith

variable (opq : String → ℝ → ℝ) (ρ : String → ℝ)

theorem ehShape_eval (q : E) : evalR opq ρ (ehShape q) =
    Real.log (Real.log (2 * exp 1 + 1.8 * evalR opq ρ q) /
      (Real.log (2 * exp 1 + 1.8 * evalR opq ρ q) + (14.2 + 731 / (1 + 62.5 * evalR opq ρ q)) * evalR opq ρ q * evalR opq ρ q)) := by
  simp only [ehShape]; expr_unfold <;> first | (push_cast; norm_num; done) | (push_cast; norm_num; ring_nf; done) | expr_finish

/-- C10 (EH without BAO): 0 < T ≤ 1, i.e. ln T ≤ 0, for every wavenumber and cosmology with q_eff ≥ 0 -/
theorem EH_NoBAO_lnT_nonpos (hq : 0 ≤ evalR opq ρ (ehQ Gen.Transfer.EH_NoBAO_lnt)) :
    evalR opq ρ Gen.Transfer.EH_NoBAO_lnt ≤ 0 := by
  rw [EH_NoBAO_shape, ehShape_eval]
  obtain ⟨h1, h2⟩ := eh_range _ hq
  exact Real.log_nonpos h1.le h2

/-- C10 (EH without BAO): T → 1 on large scales — at q_eff = 0 the value is exactly ln 1 = 0 -/
theorem EH_NoBAO_large_scale (hq : evalR opq ρ (ehQ Gen.Transfer.EH_NoBAO_lnt) = 0) :
    evalR opq ρ Gen.Transfer.EH_NoBAO_lnt = 0 := by
  rw [EH_NoBAO_shape, ehShape_eval, hq]
  have he : (2:ℝ) < 2 * exp 1 := by
    have := Real.add_one_le_exp (1:ℝ); linarith
  have hL : 0 < Real.log (2 * exp 1 + 1.8 * 0) := Real.log_pos (by linarith)
  simp only [mul_zero, add_zero] at hL ⊢
  rw [div_self hL.ne', Real.log_one]
end EHNoBAO

/-- the only threshold in the table-driven models is the documented low-k flatness test; no new special case -/
theorem guards_transfer_models : Gen.Guards.transferModels = Spec.Guards.transferModels := by decide

/-! ## Table-driven models (`FromFile`, `FromArray`): statements about `Hmf.Table` (hand-written model of `lnt` and `_check_low_k`,
tied to the implementation by the `TABLE` correspondence of the harness) -/
section table
open Hmf.Table

/-- C10: whenever the requested range starts inside the table (equality with the first tabulated wavenumber included), every
    tabulated value is reproduced at its node, for all tables with strictly increasing wavenumbers and all requests -/
theorem table_nodes_reproduced (a : RK) (rest : List RK) (x0 : ℝ) (hs : Sorted (a :: rest)) (h : a.1 ≤ x0) :
    ∀ kn ∈ a :: rest, interp (knots (a :: rest) x0) kn.1 = kn.2 := by
  rw [knots_inside a rest x0 h]; exact interp_node _ hs

/-- … and between nodes the result stays between the smallest and the largest tabulated value (so `0 < T ≤ 1` tables stay so) -/
theorem table_between_nodes_bounded (a : RK) (rest : List RK) (x0 lo hi x : ℝ) (hs : Sorted (a :: rest)) (h : a.1 ≤ x0)
    (hb : ∀ kn ∈ a :: rest, lo ≤ kn.2 ∧ kn.2 ≤ hi) (hx1 : a.1 ≤ x) (hx2 : ∀ z, (a :: rest).getLast? = some z → x ≤ z.1) :
    lo ≤ interp (knots (a :: rest) x0) x ∧ interp (knots (a :: rest) x0) x ≤ hi := by
  rw [knots_inside a rest x0 h]
  exact interp_bounds _ hs lo hi x hb (by intro a' ha'; simp at ha'; subst ha'; exact hx1) hx2 (by simp)

/-- C10 ("extend it finitely and continuously outside"): for a request starting below the table the value at the request's first
    wavenumber is a tabulated value (that of row `start`), and the patched knots are still strictly increasing -/
theorem table_extension_below (a : RK) (rest : List RK) (x0 : ℝ) (hs : Sorted (a :: rest)) (hlen : 1 ≤ rest.length) (h : x0 < a.1) :
    (∃ r, (a :: rest)[start (a :: rest)]? = some r ∧ interp (knots (a :: rest) x0) x0 = r.2) ∧ Sorted (knots (a :: rest) x0) := by
  rw [knots_below a rest x0 h]
  have hl : 2 ≤ (a :: rest).length := by simp only [List.length_cons]; omega
  have hm : ∀ b, (a :: rest).head? = some b → x0 < b.1 := by intro b hb; simp at hb; subst hb; exact h
  exact ⟨checkLowK_value_at_min _ x0 hs hl hm, checkLowK_sorted _ x0 hs hl hm⟩

/-- C10 (grid independence of tabulated models): the value at a wavenumber at or beyond the second kept row does not depend on
    whether the request started below the table or inside it -/
theorem table_value_independent_of_request_start (a : RK) (rest : List RK) (x0 x1 x : ℝ) (hs : Sorted (a :: rest))
    (h0 : x0 < a.1) (h1 : a.1 ≤ x1) (hlen : start (a :: rest) + 3 ≤ (a :: rest).length)
    (hx : ∀ b, (a :: rest)[start (a :: rest) + 1]? = some b → b.1 ≤ x) :
    interp (knots (a :: rest) x0) x = interp (knots (a :: rest) x1) x := by
  rw [knots_below a rest x0 h0, knots_inside a rest x1 h1]
  exact checkLowK_same_beyond_patch _ x0 x hs hlen hx

/-- the low-k patch never drops the last tabulated row and keeps at least two knots -/
theorem table_patch_keeps_last_row (tab : List RK) (m : ℝ) (h : 2 ≤ tab.length) :
    (checkLowK tab m).getLast? = tab.getLast? ∧ 2 ≤ (checkLowK tab m).length := by
  refine ⟨checkLowK_getLast tab m h, ?_⟩
  rw [checkLowK_length tab m h]; have := start_lt tab h; omega

/-- non-vacuity: a concrete table with a non-flat first interval followed by a flat one; `start = 1`, the request below the table
    gets the value of row 1 at its first wavenumber -/
example : start ([(0, 3), (1, 2), (2, 2), (3, 1)] : List RK) = 1 := by
  simp [start, firstFlat, flat]; norm_num
end table

end Hmf.C10
