import HmfVerif.Real.Tactics
import HmfVerif.Gen.ExprTransfer
import HmfVerif.Gen.ExprFlow
import HmfVerif.Spec.Transfer
import HmfVerif.Proofs.ExprLemmas
/-!
# C10 — transfer functions are pointwise in k, reach 1 on large scales, never exceed 1
-/
set_option linter.unusedSimpArgs false
set_option linter.unusedVariables false
set_option linter.unusedTactic false
namespace Hmf.C10
open Hmf.Spec.Transfer Real

/-- every analytic transfer model's `lnt` is elementwise in `lnk` (no cumulative/reordering operation) -/
theorem analytic_models_elementwise : Gen.Transfer.table.all (fun t => t.2.isElementwise) = true := by decide

/-- hence T evaluated on any array equals T at each k alone, in any order -/
theorem transfer_pointwise (t : String × E) (ht : t ∈ Gen.Transfer.table) (opq : String → ℝ → ℝ) (ne)
    (env : String → Nat → ℝ) (perm : Nat → Nat) (i : Nat) :
    evalV opq ne (fun x j => env x (perm j)) t.2 i = evalV opq ne env t.2 (perm i) :=
  evalV_reindex opq ne env perm t.2 (List.all_eq_true.mp analytic_models_elementwise t ht) i

/-- the only array-valued input of any analytic model is `lnk`: T(k) cannot depend on the rest of the grid -/
theorem analytic_models_inputs :
    Gen.Transfer.table.all (fun t => t.2.freeVars.all (fun x => x == "lnk" || x.startsWith "cosmo." || x.startsWith "p.")) = true := by
  decide +kernel

section
variable (opq : String → ℝ → ℝ) (ρ : String → ℝ)

theorem BBKS_eq : evalR opq ρ Gen.Transfer.BBKS_lnt = evalR opq ρ BBKS_lnt := by
  simp only [Gen.Transfer.BBKS_lnt, BBKS_lnt, bbksT, bbksQ]; expr_unfold; try expr_close
theorem BondEfs_eq : evalR opq ρ Gen.Transfer.BondEfs_lnt = evalR opq ρ BondEfs_lnt := by
  simp only [Gen.Transfer.BondEfs_lnt, BondEfs_lnt, beT, beScale]; expr_unfold; try expr_close

/-- ln(1+x)/x ≤ 1 for x > 0 -/
theorem log_one_add_div_le (x : ℝ) (hx : 0 < x) : Real.log (1 + x) / x ≤ 1 := by
  rw [div_le_one hx]
  have := Real.log_le_sub_one_of_pos (by linarith : 0 < 1 + x)
  linarith

/-- BBKS: 0 < T ≤ 1 for every q > 0 (a > 0, b, d ≥ 0) -/
theorem BBKS_range (a b c d e q : ℝ) (ha : 0 < a) (hb : 0 ≤ b) (hd : 0 ≤ d) (hq : 0 < q) :
    0 < Real.log (1 + a*q) / (a*q) * (1 + b*q + (c*q)^2 + (d*q)^3 + (e*q)^4) ^ (-(1/4 : ℝ)) ∧
    Real.log (1 + a*q) / (a*q) * (1 + b*q + (c*q)^2 + (d*q)^3 + (e*q)^4) ^ (-(1/4 : ℝ)) ≤ 1 := by
  have haq : 0 < a * q := mul_pos ha hq
  have hP : 1 ≤ 1 + b*q + (c*q)^2 + (d*q)^3 + (e*q)^4 := by
    have h1 : 0 ≤ b*q := mul_nonneg hb hq.le
    have h2 : 0 ≤ (c*q)^2 := sq_nonneg _
    have h3 : 0 ≤ (d*q)^3 := pow_nonneg (mul_nonneg hd hq.le) 3
    have h4 : 0 ≤ (e*q)^4 := by positivity
    linarith
  have hlog : 0 < Real.log (1 + a*q) := Real.log_pos (by linarith)
  have hf1 : 0 < Real.log (1 + a*q) / (a*q) := div_pos hlog haq
  have hf1' : Real.log (1 + a*q) / (a*q) ≤ 1 := log_one_add_div_le _ haq
  have hf2 : 0 < (1 + b*q + (c*q)^2 + (d*q)^3 + (e*q)^4) ^ (-(1/4 : ℝ)) := rpow_pos_of_pos (by linarith) _
  have hf2' : (1 + b*q + (c*q)^2 + (d*q)^3 + (e*q)^4) ^ (-(1/4 : ℝ)) ≤ 1 :=
    rpow_le_one_of_one_le_of_nonpos hP (by norm_num)
  exact ⟨mul_pos hf1 hf2, by
    calc _ ≤ 1 * 1 := mul_le_mul hf1' hf2' hf2.le (by norm_num)
      _ = 1 := by norm_num⟩

/-- the generated BBKS term is ln of that expression at the code's own `q` -/
theorem BBKS_lnt_form : evalR opq ρ Gen.Transfer.BBKS_lnt =
    let q := exp (ρ "lnk") / (ρ "cosmo.Om0" * ρ "cosmo.h") *
      exp (ρ "cosmo.Ob0" + sqrt (2 * ρ "cosmo.h") * ρ "cosmo.Ob0" / ρ "cosmo.Om0")
    Real.log (Real.log (1 + ρ "p.a" * q) / (ρ "p.a" * q) *
      (1 + ρ "p.b" * q + (ρ "p.c" * q)^2 + (ρ "p.d" * q)^3 + (ρ "p.e" * q)^4) ^ (-(1/4 : ℝ))) := by
  simp only [Gen.Transfer.BBKS_lnt]; expr_unfold; push_cast; norm_num [zpow_ofNat]

/-- C10 (BBKS): T is finite with 0 < T ≤ 1, i.e. ln T ≤ 0, for every wavenumber and every valid cosmology -/
theorem BBKS_lnT_nonpos (hO : 0 < ρ "cosmo.Om0") (hh : 0 < ρ "cosmo.h") (ha : 0 < ρ "p.a") (hb : 0 ≤ ρ "p.b") (hd : 0 ≤ ρ "p.d") :
    evalR opq ρ Gen.Transfer.BBKS_lnt ≤ 0 := by
  rw [BBKS_lnt_form]
  have hq : 0 < exp (ρ "lnk") / (ρ "cosmo.Om0" * ρ "cosmo.h") *
      exp (ρ "cosmo.Ob0" + sqrt (2 * ρ "cosmo.h") * ρ "cosmo.Ob0" / ρ "cosmo.Om0") := by positivity
  obtain ⟨h1, h2⟩ := BBKS_range (ρ "p.a") (ρ "p.b") (ρ "p.c") (ρ "p.d") (ρ "p.e") _ ha hb hd hq
  exact Real.log_nonpos h1.le h2

/-- Bond–Efstathiou: 0 < T ≤ 1 for X = ak + (bk)^1.5 + (ck)² ≥ 0 and ν > 0 -/
theorem BondEfs_range (X ν : ℝ) (hX : 0 ≤ X) (hν : 0 < ν) : 0 < (1 + X ^ ν) ^ (-1 / ν) ∧ (1 + X ^ ν) ^ (-1 / ν) ≤ 1 := by
  have h1 : 1 ≤ 1 + X ^ ν := by have := rpow_nonneg hX ν; linarith
  have hneg : -1 / ν ≤ 0 := by apply div_nonpos_of_nonpos_of_nonneg <;> linarith
  exact ⟨rpow_pos_of_pos (by linarith) _, rpow_le_one_of_one_le_of_nonpos h1 hneg⟩

/-- … and T decreases when X grows (X is increasing in k for non-negative coefficients) -/
theorem BondEfs_antitone (X Y ν : ℝ) (hX : 0 ≤ X) (hXY : X ≤ Y) (hν : 0 < ν) : (1 + Y ^ ν) ^ (-1 / ν) ≤ (1 + X ^ ν) ^ (-1 / ν) := by
  have hb : 0 < 1 + X ^ ν := by have := rpow_nonneg hX ν; linarith
  have hle : 1 + X ^ ν ≤ 1 + Y ^ ν := by have := rpow_le_rpow hX hXY hν.le; linarith
  have hneg : -1 / ν ≤ 0 := by apply div_nonpos_of_nonpos_of_nonneg <;> linarith
  exact rpow_le_rpow_of_nonpos hb hle hneg

/-- the framework's transfer function is the model's T times the k-independent normalisation … -/
theorem transfer_function_is_const_times_T :
    evalR opq ρ Gen.Flow.Transfer_transfer_function = ρ "_normalisation" * exp (ρ "_unnormalised_lnT") := by
  simp only [Gen.Flow.Transfer_transfer_function]; expr_unfold
end

/-- … and mentions the grid parameters nowhere: its value at a wavenumber cannot depend on `lnk_min`, `lnk_max`, `dlnk`
    except through the normalisation constant -/
theorem transfer_function_inputs : Gen.Flow.Transfer_transfer_function.freeVars = ["_normalisation", "_unnormalised_lnT"] := by decide

end Hmf.C10
