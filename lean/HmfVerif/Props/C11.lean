import HmfVerif.Proofs.HeapSep
import HmfVerif.Gen.Desc
import HmfVerif.Gen.SharedState
import HmfVerif.Spec.SharedState
/-!
# C11 — framework and component instances never share mutable state
Statements about the address-level model `Heap` (dict-valued parameter cells, caller-owned dicts,
class-level defaults) with the copy-on-store setter, for **all** programs over any number of
instances; plus instance facts about the source (no mutable default arguments, no writes to
`self` inside quantity bodies).
-/
namespace Hmf.C11

/-- separation holds initially and is preserved by every operation of every program -/
theorem sep_preserved (h : Heap.H) (op : Heap.Op) (hs : Heap.Sep h) : Heap.Sep (Heap.step true h op) := Heap.sep_step h op hs

theorem sep_reachable (ops : List Heap.Op) : Heap.Sep (Heap.run true Heap.H.empty ops) := Heap.sep_run ops _ Heap.sep_empty

/-- C11 (main): constructing, updating, cloning/copying an instance, or instantiating one of its
    components, never changes a dict cell owned by another instance, by a class (defaults), or by
    the caller, nor which cell any other instance's parameter refers to. -/
theorem bystanders_unchanged (h : Heap.H) (op : Heap.Op) (hs : Heap.Sep h) :
    (∀ a, a < h.next → (∀ i, op.actor = some i → h.owner a ≠ .inst i) →
        (∀ t k v, op = .callerWrite t k v → a ≠ t) → (Heap.step true h op).cells a = h.cells a) ∧
    (∀ i' p', (∀ i, op.actor = some i → i' ≠ i) → (Heap.step true h op).slot i' p' = h.slot i' p') :=
  Heap.bystander_unchanged h op hs

/-- in particular the caller's dict passed to a constructor or to `update()` is never modified -/
theorem caller_dict_untouched (h : Heap.H) (hs : Heap.Sep h) (i p a : Nat) (ha : a < h.next) (hc : h.owner a = .caller) :
    (Heap.step true h (.update i p a)).cells a = h.cells a ∧ (Heap.step true h (.construct i p (some a))).cells a = h.cells a := by
  constructor
  · exact (Heap.bystander_unchanged h _ hs).1 a ha (fun j hj => by simp [hc]) (fun _ _ _ he => by cases he)
  · exact (Heap.bystander_unchanged h _ hs).1 a ha (fun j hj => by simp [hc]) (fun _ _ _ he => by cases he)

/-- a later mutation by the caller of a dict it passed in does not reach the instance -/
theorem caller_mutation_does_not_reach_instances (h : Heap.H) (hs : Heap.Sep h) (t k v : Nat) (i p a : Nat)
    (hsl : h.slot i p = some a) : (Heap.step true h (.callerWrite t k v)).cells a = h.cells a := by
  obtain ⟨hlt, hown⟩ := hs i p a hsl
  simp only [Heap.step]
  split
  · rename_i hc
    have : a ≠ t := by intro he; subst he; rw [hown] at hc; exact absurd hc.1 (by simp)
    simp [this]
  · rfl

/-- C11 for whole programs ("class-level defaults", "the caller's dicts"): a class-level default dict, or a dict
    the caller built and passed to any number of constructors / `update()` calls, holds the same content after **any**
    program over any number of instances — construction, updates, clones, component instantiation — as long as
    the caller itself does not write to it -/
theorem defaults_and_caller_dicts_never_change (ops : List Heap.Op) (h : Heap.H) (hs : Heap.Sep h) (a : Nat)
    (ha : a < h.next) (hown : h.owner a = .cls ∨ h.owner a = .caller)
    (hnw : ∀ op ∈ ops, ∀ k v, op ≠ .callerWrite a k v) :
    (Heap.run true h ops).cells a = h.cells a :=
  Heap.unowned_cells_never_change ops h hs a ha
    (fun i he => by rcases hown with ho | ho <;> rw [ho] at he <;> cases he) hnw

/-- the same with no hypothesis on the heap: in every state reachable from the empty heap by any program `pre`,
    a class-level default dict or a caller-built dict keeps its content through any continuation that contains
    no caller write to it -/
theorem defaults_and_caller_dicts_never_change_reachable (pre ops : List Heap.Op) (a : Nat)
    (ha : a < (Heap.run true Heap.H.empty pre).next)
    (hown : (Heap.run true Heap.H.empty pre).owner a = .cls ∨ (Heap.run true Heap.H.empty pre).owner a = .caller)
    (hnw : ∀ op ∈ ops, ∀ k v, op ≠ .callerWrite a k v) :
    (Heap.run true Heap.H.empty (pre ++ ops)).cells a = (Heap.run true Heap.H.empty pre).cells a := by
  have := defaults_and_caller_dicts_never_change ops _ (sep_reachable pre) a ha hown hnw
  simpa [Heap.run, List.foldl_append] using this

/-- the premises are satisfiable, and the legacy setter breaks the conclusion on the same program:
    a class default dict used by two instances, one of them updated -/
example : let pre : List Heap.Op := [.clsNew [(1, 5)], .callerNew [(2, 7)]]
    let ops : List Heap.Op := [.construct 0 0 (some 0), .construct 1 0 (some 0), .update 0 0 1, .copy 0 2 [0]]
    (Heap.run true Heap.H.empty pre).owner 0 = .cls ∧
    (Heap.run true (Heap.run true Heap.H.empty pre) ops).cells 0 = some [(1, 5)] ∧
    (Heap.run false (Heap.run false Heap.H.empty pre) ops).cells 0 = some [(1, 5), (2, 7)] := by decide

/-- the legacy setter (store the caller's dict by reference, merge in place) violates all of this:
    two instances built from one dict share it, and updating one changes the other and the caller's
    dict (the pre-repair behaviour, kept as regression documentation) -/
theorem legacy_setter_shares_state :
    let h := Heap.run false Heap.H.empty [.callerNew [(1, 5)], .construct 0 0 (some 0), .construct 1 0 (some 0),
                                .callerNew [(2, 7)], .update 0 0 1]
    h.slot 1 0 = some 0 ∧ Heap.content h 0 = [(1, 5), (2, 7)] := by decide

/-- the same program with the copy-on-store setter: the caller's dict and instance 1 are untouched -/
theorem repaired_setter_isolates :
    let h := Heap.run true Heap.H.empty [.callerNew [(1, 5)], .construct 0 0 (some 0), .construct 1 0 (some 0),
                               .callerNew [(2, 7)], .update 0 0 3]
    Heap.content h 0 = [(1, 5)] ∧ (h.slot 1 0).map (Heap.content h) = some [(1, 5)] ∧
      (h.slot 0 0).map (Heap.content h) = some [(1, 5), (2, 7)] := by decide

/-- instance facts about the source as it is now (re-decided each run): no constructor of the five
    framework classes has a mutable default argument, no quantity body or `validate()` assigns to
    `self`, no plain-attribute reads of instance state, no sub-frameworks -/
theorem real_classes_purity_facts : Gen.allDescs.all (fun c => c.2.wfFacts) = true := by decide +kernel

/-- C11 ("nor class-level defaults … plugin registries", "two objects built from equal arguments stay equal whatever is done to a third"):
    in the whole package the only stores into module-level names or class-level attributes made by functions and methods are those of the
    plugin registry at class-definition time — no framework or component method keeps a module- or class-level memo, table or cache
    (regenerated from every source file on each run) -/
theorem no_state_outliving_instances : Gen.sharedStateWrites = Spec.sharedStateWrites := by decide

end Hmf.C11
