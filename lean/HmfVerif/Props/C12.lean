import HmfVerif.Proofs.History
import HmfVerif.Props.C01
/-!
# C12 — a failed computation or rejected update leaves the object usable and coherent

Statements about `M'`.  In `M'` the *only* exceptions are user-level ones (`Exn.user c` raised by a
body, a validator or `validate()`, and `Exn.badKw` for a left-over `update()` keyword): there is no
bookkeeping-error constructor at all, so "no KeyError/AttributeError from the caching layer" is a
property of the tie between `M'` and `_cache.py` (K1: any such error is a disagreement).
-/
namespace Hmf.C12

/-- Every exit path of every operation — normal return, exception inside a quantity body at any
    nesting depth (first or repeated evaluation, inside `super`), rejected value, failing
    `validate()`, unknown keyword — re-establishes the cache invariant. -/
theorem raise_preserves_inv (E : Env) (fuel : Nat) (s : St) (op : Op) (h : CInv E s) :
    CInv E (step E fuel s op).2 :=
  (step_refines E fuel s op h).1

/-- the same for a whole history (any number of failures anywhere in it) -/
theorem history_preserves_inv (E : Env) (fuel : Nat) (ops : List Op) (s : St) (h : CInv E s) :
    CInv E (run E fuel s ops).2 :=
  run_inv E fuel ops s h

/-- After any prefix (containing any failures) and any continuation, each answer is the
    fresh-object answer at the then-current parameters: the object "keeps working", later changes
    still invalidate correctly. -/
theorem recover_equals_fresh (E : Env) (fuel : Nat) (pre post : List Op) (s : St) (h : CInv E s)
    (i : Nat) (o : Out) (ho : (run E fuel (run E fuel s pre).2 post).1[i]? = some o) (hne : o ≠ .nofuel) :
    ∃ f', (specRun E f' (run E fuel s pre).2.pv post).1[i]? = some o :=
  run_coherent E fuel post _ (run_inv E fuel pre s h) i o ho hne

/-- An exception surfaced by the machine is exactly the exception the specification raises at that
    point: nothing else is ever raised "in place of" the original error. -/
theorem exception_is_the_spec_exception (E : Env) (fuel : Nat) (s : St) (op : Op) (h : CInv E s) (e : Exn)
    (he : (step E fuel s op).1 = .exn e) : ∃ f', (specStep E f' s.pv op).1 = .exn e := by
  obtain ⟨f', hf'⟩ := (step_refines E fuel s op h).2.2 (by rw [he]; simp)
  exact ⟨f', by rw [hf', he]⟩

/-- A failing quantity read changes no parameter. -/
theorem failed_read_keeps_params (E : Env) (fuel : Nat) (s : St) (n : Name) (h : CInv E s) :
    (step E fuel s (.get n)).2.pv = s.pv := by
  have := (step_refines E fuel s (.get n) h).2.1 0
  rw [← this]
  simp only [specStep]
  cases evalPure E s.pv 0 (.q n) <;> rfl

/-- … and so does any number of reads, failing or not, in any order: reading is never a way to change
    the object's parameters (lift of `failed_read_keeps_params` over every read-only history, from any
    state reached by any earlier history) -/
theorem reads_keep_params (E : Env) (fuel : Nat) : ∀ (names : List Name) (s : St), CInv E s →
    (run E fuel s (names.map Op.get)).2.pv = s.pv := by
  intro names
  induction names with
  | nil => intro s _; rfl
  | cons n ns ih =>
    intro s h
    simp only [List.map_cons, run]
    rw [ih _ (step_refines E fuel s (.get n) h).1]
    exact failed_read_keeps_params E fuel s n h

/-- A rejected `update` keeps exactly the prefix of values accepted before the rejection
    (parameter-level statement; the specification's `pvSetMany`). -/
theorem rejected_update_keeps_prefix (E : Env) (pv : Name → Val) (n : Name) (v : Val) (e : Exn)
    (rest : List (Name × Val)) (hp : E.isParam n = true) (hr : runVd E n v = .error e) :
    pvSetMany E pv ((n, v) :: rest) = (.error e, pv) := by
  simp [pvSetMany, hp, hr]

/-- non-vacuity: a history with a raising quantity, a rejected value and a recovery -/
example :
    (run C01.exEnv 20 (St.fresh fun _ => .atom 1)
        [.set 0 (.atom 2), .get 11, .update [(2, .atom 4)], .set 1 (.atom 2), .get 11]).1
      = [.unit, .exn (.user 5), .exn (.user 0), .unit,
         .val (.node 2 (.node 1 (.atom 2) (.atom 2)) (.atom 1))] := by decide

end Hmf.C12
