import HmfVerif.Proofs.History
import HmfVerif.Props.C01
import HmfVerif.Proofs.Cone
import HmfVerif.Gen.Desc
/-!
# C13 — parameter changes recompute only what depends on them  (statements about `M'`)

`St.trace` is the ghost log of executed bodies; "nothing is recomputed" = the trace does not grow and
the same cache cell is returned.
-/
namespace Hmf.C13

/-- after a successful read, the quantity is clean and its cell holds the returned value -/
theorem read_makes_clean (E : Env) (f : Nat) (s s1 : St) (n : Name) (v : Val) (r : List Name)
    (h : evalM E f s (.q n) = some (.ok v, r, s1)) : s1.clean n = true ∧ s1.cache n = v := by
  cases f with
  | zero => simp [evalM] at h
  | succ f =>
    simp only [evalM] at h
    split at h
    · rename_i hc
      simp only [Option.some.injEq, Prod.mk.injEq, Except.ok.injEq] at h
      obtain ⟨hv, _, hs⟩ := h
      subst hs; exact ⟨hc, hv⟩
    · cases hb : evalM E f (s.log n) (E.body (E.resolve n) n) with
      | none => simp [hb] at h
      | some resb =>
        obtain ⟨rb, r1, s2⟩ := resb
        rw [hb] at h
        cases rb with
        | error e => simp at h
        | ok w =>
          simp only [Option.some.injEq, Prod.mk.injEq, Except.ok.injEq] at h
          obtain ⟨hv, _, hs⟩ := h
          subst hs; subst hv
          simp [upd]

/-- C13: reading a quantity twice with no intervening change returns the identical cached cell and
    executes nothing (state, including the execution trace, is unchanged). -/
theorem second_read_cached (E : Env) (f g : Nat) (s s1 : St) (n : Name) (v : Val) (r : List Name)
    (h : evalM E f s (.q n) = some (.ok v, r, s1)) :
    evalM E (g+1) s1 (.q n) = some (.ok v, s1.deps n, s1) := by
  obtain ⟨hc, hv⟩ := read_makes_clean E f s s1 n v r h
  simp [evalM, hc, hv]

/-- C13: setting a parameter to a value equal to its current one changes nothing at all. -/
theorem set_equal_is_noop (sw : Bool) (s : St) (p : Name) : setV sw s p (s.pv p) = s := by
  simp [setV]

/-- C13: … and so does any sequence of such re-assignments (e.g. `update(**parameter_values)` on the object
    itself): the whole cache — values, cleanliness, dependency index — is what it was -/
theorem reassigning_current_values_is_noop (sw : Bool) (ps : List Name) (s : St) :
    ps.foldl (fun t p => setV sw t p (t.pv p)) s = s := by
  induction ps with
  | nil => rfl
  | cons p ps ih => rw [List.foldl_cons, set_equal_is_noop]; exact ih

/-- C13: changing parameter `p` leaves untouched (still clean, same cell, same index) every
    quantity not recorded as depending on `p`. -/
theorem independent_untouched (sw : Bool) (s : St) (p : Name) (v : Val) (m : Name)
    (h : m ∉ s.papr p) :
    (setV sw s p v).clean m = s.clean m ∧ (setV sw s p v).cache m = s.cache m ∧
    (setV sw s p v).deps m = s.deps m := by
  unfold setV
  split
  · exact ⟨rfl, rfl, rfl⟩
  · simp [h]

/-- ... and a clean quantity so left is answered from its cell without executing anything. -/
theorem independent_read_executes_nothing (E : Env) (sw : Bool) (s : St) (p : Name) (v : Val) (m : Name) (g : Nat)
    (h : m ∉ s.papr p) (hc : s.clean m = true) :
    evalM E (g+1) (setV sw s p v) (.q m) =
      some (.ok (s.cache m), s.deps m, setV sw s p v) := by
  obtain ⟨h1, h2, h3⟩ := independent_untouched sw s p v m h
  simp [evalM, h1, h2, h3, hc]

/-! ## Static independence for the real classes (descriptors regenerated from source each run) -/
open Gen in
/-- parameters the property names as never touching the transfer function -/
def indepParams : List Name :=
  [N.z, N.sigma_8, N.delta_c, N.hmf_model, N.hmf_params, N.filter_model, N.filter_params, N.Mmin, N.Mmax,
   N.dlog10m, N.mdef_model, N.mdef_params, N.growth_model, N.growth_params, N.disable_mass_conversion,
   N.takahashi, N.use_splined_growth]
open Gen in
def transferCore : List Name := [N._unnormalised_lnT, N.transfer, N.k]
open Gen in
/-- mass-function-only parameters -/
def mfOnlyParams : List Name :=
  [N.Mmin, N.Mmax, N.dlog10m, N.hmf_model, N.hmf_params, N.mdef_model, N.mdef_params, N.delta_c,
   N.filter_model, N.filter_params, N.disable_mass_conversion]

/-- `p` is outside the static cone of `q` in class `C` -/
def outside (C : ClassDesc) (p q : Name) : Bool := !(C.cone q).contains p

/-- independence table, CDM classes: redshift, sigma_8, delta_c, fit, filter, mass-grid, mdef, growth
    (and the two switches) are outside the static cone of the un-normalised transfer function, the
    transfer model instance and the wavenumber grid. -/
theorem independence_table_cdm :
    [Gen.descTransfer, Gen.descMassFunction].all (fun C =>
      indepParams.all (fun p => transferCore.all (fun q => outside C p q))) = true := by decide +kernel

/-- mass-function-only parameters are outside the cone of **every** quantity defined by `Transfer`
    or `Cosmology`. -/
theorem mf_only_outside_power_quantities :
    mfOnlyParams.all (fun p => Gen.descTransfer.quantNames.all (fun q => outside Gen.descMassFunction p q)) = true := by
  decide +kernel

open Gen in
/-- upper bounds on static cones: the parameters a quantity may depend on at all (CDM classes) -/
def coneBounds : List (Name × List Name) :=
  let cos := [N.cosmo_model, N.cosmo_params]
  let grid := [N.lnk_min, N.lnk_max, N.dlnk]
  let tr := cos ++ [N.transfer_model, N.transfer_params] ++ grid
  [ (N.cosmo, cos), (N.mean_density0, cos),
    (N.growth, cos ++ [N.growth_model, N.growth_params]),
    (N._growth_factor_fn, cos ++ [N.growth_model, N.growth_params]),
    (N.growth_factor, cos ++ [N.growth_model, N.growth_params, N.z, N.use_splined_growth]),
    (N.transfer, cos ++ [N.transfer_model, N.transfer_params]),
    (N.k, grid),
    (N._unnormalised_lnT, tr),
    (N._unnormalised_power, tr ++ [N.n]),
    (N._unn_sig8, tr ++ [N.n]),
    (N._normalisation, tr ++ [N.n, N.sigma_8]),
    (N._power0, tr ++ [N.n, N.sigma_8]),
    (N.power, tr ++ [N.n, N.sigma_8, N.growth_model, N.growth_params, N.z, N.use_splined_growth]) ]
open Gen in
def coneBoundsMF : List (Name × List Name) :=
  let cos := [N.cosmo_model, N.cosmo_params]
  let grid := [N.lnk_min, N.lnk_max, N.dlnk]
  let tr := cos ++ [N.transfer_model, N.transfer_params] ++ grid
  [ (N.m, [N.Mmin, N.Mmax, N.dlog10m]),
    (N.filter, tr ++ [N.n, N.filter_model, N.filter_params]),
    (N.radii, cos ++ [N.Mmin, N.Mmax, N.dlog10m, N.filter_model, N.filter_params] ++ tr ++ [N.n]),
    (N._unn_sigma0, tr ++ [N.n, N.filter_model, N.filter_params, N.Mmin, N.Mmax, N.dlog10m]),
    (N._sigma_0, tr ++ [N.n, N.sigma_8, N.filter_model, N.filter_params, N.Mmin, N.Mmax, N.dlog10m]) ]

def withinBounds (C : ClassDesc) (bs : List (Name × List Name)) : Bool :=
  bs.all (fun b => (C.cone b.1).all (fun p => !(C.isParam p) || b.2.contains p))


/-- **cone upper bounds.** In the CDM classes every listed quantity can depend, through any chain of reads in the regenerated
    descriptors, only on the parameters physics lets it depend on: the cosmology object only on the cosmology parameters, the growth
    component and its callable not on z, the transfer component and wavenumber grid not on anything else, … -/
theorem cone_upper_bounds :
    [Gen.descTransfer, Gen.descMassFunction].all (fun C => withinBounds C coneBounds) = true := by decide +kernel
theorem cone_upper_bounds_mass_function : withinBounds Gen.descMassFunction coneBoundsMF = true := by decide +kernel

/-! ## "underlying model not re-run": where the expensive component methods are called at all -/
open Gen in
/-- parameters that must never re-run the growth model's ODE/integral tabulation (`growth_factor_fn`) -/
def growthIndep : List Name :=
  [N.z, N.sigma_8, N.n, N.delta_c, N.hmf_model, N.hmf_params, N.filter_model, N.filter_params, N.Mmin, N.Mmax, N.dlog10m,
   N.mdef_model, N.mdef_params, N.disable_mass_conversion, N.takahashi, N.transfer_model, N.transfer_params,
   N.lnk_min, N.lnk_max, N.dlnk]
/-- the expensive runs of the underlying models, each with the parameters that must not trigger it -/
def expensiveRuns : List (String × List Name) :=
  [("transfer.lnt", indepParams), ("growth.growth_factor_fn", growthIndep)]

/-- **model runs sit outside the cones.** Every call site of `transfer.lnt` (the transfer model: CAMB, EH, table read) and of
    `growth.growth_factor_fn` (the growth tabulation) inside a cached quantity — as listed by the translator from the current
    source, helper methods included — lies in a quantity whose static cone excludes redshift, σ₈, δ_c, the fit, the filter, the
    mass grid, … ; together with `real_independence` a change of those parameters never re-runs the model. -/
theorem model_runs_outside_cones :
    [Gen.descTransfer, Gen.descMassFunction].all (fun C =>
      Gen.modelRuns.all (fun r => expensiveRuns.all (fun e =>
        r.2.2 != e.1 || !(C.mro.contains r.1) || e.2.all (fun p => outside C p r.2.1)))) = true := by decide +kernel

/-- non-vacuity: both expensive methods do have call sites in the regenerated table -/
example : Gen.modelRuns.any (fun r => r.2.2 == "transfer.lnt") = true ∧
          Gen.modelRuns.any (fun r => r.2.2 == "growth.growth_factor_fn") = true := by decide +kernel

/-- WDM classes: the same table **minus** `z → _unnormalised_lnT` (known finding: the WDM component
    takes `z`); stated as `_partial`. -/
theorem independence_table_wdm_partial :
    [Gen.descTransferWDM, Gen.descMassFunctionWDM].all (fun C =>
      indepParams.all (fun p => transferCore.all (fun q =>
        (p == Gen.N.z && q == Gen.N._unnormalised_lnT) || outside C p q))) = true := by decide +kernel

/-- the excluded pair really is in the cone (the known finding, as a theorem about the source) -/
theorem wdm_z_reaches_transfer_function :
    outside Gen.descTransferWDM Gen.N.z Gen.N._unnormalised_lnT = false := by decide +kernel

/-- **C13 for the real classes.** If `outside C p q` then after any history from a fresh object
    quantity `q` is never indexed under parameter `p`, hence (by `independent_untouched`) any change of
    `p` leaves `q` clean with the identical cell. -/
theorem real_independence (C : ClassDesc) (I N vd) (hwf : C.WF = true) (fuel : Nat) (ops : List Op)
    (pv : Name → Val) (p q : Name) (hq : (C.bodyOf (C.resolve q) q).isSome = true)
    (hout : outside C p q = true) (v : Val) :
    let s := (run (C.toEnv I N vd) fuel (St.fresh pv) ops).2
    (setV (C.isSwitch p) s p v).clean q = s.clean q ∧ (setV (C.isSwitch p) s p v).cache q = s.cache q := by
  intro s
  have hwr : C.wfReads = true := by
    unfold ClassDesc.WF at hwf; simp only [Bool.and_eq_true] at hwf; exact hwf.1.1.1
  have hx : p ∉ C.cone q := by
    simp only [outside, Bool.not_eq_true', List.contains_eq_mem, decide_eq_false_iff_not] at hout
    exact hout
  have hn := never_indexed_outside_cone C I N vd hwr fuel ops pv q p hq hx
  obtain ⟨h1, h2, _⟩ := independent_untouched (C.isSwitch p) s p v q hn
  exact ⟨h1, h2⟩

/-- non-vacuity / illustration on `C01.exEnv`: after reading quantity 10, changing parameter 2
    re-executes it, re-setting parameter 2 to the same value does not. -/
example :
    let s0 := St.fresh fun _ => .atom 1
    let s1 := (run C01.exEnv 20 s0 [.get 10]).2
    let s2 := (run C01.exEnv 20 s1 [.set 2 (.atom 1), .get 10]).2
    let s3 := (run C01.exEnv 20 s1 [.set 2 (.atom 3), .get 10]).2
    s1.trace = [10] ∧ s2.trace = [10] ∧ s3.trace = [10, 10] := by decide

end Hmf.C13
