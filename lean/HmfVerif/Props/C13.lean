import HmfVerif.Proofs.History
import HmfVerif.Props.C01
/-!
# C13 — parameter changes recompute only what depends on them  (statements about `M'`)

`St.trace` is the ghost log of executed bodies; "nothing is recomputed" = the trace does not grow and
the same cache cell is returned.
-/
namespace Hmf.C13

/-- after a successful read, the quantity is clean and its cell holds the returned value -/
theorem read_makes_clean (E : Env) (f : Nat) (s s1 : St) (n : Name) (v : Val) (r : List Name)
    (h : evalM E f s (.q n) = some (.ok v, r, s1)) : s1.clean n = true ∧ s1.cache n = v := by
  cases f with
  | zero => simp [evalM] at h
  | succ f =>
    simp only [evalM] at h
    split at h
    · rename_i hc
      simp only [Option.some.injEq, Prod.mk.injEq, Except.ok.injEq] at h
      obtain ⟨hv, _, hs⟩ := h
      subst hs; exact ⟨hc, hv⟩
    · cases hb : evalM E f (s.log n) (E.body (E.resolve n) n) with
      | none => simp [hb] at h
      | some resb =>
        obtain ⟨rb, r1, s2⟩ := resb
        rw [hb] at h
        cases rb with
        | error e => simp at h
        | ok w =>
          simp only [Option.some.injEq, Prod.mk.injEq, Except.ok.injEq] at h
          obtain ⟨hv, _, hs⟩ := h
          subst hs; subst hv
          simp [upd]

/-- C13: reading a quantity twice with no intervening change returns the identical cached cell and
    executes nothing (state, including the execution trace, is unchanged). -/
theorem second_read_cached (E : Env) (f g : Nat) (s s1 : St) (n : Name) (v : Val) (r : List Name)
    (h : evalM E f s (.q n) = some (.ok v, r, s1)) :
    evalM E (g+1) s1 (.q n) = some (.ok v, s1.deps n, s1) := by
  obtain ⟨hc, hv⟩ := read_makes_clean E f s s1 n v r h
  simp [evalM, hc, hv]

/-- C13: setting a parameter to a value equal to its current one changes nothing at all. -/
theorem set_equal_is_noop (sw : Bool) (s : St) (p : Name) : setV sw s p (s.pv p) = s := by
  simp [setV]

/-- C13: changing parameter `p` leaves untouched (still clean, same cell, same index) every
    quantity not recorded as depending on `p`. -/
theorem independent_untouched (sw : Bool) (s : St) (p : Name) (v : Val) (m : Name)
    (h : m ∉ s.papr p) :
    (setV sw s p v).clean m = s.clean m ∧ (setV sw s p v).cache m = s.cache m ∧
    (setV sw s p v).deps m = s.deps m := by
  unfold setV
  split
  · exact ⟨rfl, rfl, rfl⟩
  · simp [h]

/-- ... and a clean quantity so left is answered from its cell without executing anything. -/
theorem independent_read_executes_nothing (E : Env) (sw : Bool) (s : St) (p : Name) (v : Val) (m : Name) (g : Nat)
    (h : m ∉ s.papr p) (hc : s.clean m = true) :
    evalM E (g+1) (setV sw s p v) (.q m) =
      some (.ok (s.cache m), s.deps m, setV sw s p v) := by
  obtain ⟨h1, h2, h3⟩ := independent_untouched sw s p v m h
  simp [evalM, h1, h2, h3, hc]

/-- non-vacuity / illustration on `C01.exEnv`: after reading quantity 10, changing parameter 2
    re-executes it, re-setting parameter 2 to the same value does not. -/
example :
    let s0 := St.fresh fun _ => .atom 1
    let s1 := (run C01.exEnv 20 s0 [.get 10]).2
    let s2 := (run C01.exEnv 20 s1 [.set 2 (.atom 1), .get 10]).2
    let s3 := (run C01.exEnv 20 s1 [.set 2 (.atom 3), .get 10]).2
    s1.trace = [10] ∧ s2.trace = [10] ∧ s3.trace = [10, 10] := by decide

end Hmf.C13
