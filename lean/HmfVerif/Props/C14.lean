import HmfVerif.Proofs.RegistryLemmas
import HmfVerif.Proofs.History
import HmfVerif.Gen.Desc
import HmfVerif.Gen.Guards
import HmfVerif.Spec.Guards
/-!
# C14 — every constructor argument is a tracked, validated, round-trippable parameter
-/
namespace Hmf.C14
open Hmf.Reg

/-! ## constructor keywords (instance facts about the source as it is now) -/

/-- For each of the five framework classes: every keyword accepted by a constructor along the MRO
    is a declared `@parameter`, is assigned in a constructor, every constructor assignment targets
    a declared parameter, and every declared parameter is a constructor keyword. -/
theorem ctor_keywords_are_exactly_the_parameters :
    Gen.allDescs.all (fun c => c.2.wfCtor) = true := by decide +kernel

/-- `parameter_values` ranges over the keys of the parameter→quantity index, which gets one key per
    declared parameter set by the constructor: in the model, the keys `update()` accepts are the
    declared parameters, and those are the constructor keywords. -/
theorem update_accepts_exactly_ctor_keywords (c : String × ClassDesc) (hc : c ∈ Gen.allDescs) (n : Name) :
    c.2.isParam n = true → c.2.ctorKw.contains n = true := by
  intro hp
  have h := List.all_eq_true.mp ctor_keywords_are_exactly_the_parameters c hc
  unfold ClassDesc.wfCtor at h
  simp only [Bool.and_eq_true] at h
  obtain ⟨_, hall⟩ := h
  unfold ClassDesc.isParam at hp
  obtain ⟨p, hpm, hpe⟩ := List.any_eq_true.mp hp
  have := List.all_eq_true.mp hall p hpm
  simp only [beq_iff_eq] at hpe
  rw [← hpe]; exact this

/-- an unknown keyword is reported by `update()` (never silently ignored) -/
theorem unknown_keyword_rejected (E : Env) (kw : List (Name × Val)) (r : Res)
    (hbad : kw.all (fun kv => E.isParam kv.1) = false) (v : Val) (hr : r = .ok v) :
    updOut E kw (some r) = .exn .badKw := by
  subst hr; simp [updOut, hbad]

/-! ## round trip through `parameter_values` -/

/-- the constructor's effect on parameters: each value goes through its validator, stored as is
    (first set: no merging) -/
def ctorPv (E : Env) : List Name → (Name → Val) → (Name → Val) → Except Exn (Name → Val)
  | [], _, acc => .ok acc
  | n :: ns, arg, acc =>
      match runVd E n (arg n) with
      | .error e => .error e
      | .ok v => ctorPv E ns arg (upd acc n v)

/-- validators are idempotent on what they return (`float(float(x))`, `bool(bool(x))`,
    `get_mdl(get_mdl(name))`, range checks on an accepted value) -/
def VdIdem (E : Env) : Prop := ∀ n v v', runVd E n v = .ok v' → runVd E n v' = .ok v'

/-- `type(obj)(**obj.parameter_values)`: if every stored value is accepted unchanged by its
    validator, constructing from the stored values reproduces them exactly (and hence, by C01,
    every output). -/
theorem round_trip (E : Env) (ps : List Name) (pv acc : Name → Val)
    (hfix : ∀ n ∈ ps, runVd E n (pv n) = .ok (pv n)) :
    ∃ pv', ctorPv E ps pv acc = .ok pv' ∧ (∀ n ∈ ps, pv' n = pv n) ∧ (∀ n, n ∉ ps → pv' n = acc n) := by
  induction ps generalizing acc with
  | nil => exact ⟨acc, rfl, fun _ h => by simp at h, fun _ _ => rfl⟩
  | cons n ns ih =>
    have hn := hfix n (by simp)
    simp only [ctorPv, hn]
    obtain ⟨pv', h1, h2, h3⟩ := ih (upd acc n (pv n)) (fun m hm => hfix m (by simp [hm]))
    refine ⟨pv', h1, ?_, ?_⟩
    · intro m hm
      by_cases hmn : m ∈ ns
      · exact h2 m hmn
      · have : m = n := by simpa [hmn] using hm
        subst this
        rw [h3 m hmn]; simp [upd]
    · intro m hm
      have hm1 : m ≠ n := fun h => hm (by simp [h])
      have hm2 : m ∉ ns := fun h => hm (by simp [h])
      rw [h3 m hm2]; simp [upd, hm1]

/-- a value that came out of a validator is a fixed point of it -/
theorem validated_is_fixed_point (E : Env) (h : VdIdem E) (n : Name) (v v' : Val)
    (hv : runVd E n v = .ok v') : runVd E n v' = .ok v' := h n v v' hv

/-- the oracle-based validator family used by K1 is idempotent when its normaliser is and rejection
    is stable under normalisation -/
theorem vdIdem_of_oracles (E : Env) (hN : ∀ c v, E.N c (E.N c v) = E.N c v)
    (hI : ∀ c v, E.I c v = false → E.I c (E.N c v) = false) : VdIdem E := by
  intro n v v' hv
  unfold runVd at hv ⊢
  cases hvd : E.vd n with
  | id => simp only [hvd] at hv ⊢
  | rejectIf c =>
    simp only [hvd] at hv ⊢
    by_cases hc : E.I c v = true
    · simp [hc] at hv
    · have hc' : E.I c v = false := by simpa using hc
      simp only [hc', Bool.false_eq_true, if_false, Except.ok.injEq] at hv
      subst hv; simp [hc']
  | norm c => simp only [hvd, Except.ok.injEq] at hv ⊢; subst hv; exact hN c v
  | normReject c =>
    simp only [hvd] at hv ⊢
    by_cases hc : E.I c v = true
    · simp [hc] at hv
    · have hc' : E.I c v = false := by simpa using hc
      simp only [hc', Bool.false_eq_true, if_false, Except.ok.injEq] at hv
      subst hv; simp [hI c v hc', hN c v]

/-! ## models by name: the plugin registry -/

/-- a concrete (non-abstract) class is discoverable by its name from its component right after its
    definition — including classes created at run time -/
theorem every_subclass_registered (r : Registry) (d : Def) (h : d.abstract = false) :
    getMdl (define r d) d.kind d.name = some d.cls := define_hit r d h

/-- after any sequence of class statements a name resolves to the **latest** concrete class of
    that name and kind (so re-defining a class is picked up), independent of unrelated definitions -/
theorem getmdl_is_latest_definition (ds : List Def) (r : Registry) (k n : Nat) :
    getMdl (defineAll r ds) k n =
      match (ds.reverse.find? (fun d => !d.abstract && d.kind == k && d.name == n)) with
      | some d => some d.cls
      | none => getMdl r k n := defineAll_spec ds r k n

/-- a name never defined (as a concrete class of that kind) is rejected -/
theorem getmdl_unknown_rejected (ds : List Def) (k n : Nat)
    (h : ∀ d ∈ ds, ¬ (d.abstract = false ∧ d.kind = k ∧ d.name = n)) :
    getMdl (defineAll Registry.empty ds) k n = none := by
  rw [defineAll_spec]
  have : ds.reverse.find? (fun d => !d.abstract && d.kind == k && d.name == n) = none := by
    apply List.find?_eq_none.mpr
    intro d hd
    have := h d (List.mem_reverse.mp hd)
    simp only [Bool.and_eq_true, Bool.not_eq_true', beq_iff_eq, not_and] at this ⊢
    intro ⟨ha, hk⟩ hn
    exact this ha hk hn
  simp [this, getMdl, Registry.empty]

/-- abstract classes are not registered -/
theorem abstract_not_registered (r : Registry) (d : Def) (h : d.abstract = true) : define r d = r :=
  define_abstract r d h

/-! ## model parameters -/

/-- an unknown model-parameter key is rejected -/
theorem unknown_model_key_rejected (defaults user : Params) (k v : Nat) (hk : hasKey defaults k = false)
    (hmem : (k, v) ∈ user) : mkParams defaults user = none := by
  unfold mkParams
  have : user.all (fun kv => hasKey defaults kv.1) = false := by
    apply Bool.eq_false_iff.mpr
    intro h
    have := List.all_eq_true.mp h _ hmem
    simp [hk] at this
  simp [this]

/-- a single override wins over the default, every other key keeps its default -/
theorem override_wins (defaults : Params) (k v : Nat) (hk : hasKey defaults k = true) :
    ∃ p, mkParams defaults [(k, v)] = some p ∧ p.lookup k = some v ∧
      ∀ k', k' ≠ k → p.lookup k' = defaults.lookup k' := by
  refine ⟨setKey defaults k v, by simp [mkParams, hk], lookup_setKey_same _ _ _ hk, ?_⟩
  intro k' hk'
  exact lookup_setKey_other _ _ _ _ hk'

/-- the fold behind `params.update(model_params)`: after any list of overrides whose keys are all
    known, a key holds the *last* value given for it, or its previous value if none was given -/
theorem fold_setKey_lookup : ∀ (user acc : Params), (∀ kv ∈ user, hasKey acc kv.1 = true) → ∀ k,
    (user.foldl (fun acc kv => setKey acc kv.1 kv.2) acc).lookup k =
      (user.reverse.lookup k).or (acc.lookup k) := by
  intro user
  induction user with
  | nil => intro acc _ k; simp
  | cons kv rest ih =>
    intro acc h k
    simp only [List.foldl_cons, List.reverse_cons, List.lookup_append]
    rw [ih (setKey acc kv.1 kv.2) (fun x hx => by rw [hasKey_setKey]; exact h x (List.mem_cons_of_mem _ hx)) k]
    have hkv := h kv (List.mem_cons_self ..)
    cases hr : rest.reverse.lookup k with
    | some v => simp
    | none =>
      simp only [Option.none_or]
      by_cases hk : k = kv.1
      · subst hk; rw [lookup_setKey_same _ _ _ hkv]; simp [List.lookup]
      · rw [lookup_setKey_other _ _ _ _ hk]
        have hb : (k == kv.1) = false := by simp [hk]
        simp [List.lookup, hb]

/-- C14 ("class defaults overridden by user-supplied values"), for any number of overrides: when every
    user key is a known model parameter the instance's dict holds, for each key, the last value the
    user gave for it and the class default otherwise -/
theorem overrides_win (defaults user : Params) (h : ∀ kv ∈ user, hasKey defaults kv.1 = true) :
    ∃ p, mkParams defaults user = some p ∧
      ∀ k, p.lookup k = (user.reverse.lookup k).or (defaults.lookup k) := by
  refine ⟨user.foldl (fun acc kv => setKey acc kv.1 kv.2) defaults, ?_, fold_setKey_lookup user defaults h⟩
  have : user.all (fun kv => hasKey defaults kv.1) = true := List.all_eq_true.mpr h
  simp [mkParams, this]

example : mkParams [(1, 10), (2, 20), (3, 30)] [(2, 99), (3, 7), (2, 5)] = some [(1, 10), (2, 5), (3, 7)] := by decide

/-- no user parameters: the instance gets exactly the class defaults -/
theorem defaults_when_no_overrides (defaults : Params) : mkParams defaults [] = some defaults := by
  simp [mkParams]

example : mkParams [(1, 10), (2, 20)] [(2, 99)] = some [(1, 10), (2, 99)] := by decide
example : mkParams [(1, 10), (2, 20)] [(3, 5)] = none := by decide
example : getMdl (defineAll Registry.empty [⟨0, 7, 100, false⟩, ⟨0, 7, 101, false⟩, ⟨0, 8, 102, true⟩]) 0 7 = some 101 := by decide

/-- the validators' accepted ranges (σ₈, n, z, δc, WDM particle mass) are the documented ones -/
theorem guards_validators : Gen.Guards.transfer = Spec.Guards.transfer ∧ Gen.Guards.massFunction = Spec.Guards.massFunction ∧ Gen.Guards.wdm = Spec.Guards.wdm := by decide

/-- the range checks on model parameters made at construction (Tinker10: γ > 0, η > −1/2, η − φ > −1/2, β > 0) test the
    redshift-evolved values the fit uses, with the documented bounds -/
theorem guards_model_parameter_ranges : Gen.Guards.fitParameterRanges = Spec.Guards.fitParameterRanges := by decide
example : Spec.Guards.fitParameterRanges.length = 4 := by decide

/-- the WDM frameworks validate exactly as the CDM frameworks they extend (the cross-parameter checks `lnk_min < lnk_max`,
    at least two wavenumbers, `Mmin < Mmax`, … of the regenerated `validate()` chain are inherited unchanged) -/
theorem wdm_frameworks_validate_like_cdm :
    Gen.descTransferWDM.validate = Gen.descTransfer.validate ∧ Gen.descMassFunctionWDM.validate = Gen.descMassFunction.validate := ⟨rfl, rfl⟩

end Hmf.C14
