import HmfVerif.Proofs.HeapSep
import HmfVerif.Proofs.History
/-!
# C15 — copies, clones and pickles are faithful and independent
`clone(**changes)` = deep copy followed by `update(**changes)`.  In `M'` the copy of a state is the
state itself (values are immutable), so faithfulness of the clone is C01's coherence theorem applied
to the copied state; independence is the heap model's separation.
-/
namespace Hmf.C15

/-- clone(**changes) equals a fresh object with the changed parameters: starting from the original's
    state at any point of any history, the update and every subsequent read on the clone answer as the
    specification does from the original's parameter values. -/
theorem clone_eq_fresh (E : Env) (fuel : Nat) (s : St) (h : CInv E s) (changes : List (Name × Val))
    (reads : List Op) (i : Nat) (o : Out)
    (ho : (run E fuel s (.update changes :: reads)).1[i]? = some o) (hne : o ≠ .nofuel) :
    ∃ f', (specRun E f' s.pv (.update changes :: reads)).1[i]? = some o :=
  run_coherent E fuel _ s h i o ho hne

/-- a plain copy (deepcopy / pickle round trip, no changes) answers every read exactly as a fresh
    object with the original's parameters, whether or not quantities had been computed before -/
theorem copy_eq_fresh (E : Env) (fuel : Nat) (pre reads : List Op) (pv : Name → Val) (i : Nat) (o : Out)
    (ho : (run E fuel (run E fuel (St.fresh pv) pre).2 reads).1[i]? = some o) (hne : o ≠ .nofuel) :
    ∃ f', (specRun E f' (run E fuel (St.fresh pv) pre).2.pv reads).1[i]? = some o :=
  run_coherent E fuel reads _ (run_inv E fuel pre _ (fresh_inv E pv)) i o ho hne

/-- the copy of a slot holds the same Heap.content as the original's slot -/
theorem copy_faithful (h : Heap.H) (i j p a : Nat) (hsl : h.slot i p = some a) :
    ((Heap.copyStep h i j h p).slot j p).map (Heap.content (Heap.copyStep h i j h p)) = some (Heap.content h a) := by
  simp [Heap.copyStep, hsl, Heap.alloc, Heap.content]

/-- the whole copy operation (deepcopy / clone / pickle round trip over every dict-valued parameter,
    in any order, with repetitions, even onto itself) is faithful: every copied slot of the new
    instance holds the content the original's slot held -/
theorem copy_faithful_all (h : Heap.H) (i j : Nat) (ps : List Nat) (p a : Nat) (hp : p ∈ ps)
    (hsl : h.slot i p = some a) :
    ((Heap.step true h (.copy i j ps)).slot j p).map (Heap.content (Heap.step true h (.copy i j ps)))
      = some (Heap.content h a) := by
  obtain ⟨b, h1, _, h3⟩ := Heap.copy_fold_faithful h i j p a hsl ps h (Or.inr hp)
  simp only [Heap.step]
  rw [h1]
  simp [Heap.content, h3]

/-- operations on the copy never touch the original's cells or slots, and vice versa -/
theorem copy_independent (h : Heap.H) (hs : Heap.Sep h) (op : Heap.Op) (i j : Nat) (hij : i ≠ j) (hact : op.actor = some j)
    (p a : Nat) (hsl : h.slot i p = some a) :
    (Heap.step true h op).slot i p = some a ∧ (Heap.step true h op).cells a = h.cells a := by
  obtain ⟨hlt, hown⟩ := hs i p a hsl
  obtain ⟨hc, hslot⟩ := Heap.bystander_unchanged h op hs
  refine ⟨?_, ?_⟩
  · rw [hslot i p (fun k hk => by rw [hact] at hk; cases hk; exact hij)]; exact hsl
  · apply hc a hlt
    · intro k hk; rw [hact] at hk; cases hk; rw [hown]; intro he; cases he; exact hij rfl
    · intro t k v he; rw [he] at hact; simp [Heap.Op.actor] at hact

/-- **independence for every continuation**: after any sequence of operations none of which acts on
    instance `i` — construction, updates, copies, component instantiation on *other* instances
    (the clone among them), caller-side dict mutation, class-level defaults — every dict slot of `i`
    still points to the same cell and that cell holds what it held.  `i` is arbitrary, so this is both
    "operations on the clone do not affect the original" and the converse. -/
theorem independent_run (ops : List Heap.Op) : ∀ (h : Heap.H), Heap.Sep h → ∀ (i p a : Nat),
    (∀ op ∈ ops, op.actor ≠ some i) → h.slot i p = some a →
    (Heap.run true h ops).slot i p = some a ∧ (Heap.run true h ops).cells a = h.cells a := by
  induction ops with
  | nil => intro h _ i p a _ hsl; exact ⟨hsl, rfl⟩
  | cons op ops ih =>
    intro h hs i p a hact hsl
    have hop : op.actor ≠ some i := hact op (List.mem_cons_self ..)
    obtain ⟨hlt, hown⟩ := hs i p a hsl
    have hstep : (Heap.step true h op).slot i p = some a ∧ (Heap.step true h op).cells a = h.cells a := by
      obtain ⟨hc, hslot⟩ := Heap.bystander_unchanged h op hs
      refine ⟨?_, ?_⟩
      · rw [hslot i p (fun k hk he => hop (by rw [hk, he]))]; exact hsl
      · by_cases hw : ∃ k v, op = .callerWrite a k v
        · obtain ⟨k, v, rfl⟩ := hw
          simp [Heap.step, hown]
        · apply hc a hlt
          · intro k hk he; rw [hown] at he; cases he; exact hop hk
          · intro t k v he hat; subst hat; exact hw ⟨k, v, he⟩
    obtain ⟨h1, h2⟩ := ih _ (Heap.sep_step h op hs) i p a
      (fun o ho => hact o (List.mem_cons_of_mem _ ho)) hstep.1
    simp only [Heap.run, List.foldl_cons] at h1 h2 ⊢
    exact ⟨h1, by rw [h2, hstep.2]⟩

/-- the same with no hypothesis on the heap at all: in every state reachable from the empty heap by any
    program `pre`, any continuation that does not act on instance `i` leaves `i`'s dicts as they were -/
theorem independent_in_every_reachable_state (pre ops : List Heap.Op) (i p a : Nat)
    (hact : ∀ op ∈ ops, op.actor ≠ some i)
    (hsl : (Heap.run true Heap.H.empty pre).slot i p = some a) :
    (Heap.run true Heap.H.empty (pre ++ ops)).slot i p = some a ∧
    (Heap.run true Heap.H.empty (pre ++ ops)).cells a = (Heap.run true Heap.H.empty pre).cells a := by
  have := independent_run ops (Heap.run true Heap.H.empty pre) (Heap.sep_run pre _ Heap.sep_empty) i p a hact hsl
  simpa [Heap.run, List.foldl_append] using this

/-- clone then work on the clone, for any amount of work: the original's dicts are what they were
    before the clone was taken -/
theorem clone_then_any_ops (h : Heap.H) (hs : Heap.Sep h) (i j : Nat) (hij : i ≠ j) (ps : List Nat)
    (ops : List Heap.Op) (hops : ∀ op ∈ ops, op.actor = some j) (p a : Nat) (hsl : h.slot i p = some a) :
    (Heap.run true h (.copy i j ps :: ops)).slot i p = some a ∧
    (Heap.run true h (.copy i j ps :: ops)).cells a = h.cells a := by
  apply independent_run _ h hs i p a _ hsl
  intro op ho he
  rcases List.mem_cons.mp ho with rfl | ho
  · simp [Heap.Op.actor] at he; exact hij he.symm
  · rw [hops op ho] at he; cases he; exact hij rfl

/-- the premises are satisfiable: a constructed instance, cloned, clone updated twice -/
example : let h0 := Heap.run true Heap.H.empty [.callerNew [(1, 2)], .construct 0 0 (some 0)]
    h0.slot 0 0 = some 1 ∧
    (Heap.run true h0 [.copy 0 1 [0], .callerNew [(1, 5)], .update 1 0 2]).cells 1 = h0.cells 1 := by
  decide

/-- separation still holds after copying, so the argument repeats for any continuation -/
theorem sep_after_copy (h : Heap.H) (hs : Heap.Sep h) (i j : Nat) (ps : List Nat) : Heap.Sep (Heap.step true h (.copy i j ps)) :=
  Heap.sep_step h _ hs

end Hmf.C15
