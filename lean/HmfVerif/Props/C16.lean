import HmfVerif.Real.Tactics
import HmfVerif.Gen.ExprMdef
import HmfVerif.Spec.Mdef
import HmfVerif.Spec.Wiring
import HmfVerif.Gen.ExprFlow
import HmfVerif.Gen.Guards
import HmfVerif.Spec.Guards
/-!
# C16 — mass definitions: exact overdensity algebra, mutual inverses
(conversion between definitions rests on `brentq` and a halo profile: numerical checks only)
-/
set_option linter.unusedSimpArgs false
set_option linter.unusedVariables false
set_option linter.unusedTactic false
namespace Hmf.C16
open Hmf.Spec.Mdef Real

section
variable (opq : String → ℝ → ℝ) (ρ : String → ℝ)
macro "md_eq" "[" ds:Lean.Parser.Tactic.simpLemma,* "]" : tactic => `(tactic|
  (simp only [$ds,*, SOMean_density, SOCritical_density, SOVirial_density, FOF_density, BryanNorman, ρmean, ρcrit, Ωm, m_to_r, r_to_m];
   expr_unfold; try expr_close))

/-! ## the code evaluates the documented forms -/
theorem SOMean_density_eq : evalR opq ρ Gen.Mdef.SOMean_halo_density = evalR opq ρ SOMean_density := by md_eq [Gen.Mdef.SOMean_halo_density]
theorem SOCritical_density_eq : evalR opq ρ Gen.Mdef.SOCritical_halo_density = evalR opq ρ SOCritical_density := by md_eq [Gen.Mdef.SOCritical_halo_density]
theorem SOVirial_density_eq : evalR opq ρ Gen.Mdef.SOVirial_halo_density = evalR opq ρ SOVirial_density := by md_eq [Gen.Mdef.SOVirial_halo_density]
theorem FOF_density_eq : evalR opq ρ Gen.Mdef.FOF_halo_density = evalR opq ρ FOF_density := by md_eq [Gen.Mdef.FOF_halo_density]
theorem SOMean_m_to_r_eq : evalR opq ρ Gen.Mdef.SOMean_m_to_r = evalR opq ρ (m_to_r SOMean_density) := by md_eq [Gen.Mdef.SOMean_m_to_r]
theorem SOMean_r_to_m_eq : evalR opq ρ Gen.Mdef.SOMean_r_to_m = evalR opq ρ (r_to_m SOMean_density) := by md_eq [Gen.Mdef.SOMean_r_to_m]
theorem SOCritical_m_to_r_eq : evalR opq ρ Gen.Mdef.SOCritical_m_to_r = evalR opq ρ (m_to_r SOCritical_density) := by md_eq [Gen.Mdef.SOCritical_m_to_r]
theorem SOCritical_r_to_m_eq : evalR opq ρ Gen.Mdef.SOCritical_r_to_m = evalR opq ρ (r_to_m SOCritical_density) := by md_eq [Gen.Mdef.SOCritical_r_to_m]
theorem SOVirial_m_to_r_eq : evalR opq ρ Gen.Mdef.SOVirial_m_to_r = evalR opq ρ (m_to_r SOVirial_density) := by md_eq [Gen.Mdef.SOVirial_m_to_r]
theorem SOVirial_r_to_m_eq : evalR opq ρ Gen.Mdef.SOVirial_r_to_m = evalR opq ρ (r_to_m SOVirial_density) := by md_eq [Gen.Mdef.SOVirial_r_to_m]
theorem FOF_m_to_r_eq : evalR opq ρ Gen.Mdef.FOF_m_to_r = evalR opq ρ (m_to_r FOF_density) := by md_eq [Gen.Mdef.FOF_m_to_r]
theorem FOF_r_to_m_eq : evalR opq ρ Gen.Mdef.FOF_r_to_m = evalR opq ρ (r_to_m FOF_density) := by md_eq [Gen.Mdef.FOF_r_to_m]

/-- abbreviations for the two opaque cosmology quantities as the generated terms see them -/
noncomputable def rc : ℝ := opq "cosmo.critical_density" (ρ "z") / ρ "cosmo.h" ^ 2 * ρ "unitconv:u.Msun / u.Mpc ** 3"
noncomputable def om : ℝ := opq "cosmo.Om" (ρ "z")

/-- C16: a mean-density definition of overdensity D has halo density D × mean matter density -/
theorem SOMean_density_value : evalR opq ρ Gen.Mdef.SOMean_halo_density = ρ "p.overdensity" * (om opq ρ * rc opq ρ) := by
  simp only [Gen.Mdef.SOMean_halo_density, rc, om]; expr_unfold; push_cast; simp only [zpow_ofNat]; try ring
/-- C16: a critical one D × critical density -/
theorem SOCritical_density_value : evalR opq ρ Gen.Mdef.SOCritical_halo_density = ρ "p.overdensity" * rc opq ρ := by
  simp only [Gen.Mdef.SOCritical_halo_density, rc]; expr_unfold; push_cast; simp only [zpow_ofNat]; try ring
/-- C16: their ratio (same D) is Ωm(z) -/
theorem mean_over_crit_is_Om (hD : ρ "p.overdensity" ≠ 0) (hc : rc opq ρ ≠ 0) :
    evalR opq ρ Gen.Mdef.SOMean_halo_density / evalR opq ρ Gen.Mdef.SOCritical_halo_density = om opq ρ := by
  rw [SOMean_density_value, SOCritical_density_value]; field_simp
/-- C16: the virial definition follows Bryan–Norman: Δ_c(x) × critical density, x = Ωm(z) − 1 -/
theorem SOVirial_density_value (hO : om opq ρ ≠ 0) :
    evalR opq ρ Gen.Mdef.SOVirial_halo_density =
      (18 * π ^ 2 + 82 * (om opq ρ - 1) - 39 * (om opq ρ - 1) ^ 2) * rc opq ρ := by
  simp only [Gen.Mdef.SOVirial_halo_density, rc, om] at *; expr_unfold <;> first | (push_cast; norm_num; done) | (push_cast; norm_num; ring_nf; done) | (push_cast; norm_num; field_simp; done) | (push_cast; norm_num; field_simp; ring_nf; done) | expr_finish
/-- C16: the FoF one is 9/(2π b³) × mean -/
theorem FOF_density_value : evalR opq ρ Gen.Mdef.FOF_halo_density =
    9 / (2 * π * ρ "p.linking_length" ^ 3) * (om opq ρ * rc opq ρ) := by
  simp only [Gen.Mdef.FOF_halo_density, rc, om]; expr_unfold <;> first | (push_cast; norm_num; done) | (push_cast; norm_num; ring_nf; done) | (push_cast; norm_num; field_simp; done) | (push_cast; norm_num; field_simp; ring_nf; done) | expr_finish
/-- the reported overdensities: SOMean w.r.t. mean is D, SOCritical w.r.t. critical is D -/
theorem SOMean_overdensity_mean (hO : opq "cosmo.Om" (ρ "z") ≠ 0) (hc : opq "cosmo.critical_density" (ρ "z") ≠ 0)
    (hh : ρ "cosmo.h" ≠ 0) (hu : ρ "unitconv:u.Msun / u.Mpc ** 3" ≠ 0) :
    evalR opq ρ Gen.Mdef.SOMean_halo_overdensity_mean = ρ "p.overdensity" := by
  simp only [Gen.Mdef.SOMean_halo_overdensity_mean]; expr_unfold; push_cast
  field_simp
theorem SOCritical_overdensity_crit (hc : opq "cosmo.critical_density" (ρ "z") ≠ 0)
    (hh : ρ "cosmo.h" ≠ 0) (hu : ρ "unitconv:u.Msun / u.Mpc ** 3" ≠ 0) :
    evalR opq ρ Gen.Mdef.SOCritical_halo_overdensity_crit = ρ "p.overdensity" := by
  simp only [Gen.Mdef.SOCritical_halo_overdensity_crit]; expr_unfold; push_cast
  field_simp
end

/-! ## m_to_r and r_to_m are mutual inverses (for any positive halo density) -/

theorem cube_root_cube (r : ℝ) (hr : 0 ≤ r) : (r ^ 3) ^ ((1:ℝ) / 3) = r := by
  rw [← Real.rpow_natCast r 3, ← Real.rpow_mul hr]; norm_num

/-- r ↦ m ↦ r -/
theorem m_to_r_of_r_to_m (dens r : ℝ) (hd : 0 < dens) (hr : 0 ≤ r) :
    (3 * (4 * π * r ^ 3 * dens / 3) / (4 * π * dens)) ^ ((1:ℝ) / 3) = r := by
  have : 3 * (4 * π * r ^ 3 * dens / 3) / (4 * π * dens) = r ^ 3 := by
    have hp : (0:ℝ) < π := Real.pi_pos
    field_simp
  rw [this]; exact cube_root_cube r hr

/-- m ↦ r ↦ m -/
theorem r_to_m_of_m_to_r (dens m : ℝ) (hd : 0 < dens) (hm : 0 ≤ m) :
    4 * π * ((3 * m / (4 * π * dens)) ^ ((1:ℝ) / 3)) ^ 3 * dens / 3 = m := by
  have hp : (0:ℝ) < π := Real.pi_pos
  have hb : 0 ≤ 3 * m / (4 * π * dens) := by positivity
  have : ((3 * m / (4 * π * dens)) ^ ((1:ℝ) / 3)) ^ 3 = 3 * m / (4 * π * dens) := by
    rw [← Real.rpow_natCast, ← Real.rpow_mul hb]; norm_num
  rw [this]; field_simp

/-- the generated SOMean pair, composed: r_to_m then m_to_r returns r (same z, cosmology, overdensity) -/
theorem SOMean_roundtrip (opq : String → ℝ → ℝ) (ρ : String → ℝ)
    (hd : 0 < ρ "p.overdensity" * (om opq ρ * rc opq ρ)) (hr : 0 ≤ ρ "r") :
    evalR opq (Function.update ρ "m" (evalR opq ρ Gen.Mdef.SOMean_r_to_m)) Gen.Mdef.SOMean_m_to_r = ρ "r" := by
  have h1 : evalR opq ρ Gen.Mdef.SOMean_r_to_m = 4 * π * ρ "r" ^ 3 * (ρ "p.overdensity" * (om opq ρ * rc opq ρ)) / 3 := by
    simp only [Gen.Mdef.SOMean_r_to_m, rc, om]; expr_unfold <;> first | (push_cast; norm_num; done) | (push_cast; norm_num; ring_nf; done) | (push_cast; norm_num; field_simp; done) | (push_cast; norm_num; field_simp; ring_nf; done) | expr_finish
  have h2 : ∀ mval, evalR opq (Function.update ρ "m" mval) Gen.Mdef.SOMean_m_to_r =
      (3 * mval / (4 * π * (ρ "p.overdensity" * (om opq ρ * rc opq ρ)))) ^ ((1:ℝ) / 3) := by
    intro mval
    simp only [Gen.Mdef.SOMean_m_to_r, rc, om]; expr_unfold; push_cast
    simp only [Function.update_apply, String.reduceEq, if_false, if_true]
    first | (norm_num; done) | (norm_num; ring_nf; done) | expr_finish
  rw [h2, h1]
  exact m_to_r_of_r_to_m _ _ hd hr

/-- an explicitly selected mass definition is built from exactly the user's `mdef_params` -/
theorem mdef_component_wiring : Gen.Flow.wiring.lookup "MassFunction.mdef" = some Spec.Wiring.mdef := by decide

/-- mass definitions contain no numeric special cases -/
theorem guards_mdef : Gen.Guards.mdef = Spec.Guards.mdef := by decide

end Hmf.C16
