import HmfVerif.Real.Tactics
import HmfVerif.Gen.ExprWdm
import HmfVerif.Gen.ExprWdmAlter
import HmfVerif.Gen.ExprFlow
import HmfVerif.Gen.Desc
import HmfVerif.Spec.Wdm
import HmfVerif.Proofs.AnalysisWdm
import HmfVerif.Spec.Wiring
import HmfVerif.Gen.Guards
import HmfVerif.Spec.Guards
/-!
# C17 — warm dark matter only suppresses, and reduces to CDM for heavy particles
-/
set_option linter.unusedSimpArgs false
set_option linter.unusedVariables false
namespace Hmf.C17
open Hmf.Spec.Wdm Hmf.Analysis Real

section
variable (opq : String → ℝ → ℝ) (ρ : String → ℝ)
macro "wdm_eq" "[" ds:Lean.Parser.Tactic.simpLemma,* "]" : tactic => `(tactic|
  (simp only [$ds,*, transfer, lamFs, mFs, lamHm, mHm, schneider12, schneider12vCDM, lovell14]; expr_unfold; try expr_close))

/-! ## the code evaluates the documented forms -/
theorem transfer_eq : evalR opq ρ Gen.Wdm.Viel05_transfer = evalR opq ρ transfer := by wdm_eq [Gen.Wdm.Viel05_transfer]
theorem lam_fs_eq : evalR opq ρ Gen.Wdm.Viel05_lam_eff_fs = evalR opq ρ lamFs := by wdm_eq [Gen.Wdm.Viel05_lam_eff_fs]
theorem m_fs_eq : evalR opq ρ Gen.Wdm.Viel05_m_fs = evalR opq ρ mFs := by wdm_eq [Gen.Wdm.Viel05_m_fs]
theorem lam_hm_eq : evalR opq ρ Gen.Wdm.Viel05_lam_hm = evalR opq ρ lamHm := by wdm_eq [Gen.Wdm.Viel05_lam_hm]
theorem m_hm_eq : evalR opq ρ Gen.Wdm.Viel05_m_hm = evalR opq ρ mHm := by wdm_eq [Gen.Wdm.Viel05_m_hm]
theorem bode_is_viel : Gen.Wdm.Bode01_transfer = Gen.Wdm.Viel05_transfer ∧ Gen.Wdm.Bode01_lam_hm = Gen.Wdm.Viel05_lam_hm ∧
    Gen.Wdm.Bode01_m_hm = Gen.Wdm.Viel05_m_hm := ⟨rfl, rfl, rfl⟩
theorem schneider12_vCDM_eq : evalR opq ρ Gen.WdmAlter.Schneider12_vCDM_dndm_alter = evalR opq ρ schneider12vCDM := by
  wdm_eq [Gen.WdmAlter.Schneider12_vCDM_dndm_alter]
theorem schneider12_eq : evalR opq ρ Gen.WdmAlter.Schneider12_dndm_alter = evalR opq ρ schneider12 := by
  wdm_eq [Gen.WdmAlter.Schneider12_dndm_alter]
theorem lovell14_eq : evalR opq ρ Gen.WdmAlter.Lovell14_dndm_alter = evalR opq ρ lovell14 := by
  wdm_eq [Gen.WdmAlter.Lovell14_dndm_alter]

/-- the generated transfer term is the suppression `S` at the generated free-streaming scale -/
theorem transfer_is_S : evalR opq ρ Gen.Wdm.Viel05_transfer =
    S (evalR opq ρ Gen.Wdm.Viel05_lam_eff_fs) (ρ "p.mu") (ρ "k") := by
  simp only [Gen.Wdm.Viel05_transfer, Gen.Wdm.Viel05_lam_eff_fs, S]; expr_unfold; push_cast; ring_nf

/-- the free-streaming scale is positive for positive particle mass, Ω_c, h, g_x -/
theorem lam_fs_pos (hmx : 0 < ρ "mx") (hO : 0 < ρ "Oc0") (hh : 0 < ρ "cosmo.h") (hg : 0 < ρ "p.g_x") :
    0 < evalR opq ρ Gen.Wdm.Viel05_lam_eff_fs := by
  simp only [Gen.Wdm.Viel05_lam_eff_fs]; expr_unfold; push_cast; positivity

/-- C17: the suppression lies in (0, 1] for every k ≥ 0 … -/
theorem suppression_range (hmx : 0 < ρ "mx") (hO : 0 < ρ "Oc0") (hh : 0 < ρ "cosmo.h") (hg : 0 < ρ "p.g_x")
    (hμ : 0 < ρ "p.mu") (hk : 0 ≤ ρ "k") :
    0 < evalR opq ρ Gen.Wdm.Viel05_transfer ∧ evalR opq ρ Gen.Wdm.Viel05_transfer ≤ 1 := by
  rw [transfer_is_S]
  have hl := (lam_fs_pos opq ρ hmx hO hh hg).le
  exact ⟨S_pos _ _ _ hl hk, S_le_one _ _ _ hl hk hμ⟩

/-- … equals 1 at k = 0 … -/
theorem suppression_at_zero (hμ : 0 < ρ "p.mu") (hk : ρ "k" = 0) : evalR opq ρ Gen.Wdm.Viel05_transfer = 1 := by
  rw [transfer_is_S, hk]; exact S_zero _ _ hμ

/-- … and decreases with k (same particle, same cosmology: only `k` differs between `ρ` and `ρ'`). -/
theorem suppression_antitone (ρ' : String → ℝ) (hsame : ∀ x, x ≠ "k" → ρ' x = ρ x)
    (hmx : 0 < ρ "mx") (hO : 0 < ρ "Oc0") (hh : 0 < ρ "cosmo.h") (hg : 0 < ρ "p.g_x") (hμ : 0 < ρ "p.mu")
    (hk : 0 ≤ ρ "k") (hkk : ρ "k" ≤ ρ' "k") :
    evalR opq ρ' Gen.Wdm.Viel05_transfer ≤ evalR opq ρ Gen.Wdm.Viel05_transfer := by
  rw [transfer_is_S, transfer_is_S]
  have hl : evalR opq ρ' Gen.Wdm.Viel05_lam_eff_fs = evalR opq ρ Gen.Wdm.Viel05_lam_eff_fs := by
    apply evalS_congr
    intro x hx
    apply hsame
    intro hxk; subst hxk
    revert hx; decide
  rw [hl, hsame "p.mu" (by decide)]
  exact S_antitone _ _ (lam_fs_pos opq ρ hmx hO hh hg).le hμ (Set.mem_Ici.mpr hk) (Set.mem_Ici.mpr (le_trans hk hkk)) hkk

/-- C17: half-mode scale > free-streaming scale, for every μ > 0 -/
theorem lam_hm_gt_lam_fs (hmx : 0 < ρ "mx") (hO : 0 < ρ "Oc0") (hh : 0 < ρ "cosmo.h") (hg : 0 < ρ "p.g_x") (hμ : 0 < ρ "p.mu") :
    evalR opq ρ Gen.Wdm.Viel05_lam_eff_fs < evalR opq ρ Gen.Wdm.Viel05_lam_hm := by
  have hl := lam_fs_pos opq ρ hmx hO hh hg
  have hf := hm_factor_gt_one (ρ "p.mu") hμ
  have e : evalR opq ρ Gen.Wdm.Viel05_lam_hm =
      evalR opq ρ Gen.Wdm.Viel05_lam_eff_fs * (2 * π * ((2:ℝ) ^ (ρ "p.mu" / 5) - 1) ^ (-(1/2) / ρ "p.mu")) := by
    simp only [Gen.Wdm.Viel05_lam_hm, Gen.Wdm.Viel05_lam_eff_fs]; expr_unfold; push_cast; norm_num; ring_nf
  rw [e]
  nlinarith

/-- C17: the mass scales are positive -/
theorem mass_scales_pos (hmx : 0 < ρ "mx") (hO : 0 < ρ "Oc0") (hh : 0 < ρ "cosmo.h") (hg : 0 < ρ "p.g_x")
    (hr : 0 < ρ "rho_mean") (hμ : 0 < ρ "p.mu") :
    0 < evalR opq ρ Gen.Wdm.Viel05_m_fs ∧ 0 < evalR opq ρ Gen.Wdm.Viel05_m_hm := by
  have h2 : (1:ℝ) < 2 ^ (ρ "p.mu" / 5) := one_lt_rpow (by norm_num) (by positivity)
  have hb : 0 < (2:ℝ) ^ (ρ "p.mu" / 5) - 1 := by linarith
  constructor
  · simp only [Gen.Wdm.Viel05_m_fs]; expr_unfold; push_cast; positivity
  · simp only [Gen.Wdm.Viel05_m_hm]; expr_unfold; push_cast
    have hb' : 0 < ((2:ℝ) * 10 ^ (0:ℤ)) ^ (ρ "p.mu" / (5 * 10 ^ (0:ℤ))) - 1 * 10 ^ (0:ℤ) := by norm_num; exact h2
    positivity

/-- C17: each recalibration multiplies dn/dm by a factor in (0, 1] -/
theorem schneider12_factor (hM : 0 ≤ ρ "wdm.m_hm") (hm : 0 < ρ "m") (hα : 0 ≤ ρ "p.alpha") :
    evalR opq ρ Gen.WdmAlter.Schneider12_dndm_alter = ρ "dndm0" * (1 + 1 * ρ "wdm.m_hm" / ρ "m") ^ (-(ρ "p.alpha")) ∧
    0 < (1 + 1 * ρ "wdm.m_hm" / ρ "m") ^ (-(ρ "p.alpha")) ∧ (1 + 1 * ρ "wdm.m_hm" / ρ "m") ^ (-(ρ "p.alpha")) ≤ 1 := by
  refine ⟨?_, recal_range 1 _ _ _ (by norm_num) hM hm hα⟩
  simp only [Gen.WdmAlter.Schneider12_dndm_alter]; expr_unfold; push_cast; norm_num
theorem lovell14_factor (hM : 0 ≤ ρ "wdm.m_hm") (hm : 0 < ρ "m") (hβ : 0 ≤ ρ "p.beta") (hγ : 0 ≤ ρ "p.gamma") :
    evalR opq ρ Gen.WdmAlter.Lovell14_dndm_alter = ρ "dndm0" * (1 + ρ "p.gamma" * ρ "wdm.m_hm" / ρ "m") ^ (-(ρ "p.beta")) ∧
    0 < (1 + ρ "p.gamma" * ρ "wdm.m_hm" / ρ "m") ^ (-(ρ "p.beta")) ∧ (1 + ρ "p.gamma" * ρ "wdm.m_hm" / ρ "m") ^ (-(ρ "p.beta")) ≤ 1 := by
  refine ⟨?_, recal_range _ _ _ _ hγ hM hm hβ⟩
  simp only [Gen.WdmAlter.Lovell14_dndm_alter]; expr_unfold; push_cast; norm_num

/-- C17: the ratio of the WDM to the CDM un-normalised transfer function is the WDM model's
    suppression: `exp(lnT_wdm − lnT_cdm) = S` (the framework adds `log S` to the CDM value) -/
theorem ratio_is_suppression (hS : 0 < ρ "py:self.wdm.transfer(self.k)") :
    exp (evalR opq ρ Gen.Flow.TransferWDM__unnormalised_lnT - ρ "super._unnormalised_lnT") = ρ "py:self.wdm.transfer(self.k)" := by
  simp only [Gen.Flow.TransferWDM__unnormalised_lnT]; expr_unfold
  rw [add_sub_cancel_left, exp_log hS]
end

/-- the factor increases with mass (real-analysis statement used with the equalities above) -/
theorem recalibration_monotone_in_mass (g M β : ℝ) (hg : 0 ≤ g) (hM : 0 ≤ M) (hβ : 0 ≤ β) (m1 m2 : ℝ) (h1 : 0 < m1) (h12 : m1 ≤ m2) :
    (1 + g * M / m1) ^ (-β) ≤ (1 + g * M / m2) ^ (-β) := recal_mono g M β hg hM hβ m1 m2 h1 h12

/-- the WDM component gets the particle mass, the object's cosmology and z; the recalibration gets the CDM dn/dm, the masses and
    the WDM component -/
theorem wdm_component_wiring :
    Gen.Flow.wiring.lookup "TransferWDM.wdm" = some Spec.Wiring.wdm ∧
    Gen.Flow.wiring.lookup "MassFunctionWDM.dndm" = some Spec.Wiring.alter := by decide

/-- the WDM module contains no numeric special case beyond the particle-mass validator -/
theorem guards_wdm : Gen.Guards.wdm = Spec.Guards.wdm := by decide

/-- C17: the inputs `Oc0` and `rho_mean` of the WDM formulae are the present-day CDM density parameter and the mean density at the
    component's redshift -/
theorem wdm_derived_inputs :
    Gen.Flow.wiring.lookup "WDM.__init__.Oc0" = some Spec.Wiring.wdmOc0 ∧
    Gen.Flow.wiring.lookup "WDM.__init__.rho_mean" = some Spec.Wiring.wdmRhoMean := by decide

/-- C17 ("only suppresses", "converge to the CDM quantities"): relative to the CDM frameworks the WDM frameworks define **only** the
    suppressed transfer function and the WDM component (`TransferWDM`: `_unnormalised_lnT`, `wdm`) and the recalibrated `dndm`
    (`MassFunctionWDM`) — every other quantity (normalisation, σ₈ integral, growth, σ(m), …) is the inherited CDM body, evaluated on the
    suppressed transfer function. Regenerated from the class bodies on every run. -/
theorem wdm_frameworks_override_only_transfer_and_dndm :
    ((Gen.descTransferWDM.bodies.filter (fun b => b.1 == 3)).map (·.2.1)) = [Gen.N._unnormalised_lnT, Gen.N.wdm] ∧
    ((Gen.descMassFunctionWDM.bodies.filter (fun b => b.1 == 4)).map (·.2.1)) = [Gen.N.dndm] ∧
    ((Gen.descMassFunctionWDM.bodies.filter (fun b => b.1 == 3)).map (·.2.1)) = [Gen.N._unnormalised_lnT, Gen.N.wdm] := by decide +kernel

/-- reads of a read program, `super` reads marked by their owner -/
def tmReadsTagged : Tm → List (Option Nat × Name)
  | .p n => [(none, n)]
  | .q n => [(none, n)]
  | .sup o n => [(some o, n)]
  | .pair _ a b => tmReadsTagged a ++ tmReadsTagged b
  | .ite _ c t e => tmReadsTagged c ++ tmReadsTagged t ++ tmReadsTagged e
  | .raiseIf _ c k => tmReadsTagged c ++ tmReadsTagged k
  | .const _ => []

def sameReads (a b : List (Option Nat × Name)) : Bool := a.all (b.contains ·) && b.all (a.contains ·)

/-- C17 ("the ratio of WDM to CDM transfer equals the WDM model's suppression", "dn/dm is the CDM one times the recalibration"): the two
    bodies the WDM frameworks add read the **inherited CDM value** of the same quantity (`super()`), the WDM component and the grid they are
    evaluated on — nothing else: `_unnormalised_lnT` reads {CDM `_unnormalised_lnT`, `wdm`, `k`}; `dndm` reads {CDM `dndm`, `alter_model`,
    `alter_params`, `m`, `wdm`} -/
theorem wdm_bodies_read_cdm_value_and_component :
    ((Gen.descTransferWDM.bodyOf 3 Gen.N._unnormalised_lnT).map fun t =>
        sameReads (tmReadsTagged t) [(some 1, Gen.N._unnormalised_lnT), (none, Gen.N.wdm), (none, Gen.N.k)]) = some true ∧
    ((Gen.descMassFunctionWDM.bodyOf 4 Gen.N.dndm).map fun t =>
        sameReads (tmReadsTagged t) [(some 2, Gen.N.dndm), (none, Gen.N.alter_model), (none, Gen.N.alter_params), (none, Gen.N.m), (none, Gen.N.wdm)]) = some true := by
  decide +kernel

end Hmf.C17
