import HmfVerif.Real.Tactics
import HmfVerif.Gen.ExprHalofit
import HmfVerif.Gen.ExprFlow
import HmfVerif.Spec.Wiring
import HmfVerif.Gen.Guards
import HmfVerif.Spec.Guards
/-!
# C18 — HALOFIT leaves large scales untouched and is self-consistent
`Gen.Halofit.halofit_pnl` is the regenerated closed form of the non-linear spectrum on the modelled
wavenumbers (both coefficient sets, the Ωm(z) interpolation, the neutrino factors), as a function of
(k, Δ²_lin(k), k_nl, n_eff, curvature, z, cosmology, switch).  The mask/copy logic around it is the
three-line hand model `nlOf`; Nelder–Mead and the spline derivatives are opaque.
-/
set_option linter.unusedSimpArgs false
set_option linter.unusedVariables false
set_option linter.unusedTactic false
namespace Hmf.C18
open Real

/-- hand model of the last three statements of `halofit`: a *copy* of the linear spectrum with the
    entries at k > 0.005 replaced -/
noncomputable def nlOf (k lin pnl : ℝ) : ℝ := if k > 0.005 then pnl else lin

/-- C18: the non-linear spectrum equals the linear one for k ≤ 0.005 h/Mpc -/
theorem lowk_identity (k lin pnl : ℝ) (hk : k ≤ 0.005) : nlOf k lin pnl = lin := by
  unfold nlOf; rw [if_neg (by linarith)]

/-- array-level model of `nonlinear_delta_k = delta_k.copy(); nonlinear_delta_k[mask] = pnl` (numpy boolean-mask
    assignment into a copy): entries where the mask is true are taken, in order, from `new`; the others from `orig` -/
def maskScatter {α} : List Bool → List α → List α → List α
  | true :: ms, _ :: os, n :: ns => n :: maskScatter ms os ns
  | false :: ms, o :: os, ns => o :: maskScatter ms os ns
  | _, _, _ => []

/-- C18 (arrays): the result has one entry per wavenumber -/
theorem maskScatter_length {α} : ∀ (m : List Bool) (orig new : List α), m.length = orig.length →
    new.length = m.count true → (maskScatter m orig new).length = orig.length := by
  intro m
  induction m with
  | nil => intro orig new h1 _; cases orig <;> simp_all [maskScatter]
  | cons b ms ih =>
    intro orig new h1 h2
    cases orig with
    | nil => simp at h1
    | cons o os =>
      cases b with
      | false =>
        simp only [maskScatter, List.length_cons, Nat.add_right_cancel_iff]
        exact ih os new (by simpa using h1) (by simpa using h2)
      | true =>
        cases new with
        | nil => simp at h2
        | cons n ns =>
          simp only [maskScatter, List.length_cons, Nat.add_right_cancel_iff]
          exact ih os ns (by simpa using h1) (by simpa using h2)

/-- C18 (arrays): wherever the mask is false the entry is the linear one, whatever was computed elsewhere -/
theorem maskScatter_unmasked {α} : ∀ (m : List Bool) (orig new : List α), m.length = orig.length →
    new.length = m.count true → ∀ (i : Nat), m[i]? = some false → (maskScatter m orig new)[i]? = orig[i]? := by
  intro m
  induction m with
  | nil => intro orig new _ _ i hi; simp at hi
  | cons b ms ih =>
    intro orig new h1 h2 i hi
    cases orig with
    | nil => simp at h1
    | cons o os =>
      cases b with
      | false =>
        cases i with
        | zero => simp [maskScatter]
        | succ j =>
          simp only [maskScatter, List.getElem?_cons_succ]
          exact ih os new (by simpa using h1) (by simpa using h2) j (by simpa using hi)
      | true =>
        cases new with
        | nil => simp at h2
        | cons n ns =>
          cases i with
          | zero => simp at hi
          | succ j =>
            simp only [maskScatter, List.getElem?_cons_succ]
            exact ih os ns (by simpa using h1) (by simpa using h2) j (by simpa using hi)

/-- C18 (arrays): the masked entries are exactly the computed non-linear values, in order (none lost, none shifted) -/
theorem maskScatter_masked {α} : ∀ (m : List Bool) (orig new : List α), m.length = orig.length →
    new.length = m.count true →
    ((maskScatter m orig new).zip m).filterMap (fun p => if p.2 then some p.1 else none) = new := by
  intro m
  induction m with
  | nil => intro orig new h1 h2; cases orig <;> simp_all [maskScatter]
  | cons b ms ih =>
    intro orig new h1 h2
    cases orig with
    | nil => simp at h1
    | cons o os =>
      cases b with
      | false =>
        simp only [maskScatter, List.zip_cons_cons, List.filterMap_cons]
        simpa using ih os new (by simpa using h1) (by simpa using h2)
      | true =>
        cases new with
        | nil => simp at h2
        | cons n ns =>
          simp only [maskScatter, List.zip_cons_cons, List.filterMap_cons]
          simpa using ih os ns (by simpa using h1) (by simpa using h2)

/-- C18 for whole arrays, any grid (sorted or not, any number of points on either side of the cut): with the mask
    `k > 0.005` every entry at k ≤ 0.005 h/Mpc is the linear one -/
theorem lowk_identity_array (ks lins pnl : List ℝ) (h1 : ks.length = lins.length)
    (h2 : pnl.length = (ks.map (fun k => decide (k > 0.005))).count true)
    (i : Nat) (k : ℝ) (hk : ks[i]? = some k) (hle : k ≤ 0.005) :
    (maskScatter (ks.map (fun k => decide (k > 0.005))) lins pnl)[i]? = lins[i]? := by
  apply maskScatter_unmasked _ _ _ (by simpa using h1) h2
  simp only [List.getElem?_map, hk, Option.map_some, Option.some.injEq, decide_eq_false_iff_not, not_lt]
  exact hle

example : maskScatter [false, true, false, true] [1, 2, 3, 4] [20, 40] = [1, 20, 3, 40] := by decide

/-- C18: the result is a function of (k, linear spectrum, z, cosmology, switch) and the three
    spectrum statistics only — in particular `sigma_8` appears nowhere -/
theorem halofit_inputs :
    Gen.Halofit.halofit_pnl.freeVars.all (fun x => x ∈ ["cosmo.Om0", "cosmo.Onu0", "delta_k", "flag:takahashi", "k", "neff", "rknl", "rncur", "z"]) = true := by
  decide +kernel

/-- C18: every operation is elementwise in k (the value at a wavenumber depends on that wavenumber's
    linear power and on scalars) -/
theorem halofit_elementwise : Gen.Halofit.halofit_pnl.isElementwise = true := by decide +kernel

/-- C18: the Takahashi switch selects between two *different* coefficient sets: the generated term
    is a test on the switch whose two branches are different expressions -/
theorem takahashi_selects :
    (match Gen.Halofit.halofit_pnl with
     | .ite .gt (.var "flag:takahashi") _ t f => decide (t ≠ f)
     | _ => false) = true := by decide +kernel

/-- the defining condition of the non-linear scale: the minimised objective |ln σ²_G(R)| vanishes
    exactly when the Gaussian-filtered variance is one -/
theorem objective_zero_iff_sigma_one (s2 : ℝ) (hs : 0 < s2) : |Real.log s2| = 0 ↔ s2 = 1 := by
  rw [abs_eq_zero]
  constructor
  · intro h; exact Real.eq_one_of_pos_of_log_eq_zero hs h
  · intro h; rw [h, Real.log_one]

/-- C18: nonlinear_power = 2π² Δ²_nl / k³ -/
theorem nonlinear_power_eq (opq : String → ℝ → ℝ) (ρ : String → ℝ) (hk : ρ "k" ≠ 0) :
    evalR opq ρ Gen.Flow.Transfer_nonlinear_power = 2 * π ^ 2 * ρ "nonlinear_delta_k" / ρ "k" ^ 3 := by
  simp only [Gen.Flow.Transfer_nonlinear_power]; expr_unfold; push_cast
  simp only [zpow_neg, zpow_ofNat]
  field_simp

/-- delta_k = k³ P / (2π²) (used by C03 as well) -/
theorem delta_k_eq (opq : String → ℝ → ℝ) (ρ : String → ℝ) :
    evalR opq ρ Gen.Flow.Transfer_delta_k = ρ "k" ^ 3 * ρ "power" / (2 * π ^ 2) := by
  simp only [Gen.Flow.Transfer_delta_k]; expr_unfold <;> first | (push_cast; simp only [zpow_ofNat]; norm_num; done) | expr_finish

open Real in
set_option maxHeartbeats 1000000 in
/-- C18 (Takahashi coefficients, the default): the non-linear dimensionless power is non-negative wherever the linear one is,
    for every wavenumber, non-linear scale, effective index, curvature and redshift, provided Ω_m(z) > 0 and the massive-neutrino
    correction factor of the halo term is non-negative (it is 1 without massive neutrinos) -/
theorem halofit_takahashi_nonneg (opq : String → ℝ → ℝ) (ρ : String → ℝ) (ht : ρ "flag:takahashi" = 1) (hd : 0 ≤ ρ "delta_k") (hk : 0 < ρ "k") (hr : 0 < ρ "rknl")
    (hOm : 0 < ρ "cosmo.Om0") (hnu : 0 ≤ ρ "cosmo.Onu0") (hOmz : ∀ x, 0 < opq "cosmo.Om" x)
    (hfac : 0 ≤ (1 * 10 ^ (0:ℤ) + ρ "cosmo.Onu0" / ρ "cosmo.Om0" * (977 * 10 ^ (-3:ℤ) - 18015 * 10 ^ (-3:ℤ) * (ρ "cosmo.Om0" - 3 * 10 ^ (-1:ℤ))) : ℝ)) :
    0 ≤ evalR opq ρ Gen.Halofit.halofit_pnl := by
  obtain ⟨lg, hlg⟩ : ∃ lg : ℝ → ℝ, ∀ x, opq "cosmo.Om" x = exp (lg x) :=
    ⟨fun x => log (opq "cosmo.Om" x), fun x => (exp_log (hOmz x)).symm⟩
  simp only [Gen.Halofit.halofit_pnl]; expr_unfold; push_cast
  simp only [decide_eq_true_eq, hlg, ht, show ((5:ℝ) * 10 ^ (-1:ℤ) < 1) by norm_num, if_true]
  generalize hNF : (1 * 10 ^ (0:ℤ) + ρ "cosmo.Onu0" / ρ "cosmo.Om0" * (977 * 10 ^ (-3:ℤ) - 18015 * 10 ^ (-3:ℤ) * (ρ "cosmo.Om0" - 3 * 10 ^ (-1:ℤ))) : ℝ) = nf at hfac ⊢
  split_ifs <;> positivity

open Real in
set_option maxHeartbeats 1000000 in
/-- C18 (original Smith et al. 2003 coefficients, `takahashi=False`): the same non-negativity, when the interpolation weight
    Ω_Λ(z)/(1 − Ω_m(z)) between the open and the flat coefficient sets lies in [0, 1] (it does for every ΛCDM cosmology) -/
theorem halofit_smith_nonneg (opq : String → ℝ → ℝ) (ρ : String → ℝ) (ht : ρ "flag:takahashi" = 0) (hd : 0 ≤ ρ "delta_k") (hk : 0 < ρ "k") (hr : 0 < ρ "rknl")
    (hOm : 0 < ρ "cosmo.Om0") (hnu : 0 ≤ ρ "cosmo.Onu0") (hOmz : ∀ x, 0 < opq "cosmo.Om" x)
    (hw : 0 ≤ opq "cosmo.Ode" (ρ "z") / (1 * 10 ^ (0:ℤ) - opq "cosmo.Om" (ρ "z")) ∧
          opq "cosmo.Ode" (ρ "z") / (1 * 10 ^ (0:ℤ) - opq "cosmo.Om" (ρ "z")) ≤ 1 * 10 ^ (0:ℤ))
    (hfac : 0 ≤ (1 * 10 ^ (0:ℤ) + ρ "cosmo.Onu0" / ρ "cosmo.Om0" * (977 * 10 ^ (-3:ℤ) - 18015 * 10 ^ (-3:ℤ) * (ρ "cosmo.Om0" - 3 * 10 ^ (-1:ℤ))) : ℝ)) :
    0 ≤ evalR opq ρ Gen.Halofit.halofit_pnl := by
  obtain ⟨lg, hlg⟩ : ∃ lg : ℝ → ℝ, ∀ x, opq "cosmo.Om" x = exp (lg x) :=
    ⟨fun x => log (opq "cosmo.Om" x), fun x => (exp_log (hOmz x)).symm⟩
  simp only [Gen.Halofit.halofit_pnl]; expr_unfold; push_cast
  simp only [decide_eq_true_eq, hlg, ht, show ¬ ((5:ℝ) * 10 ^ (-1:ℤ) < 0) by norm_num, if_false] at hw ⊢
  generalize hNF : (1 * 10 ^ (0:ℤ) + ρ "cosmo.Onu0" / ρ "cosmo.Om0" * (977 * 10 ^ (-3:ℤ) - 18015 * 10 ^ (-3:ℤ) * (ρ "cosmo.Om0" - 3 * 10 ^ (-1:ℤ))) : ℝ) = nf at hfac ⊢
  generalize hFR : opq "cosmo.Ode" (ρ "z") / (1 * 10 ^ (0:ℤ) - rexp (lg (ρ "z"))) = fr at hw ⊢
  obtain ⟨hw0, hw1⟩ := hw
  have hg0 : 0 ≤ 1 * 10 ^ (0:ℤ) - fr := by linarith
  generalize hG : 1 * 10 ^ (0:ℤ) - fr = g at hg0 ⊢
  split_ifs <;> positivity

/-- C18: `nonlinear_delta_k` is HALOFIT applied to the object's own (k, Δ²_lin, z, cosmology, switch) — every argument wired,
    none left at the callee's default -/
theorem halofit_call_wiring : Gen.Flow.wiring.lookup "Transfer.nonlinear_delta_k" = some Spec.Wiring.halofit := by decide

/-- HALOFIT's low-k cut is `k > 0.005` and the Ω_m(z) switch `|1 − Ω_m(z)| > 0.01`; no new special case -/
theorem guards_halofit : Gen.Guards.halofit = Spec.Guards.halofit := by decide

end Hmf.C18
