import HmfVerif.Proofs.FunctionalLemmas
import HmfVerif.Proofs.History
/-!
# C19 — get_hmf enumerates the full parameter grid with fresh-equal values
-/
namespace Hmf.C19
open Hmf.Fn

/-- the Cartesian product has exactly Π|lᵢ| elements … -/
theorem product_size {α} (ls : List (List α)) : (product ls).length = (ls.map List.length).prod :=
  product_length ls

/-- … contains every combination (no omission) and nothing else … -/
theorem product_complete {α} (ls : List (List α)) (v : List α) :
    v ∈ product ls ↔ List.Forall₂ (fun x l => x ∈ l) v ls := mem_product ls v

/-- … and has no duplicate when the input lists have none. -/
theorem product_no_duplicates {α} (ls : List (List α)) (h : ∀ l ∈ ls, l.Nodup) : (product ls).Nodup :=
  product_nodup ls h

/-- no list-valued argument: exactly one result -/
theorem zero_lists_one_item (order : List Nat) (kwargs : List (Nat × List Nat))
    (h : loopLists kwargs = []) : combos order kwargs = [[]] := by
  simp [combos, h]

/-- one list-valued argument: one result per element, in the given order -/
theorem one_list_items (order : List Nat) (kwargs : List (Nat × List Nat)) (k : Nat) (vs : List Nat)
    (h : loopLists kwargs = [(k, vs)]) : combos order kwargs = vs.map (fun v => [(k, v)]) := by
  simp [combos, h]

/-- one list-valued argument: no value is yielded twice (so with `combos_no_duplicates` and
    `zero_lists_one_item` the no-duplicate clause covers 0, 1 and ≥ 2 list-valued arguments) -/
theorem one_list_no_duplicates (order : List Nat) (kwargs : List (Nat × List Nat)) (k : Nat) (vs : List Nat)
    (h : loopLists kwargs = [(k, vs)]) (hv : vs.Nodup) : (combos order kwargs).Nodup := by
  rw [one_list_items order kwargs k vs h]
  exact hv.map (fun a b hab => by simpa using hab)

/-- length-1 lists are demoted to scalars: they never multiply the number of results -/
theorem singleton_lists_demoted (kwargs : List (Nat × List Nat)) (kv : Nat × List Nat)
    (h : kv ∈ loopLists kwargs) : kv.2.length > 1 := by
  simp only [loopLists, List.mem_filter, decide_eq_true_eq] at h
  exact h.2

/-- several lists: the results are exactly the product of the lists taken in loop order, so their
    number is Π|lᵢ| whatever order the optimiser chose -/
theorem multi_list_count (order : List Nat) (kwargs : List (Nat × List Nat)) (a b : Nat × List Nat)
    (rest : List (Nat × List Nat)) (h : loopLists kwargs = a :: b :: rest) :
    (combos order kwargs).length = (((orderLists order (loopLists kwargs)).map (·.2)).map List.length).prod := by
  simp only [combos, h, List.length_map]
  exact product_length _

/-- the loop order is a permutation-free reordering of the loop lists: every list with a distinct
    key appears exactly once (listed keys first, the rest after) -/
theorem orderLists_perm (order : List Nat) (lists : List (Nat × List Nat))
    (hk : (lists.map (·.1)).Nodup) (ho : order.Nodup) :
    (orderLists order lists).Perm lists := by
  unfold orderLists
  have h1 : (order.filterMap (fun k => lists.find? (·.1 == k))).Perm (lists.filter (fun kv => order.contains kv.1)) := by
    apply (List.perm_ext_iff_of_nodup ?_ ?_).mpr
    · intro kv
      simp only [List.mem_filterMap, List.mem_filter, List.contains_eq_mem, decide_eq_true_eq]
      constructor
      · rintro ⟨k, hk1, hf⟩
        have hm := List.mem_of_find?_eq_some hf
        have hp := List.find?_some hf
        simp only [beq_iff_eq] at hp
        exact ⟨hm, hp ▸ hk1⟩
      · rintro ⟨hm, ho1⟩
        refine ⟨kv.1, ho1, ?_⟩
        -- the first element of `lists` with this key is `kv` itself, keys being distinct
        cases hf : lists.find? (fun x => x.1 == kv.1) with
        | none =>
          have := List.find?_eq_none.mp hf kv hm
          simp at this
        | some w =>
          have hwm := List.mem_of_find?_eq_some hf
          have hwp := List.find?_some hf
          simp only [beq_iff_eq] at hwp
          congr 1
          exact (List.inj_on_of_nodup_map hk hwm hm hwp)
    · apply List.Nodup.filterMap ?_ ho
      intro a a' b hb hb'
      simp only [Option.mem_def] at hb hb'
      have h1 := List.find?_some hb
      have h2 := List.find?_some hb'
      simp only [beq_iff_eq] at h1 h2
      rw [← h1, ← h2]
    · exact (List.Nodup.of_map _ hk).filter _
  refine (List.Perm.append_right _ h1).trans ?_
  exact (List.filter_append_perm (fun kv => order.contains kv.1) lists)

/-- several lists, end to end: whatever loop order the optimiser chose (any duplicate-free `order`,
    listing any subset of the keys or foreign keys), the number of results is the product of the lengths
    of the list-valued arguments **as the user passed them** — the order cannot add or drop a combination -/
theorem multi_list_count_order_independent (order : List Nat) (kwargs : List (Nat × List Nat))
    (a b : Nat × List Nat) (rest : List (Nat × List Nat)) (h : loopLists kwargs = a :: b :: rest)
    (hk : ((loopLists kwargs).map (·.1)).Nodup) (ho : order.Nodup) :
    (combos order kwargs).length = ((loopLists kwargs).map (fun kv => kv.2.length)).prod := by
  rw [multi_list_count order kwargs a b rest h, List.map_map]
  exact ((orderLists_perm order (loopLists kwargs) hk ho).map _).prod_eq

/-- and two different loop orders yield the same number of results -/
theorem count_same_for_any_two_orders (o₁ o₂ : List Nat) (kwargs : List (Nat × List Nat))
    (a b : Nat × List Nat) (rest : List (Nat × List Nat)) (h : loopLists kwargs = a :: b :: rest)
    (hk : ((loopLists kwargs).map (·.1)).Nodup) (h₁ : o₁.Nodup) (h₂ : o₂.Nodup) :
    (combos o₁ kwargs).length = (combos o₂ kwargs).length := by
  rw [multi_list_count_order_independent o₁ kwargs a b rest h hk h₁,
      multi_list_count_order_independent o₂ kwargs a b rest h hk h₂]

/-- the loop order never invents a list: everything it loops over was passed by the user -/
theorem mem_of_mem_orderLists (order : List Nat) (lists : List (Nat × List Nat)) (kv : Nat × List Nat)
    (h : kv ∈ orderLists order lists) : kv ∈ lists := by
  unfold orderLists at h
  rcases List.mem_append.mp h with h | h
  · obtain ⟨k, _, hf⟩ := List.mem_filterMap.mp h
    exact List.mem_of_find?_eq_some hf
  · exact (List.mem_filter.mp h).1

/-- several lists, end to end: no combination is yielded twice (for duplicate-free value lists),
    whatever the loop order -/
theorem combos_no_duplicates (order : List Nat) (kwargs : List (Nat × List Nat))
    (a b : Nat × List Nat) (rest : List (Nat × List Nat)) (h : loopLists kwargs = a :: b :: rest)
    (hv : ∀ kv ∈ loopLists kwargs, kv.2.Nodup) : (combos order kwargs).Nodup := by
  simp only [combos, h]
  rw [← h]
  apply List.Nodup.map_on
  · intro v hv' w hw' hzw
    have lv := ((mem_product _ v).mp hv').length_eq
    have lw := ((mem_product _ w).mp hw').length_eq
    simp only [List.length_map] at lv lw
    have := congrArg (List.map Prod.snd) hzw
    rwa [List.map_snd_zip (by simp [lv]), List.map_snd_zip (by simp [lw])] at this
  · apply product_nodup
    intro l hl
    obtain ⟨kv, hkv, rfl⟩ := List.mem_map.mp hl
    exact hv kv (mem_of_mem_orderLists order _ kv hkv)

/-- several lists, end to end: no combination is omitted — for every choice `f` of one value from each
    list-valued argument, the combination carrying exactly those (key, value) pairs (in loop order)
    is among the results, whatever the loop order -/
theorem combos_complete (order : List Nat) (kwargs : List (Nat × List Nat))
    (a b : Nat × List Nat) (rest : List (Nat × List Nat)) (h : loopLists kwargs = a :: b :: rest)
    (f : Nat → Nat) (hf : ∀ kv ∈ loopLists kwargs, f kv.1 ∈ kv.2) :
    (orderLists order (loopLists kwargs)).map (fun kv => (kv.1, f kv.1)) ∈ combos order kwargs := by
  simp only [combos, h]
  rw [← h]
  refine List.mem_map.mpr ⟨(orderLists order (loopLists kwargs)).map (fun kv => f kv.1), ?_, ?_⟩
  · rw [mem_product, List.forall₂_map_left_iff, List.forall₂_map_right_iff, List.forall₂_same]
    intro kv hkv
    exact hf kv (mem_of_mem_orderLists order _ kv hkv)
  · exact List.zip_map'

/-- premises satisfiable: a 2×1×3 call under two loop orders -/
example : (combos [7, 3] [(3, [10, 11]), (5, [1]), (7, [20, 21, 22])]).length = 6 ∧
    (combos [3] [(3, [10, 11]), (5, [1]), (7, [20, 21, 22])]).length = 6 := by decide

/-! ## labels -/

/-- A label identifies its combination uniquely: for a fixed loop order, if every (key,value) token
    renders injectively and no token contains the delimiter, distinct combinations get distinct
    labels.  (Hypotheses are part of the statement: a string-valued parameter whose value contains
    the delimiter, or two values with the same `str()`, can collide.) -/
theorem label_injective (delim : String) (render : Nat → Nat → String) (keys : List Nat) (v w : List Nat)
    (hlen : v.length = keys.length) (hlen' : w.length = keys.length)
    (hsplit : ∀ (a b : List String), delim.intercalate a = delim.intercalate b →
        (∀ t ∈ a, t ∈ (keys.zip v).map (fun kv => render kv.1 kv.2)) →
        (∀ t ∈ b, t ∈ (keys.zip w).map (fun kv => render kv.1 kv.2)) → a.length = b.length → a = b)
    (hinj : ∀ k x y, render k x = render k y → x = y)
    (h : makeLabel delim render (keys.zip v) = makeLabel delim render (keys.zip w)) : v = w := by
  unfold makeLabel at h
  have hab := hsplit _ _ h (fun t ht => ht) (fun t ht => ht) (by simp [hlen, hlen'])
  -- equal token lists over the same keys ⇒ equal values
  clear h hsplit
  induction keys generalizing v w with
  | nil =>
    cases v <;> cases w <;> simp_all
  | cons k ks ih =>
    cases v with
    | nil => simp at hlen
    | cons x xs =>
      cases w with
      | nil => simp at hlen'
      | cons y ys =>
        simp only [List.zip_cons_cons, List.map_cons, List.cons.injEq] at hab
        have hx := hinj k x y hab.1
        have := ih xs ys (by simpa using hlen) (by simpa using hlen') hab.2
        rw [hx, this]

/-- labels on the grid, end to end: two results of one `get_hmf` call (several list-valued arguments,
    any loop order) that carry the same label are the same combination — under the hypotheses of
    `label_injective` (token renderings injective per key and not confusable across the delimiter) -/
theorem labels_unique_on_grid (order : List Nat) (kwargs : List (Nat × List Nat))
    (a b : Nat × List Nat) (rest : List (Nat × List Nat)) (h : loopLists kwargs = a :: b :: rest)
    (delim : String) (render : Nat → Nat → String)
    (hsplit : ∀ (x y : List String), delim.intercalate x = delim.intercalate y → x.length = y.length →
        (∀ t ∈ x ++ y, ∃ k v, t = render k v) → x = y)
    (hinj : ∀ k x y, render k x = render k y → x = y)
    (c₁ c₂ : List (Nat × Nat)) (h₁ : c₁ ∈ combos order kwargs) (h₂ : c₂ ∈ combos order kwargs)
    (hl : makeLabel delim render c₁ = makeLabel delim render c₂) : c₁ = c₂ := by
  simp only [combos, h] at h₁ h₂
  rw [← h] at h₁ h₂
  obtain ⟨v, hv, rfl⟩ := List.mem_map.mp h₁
  obtain ⟨w, hw, rfl⟩ := List.mem_map.mp h₂
  have lv := ((mem_product _ v).mp hv).length_eq
  have lw := ((mem_product _ w).mp hw).length_eq
  simp only [List.length_map] at lv lw
  have := label_injective delim render ((orderLists order (loopLists kwargs)).map (·.1)) v w
    (by simp [lv]) (by simp [lw])
    (fun x y he hx hy hlen => hsplit x y he hlen (by
      intro t ht
      rcases List.mem_append.mp ht with ht | ht
      · obtain ⟨kv, _, rfl⟩ := List.mem_map.mp (hx t ht); exact ⟨kv.1, kv.2, rfl⟩
      · obtain ⟨kv, _, rfl⟩ := List.mem_map.mp (hy t ht); exact ⟨kv.1, kv.2, rfl⟩))
    hinj hl
  rw [this]

/-! ## loop order -/

/-- `get_best_param_order` returns a permutation of all parameters … -/
theorem best_order_perm (items : List (Nat × Nat)) : (bestOrder items).Perm (items.map (·.1)) := by
  unfold bestOrder
  refine (List.reverse_perm _).trans ?_
  have := foldl_insert_perm items []
  simp only [List.append_nil] at this
  exact this.map _

/-- … ordered by how many quantities depend on them (most dependants first). -/
theorem best_order_sorted (items : List (Nat × Nat)) :
    ((items.foldl insertItem []).reverse).Pairwise (fun a b => a.2 ≥ b.2) := by
  have h := foldl_insert_sorted items [] List.Pairwise.nil
  exact List.pairwise_reverse.mpr h

/-! ## values -/

/-- whatever loop order is chosen, the quantities yielded after the k-th `update(**combo)` are the
    fresh-object quantities at the parameters then in force (C01's theorem for the update/read
    sequence `get_hmf` performs) -/
theorem values_fresh (E : Env) (fuel : Nat) (s : St) (h : CInv E s) (seq : List Op) (i : Nat) (o : Out)
    (ho : (run E fuel s seq).1[i]? = some o) (hne : o ≠ .nofuel) :
    ∃ f', (specRun E f' s.pv seq).1[i]? = some o := run_coherent E fuel seq s h i o ho hne

example : combos [7, 3] [(3, [10, 11]), (5, [1]), (7, [20, 21, 22])] =
    [[(7, 20), (3, 10)], [(7, 20), (3, 11)], [(7, 21), (3, 10)], [(7, 21), (3, 11)], [(7, 22), (3, 10)], [(7, 22), (3, 11)]] := by
  decide
example : bestOrder [(1, 5), (2, 9), (3, 5), (4, 0)] = [2, 1, 3, 4] := by decide

end Hmf.C19
