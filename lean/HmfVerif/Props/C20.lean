import Mathlib.MeasureTheory.Measure.Lebesgue.Basic
import Mathlib.Analysis.SpecialFunctions.Pow.Real
import Mathlib.Tactic
import HmfVerif.Gen.Guards
import HmfVerif.Spec.Guards
/-!
# C20 — sampled halo masses follow the mass function
`sample_mf` draws u ~ U[0,1), maps it through the inverse of the normalised survival function
(a cubic spline: opaque) and optionally sorts.  The list logic and the inverse-transform law are proved;
the statistical clauses are tested with fixed seeds.
-/
namespace Hmf.C20
open MeasureTheory Set

/-- the list program of `sample_mf`: masses 10^icdf(u), ascending sort if requested, then reversed -/
noncomputable def sampleMasses (icdf : ℝ → ℝ) (us : List ℝ) (sort : Bool) : List ℝ :=
  let m := us.map (fun u => (10:ℝ) ^ icdf u)
  (if sort then m.mergeSort (fun a b => decide (a ≤ b)) else m).reverse

/-- C20: the requested number of masses is returned -/
theorem count (icdf : ℝ → ℝ) (us : List ℝ) (sort : Bool) : (sampleMasses icdf us sort).length = us.length := by
  unfold sampleMasses; cases sort <;> simp

/-- C20: the output is a function of the random stream alone (reproducible for a given seed) -/
theorem deterministic_given_stream (icdf : ℝ → ℝ) (us us' : List ℝ) (sort : Bool) (h : us = us') :
    sampleMasses icdf us sort = sampleMasses icdf us' sort := by rw [h]

/-- C20: with sorting requested the masses come out in descending order -/
theorem sorted_desc (icdf : ℝ → ℝ) (us : List ℝ) : (sampleMasses icdf us true).Pairwise (fun a b => a ≥ b) := by
  unfold sampleMasses
  simp only [if_true]
  rw [List.pairwise_reverse]
  have := List.pairwise_mergeSort (le := fun (a b : ℝ) => decide (a ≤ b))
    (by intro a b c hab hbc; simp only [decide_eq_true_eq] at *; exact le_trans hab hbc)
    (by intro a b; simp only [Bool.or_eq_true, decide_eq_true_eq]; exact le_total a b)
    (us.map (fun u => (10:ℝ) ^ icdf u))
  exact this.imp (fun h => by simpa using h)

/-- C20: sorting only reorders — with and without `sort` the same masses are returned, each as often
    (so every distributional clause holds for the sorted output iff it holds for the unsorted one) -/
theorem sort_only_reorders (icdf : ℝ → ℝ) (us : List ℝ) :
    (sampleMasses icdf us true).Perm (sampleMasses icdf us false) := by
  unfold sampleMasses
  simp only [if_true, Bool.false_eq_true, if_false]
  exact (List.reverse_perm _).trans ((List.mergeSort_perm _ _).trans (List.reverse_perm _).symm)

/-- C20: the returned masses are exactly the images of the draws — nothing is dropped, clipped or
    duplicated, whether or not sorting is requested -/
theorem masses_are_the_images_of_the_draws (icdf : ℝ → ℝ) (us : List ℝ) (sort : Bool) :
    (sampleMasses icdf us sort).Perm (us.map (fun u => (10:ℝ) ^ icdf u)) := by
  cases sort
  · unfold sampleMasses; simp only [Bool.false_eq_true, if_false]; exact List.reverse_perm _
  · exact (sort_only_reorders icdf us).trans (by
      unfold sampleMasses; simp only [Bool.false_eq_true, if_false]; exact List.reverse_perm _)

/-- C20: without sorting, the k-th returned mass is the image of the k-th draw from the end
    (`m[::-1]`), so a given stream reproduces the same array position by position -/
theorem unsorted_is_reversed_draw_order (icdf : ℝ → ℝ) (us : List ℝ) :
    sampleMasses icdf us false = (us.reverse).map (fun u => (10:ℝ) ^ icdf u) := by
  unfold sampleMasses; simp [List.map_reverse]

/-- C20: every mass is at or above the minimum when the inverse survival function stays at or above log₁₀ m_min on [0,1] -/
theorem above_minimum (icdf : ℝ → ℝ) (us : List ℝ) (sort : Bool) (lmin : ℝ)
    (hu : ∀ u ∈ us, lmin ≤ icdf u) : ∀ m ∈ sampleMasses icdf us sort, (10:ℝ) ^ lmin ≤ m := by
  intro m hm
  unfold sampleMasses at hm
  have hm' : m ∈ us.map (fun u => (10:ℝ) ^ icdf u) := by
    cases sort
    · simpa using hm
    · simp only [if_true, List.mem_reverse] at hm
      exact (List.mergeSort_perm _ _).mem_iff.mp hm
  obtain ⟨u, hu', rfl⟩ := List.mem_map.mp hm'
  exact Real.rpow_le_rpow_of_exponent_le (by norm_num) (hu u hu')

/-- **Inverse-transform law.** If `G` is strictly antitone on [0,1] and inverts the normalised survival function `S` on
    [a,b], then for uniform `u` the event `G u > m` has probability `S m`: the sampled masses follow n(>m)/n(>m_min). -/
theorem inverse_cdf_law (S G : ℝ → ℝ) (a b : ℝ)
    (hG : StrictAntiOn G (Icc 0 1))
    (hS : ∀ m ∈ Icc a b, S m ∈ Icc (0:ℝ) 1)
    (hGS : ∀ m ∈ Icc a b, G (S m) = m)
    (m : ℝ) (hm : m ∈ Icc a b) :
    volume {u : ℝ | u ∈ Icc (0:ℝ) 1 ∧ m < G u} = ENNReal.ofReal (S m) := by
  have hset : {u : ℝ | u ∈ Icc (0:ℝ) 1 ∧ m < G u} = Ico 0 (S m) := by
    ext u
    simp only [Set.mem_ofPred_eq, mem_Ico, mem_Icc]
    constructor
    · rintro ⟨⟨h0, h1⟩, hlt⟩
      refine ⟨h0, ?_⟩
      by_contra hge
      rw [not_lt] at hge
      have := (hG.antitoneOn) (hS m hm) ⟨h0, h1⟩ hge
      rw [hGS m hm] at this
      exact absurd hlt (not_lt.mpr this)
    · rintro ⟨h0, hlt⟩
      have hSm := hS m hm
      refine ⟨⟨h0, le_trans hlt.le hSm.2⟩, ?_⟩
      have := hG ⟨h0, le_trans hlt.le hSm.2⟩ hSm hlt
      rwa [hGS m hm] at this
  rw [hset, Real.volume_Ico, sub_zero]

/-- histogram normalisation of `dndm_from_sample`: counts / (m_c · V · Δlog₁₀m · ln 10) is counts / (V · Δm) to first
    order, since d m = m ln 10 d log₁₀ m — the exact algebraic identity behind the estimator -/
theorem hist_normalisation_eq (count mc V dx : ℝ) (hm : mc ≠ 0) (hV : V ≠ 0) (hdx : dx ≠ 0) :
    count / (mc * V * dx * Real.log 10) = (count / V) / (mc * Real.log 10 * dx) := by
  have hl : Real.log 10 ≠ 0 := by
    have : (0:ℝ) < Real.log 10 := Real.log_pos (by norm_num)
    exact this.ne'
  field_simp

/-- the sampler's only numeric tests are the documented ones (positive n(>m), empty edge bins) -/
theorem guards_sample : Gen.Guards.sample = Spec.Guards.sample := by decide

end Hmf.C20
