import HmfVerif.Model.Expr
import Mathlib.Analysis.SpecialFunctions.Pow.Real
import Mathlib.Analysis.SpecialFunctions.Trigonometric.Basic
import Mathlib.Analysis.SpecialFunctions.Trigonometric.DerivHyp
import Mathlib.Analysis.SpecialFunctions.Log.Basic
import Mathlib.Analysis.SpecialFunctions.Sqrt
/-!
# The real-number instance of `Sci`: the *same* `evalS` the driver runs at `Float`, at carrier ℝ.
-/
namespace Hmf
open Real

noncomputable instance instSciReal : Sci ℝ where
  ofInt := fun n => (n : ℝ)
  pi := Real.pi
  add := (· + ·)
  sub := (· - ·)
  mul := (· * ·)
  div := (· / ·)
  neg := fun x => -x
  exp := Real.exp
  log := Real.log
  sqrt := Real.sqrt
  sin := Real.sin
  cos := Real.cos
  cosh := Real.cosh
  abs := fun x => |x|
  pow := fun a b => a ^ b
  lt := fun a b => decide (a < b)
  le := fun a b => decide (a ≤ b)
  beq := fun a b => decide (a = b)

/-- evaluation over the reals -/
noncomputable abbrev evalR (opq : String → ℝ → ℝ) (ρ : String → ℝ) (e : E) : ℝ := evalS opq ρ e

@[simp] theorem sci_ofInt (n : Int) : (Sci.ofInt n : ℝ) = (n : ℝ) := rfl
@[simp] theorem sci_pi : (Sci.pi : ℝ) = Real.pi := rfl
@[simp] theorem sci_add (a b : ℝ) : Sci.add a b = a + b := rfl
@[simp] theorem sci_sub (a b : ℝ) : Sci.sub a b = a - b := rfl
@[simp] theorem sci_mul (a b : ℝ) : Sci.mul a b = a * b := rfl
@[simp] theorem sci_div (a b : ℝ) : Sci.div a b = a / b := rfl
@[simp] theorem sci_neg (a : ℝ) : Sci.neg a = -a := rfl
@[simp] theorem sci_exp (a : ℝ) : Sci.exp a = Real.exp a := rfl
@[simp] theorem sci_log (a : ℝ) : Sci.log a = Real.log a := rfl
@[simp] theorem sci_sqrt (a : ℝ) : Sci.sqrt a = Real.sqrt a := rfl
@[simp] theorem sci_sin (a : ℝ) : Sci.sin a = Real.sin a := rfl
@[simp] theorem sci_cos (a : ℝ) : Sci.cos a = Real.cos a := rfl
@[simp] theorem sci_cosh (a : ℝ) : Sci.cosh a = Real.cosh a := rfl
@[simp] theorem sci_abs (a : ℝ) : Sci.abs a = |a| := rfl
@[simp] theorem sci_pow (a b : ℝ) : Sci.pow a b = a ^ b := rfl
@[simp] theorem sci_lt (a b : ℝ) : Sci.lt a b = decide (a < b) := rfl
@[simp] theorem sci_le (a b : ℝ) : Sci.le a b = decide (a ≤ b) := rfl
@[simp] theorem sci_beq (a b : ℝ) : Sci.beq a b = decide (a = b) := rfl

@[simp] theorem sci_npow (x : ℝ) (n : Nat) : Sci.npow x n = x ^ n := by
  induction n with
  | zero => simp [Sci.npow]
  | succ n ih => simp [Sci.npow, ih, pow_succ]

@[simp] theorem sci_zpow (x : ℝ) (n : Int) : Sci.zpow x n = x ^ n := by
  cases n with
  | ofNat n => simp [Sci.zpow]
  | negSucc n => simp [Sci.zpow, zpow_negSucc]

@[simp] theorem sci_ofNatPow10 (n : Nat) : (Sci.ofNatPow10 n : ℝ) = (10 : ℝ) ^ n := by
  simp [Sci.ofNatPow10]

@[simp] theorem sci_dec (m : Int) (e : Int) : (Sci.dec m e : ℝ) = (m : ℝ) * (10 : ℝ) ^ e := by
  cases e with
  | ofNat n => simp [Sci.dec]
  | negSucc n => simp [Sci.dec, zpow_negSucc, div_eq_mul_inv]

end Hmf
