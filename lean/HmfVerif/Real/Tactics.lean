import HmfVerif.Real.Basic
import HmfVerif.Model.ExprDSL
import Mathlib.Tactic
/-! tactic ladder for `evalR Gen.X = evalR Spec.X` obligations -/
namespace Hmf

/-- DSL constructors reduce to constructors of `E` -/
theorem E.add_def (a b : E) : a + b = .bin .add a b := rfl
theorem E.sub_def (a b : E) : a - b = .bin .sub a b := rfl
theorem E.mul_def (a b : E) : a * b = .bin .mul a b := rfl
theorem E.div_def (a b : E) : a / b = .bin .div a b := rfl
theorem E.neg_def (a : E) : -a = .un .neg a := rfl
theorem E.ofNat_def (n : Nat) : (OfNat.ofNat n : E) = .lit n 0 := rfl
theorem E.npow_def (a : E) (n : Nat) : a ^ n = .powi a n := rfl
theorem E.zpow_def (a : E) (n : Int) : a ^ n = .powi a n := rfl
theorem E.ofSci_def (m : Nat) (s : Bool) (e : Nat) :
    (OfScientific.ofScientific m s e : E) = if s then .lit m (-(e : Int)) else .lit m e := rfl

/-- unfold both interpreters down to real arithmetic -/
macro "expr_unfold" : tactic => `(tactic|
  simp only [evalR, evalS, evalCmp, E.add_def, E.sub_def, E.mul_def, E.div_def, E.neg_def, E.ofNat_def, E.npow_def,
    E.zpow_def, E.ofSci_def, E.rpow, E.v, E.exp, E.log, E.log10, E.sqrt, E.sin, E.cos, E.cosh, E.abs, E.emin, E.emax, E.Γ,
    E.cond, sci_dec, sci_mul, sci_div, sci_sqrt, sci_exp, sci_pi, sci_add, sci_sub, sci_pow, sci_neg, sci_zpow, sci_log,
    sci_abs, sci_cosh, sci_sin, sci_cos, sci_lt, sci_le, sci_beq, sci_ofInt, if_true, if_false, Bool.false_eq_true])

macro "expr_close" : tactic => `(tactic|
  first
  | rfl
  | (norm_num; done)
  | (push_cast; ring_nf; done)
  | (push_cast; split_ifs <;> ring_nf; done)
  | (norm_num; ring_nf; done)
  | (push_cast; split_ifs <;> norm_num <;> ring_nf; done)
  | (simp only [decide_eq_true_eq]; push_cast; split_ifs <;> first | rfl | (ring_nf; done) | (norm_num; ring_nf; done) | (simp_all; done)))

/-- closer for `evalR Gen.X = <closed form>` goals after `expr_unfold`: insensitive to operand order, association, the spelling of
    integer powers and of decimal literals (so that semantics-preserving rewrites of the Python source do not break the proof) -/
macro "expr_finish" : tactic => `(tactic|
  first
  | rfl
  | (simp only [zpow_ofNat, zpow_neg, zpow_one]; done)
  | (norm_num; done)
  | (push_cast; simp only [zpow_ofNat, zpow_neg]; ring_nf; done)
  | (norm_num [zpow_ofNat, zpow_neg]; ring_nf; done)
  | (simp [zpow_ofNat]; done)
  | (simp [zpow_ofNat]; ring_nf; done)
  | (push_cast; simp only [zpow_ofNat, zpow_neg]; field_simp; done)
  | (push_cast; simp only [zpow_ofNat, zpow_neg]; field_simp; ring_nf; done)
  | (norm_num [zpow_ofNat, zpow_neg]; ring_nf; simp; done))

end Hmf
