import HmfVerif.Model.ExprDSL
/-!
# Documented closed forms of the fitting functions (hand-written specification, as `E` terms).
Transcribed from the `_eq` strings / docstrings of `fitting_functions.py` and the cited papers.
Inputs: `nu2` (= ν² = δc²/σ²), `delta_c`, `z`, `n_eff`, `delta_halo`; model parameters `p.<name>`.
-/
namespace Hmf.Spec.Fits
open Hmf.E

def ν : E := sqrt (v "nu2")
def σ : E := v "delta_c" / ν
def lnσinv : E := -(log σ)
open Lean in
/-- model parameter `p "A"` ↦ variable `p.A` (name built at elaboration time) -/
macro "p" s:str : term => `(E.v $(Syntax.mkStrLit ("p." ++ s.getString)))
def onePlusZ : E := 1 + v "z"

/-- Press–Schechter: √(2/π) ν exp(−ν²/2) -/
def PS : E := sqrt (2.0 / pi) * ν * exp (-0.5 * v "nu2")

/-- SMT amplitude: the given `A`, or (when `A` is None) the value that normalises the mass fraction to one -/
def SMT_A : E := cond .le (v "isnone:p.A") 0.5 (p "A") (1.0 / (1 + (2 ^ᵣ (-(p "p"))) * Γ (0.5 - p "p") / Γ 0.5))

/-- Sheth–Mo–Tormen with explicit amplitude and `a`: A √(2a/π) ν exp(−aν²/2) (1 + (aν²)^−p) -/
def SMTform (A a : E) : E :=
  A * sqrt (2.0 * a / pi) * ν * exp (-(a * v "nu2") / 2.0) * (1 + (1.0 / (a * v "nu2")) ^ᵣ p "p")
def SMT : E := SMTform SMT_A (p "a")

/-- Jenkins: A exp(−|ln σ⁻¹ + b|^c) -/
def Jenkins : E := p "A" * exp (-((abs (lnσinv + p "b")) ^ᵣ p "c"))

/-- Warren form with explicit coefficients: A[(e/σ)^b + c] exp(−d/σ²) -/
def Warrenform (A b c d e : E) : E := A * ((e / σ) ^ᵣ b + c) * exp (-d / σ ^ 2)
def Warren : E := Warrenform (p "A") (p "b") (p "c") (p "d") (p "e")

/-- Crocce: Warren form with X = X_a (1+z)^−X_b for A, b, c, d -/
def Crocce : E :=
  Warrenform (p "A_a" * onePlusZ ^ᵣ (-(p "A_b"))) (p "b_a" * onePlusZ ^ᵣ (-(p "b_b")))
             (p "c_a" * onePlusZ ^ᵣ (-(p "c_b"))) (p "d_a" * onePlusZ ^ᵣ (-(p "d_b"))) (p "e")

/-- Reed03: f_SMT(σ) exp(−c / (σ cosh⁵(2σ))) -/
def Reed03 : E := SMT * exp (-(p "c") / (σ * (cosh (2.0 * σ)) ^ 5))

/-- Reed07 -/
def Reed07 : E :=
  let G1 := exp (-((lnσinv - 0.4) ^ 2) / (2 * (0.6 : E) ^ 2))
  let G2 := exp (-((lnσinv - 0.75) ^ 2) / (2 * (0.2 : E) ^ 2))
  let a := p "a" / p "c"
  p "A" * sqrt (2.0 * a / pi) * (1.0 + (1.0 / (a * ν ^ 2)) ^ᵣ p "p" + 0.6 * G1 + 0.4 * G2) * ν *
    exp (-(p "c") * a * ν ^ 2 / 2.0 - 0.03 * (ν ^ᵣ 0.6) / (v "n_eff" + 3) ^ 2)

/-- Peacock: ν exp(−cν²)(2cdν + baν^(b−1))/d²,  d = 1 + aν^b -/
def Peacock : E :=
  let d := 1 + p "a" * ν ^ᵣ p "b"
  ν * exp (-(p "c") * v "nu2") * (2 * p "c" * d * ν + p "b" * p "a" * ν ^ᵣ (p "b" - 1)) / d ^ 2

/-- Angulo: A[(d/σ)^b + 1] exp(−c/σ²) -/
def Angulo : E := p "A" * ((p "d" / σ) ^ᵣ p "b" + 1) * exp (-(p "c") / σ ^ 2)

/-- Watson Γ(Δ, σ, z) -/
def WatsonΓ : E :=
  let Δ := cond .le (v "isnone:mass_definition") 0.5 (v "delta_halo") 178.0
  let C := exp (p "C_a" * (Δ / 178 - 1))
  let d := -(p "d_a") * .call "cosmo.Om" (v "z") - p "d_b"
  C * (Δ / 178) ^ᵣ d * exp (p "p" * (1 - Δ / 178) / σ ^ᵣ p "q")
def Watsonform (A α β γ : E) : E := WatsonΓ * A * ((β / σ) ^ᵣ α + 1) * exp (-γ / σ ^ 2)
/-- Watson: three redshift regimes -/
def Watson : E :=
  let omz : E := .call "cosmo.Om" (v "z")
  cond .eq (v "z") 0 (Watsonform (p "A_0") (p "alpha_0") (p "beta_0") (p "gamma_0"))
   (cond .ge (v "z") (p "z_hi") (Watsonform (p "A_hi") (p "alpha_hi") (p "beta_hi") (p "gamma_hi"))
     (Watsonform (omz * (p "A_a" * onePlusZ ^ᵣ (-(p "A_b")) + p "A_c"))
                 (omz * (p "alpha_a" * onePlusZ ^ᵣ (-(p "alpha_b")) + p "alpha_c"))
                 (omz * (p "beta_a" * onePlusZ ^ᵣ (-(p "beta_b")) + p "beta_c"))
                 (p "gamma_z")))

/-- Bhattacharya: f_SMT(σ) (ν√a)^(q−1), A = A_a(1+z)^−A_b, a = a_a(1+z)^−a_b -/
def Bhattacharya : E :=
  let A := p "A_a" * onePlusZ ^ᵣ (-(p "A_b"))
  let a := p "a_a" * onePlusZ ^ᵣ (-(p "a_b"))
  SMTform A a * (sqrt a * ν) ^ᵣ (p "q" - 1)

end Hmf.Spec.Fits

namespace Hmf.Spec.Fits
open Hmf.E

open Lean in
/-- Tinker08 coefficient at the object's overdensity: spline value between the tabulated
    overdensities (opaque local of the constructor), table entry at a tabulated one -/
macro "T08coef" s:str : term =>
  `(cond .gt (v "flag:delta_halo in self.delta_virs") 0.5 (v $(Syntax.mkStrLit ("py:self.params[f'" ++ s.getString ++ "_{int(delta_halo)}']")))
      (v $(Syntax.mkStrLit ("loc:Tinker08." ++ s.getString ++ "_0"))))

/-- Tinker08: A((σ/b)^−a + 1) exp(−c/σ²), A = A₀(1+z)^−A_exp, a = a₀(1+z)^−a_exp, b = b₀(1+z)^−α,
    α = 10^−(0.75/log₁₀(Δ/75))^1.2 -/
def Tinker08 : E :=
  let A := T08coef "A" * onePlusZ ^ᵣ (-(p "A_exp"))
  let a := T08coef "a" * onePlusZ ^ᵣ (-(p "a_exp"))
  let α := (10 : E) ^ᵣ (-((0.75 / log10 (v "delta_halo" / 75.0)) ^ᵣ 1.2))
  let b := T08coef "b" * onePlusZ ^ᵣ (-α)
  A * ((σ / b) ^ᵣ (-a) + 1) * exp (-(T08coef "c") / σ ^ 2)

open Lean in
macro "T10coef" s:str : term =>
  `(cond .gt (v "flag:int(delta_halo) in self.delta_virs") 0.5 (v $(Syntax.mkStrLit ("py:self.params[f'" ++ s.getString ++ "_{int(delta_halo)}']")))
      (v $(Syntax.mkStrLit ("loc:Tinker10." ++ s.getString ++ "_0"))))
def T10z : E := 1 + emin (v "z") (p "max_z")
def T10β : E := T10coef "beta" * T10z ^ᵣ p "beta_exp"
def T10φ : E := T10coef "phi" * T10z ^ᵣ p "phi_exp"
def T10η : E := T10coef "eta" * T10z ^ᵣ p "eta_exp"
def T10γ : E := T10coef "gamma" * T10z ^ᵣ p "gamma_exp"
/-- the normalisation that makes the mass fraction integrate to one -/
def T10normFormula : E :=
  1 / ((2 : E) ^ᵣ (T10η - T10φ - 0.5) * T10β ^ᵣ (-2 * T10φ) * T10γ ^ᵣ (-0.5 - T10η) *
       ((2 : E) ^ᵣ T10φ * T10β ^ᵣ (2 * T10φ) * Γ (T10η + 0.5) + T10γ ^ᵣ T10φ * Γ (0.5 + T10η - T10φ)))
def T10norm : E :=
  cond .gt (v "flag:int(self.delta_halo) in self.delta_virs") 0.5
    (cond .eq (v "z") 0 (v "py:self.params[f'alpha_{int(self.delta_halo)}']") T10normFormula) T10normFormula
/-- Tinker10: (1 + (βν)^−2φ) ν^2η exp(−γν²/2) × normalisation × ν -/
def Tinker10 : E :=
  (1 + (T10β * ν) ^ᵣ (-2 * T10φ)) * ν ^ᵣ (2 * T10η) * exp (-T10γ * ν ^ 2 / 2) * T10norm * ν

end Hmf.Spec.Fits

namespace Hmf.Spec.Fits
/-- which documented form each registered fit evaluates -/
def table : List (String × E) :=
  [("PS", PS), ("SMT", SMT), ("ST", SMT), ("Courtin", SMT), ("Manera", SMT), ("Jenkins", Jenkins), ("Warren", Warren),
   ("Watson_FoF", Warren), ("Pillepich", Warren), ("Ishiyama", Warren), ("Crocce", Crocce), ("Reed03", Reed03),
   ("Reed07", Reed07), ("Peacock", Peacock), ("Angulo", Angulo), ("AnguloBound", Angulo), ("Watson", Watson),
   ("Bhattacharya", Bhattacharya), ("Tinker08", Tinker08), ("Tinker10", Tinker10), ("Behroozi", Tinker10)]
end Hmf.Spec.Fits
