/-! # Thresholds, validity ranges and grid limits of the numerical modules, as documented by the pinned tree

Reference side of the `guards_*` theorems (C03, C04, C07, C08, C09, C10, C14, C16, C17, C18, C20): every comparison of a quantity with a numeric
literal — the small-argument guards of the windows (`kr > 1.4e-06`, `kr > 0.001`), HALOFIT's low-k cut (`k > 0.005`), the σ₈ integration
range test, the validators' accepted ranges, the validity masks of the fits, the 10^16.5 limit of the automatic high-mass tail, … A changed
constant or operator, a dropped guard or a *new* special case in these modules makes the regenerated table differ from this one. -/
namespace Hmf.Spec.Guards

def integrate : List (String × String) := [

]
def fits : List (String × String) := [
  ("Angulo.cutmask", "self.m < 1e+16"),
  ("Angulo.cutmask", "self.m > 100000000.0"),
  ("Courtin.cutmask", "self.lnsigma < 0.7"),
  ("Courtin.cutmask", "self.lnsigma > -0.8"),
  ("Crocce.cutmask", "self.m < 3162277660168379.5"),
  ("Crocce.cutmask", "self.m > 31622776601.683792"),
  ("Ishiyama.cutmask", "self.m < 1e+16"),
  ("Ishiyama.cutmask", "self.m > 100000000.0"),
  ("Jenkins.cutmask", "self.lnsigma < 1.05"),
  ("Jenkins.cutmask", "self.lnsigma > -1.2"),
  ("Peacock.cutmask", "self.m < 10000000000.0"),
  ("Peacock.cutmask", "self.m > 1000000000000000.0"),
  ("Reed03.cutmask", "self.lnsigma < 0.9"),
  ("Reed03.cutmask", "self.lnsigma > -1.7"),
  ("Reed07.cutmask", "self.lnsigma < 1.2"),
  ("Reed07.cutmask", "self.lnsigma > -0.5"),
  ("Tinker08.cutmask", "self.lnsigma / np.log(10) < 0.4"),
  ("Tinker08.cutmask", "self.lnsigma / np.log(10) > -0.2"),
  ("Tinker08.cutmask", "self.lnsigma / np.log(10) > -0.6"),
  ("Tinker08.cutmask", "self.z == 0.0"),
  ("Tinker10.__init__", "self.beta <= 0.0"),
  ("Tinker10.__init__", "self.eta - self.phi <= -0.5"),
  ("Tinker10.__init__", "self.eta <= -0.5"),
  ("Tinker10.__init__", "self.gamma <= 0.0"),
  ("Tinker10.cutmask", "self.lnsigma / np.log(10) < 0.4"),
  ("Tinker10.cutmask", "self.lnsigma / np.log(10) > -0.2"),
  ("Tinker10.cutmask", "self.lnsigma / np.log(10) > -0.6"),
  ("Tinker10.cutmask", "self.z == 0.0"),
  ("Tinker10.normalise", "self.z == 0.0"),
  ("Warren.cutmask", "self.m < 1000000000000000.0"),
  ("Warren.cutmask", "self.m > 10000000000.0"),
  ("Watson.cutmask", "self.lnsigma < 1.05"),
  ("Watson.cutmask", "self.lnsigma > -0.55"),
  ("Watson.fsigma", "self.z == 0.0"),
  ("Watson_FoF.cutmask", "self.lnsigma < 1.31"),
  ("Watson_FoF.cutmask", "self.lnsigma > -0.55")
]
def massFunction : List (String × String) := [
  ("MassFunction._gtm", "dndm > 0.0"),
  ("MassFunction._gtm", "dndm[-1] != 0.0"),
  ("MassFunction._gtm", "m[-1] < 3.162277660168379e+16"),
  ("MassFunction.delta_c", "val <= 0.0"),
  ("MassFunction.delta_c", "val > 10.0"),
  ("MassFunction.mass_nonlinear", "self.nu.max() < 1.0"),
  ("MassFunction.mass_nonlinear", "self.nu.min() > 1.0")
]
def sample : List (String × String) := [
  ("_prepare_mf", "h.ngtm > 0.0"),
  ("dndm_from_sample", "hist != 0.0"),
  ("dndm_from_sample", "hist[-1] == 0.0"),
  ("dndm_from_sample", "hist[0] == 0.0")
]
def transferModels : List (String × String) := [
  ("CAMB.__init__", "self.cosmo.Tcmb0.value == 0.0"),
  ("FromFile._check_low_k", "abs((lnT[i + 1] - lnT[i]) / (lnk[i + 1] - lnk[i])) < 0.0001")
]
def filters : List (String × String) := [
  ("SharpK.dw_dlnkr", "kr == 1.0"),
  ("SharpK.k_space", "kr == 1.0"),
  ("SharpK.k_space", "kr > 1.0"),
  ("TopHat.dw_dlnkr", "kr > 0.001"),
  ("TopHat.k_space", "kr > 1.4e-06")
]
def halofit : List (String × String) := [
  ("halofit", "k > 0.005"),
  ("halofit", "np.abs(1 - omegamz) > 0.01")
]
def transfer : List (String × String) := [
  ("Transfer._unn_sig8", "self.lnk_max < 9.0"),
  ("Transfer._unn_sig8", "self.lnk_min > -15.0"),
  ("Transfer.n", "val < -3.0"),
  ("Transfer.n", "val > 4.0"),
  ("Transfer.sigma_8", "val < 0.1"),
  ("Transfer.sigma_8", "val > 10.0"),
  ("Transfer.z", "val < 0.0")
]
def wdm : List (String × String) := [
  ("TransferWDM.wdm_mass", "val <= 0.0")
]
def mdef : List (String × String) := [

]
def growth : List (String × String) := [
  ("CambGrowth.__init__", "self.cosmo.Tcmb0.value == 0.0"),
  ("GenMFGrowth.growth_factor", "np.abs(s - 1.0) > 1e-10"),
  ("GenMFGrowth.growth_factor", "s != 1.0"),
  ("GenMFGrowth.growth_factor", "s > 1.0"),
  ("GenMFGrowth.growth_factor", "self.cosmo.Ode0 > 0.0"),
  ("GenMFGrowth.growth_factor", "self.cosmo.Om0 < 0.0"),
  ("GenMFGrowth.growth_factor", "self.cosmo.Om0 == 1.0")
]
def cosmo : List (String × String) := [

]

end Hmf.Spec.Guards
