/-! # Thresholds, validity ranges and grid limits of the numerical modules, as documented by the pinned tree

Reference side of the `guards_*` theorems (C03, C04, C07, C08, C09, C10, C14, C16, C17, C18, C20): every comparison of a quantity with a numeric
literal — the small-argument guards of the windows (`kr > 1.4e-06`, `kr > 0.001`), HALOFIT's low-k cut (`k > 0.005`), the σ₈ integration
range test, the validators' accepted ranges, the validity masks of the fits, the 10^16.5 limit of the automatic high-mass tail, … A changed
constant or operator, a dropped guard or a *new* special case in these modules makes the regenerated table differ from this one. -/
namespace Hmf.Spec.Guards

def integrate : List (String × String) := [

]
/-- range checks made when a fitting function is constructed: Tinker10's normalisation needs γ > 0, η > −1/2, η − φ > −1/2, β > 0,
    tested on the redshift-evolved coefficients the fit actually uses (`self.gamma`, …), Tinker et al. 2010 eq. 8–12 -/
def fitParameterRanges : List (String × String) := [
  ("Tinker10", "self.beta > 0.0"),
  ("Tinker10", "self.eta - self.phi > -0.5"),
  ("Tinker10", "self.eta > -0.5"),
  ("Tinker10", "self.gamma > 0.0")
]
def fits : List (String × String) := [
  ("Angulo", "self.m < 1e+16"),
  ("Angulo", "self.m > 100000000.0"),
  ("Courtin", "self.lnsigma < 0.7"),
  ("Courtin", "self.lnsigma > -0.8"),
  ("Crocce", "self.m < 3162277660168379.5"),
  ("Crocce", "self.m > 31622776601.683792"),
  ("Ishiyama", "self.m < 1e+16"),
  ("Ishiyama", "self.m > 100000000.0"),
  ("Jenkins", "self.lnsigma < 1.05"),
  ("Jenkins", "self.lnsigma > -1.2"),
  ("Peacock", "self.m < 10000000000.0"),
  ("Peacock", "self.m > 1000000000000000.0"),
  ("Reed03", "self.lnsigma < 0.9"),
  ("Reed03", "self.lnsigma > -1.7"),
  ("Reed07", "self.lnsigma < 1.2"),
  ("Reed07", "self.lnsigma > -0.5"),
  ("Tinker08", "self.lnsigma / np.log(10) < 0.4"),
  ("Tinker08", "self.lnsigma / np.log(10) > -0.2"),
  ("Tinker08", "self.lnsigma / np.log(10) > -0.6"),
  ("Tinker08", "self.z == 0.0"),
  ("Tinker10", "self.beta > 0.0"),
  ("Tinker10", "self.eta - self.phi > -0.5"),
  ("Tinker10", "self.eta > -0.5"),
  ("Tinker10", "self.gamma > 0.0"),
  ("Tinker10", "self.lnsigma / np.log(10) < 0.4"),
  ("Tinker10", "self.lnsigma / np.log(10) > -0.2"),
  ("Tinker10", "self.lnsigma / np.log(10) > -0.6"),
  ("Tinker10", "self.z == 0.0"),
  ("Warren", "self.m < 1000000000000000.0"),
  ("Warren", "self.m > 10000000000.0"),
  ("Watson", "self.lnsigma < 1.05"),
  ("Watson", "self.lnsigma > -0.55"),
  ("Watson", "self.z == 0.0"),
  ("Watson_FoF", "self.lnsigma < 1.31"),
  ("Watson_FoF", "self.lnsigma > -0.55")
]
def massFunction : List (String × String) := [
  ("MassFunction", "_1 > 0.0"),
  ("MassFunction", "_1 > 10.0"),
  ("MassFunction", "_1[-1] < 3.162277660168379e+16"),
  ("MassFunction", "_1[-1] == 0.0"),
  ("MassFunction", "self.nu.max() < 1.0"),
  ("MassFunction", "self.nu.min() > 1.0")
]
def sample : List (String × String) := [
  ("", "_1 == 0.0"),
  ("", "_1.ngtm > 0.0"),
  ("", "_1[-1] == 0.0"),
  ("", "_1[0] == 0.0")
]
def transferModels : List (String × String) := [
  ("CAMB", "self.cosmo.Tcmb0.value == 0.0"),
  ("FromFile", "abs((_1[_2 + 1] - _1[_2]) / (_3[_2 + 1] - _3[_2])) < 0.0001")
]
def filters : List (String × String) := [
  ("SharpK", "_1 == 1.0"),
  ("SharpK", "_1 > 1.0"),
  ("TopHat", "_1 > 0.001"),
  ("TopHat", "_1 > 1.4e-06")
]
def halofit : List (String × String) := [
  ("", "_1 > 0.005"),
  ("", "np.abs(1 - _1) > 0.01")
]
def transfer : List (String × String) := [
  ("Transfer", "_1 < -3.0"),
  ("Transfer", "_1 < 0.0"),
  ("Transfer", "_1 < 0.1"),
  ("Transfer", "_1 > 10.0"),
  ("Transfer", "_1 > 4.0"),
  ("Transfer", "self.lnk_max < 9.0"),
  ("Transfer", "self.lnk_min > -15.0")
]
def wdm : List (String × String) := [
  ("TransferWDM", "_1 > 0.0")
]
def mdef : List (String × String) := [

]
def growth : List (String × String) := [
  ("CambGrowth", "self.cosmo.Tcmb0.value == 0.0"),
  ("GenMFGrowth", "1 - self.cosmo.Ok0 == 1.0"),
  ("GenMFGrowth", "1 - self.cosmo.Ok0 > 1.0"),
  ("GenMFGrowth", "np.abs(1 - self.cosmo.Ok0 - 1.0) > 1e-10"),
  ("GenMFGrowth", "self.cosmo.Ode0 > 0.0"),
  ("GenMFGrowth", "self.cosmo.Om0 < 0.0"),
  ("GenMFGrowth", "self.cosmo.Om0 == 1.0")
]
def cosmo : List (String × String) := [

]

end Hmf.Spec.Guards
