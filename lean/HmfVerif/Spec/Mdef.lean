import HmfVerif.Model.ExprDSL
/-! Documented mass-definition algebra as `E` terms. `ρcrit(z)`, `Ωm(z)` are opaque cosmology functions. -/
namespace Hmf.Spec.Mdef
open Hmf.E
open Lean in
macro "p" s:str : term => `(E.v $(Syntax.mkStrLit ("p." ++ s.getString)))

/-- critical density at z in h² M⊙/Mpc³ -/
def ρcrit : E := (.call "cosmo.critical_density" (v "z")) / v "cosmo.h" ^ 2 * v "unitconv:u.Msun / u.Mpc ** 3"
def Ωm : E := .call "cosmo.Om" (v "z")
/-- mean matter density at z -/
def ρmean : E := Ωm * ρcrit

def SOMean_density : E := p "overdensity" * ρmean
def SOCritical_density : E := p "overdensity" * ρcrit
/-- Bryan & Norman (1998): Δ_c = 18π² + 82x − 39x², x = Ωm(z) − 1, relative to critical -/
def BryanNorman : E := 18 * pi ^ 2 + 82 * (Ωm - 1) - 39 * (Ωm - 1) ^ 2
def SOVirial_density : E := BryanNorman * ρmean / Ωm
/-- FoF: 9/(2π b³) × mean -/
def FOF_density : E := 9 / (2 * pi * p "linking_length" ^ 3) * ρmean

def m_to_r (ρh : E) : E := (3 * v "m" / (4 * pi * ρh)) ^ᵣ (1.0 / 3.0)
def r_to_m (ρh : E) : E := 4 * pi * v "r" ^ 3 * ρh / 3

def table : List (String × E) :=
  [("SOMean_halo_density", SOMean_density), ("SOCritical_halo_density", SOCritical_density), ("SOVirial_halo_density", SOVirial_density),
   ("FOF_halo_density", FOF_density),
   ("SOMean_halo_overdensity_mean", SOMean_density / ρmean), ("SOMean_halo_overdensity_crit", SOMean_density / ρcrit),
   ("SOCritical_halo_overdensity_mean", SOCritical_density / ρmean), ("SOCritical_halo_overdensity_crit", SOCritical_density / ρcrit),
   ("SOVirial_halo_overdensity_mean", SOVirial_density / ρmean), ("SOVirial_halo_overdensity_crit", SOVirial_density / ρcrit),
   ("FOF_halo_overdensity_mean", FOF_density / ρmean), ("FOF_halo_overdensity_crit", FOF_density / ρcrit),
   ("SOMean_m_to_r", m_to_r SOMean_density), ("SOMean_r_to_m", r_to_m SOMean_density),
   ("SOCritical_m_to_r", m_to_r SOCritical_density), ("SOCritical_r_to_m", r_to_m SOCritical_density),
   ("SOVirial_m_to_r", m_to_r SOVirial_density), ("SOVirial_r_to_m", r_to_m SOVirial_density),
   ("FOF_m_to_r", m_to_r FOF_density), ("FOF_r_to_m", r_to_m FOF_density)]
end Hmf.Spec.Mdef
