/-! # State that outlives an instance, as the pinned tree has it

The only stores made by package code into module-level names or class-level attributes are those of the plugin registry: the `pluggable`
decorator gives every component base class its `_plugins` dictionary and an `__init_subclass__` that records each concrete model class in it
(definition time, not instance time). No framework or component method keeps a module- or class-level memo. -/
namespace Hmf.Spec

def sharedStateWrites : List (String × String) := [
  ("_internals/_framework.py:pluggable", "store into class-level cls.__init_subclass__"),
  ("_internals/_framework.py:pluggable", "store into class-level cls._plugins")
]

end Hmf.Spec
