import HmfVerif.Model.ExprDSL
/-! Documented forms of the analytic no-wiggle transfer functions (ln T as a function of ln k). -/
namespace Hmf.Spec.Transfer
open Hmf.E
open Lean in
macro "p" s:str : term => `(E.v $(Syntax.mkStrLit ("p." ++ s.getString)))

/-- BBKS shape parameter with the Sugiyama baryon correction: q = k / (Ωm h) · exp(Ωb + √(2h) Ωb/Ωm) -/
def bbksQ : E :=
  exp (v "lnk") / (v "cosmo.Om0" * v "cosmo.h") * exp (v "cosmo.Ob0" + sqrt (2 * v "cosmo.h") * v "cosmo.Ob0" / v "cosmo.Om0")
/-- BBKS: T = ln(1+aq)/(aq) · (1 + bq + (cq)² + (dq)³ + (eq)⁴)^(−1/4) -/
def bbksT : E :=
  log (1.0 + p "a" * bbksQ) / (p "a" * bbksQ) *
    (1 + p "b" * bbksQ + (p "c" * bbksQ) ^ 2 + (p "d" * bbksQ) ^ 3 + (p "e" * bbksQ) ^ 4) ^ᵣ (-0.25)
def BBKS_lnt : E := log bbksT

def beScale : E := (0.3 * (0.75 : E) ^ 2) / (v "cosmo.Om0" * v "cosmo.h" ^ 2)
/-- Bond & Efstathiou: T = (1 + (ak + (bk)^1.5 + (ck)²)^ν)^(−1/ν) with a,b,c scaled by 0.3·0.75²/(Ωm h²) -/
def beT : E :=
  let k := exp (v "lnk")
  (1 + (p "a" * beScale * k + (p "b" * beScale * k) ^ᵣ 1.5 + (p "c" * beScale * k) ^ 2) ^ᵣ p "nu") ^ᵣ (-1 / p "nu")
def BondEfs_lnt : E := log beT

def table : List (String × E) := [("BBKS_lnt", BBKS_lnt), ("BondEfs_lnt", BondEfs_lnt)]
end Hmf.Spec.Transfer
