import HmfVerif.Model.ExprDSL
/-! Documented forms of the WDM component (Schneider+2012/13, Bode+2001/Viel+2005) as `E` terms. -/
namespace Hmf.Spec.Wdm
open Hmf.E
open Lean in
macro "p" s:str : term => `(E.v $(Syntax.mkStrLit ("p." ++ s.getString)))

/-- effective free-streaming scale: 0.049 m_x^−1.11 (Ω_c/0.25)^0.11 (h/0.7)^1.22 (1.5/g_x)^0.29 -/
def lamFs : E := 0.049 * v "mx" ^ᵣ (-1.11) * (v "Oc0" / 0.25) ^ᵣ 0.11 * (v "cosmo.h" / 0.7) ^ᵣ 1.22 * (1.5 / p "g_x") ^ᵣ 0.29
/-- suppression of the transfer function: (1 + (λ k)^2μ)^(−5/μ) -/
def transfer : E := (1 + (lamFs * v "k") ^ᵣ (2 * p "mu")) ^ᵣ (-5.0 / p "mu")
def mFs : E := (4.0 / 3.0) * pi * v "rho_mean" * (lamFs / 2) ^ 3
/-- half-mode scale: 2π λ (2^(μ/5) − 1)^(−1/(2μ)) -/
def lamHm : E := 2 * pi * lamFs * ((2 : E) ^ᵣ (p "mu" / 5) - 1) ^ᵣ (-0.5 / p "mu")
def mHm : E := (4.0 / 3.0) * pi * v "rho_mean" * (lamHm / 2) ^ 3

/-- recalibrations: dn/dm × (1 + M_hm/m)^−β  etc. -/
def schneider12vCDM : E := v "dndm0" * (1 + v "wdm.m_hm" / v "m") ^ᵣ (-(p "beta"))
def schneider12 : E := v "dndm0" * (1 + v "wdm.m_hm" / v "m") ^ᵣ (-(p "alpha"))
def lovell14 : E := v "dndm0" * (1 + p "gamma" * v "wdm.m_hm" / v "m") ^ᵣ (-(p "beta"))

def table : List (String × E) :=
  [("Viel05_transfer", transfer), ("Viel05_lam_eff_fs", lamFs), ("Viel05_m_fs", mFs), ("Viel05_lam_hm", lamHm), ("Viel05_m_hm", mHm),
   ("Bode01_transfer", transfer), ("Bode01_lam_eff_fs", lamFs), ("Bode01_m_fs", mFs), ("Bode01_lam_hm", lamHm), ("Bode01_m_hm", mHm),
   ("Schneider12_vCDM_dndm_alter", schneider12vCDM), ("Schneider12_dndm_alter", schneider12), ("Lovell14_dndm_alter", lovell14)]
end Hmf.Spec.Wdm
