/-!
# Documented wiring of the framework classes to their pluggable components

Hand-written from the property texts (C02: "f equals the stand-alone fitting-function component evaluated on those inputs"
— masses, ν = (δc/σ)², z, the mass definition, the object's cosmology *with `cosmo_params` applied*, δc, n_eff; C04: the filter
is built on the wavenumber grid and the (un-normalised / normalised) power; C03/C09/C10: transfer and growth components are
built from the object's cosmology; C17: the WDM component gets the particle mass, the cosmology and z; the recalibration gets
the CDM dn/dm, the masses and the WDM component; C16: the mass definition gets exactly `mdef_params`).
Keys: `callee`, positional `#i`, keyword names, `**` for the user's model-parameter dictionary.
-/
namespace Hmf.Spec.Wiring

def hmf : List (String × String) :=
  [("callee", "hmf_model"), ("**", "self.hmf_params"), ("cosmo", "self.cosmo"), ("delta_c", "self.delta_c"), ("m", "self.m"),
   ("mass_definition", "self.mdef"), ("n_eff", "self.n_eff"), ("nu2", "self.nu"), ("z", "self.z")]
def filter : List (String × String) :=
  [("callee", "filter_model"), ("#0", "self.k"), ("#1", "self._unnormalised_power"), ("**", "self.filter_params")]
def normalisedFilter : List (String × String) :=
  [("callee", "filter_model"), ("#0", "self.k"), ("#1", "self.power"), ("**", "self.filter_params")]
def mdef : List (String × String) := [("callee", "mdef_model"), ("**", "self.mdef_params")]
def alter : List (String × String) :=
  [("callee", "alter_model"), ("**", "self.alter_params"), ("dndm0", "super().dndm"), ("m", "self.m"), ("wdm", "self.wdm")]
def growth : List (String × String) := [("callee", "growth_model"), ("#0", "self.cosmo"), ("**", "self.growth_params")]
def transfer : List (String × String) := [("callee", "transfer_model"), ("#0", "self.cosmo"), ("**", "self.transfer_params")]
def wdm : List (String × String) :=
  [("callee", "wdm_model"), ("**", "self.wdm_params"), ("cosmo", "self.cosmo"), ("mx", "self.wdm_mass"), ("z", "self.z")]
def cosmo : List (String × String) := [("callee", "cosmo_model.clone"), ("**", "self.cosmo_params")]
/-- C18: the non-linear spectrum is HALOFIT applied to the object's own wavenumbers, linear Δ², redshift, cosmology and switch
    (arguments bound to `halofit`'s parameter names, so positional and keyword calls read the same) -/
def halofit : List (String × String) :=
  [("callee", "halofit"), ("cosmo", "self.cosmo"), ("delta_k", "self.delta_k"), ("k", "self.k"), ("sigma_8", "self.sigma_8"),
   ("takahashi", "self.takahashi"), ("z", "self.z")]

/-- C08: the cumulative integrals are the stand-alone integrator applied to the positive part of the (possibly extended) table, and the
    automatic high-mass extension continues the grid one step above its last mass, up to 10^18 -/
def gtmIntegrator : List (String × String) :=
  [("callee", "hmf_integral_gtm"), ("M", "m[dndm > 0]"), ("dndm", "dndm[dndm > 0]"), ("mass_density", "mass_density")]
def gtmExtension : List (String × String) :=
  [("callee", "<derived object>.update"), ("Mmax", "18"), ("Mmin", "np.log10(self.m[-1]) + self.dlog10m")]

/-- the complete list of places where the framework classes construct a component, derive a framework object or call a package-internal
    numerical routine: a new construction site (e.g. a throw-away second filter built without the user's parameters) is a change of wiring -/
def sites : List String :=
  ["Cosmology.cosmo", "MassFunction.<helper>/<derived object>.update", "MassFunction.<helper>/hmf_integral_gtm", "MassFunction.filter", "MassFunction.hmf",
   "MassFunction.mdef", "MassFunction.normalised_filter", "MassFunctionWDM.dndm", "Transfer._unn_sig8/filters.TopHat", "Transfer._unn_sig8/filters.TopHat#2",
   "Transfer.growth", "Transfer.nonlinear_delta_k", "Transfer.transfer", "TransferWDM.wdm", "WDM.__init__.Oc0", "WDM.__init__.cosmo", "WDM.__init__.mx",
   "WDM.__init__.rho_mean"]

/-- C17: the WDM component's derived inputs: the *present-day* cold-dark-matter density parameter Ω_m0 − Ω_b0 (Schneider+2013 eq. 6 uses
    today's value at every redshift), and the mean density at the component's redshift in M_sun h² / Mpc³ -/
def wdmOc0 : List (String × String) := [("callee", "="), ("value", "cosmo.Om0 - cosmo.Ob0")]
def wdmRhoMean : List (String × String) :=
  [("callee", "="), ("value", "(1 + z) ** 3 * (self.cosmo.Om0 * self.cosmo.critical_density0 / self.cosmo.h ** 2).to(u.solMass / u.Mpc ** 3).value")]

/-- C03: σ₈ is always defined with a real-space top-hat: on the fixed internal wavenumber range ln k ∈ [−8, 8) at the object's own
    resolution, with kⁿT² of the object's own transfer model, whenever the requested range is narrower than [−15, 9]; otherwise on the
    object's own grid and un-normalised power -/
def sig8Narrow : List (String × String) :=
  [("callee", "filters.TopHat"), ("#0", "np.exp(np.arange(-8, 8, self.dlnk))"),
   ("#1", "np.exp(np.arange(-8, 8, self.dlnk)) ** self.n * np.exp(self.transfer.lnt(np.arange(-8, 8, self.dlnk))) ** 2")]
def sig8Wide : List (String × String) := [("callee", "filters.TopHat"), ("#0", "self.k"), ("#1", "self._unnormalised_power")]

end Hmf.Spec.Wiring
