import HmfVerif.Model.CacheIO
import HmfVerif.Model.RegistryIO
import HmfVerif.Model.HeapIO
import HmfVerif.Model.FunctionalIO
import HmfVerif.Model.ExprIO
import HmfVerif.Gen.ExprFits
import HmfVerif.Spec.Fits
import HmfVerif.Gen.ExprWdm
import HmfVerif.Gen.ExprWdmAlter
import HmfVerif.Gen.ExprFlow
import HmfVerif.Gen.ExprMdef
import HmfVerif.Gen.ExprTransfer
import HmfVerif.Gen.ExprFilters
import HmfVerif.Gen.ExprGrowth
import HmfVerif.Spec.Wdm
import HmfVerif.Spec.Mdef
import HmfVerif.Spec.Transfer
import HmfVerif.Gen.ExprHalofit
import HmfVerif.Model.QuadIO
import HmfVerif.Model.TableIO
/-! Driver: one request per line on stdin, one canonical answer per line on stdout. -/

def exprTables : List (String × List (String × Hmf.E)) :=
  [("Fits", Hmf.Gen.Fits.table), ("SpecFits", Hmf.Spec.Fits.table),
   ("Wdm", Hmf.Gen.Wdm.table), ("WdmAlter", Hmf.Gen.WdmAlter.table), ("Flow", Hmf.Gen.Flow.table), ("Mdef", Hmf.Gen.Mdef.table),
   ("Transfer", Hmf.Gen.Transfer.table), ("Filters", Hmf.Gen.Filters.table), ("Growth", Hmf.Gen.Growth.table),
   ("SpecWdm", Hmf.Spec.Wdm.table), ("SpecMdef", Hmf.Spec.Mdef.table),
   ("SpecTransfer", Hmf.Spec.Transfer.table), ("Halofit", Hmf.Gen.Halofit.table)]

def lookupTerm (name : String) : Option Hmf.E :=
  match name.splitOn "/" with
  | [t, n] => (exprTables.find? (·.1 == t)).bind fun tb => (tb.2.find? (·.1 == n)).map (·.2)
  | _ => none

def dispatch (line : String) : String :=
  let line := line.trimAscii.toString
  if line.startsWith "ENV " then Hmf.IO.handle line
  else if line.startsWith "REG " || line.startsWith "PARAMS " then Hmf.Reg.IO.handle line
  else if line.startsWith "HEAP " then Hmf.Heap.IO.handle line
  else if line.startsWith "COMBOS " || line.startsWith "ORDER " then Hmf.Fn.IO.handle line
  else if line.startsWith "EVALV " then Hmf.ExprIO.handle lookupTerm line
  else if line.startsWith "QUAD " then Hmf.Quad.IO.handle lookupTerm line
  else if line.startsWith "TABLE " then Hmf.Table.IO.handle line
  else "bad-request"

partial def loop (h : IO.FS.Stream) (out : IO.FS.Stream) : IO Unit := do
  let line ← h.getLine
  if line.isEmpty then return ()
  out.putStrLn (dispatch line)
  loop h out

def main : IO Unit := do
  let out ← IO.getStdout
  loop (← IO.getStdin) out
  out.flush
