#!/bin/bash
# MANIFEST.setup_cmd: regenerate Gen/ from /repo/src, build every Lean module (theorems), warm caches.
set -e
cd "$(dirname "$0")"
mkdir -p .work evidence replays
if [ -f tools/gen_all.py ]; then /venv/bin/python -B tools/gen_all.py; fi
cd lean
lake build 2>&1 | tail -5
echo 'ENV 1 id 0 0 c 0 RES 0 INIT a 0 OPS 0' | lake env lean --run Main.lean > /dev/null
echo setup-done
