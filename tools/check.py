"""check driver: translators -> lake build (theorems) -> axiom audit -> correspondence + oracles on the
real code -> failing-input search -> evidence.   Exit 0 / 1 (VIOLATION) / 2 (infrastructure)."""
import sys, os, re, json, time, subprocess, argparse, fcntl, importlib, traceback, hashlib

VERIF = os.path.dirname(os.path.dirname(os.path.abspath(__file__)))
sys.path.insert(0, os.path.join(VERIF, "tools"))
sys.path.insert(0, os.path.join(VERIF, "tools", "harness"))
LEAN = os.path.join(VERIF, "lean")
WORK = os.path.join(VERIF, ".work")
ALLOWED_AXIOMS = {"propext", "Classical.choice", "Quot.sound"}
FORBIDDEN = re.compile(r"\bsorry\b|\badmit\b|^\s*axiom\s|native_decide|bv_decide|implemented_by|\bunsafe\s|maxHeartbeats\s+0")

TRUSTED_BASE = [
    "Lean 4.33 kernel; Mathlib v4.33 as a library of proved lemmas",
    "axioms allowed: propext, Classical.choice, Quot.sound (audited by #print axioms on every property theorem each run)",
    "translators tools/pyexpr.py, tools/pyflow.py (Python ast -> Lean terms), validated by the correspondence runs",
    "hand-written executable models under lean/HmfVerif/Model, validated by differential runs against /repo/src",
    "compat shim tools/compat/hmf_compat.py (legacy scipy simps/cumtrapz, numpy.issubclass_, collections.Iterable)",
    "real arithmetic vs IEEE binary64: theorems are about exact reals; rounding is only sampled",
]


def sh(cmd, cwd=None, timeout=3600, env=None):
    p = subprocess.run(cmd, cwd=cwd, capture_output=True, text=True, timeout=timeout, env=env)
    return p.returncode, p.stdout + p.stderr


def strip_comments(src):
    # remove /- ... -/ (nested not handled beyond one level) and -- line comments
    out, depth, i = [], 0, 0
    while i < len(src):
        if src.startswith("/-", i):
            depth += 1; i += 2; continue
        if src.startswith("-/", i) and depth > 0:
            depth -= 1; i += 2; continue
        if depth == 0:
            out.append(src[i])
        elif src[i] == "\n":
            out.append("\n")
        i += 1
    return "\n".join(l.split("--")[0] for l in "".join(out).split("\n"))


def lean_deps(module, seen=None):
    """transitive HmfVerif.* imports of a module (file paths)"""
    seen = seen if seen is not None else {}
    path = os.path.join(LEAN, module.replace(".", "/") + ".lean")
    if module in seen or not os.path.exists(path):
        return seen
    seen[module] = path
    for m in re.findall(r"^import\s+(HmfVerif[\w.]*)", open(path).read(), re.M):
        lean_deps(m, seen)
    return seen


def decls(path):
    """(kind, name, line) of theorems / examples / instance facts in a Props file"""
    out = []
    src = strip_comments(open(path).read()).split("\n")
    ex = 0
    for i, l in enumerate(src, 1):
        m = re.match(r"\s*(?:@\[[^\]]*\]\s*)?(?:private\s+|protected\s+)?(theorem|lemma)\s+([\w.']+)", l)
        if m:
            out.append(("theorem", m.group(2), i))
        elif re.match(r"\s*example\b", l):
            ex += 1
            out.append(("example", f"example#{ex}", i))
    return out


def generate(pid, log):
    """run the translators (if present); rewrite Gen files only when content changes"""
    t0 = time.time()
    gen = os.path.join(VERIF, "tools", "gen_all.py")
    if os.path.exists(gen):
        rc, out = sh(["/venv/bin/python", "-B", gen], cwd=VERIF, timeout=600)
        log["gen"] = {"rc": rc, "wall_s": round(time.time() - t0, 2), "tail": out[-1500:]}
        return rc == 0
    log["gen"] = {"rc": 0, "skipped": True}
    return True


def build(pid, log):
    mod = f"HmfVerif.Props.{pid}"
    t0 = time.time()
    rc, out = sh(["lake", "build", mod], cwd=LEAN, timeout=3000)
    errs = []
    for m in re.finditer(r"error: (HmfVerif/[\w/]+\.lean):(\d+):(\d+): (.*)", out):
        errs.append({"file": m.group(1), "line": int(m.group(2)), "msg": m.group(4)[:300]})
    log["build"] = {"rc": rc, "wall_s": round(time.time() - t0, 2), "errors": errs[:50]}
    if rc != 0 and not errs:
        log["build"]["tail"] = out[-3000:]
    # the executable model driver (Main.lean, run with `lean --run`) needs the compiled form of everything it imports; build those
    # too, so that a check works from a checkout without build outputs whatever was run before it
    drv = re.findall(r"^import (HmfVerif\.[\w.]+)", open(os.path.join(LEAN, "Main.lean")).read(), re.M)
    t1 = time.time()
    rcd, outd = sh(["lake", "build"] + drv, cwd=LEAN, timeout=3000)
    log["build_driver"] = {"rc": rcd, "modules": len(drv), "wall_s": round(time.time() - t1, 2), "tail": outd[-600:] if rcd else ""}
    return rc, errs


def failed_decls(pid, errs):
    """map build errors to declarations of the Props file; an error elsewhere fails all"""
    path = os.path.join(LEAN, f"HmfVerif/Props/{pid}.lean")
    ds = decls(path)
    rel = f"HmfVerif/Props/{pid}.lean"
    failed, foreign = set(), []
    for e in errs:
        if e["file"] == rel:
            cand = [d for d in ds if d[2] <= e["line"]]
            if cand:
                failed.add(cand[-1][1])
            else:
                foreign.append(e)
        else:
            foreign.append(e)
    if foreign:
        failed = {d[1] for d in ds}
    return ds, sorted(failed), foreign


def audit(pid, ds, log):
    """#print axioms on every property theorem + forbidden-token grep over everything it imports"""
    names = [d[1] for d in ds if d[0] == "theorem"]
    src = f"import HmfVerif.Props.{pid}\n" + "\n".join(f"#print axioms Hmf.{pid}.{n}" for n in names) + "\n"
    os.makedirs(WORK, exist_ok=True)
    f = os.path.join(WORK, f"audit_{pid}_{os.getpid()}.lean")
    open(f, "w").write(src)
    rc, out = sh(["lake", "env", "lean", f], cwd=LEAN, timeout=1200)
    os.remove(f)
    axioms, bad = {}, []
    for m in re.finditer(r"'([\w.']+)' depends on axioms: \[([^\]]*)\]", out):
        ax = {a.strip() for a in m.group(2).replace("\n", " ").split(",") if a.strip()}
        axioms[m.group(1)] = sorted(ax)
        if not ax <= ALLOWED_AXIOMS:
            bad.append((m.group(1), sorted(ax - ALLOWED_AXIOMS)))
    for m in re.finditer(r"'([\w.']+)' does not depend on any axioms", out):
        axioms[m.group(1)] = []
    missing = [n for n in names if f"Hmf.{pid}.{n}" not in axioms]
    hits = []
    for mod, path in lean_deps(f"HmfVerif.Props.{pid}").items():
        for i, l in enumerate(strip_comments(open(path).read()).split("\n"), 1):
            if FORBIDDEN.search(l):
                hits.append(f"{mod}:{i}: {l.strip()[:80]}")
    all_ax = sorted({a for v in axioms.values() for a in v})
    log["audit"] = {"rc": rc, "theorems": len(names), "axioms_seen": all_ax, "bad_axioms": bad,
                    "not_printed": missing, "forbidden_tokens": hits}
    if rc != 0:
        log["audit"]["tail"] = out[-1500:]
    return rc == 0 and not bad and not missing and not hits


def load_known():
    p = os.path.join(VERIF, "known_findings.json")
    if not os.path.exists(p):
        return []
    return json.load(open(p)).get("findings", [])


def main():
    ap = argparse.ArgumentParser()
    ap.add_argument("pid")
    ap.add_argument("--tier", default=os.environ.get("VERIF_TIER", "quick"))
    ap.add_argument("--replay")
    a = ap.parse_args()
    pid = a.pid
    os.environ["VERIF_TIER"] = a.tier
    seed = int(os.environ.get("VERIF_SEED", "0") or 0)
    t0 = time.time()
    os.makedirs(WORK, exist_ok=True)
    os.makedirs(os.path.join(VERIF, "evidence"), exist_ok=True)
    os.makedirs(os.path.join(VERIF, "replays", pid), exist_ok=True)
    log = {}
    try:
        mod = importlib.import_module(pid.lower())
    except ModuleNotFoundError:
        print(f"no harness for {pid}")
        return 2

    if a.replay:
        return mod.replay(a.replay)

    # ---- phase 1: model regenerated from source, theorems re-checked  (serialised across processes)
    lock = open(os.path.join(WORK, "lake.lock"), "w")
    fcntl.flock(lock, fcntl.LOCK_EX)
    try:
        gen_ok = generate(pid, log)
        rc, errs = build(pid, log)
        ds, failed, foreign = failed_decls(pid, errs)
        if rc != 0 and not errs:
            failed = [d[1] for d in ds]
        audit_ok = True
        if rc == 0:
            audit_ok = audit(pid, ds, log)
        if a.tier == "thorough" and rc == 0:
            t1 = time.time()
            mods = [m for m in lean_deps(f"HmfVerif.Props.{pid}")]
            rcc, outc = sh(["lake", "env", "leanchecker"] + mods, cwd=LEAN, timeout=3000)
            log["leanchecker"] = {"rc": rcc, "modules": len(mods), "wall_s": round(time.time() - t1, 1), "tail": outc[-300:]}
            if rcc != 0:
                audit_ok = False
    finally:
        fcntl.flock(lock, fcntl.LOCK_UN)

    broken = []           # obligations / ties that no longer check
    if not gen_ok:
        broken.append({"kind": "translator", "what": "translator failed on current source", "detail": log["gen"].get("tail", "")[-400:]})
    for n in failed:
        broken.append({"kind": "theorem", "what": f"Hmf.{pid}.{n} no longer checks"})
    if not audit_ok:
        broken.append({"kind": "audit", "what": json.dumps(log.get("audit", log.get("leanchecker")))[:400]})

    # ---- phase 2: correspondence + property oracles on the real code (+ search when something broke)
    ctx = {"pid": pid, "tier": a.tier, "seed": seed, "broken": broken, "verif": VERIF,
           "replay_dir": os.path.join(VERIF, "replays", pid)}
    try:
        res = mod.run(ctx)
    except subprocess.TimeoutExpired:
        raise
    except Exception as e:
        # the harness runs cleanly on the unchanged tree; an exception here means the current source no longer fits the
        # model/translator/harness (e.g. a body the translator cannot express): a broken tie, not an infrastructure failure
        tb = traceback.format_exc()
        sys.stderr.write(tb)
        res = {"violations": [], "broken": [{"kind": "harness", "what": f"correspondence harness raised {type(e).__name__}: {str(e)[:200]}", "detail": tb[-1500:]}],
               "coverage": {"evaluations": 1, "distinct_nontrivial": 0, "explanation": "harness aborted", "samples": ["aborted"]}, "assumptions": []}
    # res: {"violations":[{key, what, replay(dict)}], "broken":[...], "coverage":{...}, "assumptions":[...]}
    broken += res.get("broken", [])
    known = {(k["property"], k["key"]): k for k in load_known()}
    viol, known_hit = [], []
    for v in res.get("violations", []):
        if (pid, v.get("key")) in known:
            known_hit.append(v)
        else:
            viol.append(v)
    lines = []
    for v in known_hit:
        lines.append(f"KNOWN-FINDING: property={pid} {v['key']}: {v['what']}")

    def write_replay(payload):
        payload = dict(payload)
        payload.update({"property": pid, "seed": seed, "tier": a.tier})
        blob = json.dumps(payload, sort_keys=True, default=str)
        path = os.path.join(VERIF, "replays", pid, hashlib.sha256(blob.encode()).hexdigest()[:12] + ".json")
        open(path, "w").write(json.dumps(payload, indent=1, default=str))
        return path

    nviol = 0
    for v in viol:
        path = write_replay({"kind": "failing-input", "what": v["what"], "key": v.get("key"), "replay": v.get("replay"),
                             "broken_obligations": broken})
        lines.append(f"VIOLATION property={pid} replay={path}")
        nviol += 1
    if broken and not viol:
        # a proof obligation or a correspondence broke and the search found no concrete failing input
        path = write_replay({"kind": "no-failing-input-found", "broken_obligations": broken,
                             "search": res.get("coverage", {}).get("search", "property oracles on the real code found nothing")})
        lines.append(f"VIOLATION property={pid} replay={path} no-failing-input-found")
        nviol += 1

    nobl = len(ds) + res.get("extra_obligations", 0)
    ndis = len(ds) - len(failed) + res.get("extra_discharged", 0)
    cov = {
        "obligations": nobl, "discharged": ndis,
        "checker_cmd": f"cd lean && lake build HmfVerif.Props.{pid} && lake env lean <audit: #print axioms ...>" + (" && lake env leanchecker <modules>" if a.tier == "thorough" else ""),
        "trusted_base": TRUSTED_BASE + res.get("trusted_base", []),
        "theorems": [d[1] for d in ds],
        "axioms_seen": log.get("audit", {}).get("axioms_seen", []),
        "build": log.get("build"), "gen": log.get("gen"), "audit": log.get("audit"),
    }
    if "leanchecker" in log:
        cov["leanchecker"] = log["leanchecker"]
    cov.update(res.get("coverage", {}))
    cov["known_findings_hit"] = [v["key"] for v in known_hit]
    ev = {"property_id": pid, "tier": a.tier, "seed": seed, "level": "proof", "coverage": cov,
          "assumptions": res.get("assumptions", []), "wall_s": round(time.time() - t0, 2), "violations": nviol}
    open(os.path.join(VERIF, "evidence", f"{pid}.json"), "w").write(json.dumps(ev, indent=1, default=str))
    for l in lines:
        print(l)
    print(f"{pid}: obligations {ndis}/{nobl}, violations {nviol}, known {len(known_hit)}, {ev['wall_s']}s")
    return 1 if nviol else 0


if __name__ == "__main__":
    try:
        sys.exit(main())
    except subprocess.TimeoutExpired as e:
        print("INFRA-FAILURE timeout", e)
        sys.exit(2)
