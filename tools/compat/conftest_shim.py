"""pytest plugin: run /repo/tests against /repo/src (not site-packages) through the compat shim.
   usage: cd /repo && PYTHONPATH=/verif/tools/compat /venv/bin/python -B -m pytest -p conftest_shim -p no:cacheprovider tests"""
import hmf_compat
hmf_compat.install()
