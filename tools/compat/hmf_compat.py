import sys, collections, collections.abc
import numpy as np, scipy.integrate as intg
for n in ("Iterable","Mapping","Sequence","Callable"):
    if not hasattr(collections,n): setattr(collections,n,getattr(collections.abc,n))
if not hasattr(np,"issubclass_"):
    def issubclass_(a,b):
        try: return issubclass(a,b)
        except TypeError: return False
    np.issubclass_=issubclass_
def _basic_simps(y, start, stop, x, dx, axis):
    nd = len(y.shape)
    if start is None: start = 0
    step = 2
    slice_all = (slice(None),)*nd
    def tup(s): 
        l=list(slice_all); l[axis]=s; return tuple(l)
    slice0 = tup(slice(start, stop, step))
    slice1 = tup(slice(start+1, stop+1, step))
    slice2 = tup(slice(start+2, stop+2, step))
    if x is None:
        result = np.sum(dx/3.0 * (y[slice0]+4*y[slice1]+y[slice2]), axis=axis)
    else:
        h = np.diff(x, axis=axis)
        sl0 = tup(slice(start, stop, step)); sl1 = tup(slice(start+1, stop+1, step))
        h0 = h[sl0]; h1 = h[sl1]
        hsum = h0+h1; hprod=h0*h1; h0divh1=h0/h1
        tmp = hsum/6.0*(y[slice0]*(2-1.0/h0divh1)+y[slice1]*hsum*hsum/hprod+y[slice2]*(2-h0divh1))
        result = np.sum(tmp, axis=axis)
    return result
def simps(y, x=None, dx=1, axis=-1, even='avg'):
    y = np.asarray(y); nd=len(y.shape); N=y.shape[axis]
    last_dx=dx; first_dx=dx; returnshape=0
    if x is not None:
        x=np.asarray(x)
        if len(x.shape)==1:
            shapex=[1]*nd; shapex[axis]=x.shape[0]; saveshape=x.shape; returnshape=1; x=x.reshape(tuple(shapex))
    if N%2==0:
        val=0.0; result=0.0
        slice1=[slice(None)]*nd; slice2=[slice(None)]*nd
        if even in ['avg','first']:
            slice1[axis]=-1; slice2[axis]=-2
            if x is not None: last_dx=x[tuple(slice1)]-x[tuple(slice2)]
            val += 0.5*last_dx*(y[tuple(slice1)]+y[tuple(slice2)])
            result=_basic_simps(y,0,N-3,x,dx,axis)
        if even in ['avg','last']:
            slice1[axis]=0; slice2[axis]=1
            if x is not None: first_dx=x[tuple(slice2)]-x[tuple(slice1)]
            val += 0.5*first_dx*(y[tuple(slice2)]+y[tuple(slice1)])
            result += _basic_simps(y,1,N-2,x,dx,axis)
        if even=='avg':
            val/=2.0; result/=2.0
        result=result+val
    else:
        result=_basic_simps(y,0,N-2,x,dx,axis)
    if returnshape: x=x.reshape(saveshape)
    return result
if not hasattr(intg,"simps"): intg.simps=simps
if not hasattr(intg,"cumtrapz"):
    def cumtrapz(y,x=None,dx=1.0,axis=-1,initial=None): return intg.cumulative_trapezoid(y,x=x,dx=dx,axis=axis,initial=initial)
    intg.cumtrapz=cumtrapz


def install(repo_src="/repo/src"):
    """Make /repo/src importable as `hmf` and assert that is what gets imported."""
    import os
    repo_src = os.environ.get("HMF_REPO_SRC", repo_src)
    if repo_src not in sys.path:
        sys.path.insert(0, repo_src)
    import hmf
    assert os.path.realpath(hmf.__file__).startswith(os.path.realpath(repo_src)), (hmf.__file__, sys.path)
    return hmf
