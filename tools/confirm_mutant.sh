#!/bin/bash
# usage: tools/confirm_mutant.sh <mutdir> <tag>    (mutdir holds patch.diff + demo.py)
# confirms in a scratch worktree: demo passes on clean tree, fails with patch, shim test-suite still passes with patch
mut="$1"; tag="$2"; wt="/tmp/cw_$tag"
git -C /repo worktree add -q --detach "$wt" HEAD || exit 3
run() { (cd "$wt" && HMF_REPO_SRC="$wt/src" PYTHONPATH=/tmp/hmfshim PYTHONDONTWRITEBYTECODE=1 timeout 900 /venv/bin/python -B "$@"); }
sed "s#/tmp/wt[0-9]*_[A-Za-z0-9]*#$wt#g" "$mut/demo.py" > "$wt/_demo.py"
run _demo.py > "$wt/_clean.log" 2>&1; clean_rc=$?
git -C "$wt" apply "$mut/patch.diff"; apply_rc=$?
run _demo.py > "$wt/_mut.log" 2>&1; mut_rc=$?
tests=$(run -m pytest -p conftest_shim -p no:cacheprovider -q --deselect tests/test_cli.py --deselect tests/test_mdef.py --deselect tests/test_wcdm.py tests 2>&1 | tail -1)
echo "{\"tag\": \"$tag\", \"apply_rc\": $apply_rc, \"demo_clean_rc\": $clean_rc, \"demo_mutant_rc\": $mut_rc, \"tests_with_patch\": \"$tests\", \"demo_mutant_tail\": $(tail -2 "$wt/_mut.log" | python3 -c 'import json,sys; print(json.dumps(sys.stdin.read()[-300:]))')}"
git -C /repo worktree remove --force "$wt"
