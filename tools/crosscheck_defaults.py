"""one-off cross-check of lean/HmfVerif/Spec/PublishedFits.lean against the independently packaged hmf (site-packages)"""
import re, sys
from hmf.mass_function import fitting_functions as ff   # site-packages version
src = open('/verif/lean/HmfVerif/Spec/PublishedFits.lean').read()
bad = 0
for m in re.finditer(r'\("(\w+)", \[(.*?)\]\)', src):
    cls = getattr(ff, m.group(1), None)
    if cls is None:
        print("missing in installed hmf:", m.group(1)); continue
    for k, mm, ee in re.findall(r'\("([\w]+)", (-?\d+), (-?\d+)\)', m.group(2)):
        v = int(mm) * 10.0 ** int(ee)
        w = cls._defaults.get(k)
        if w is None or abs(v - w) > 1e-12 * max(1, abs(w)):
            print("DIFF", m.group(1), k, v, w); bad += 1
print("differences:", bad)
