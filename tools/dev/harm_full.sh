#!/bin/bash
# usage: harm_full.sh <lane> <dirs...> : run EVERY registered quick check against each behaviour-preserving refactor (development aid)
L=$1; shift
V=/tmp/vcopy_f$L; W=/tmp/wt_mut_f$L
rm -rf $V; mkdir -p $V; rsync -a --exclude .git --exclude .work --exclude replays --exclude seeded --exclude harmless /verif/ $V/
git -C /repo worktree remove --force $W 2>/dev/null; git -C /repo worktree add -q --detach $W HEAD
mkdir -p /verif/.work/${OUTDIR:-harmfull}
ALL="${CHECKS:-C01 C02 C03 C04 C05 C06 C07 C08 C09 C10 C11 C12 C13 C14 C15 C16 C17 C18 C19 C20}"
for d in "$@"; do
  tag=$(basename $d)
  git -C $W apply $d/patch.diff || { echo "APPLY-FAILED" > /verif/.work/${OUTDIR:-harmfull}/$tag.txt; continue; }
  : > /verif/.work/${OUTDIR:-harmfull}/$tag.txt
  for id in $ALL; do
    out=$(cd $V && HMF_REPO=$W timeout 1500 ./check $id --tier quick 2>&1 | grep -E "^VIOLATION|^C[0-9]+:|INFRA" | cut -c1-160 | tr '\n' ' ')
    echo "[$id] $out" >> /verif/.work/${OUTDIR:-harmfull}/$tag.txt
    if echo "$out" | grep -q VIOLATION; then mkdir -p /verif/.work/${OUTDIR:-harmfull}/replays_$tag; cp $V/replays/$id/*.json /verif/.work/${OUTDIR:-harmfull}/replays_$tag/ 2>/dev/null; fi
    rm -rf $V/replays
  done
  git -C $W checkout -- .
done
git -C /repo worktree remove --force $W; rm -rf $V
