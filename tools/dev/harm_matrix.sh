#!/bin/bash
# usage: harm_matrix.sh <lane> <dirs...> : run own-property check against each harmless refactor
L=$1; shift
V=/tmp/vcopy_h$L; W=/tmp/wt_mut_h$L
rm -rf $V; mkdir -p $V; rsync -a --exclude .git --exclude .work --exclude replays --exclude seeded /verif/ $V/
git -C /repo worktree remove --force $W 2>/dev/null; git -C /repo worktree add -q --detach $W HEAD
mkdir -p /verif/.work/harm
for d in "$@"; do
  tag=$(basename $d); id=${tag%%_*}
  git -C $W apply $d/patch.diff || { echo "[$id] APPLY-FAILED" > /verif/.work/harm/$tag.txt; continue; }
  out=$(cd $V && HMF_REPO=$W timeout 1500 ./check $id --tier quick 2>&1 | grep -E "^VIOLATION|^C[0-9]+:|INFRA" | cut -c1-200 | tr '\n' ' ')
  echo "[$id] $out" > /verif/.work/harm/$tag.txt
  cp $V/replays/$id/*.json /verif/.work/harm/ 2>/dev/null; rm -rf $V/replays
  git -C $W checkout -- .
done
git -C /repo worktree remove --force $W; rm -rf $V
