#!/bin/bash
# re-run the own-property check for every seeded change (8 lanes)
cd /verif
ls -d seeded/C* | sort > .work/ownlist.txt
for L in 0 1 2 3 4 5 6 7; do
  ( V=/tmp/vcopy_$L; W=/tmp/wt_mut_$L
    rm -rf $V; mkdir -p $V; rsync -a --exclude .git --exclude .work --exclude replays --exclude seeded /verif/ $V/
    git -C /repo worktree remove --force $W 2>/dev/null; git -C /repo worktree add -q --detach $W HEAD
    awk -v l=$L 'NR%8==l' .work/ownlist.txt | while read d; do
      tag=$(basename $d); id=${tag%%_*}
      git -C $W apply /verif/$d/patch.diff || { echo "[$id] APPLY-FAILED" >> /verif/.work/matrix/$tag.txt; continue; }
      out=$(cd $V && HMF_REPO=$W timeout 1500 ./check $id --tier quick 2>&1 | grep -E "^VIOLATION|^KNOWN|^C[0-9]+:|INFRA" | cut -c1-200 | tail -3 | tr '\n' ' ')
      echo "[$id] $out" >> /verif/.work/matrix/$tag.txt
      git -C $W checkout -- .
    done
    git -C /repo worktree remove --force $W; rm -rf $V; echo LANE-DONE $L ) > .work/own_lane$L.log 2>&1 &
done
wait
echo ALL-DONE
