"""run every translator on the current /repo/src; files are rewritten only when their content changes"""
import os, sys, subprocess
here = os.path.dirname(os.path.abspath(__file__))
rc = 0
for t in ("pyflow.py", "pyexpr.py", "pystate.py"):
    p = os.path.join(here, t)
    if os.path.exists(p):
        r = subprocess.run([sys.executable, "-B", p])
        rc = rc or r.returncode
sys.exit(rc)
