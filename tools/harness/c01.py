"""C01 — cached outputs equal a fresh computation.
tie: K1 (real decorators vs Lean M', value/exception/parameter projection) + model-independent oracle on the
five real framework classes (cached vs fresh from parameter_values) over random histories + corpus."""
import k1, k2, realfuzz
from common import *

CORPUS = os.path.join(VERIF, "corpus", "c01_histories.json")


def run(ctx):
    quick = ctx["tier"] == "quick"
    out = {"violations": [], "broken": [], "coverage": {}, "assumptions": [
        "quantity bodies are pure functions of the parameters/quantities they read through `self` (sampled by the real-class fuzz)",
        "K1 drives the real `parameter`/`cached_quantity`/`Framework.update` loaded from /repo/src/hmf/_internals in isolation"]}
    # --- K1
    n = 400 if quick else 6000
    stats, dis, samples, (cm, fm) = k1.run_k1(n, tag="k1-c01")
    nd = stats["disagree_out"] + stats["disagree_pv"]
    if nd:
        d = dis[0]
        for x in dis:
            if x["kind"] in ("out", "pv"):
                d = x; break
        d2, py, lean = k1.minimise(d["case"], cm, fm)
        # a value/exception disagreement on a synthetic class *is* a failing history for the real decorators:
        # the Lean side is proved equal to the fresh value (Props/C01), so the implementation's answer differs from fresh
        out["violations"].append({"key": "K1/decorators-vs-model", "what": "real decorators disagree with the proved machine on a synthetic class",
                                  "replay": {"kind": "k1", "case": d2.to_json(), "impl": py, "model": lean}})
    # --- real classes: corpus first, then random histories
    r = rng("c01-real")
    hs = []
    if os.path.exists(CORPUS):
        for j in json.load(open(CORPUS)):
            hs.append(realfuzz.History(j["cls"], j.get("base", 0), j["ops"]))
    ncorp = len(hs)
    classes = ["Cosmology", "Transfer", "MassFunction", "TransferWDM", "MassFunctionWDM"]
    per = 14 if quick else 120
    for cn in classes:
        for _ in range(per if cn != "Cosmology" else max(2, per // 4)):
            hs.append(realfuzz.gen_history(r, cn, r.randint(6, 14 if quick else 25)))
    tot = {"ops": 0, "rejected": 0, "reads": 0, "read_exc": 0, "compared": 0, "fresh_built": 0}
    opk = {}
    rsamples = []
    for h in hs:
        v, st = realfuzz.run_history(h, r=r)
        for k in tot:
            tot[k] += st[k]
        for op in h.ops:
            opk[op[0]] = opk.get(op[0], 0) + 1
        if len(rsamples) < 2:
            rsamples.append(realfuzz.describe(h)[:8])
        if v and not out["violations"]:
            vv = [x for x in v if x["kind"] != "bookkeeping-error"] or v
            def still(h2):
                v2, _ = realfuzz.run_history(h2, r=None)
                return bool(v2) and v2[0]["kind"] == vv[0]["kind"]
            hmin = realfuzz.shrink(realfuzz.History(h.clsname, 0, h.ops[:vv[0]["at"] + 1]), still)
            v2, _ = realfuzz.run_history(hmin, r=None)
            out["violations"].append({"key": f"real/{h.clsname}/{(v2 or vv)[0].get('quantity', (v2 or vv)[0]['kind'])}",
                                      "what": f"{h.clsname}: cached object differs from a fresh object: {(v2 or vv)[0]}",
                                      "replay": {"kind": "real-history", "history": hmin.to_json(), "script": realfuzz.describe(hmin),
                                                 "violation": (v2 or vv)[0], "tree": tree_hash()}})
    # --- K2: generated descriptors vs the real classes
    k2res = k2.run_k2(quick)
    if k2res["bad_edges"] or k2res["bad_index"]:
        out["broken"].append({"kind": "correspondence", "what": "K2: a read observed on the real classes is not in the generated read program (translator/model out of date)",
                              "detail": (k2res["bad_edges"] + k2res["bad_index"])[:5]})
    out["coverage"] = {
        "k2": {k: v for k, v in k2res.items() if k not in ("bad_edges", "bad_index")},
        "evaluations": stats["ops"] + tot["ops"],
        "traces_validated_against_impl": stats["cases"],
        "programs": stats["cases"], "disagreements_checked": stats["cases"],
        "distinct_nontrivial": stats["cases"] - stats["hist_len"].get("0", 0) + len(hs),
        "rule": "K1: random class descriptors (2-6 params, 2-8 quantities, 1-3 inheritance layers with super, branches, raising nodes, validators, dict params) x random histories (5-40 ops); non-trivial = history length >= 10. real: random histories over value pools (valid/invalid/name-vs-class/dict merge+clear/switches) on the five framework classes, every op followed by cached-vs-fresh comparison",
        "k1": stats, "k1_disagreements": nd,
        "real_histories": len(hs), "real_corpus": ncorp, "real": tot, "real_op_kinds": opk,
        "samples": samples + rsamples,
        "search": "real-class history fuzz with cached-vs-fresh oracle + K1 minimisation",
    }
    if nd and not any(v["replay"]["kind"] == "k1" for v in out["violations"]):
        out["broken"].append({"kind": "correspondence", "what": f"K1 value/parameter projection: {nd} disagreements"})
    return out


def replay(path):
    j = json.load(open(path))
    rp = j.get("replay") or {}
    if rp.get("kind") == "real-history":
        h = realfuzz.History(rp["history"]["cls"], 0, rp["history"]["ops"])
        v, _ = realfuzz.run_history(h)
        print("\n".join(realfuzz.describe(h)))
        print("violation:" if v else "no violation on the current tree", v[:1])
        return 1 if v else 0
    if rp.get("kind") == "k1":
        import synth
        cm, fm = load_internals()
        d = synth.Desc.from_json(rp["case"])
        a = lean_driver([d.line()])[0]
        res = synth.run_python(d, cm, fm)
        py = res[0] if isinstance(res, tuple) else res
        print("impl :", py); print("model:", a)
        return 1 if py != a else 0
    print("nothing to replay (no-failing-input-found):", j.get("broken_obligations"))
    return 1
