"""C02 — dn/dm assembled exactly from its ingredients, independent of the mass grid.
tie: regenerated MassFunction bodies at Float vs the real quantities. oracles on the real class: the identity with rho0 from
astropy, f vs the stand-alone component fed with the framework's own inputs, sigma/nu/dndlnm/dndlog10m, sub-grid embedding,
mass_nonlinear inside and outside the grid at z>=0, Behroozi correction, sign/finiteness, integer grid arguments."""
import warnings, copy
import numpy as np
import realfuzz, flowcorr
from exprcorr import *

MF_Q = ["m", "mean_density", "_sigma_0", "sigma", "nu", "lnsigma", "n_eff", "_dlnsdlnm", "fsigma", "dndm", "dndlnm", "dndlog10m", "rho_ltm", "how_big"]


def run(ctx):
    quick = ctx["tier"] == "quick"
    realfuzz.init()
    from hmf.mass_function.hmf import MassFunction
    from hmf.mass_function import fitting_functions as ff
    import astropy.units as u
    out = {"violations": [], "broken": [], "coverage": {}, "assumptions": [
        "mass-definition conversion is kept disabled (the default); halomod is not installed",
        "SharpK filters are compared with rtol 1e-6 across grids (position-dependent resolution is a known finding of C04)"]}
    V = out["violations"]

    def viol(key, what, rp=None):
        if not any(v["key"] == key for v in V):
            V.append({"key": key, "what": what, "replay": dict(rp or {}, kind="c02", tree=tree_hash())})
    J, tup = load()
    r = rng("c02")
    fits = ["PS", "SMT", "Jenkins", "Warren", "Reed03", "Reed07", "Peacock", "Angulo", "Watson_FoF", "Watson", "Crocce", "Courtin", "Bhattacharya",
            "Tinker08", "Tinker10", "Pillepich", "Manera", "Ishiyama"]
    reqs, exp = [], []
    ncase = 0
    with warnings.catch_warnings():
        warnings.simplefilter("ignore")
        np.seterr(all="ignore")
        fixed = [dict(transfer_model="EH", lnk_min=-12.0, lnk_max=10.0, dlnk=0.2, Mmin=10.0, Mmax=15.0, dlog10m=0.5, z=z, hmf_model=f, mdef_model=md, cosmo_params=cp)
                 for f, md, cp, z in [("Watson", None, {"Om0": 0.25}, 1.0), ("Tinker08", "SOCritical", {"Om0": 0.25}, 0.0),
                                      ("Tinker10", "SOVirial", {"Om0": 0.4, "H0": 62.0}, 0.5)]]   # fits that read the cosmology, with cosmo_params set
        fixed += [dict(fixed[0], hmf_model=f_, hmf_params=hp_, mdef_model=None, z=0.5) for f_, hp_ in (("SMT", {"A": None, "p": 0.2}), ("Courtin", {"A": None}), ("ST", {"A": None, "a": 0.8, "p": 0.25}))]   # model parameters incl. a meaningful None
        for rep in range(len(fixed) + (14 if quick else 100)):
            cfg = fixed[rep] if rep < len(fixed) else dict(transfer_model=r.choice(["EH", "BBKS", "EH_NoBAO", "BondEfs"]), lnk_min=-12.0, lnk_max=10.0, dlnk=0.2,
                       Mmin=r.choice([9, 10.0, 11.5]), Mmax=r.choice([14.0, 15, 15.5]), dlog10m=r.choice([0.5, 0.25, 1]),
                       z=r.choice([0.0, 0.5, 1.0, 3.0]), sigma_8=r.uniform(0.6, 1.0), n=r.uniform(0.9, 1.05), delta_c=r.choice([1.686, 1.6, 1.75]),
                       hmf_model=r.choice(fits), filter_model=r.choice(["TopHat", "TopHat", "Gaussian", "SharpK"]),
                       growth_model=r.choice(["GrowthFactor", "Carroll1992", "GenMFGrowth"]),
                       cosmo_params=r.choice([{}, {"Om0": 0.25}, {"Om0": 0.4, "H0": 62.0}]),
                       mdef_model=r.choice([None, None, "SOMean", "SOCritical", "SOVirial"]))
            if cfg["mdef_model"] == "SOMean":
                cfg["mdef_params"] = {"overdensity": r.choice([200, 300, 500.0])}
            if cfg["hmf_model"] in ("Tinker08", "Tinker10", "Watson") and cfg["mdef_model"] not in (None, "SOMean", "SOCritical", "SOVirial"):
                cfg["mdef_model"] = None
            try:
                mf = MassFunction(**copy.deepcopy(cfg))
                dn = mf.dndm
            except Exception as e:
                continue
            ncase += 1
            rq, ex = flowcorr.flow_requests(J, tup, mf, "MassFunction", MF_Q)
            reqs += rq
            exp += [(n, g, cfg) for n, g in ex]
            m = mf.m
            # identity with an independent rho0
            rho0 = float((mf.cosmo.Om0 * mf.cosmo.critical_density0 / mf.cosmo.h ** 2).to(u.Msun / u.Mpc ** 3).value)
            want = mf.fsigma * rho0 * np.abs(mf._dlnsdlnm) / m ** 2
            if not np.allclose(dn, want, rtol=1e-12, atol=0):
                viol("dndm-identity", f"dndm != f*rho0*|dlnsigma/dlnm|/m^2 (max rel dev {float(np.nanmax(np.abs(dn / want - 1))):.3g}) for {cfg['hmf_model']}, z={cfg['z']}", {"config": str(cfg)})
            if not np.isclose(mf.mean_density0, rho0, rtol=1e-12):
                viol("rho0", f"mean_density0={mf.mean_density0} differs from Om0*rho_crit0/h^2={rho0}", {"config": str(cfg)})
            # f equals the stand-alone component on the framework's own inputs
            comp = getattr(ff, cfg["hmf_model"])(m=m, nu2=mf.nu, z=mf.z, mass_definition=mf.mdef, cosmo=mf.cosmo, delta_c=mf.delta_c, n_eff=mf.n_eff, **copy.deepcopy(cfg.get("hmf_params", {})))
            if not np.allclose(mf.fsigma, comp.fsigma, rtol=1e-12, atol=0, equal_nan=True):
                viol("fsigma-vs-component", f"MassFunction.fsigma differs from {cfg['hmf_model']} evaluated stand-alone on (m, nu, z, mdef, cosmo, delta_c, n_eff): max rel dev {float(np.nanmax(np.abs(mf.fsigma / comp.fsigma - 1))):.3g}",
                     {"config": str(cfg)})
            # sigma, nu, derived
            sig = mf.growth_factor * mf.filter_model(mf.k, mf._power0, **mf.filter_params).sigma(mf.radii)
            if not np.allclose(mf.sigma, sig, rtol=1e-10):
                viol("sigma-definition", "sigma != growth_factor * rms fluctuation of the normalised z=0 spectrum at the radius enclosing m", {"config": str(cfg)})
            if not (np.allclose(mf.nu, (mf.delta_c / mf.sigma) ** 2, rtol=1e-13) and np.allclose(mf.dndlnm, m * dn, rtol=1e-13) and np.allclose(mf.dndlog10m, np.log(10) * m * dn, rtol=1e-13)):
                viol("derived-identities", "nu / dndlnm / dndlog10m identity fails", {"config": str(cfg)})
            if not (np.all(np.isfinite(m)) and np.all(m > 0) and np.all(np.isfinite(mf.sigma)) and np.all(mf.sigma > 0) and np.all(np.isfinite(mf.fsigma)) and np.all(mf.fsigma >= 0) and np.all(np.isfinite(dn)) and np.all(dn >= 0)):
                viol("sign-finite", f"m/sigma/f/dndm not finite-positive for {cfg}", {"config": str(cfg)})
            # grid independence: same masses on a different grid
            cfg2 = dict(cfg, Mmin=float(cfg["Mmin"]) + float(cfg["dlog10m"]), Mmax=float(cfg["Mmax"]) - float(cfg["dlog10m"]), dlog10m=float(cfg["dlog10m"]) * 2)
            try:
                mf2 = MassFunction(**copy.deepcopy(cfg2))
                idx = [int(np.argmin(np.abs(m - x))) for x in mf2.m]
                ok = np.allclose(m[idx], mf2.m, rtol=1e-12)
                tol = 1e-9
                if ok and not np.allclose(mf2.dndm, dn[idx], rtol=tol, atol=0, equal_nan=True):
                    gdev = float(np.nanmax(np.abs(mf2.dndm / dn[idx] - 1)))
                    viol("grid-dependence" + ("/SharpK-position-dependent-resolution" if (cfg["filter_model"].startswith("SharpK") and gdev < 2e-3) else ""), f"dndm at a fixed mass changes with (Mmin, Mmax, dlog10m): max rel dev {float(np.nanmax(np.abs(mf2.dndm / dn[idx] - 1))):.3g}", {"config": str(cfg)})
            except Exception:
                pass
        # mass_nonlinear: inside and outside the tabulated range, z = 0 and z > 0
        nmnl = 0
        def radius_of(filt, prm, mass, rho):   # the documented mass assignment of each filter, written out independently
            if filt == "Gaussian":
                return (mass / rho) ** (1.0 / 3.0) / np.sqrt(2 * np.pi)
            rt = (3.0 * mass / (4.0 * np.pi * rho)) ** (1.0 / 3.0)
            return rt / prm.get("c", 2.0 if filt == "SharpKEllipsoid" else 2.5) if filt.startswith("SharpK") else rt   # documented defaults c = 2.5 / 2.0
        mnl_cases = [(lo, hi, z, dc, "TopHat", {}) for (lo, hi, z, dc) in
                     [(10.0, 15.0, 0.0, 1.686), (13.5, 15.5, 0.0, 1.686), (13.5, 15.5, 1.0, 1.686), (6.0, 9.0, 0.0, 1.686), (10.0, 15.0, 1.0, 1.686), (14.0, 15.5, 2.0, 1.686),
                      (13.5, 15.5, 0.0, 1.5), (6.0, 9.0, 0.0, 2.0), (14.0, 15.5, 1.0, 1.4), (10.0, 15.0, 0.0, 1.5),
                      # the non-linear mass many decades away from the tabulated range (high redshift; a grid of tiny masses)
                      (10.0, 15.0, 8.0, 1.686), (10.0, 15.0, 12.0, 1.686), (1.0, 5.0, 0.0, 1.686)]]
        mnl_cases += [(13.5, 15.0, 0.0, 1.686, "SharpK", {}), (6.0, 8.0, 0.0, 1.686, "SharpK", {}), (13.5, 15.0, 0.5, 1.686, "SharpK", {"c": 2.0}), (10.0, 15.0, 0.0, 1.686, "SharpK", {}),
                      (13.5, 15.0, 0.0, 1.686, "SharpKEllipsoid", {}), (13.5, 15.5, 0.0, 1.686, "Gaussian", {}), (6.0, 8.0, 0.0, 1.686, "Gaussian", {}), (10.0, 15.0, 1.0, 1.686, "Gaussian", {})]
        for (lo, hi, z, dc, filt, fprm) in mnl_cases:
            mf = MassFunction(transfer_model="EH", Mmin=lo, Mmax=hi, dlog10m=0.05, z=z, delta_c=dc, lnk_min=-14.0, lnk_max=12.0, dlnk=0.05, filter_model=filt, filter_params=dict(fprm))
            mnl = float(np.atleast_1d(mf.mass_nonlinear)[0])
            nmnl += 1
            if not (mnl > 0 and np.isfinite(mnl)):
                viol("mass_nonlinear/invalid", f"mass_nonlinear={mnl} for grid [{lo},{hi}], z={z}, {filt}"); continue
            rr = np.array([radius_of(filt, fprm, mnl, mf.mean_density0)])
            s = float(mf.filter.sigma(rr)[0] * mf._normalisation * mf.growth_factor)
            if abs(s / mf.delta_c - 1) > (5e-3 if filt == "TopHat" else 2e-2):
                viol("mass_nonlinear/sigma-ne-delta_c", f"sigma(mass_nonlinear)={s:.4f} != delta_c={mf.delta_c} for grid [{lo},{hi}], z={z}, filter {filt}{fprm or ''} (mass_nonlinear={mnl:.4g})", {"Mmin": lo, "Mmax": hi, "z": z, "delta_c": dc, "filter_model": filt, "filter_params": fprm})
        # Behroozi adds only its documented correction to the Tinker10 dn/dm
        for z in (0.0, 1.0, 3.0, 6.0, 8.0, 8.5, 12.0):      # also beyond the redshifts of the calibrating simulations (z <= 8)
            kw = dict(transfer_model="EH", Mmin=10.0 if z < 8 else 8.0, Mmax=15.0 if z < 8 else 12.0, dlog10m=0.25, z=z, lnk_min=-12.0, lnk_max=10.0, dlnk=0.2)
            b = MassFunction(hmf_model="Behroozi", **kw)
            t = MassFunction(hmf_model="Tinker10", mdef_model="SOVirial", **kw)
            a = 1 / (1 + z)
            m = b.m
            dn0 = t.dndm
            ng0 = b._gtm(b.fsigma * b.mean_density0 * np.abs(b._dlnsdlnm) / m ** 2)
            theta = 0.144 / (1 + np.exp(14.79 * (a - 0.213))) * (m / 10 ** 11.5) ** (0.5 / (1 + np.exp(6.5 * a)))
            ngb = 10 ** (theta + np.log10(ng0))
            dth = 0.144 / (1 + np.exp(14.79 * (a - 0.213))) * (0.5 / (1 + np.exp(6.5 * a))) * (m / 10 ** 11.5) ** (0.5 / (1 + np.exp(6.5 * a)) - 1) / 10 ** 11.5
            plain = b.fsigma * b.mean_density0 * np.abs(b._dlnsdlnm) / m ** 2
            want = plain * 10 ** theta - ngb * np.log(10) * dth
            want[np.isnan(want)] = 0
            if not np.allclose(b.dndm, want, rtol=1e-9, atol=0):
                viol("behroozi-correction", f"Behroozi dndm at z={z} differs from Tinker dndm with the documented correction (max rel dev {float(np.nanmax(np.abs(b.dndm / want - 1))):.3g})", {"z": z})
        # integer grid arguments
        mi = MassFunction(transfer_model="EH", Mmin=10, Mmax=15, dlog10m=1, lnk_min=-12.0, lnk_max=10.0, dlnk=0.2)
        mfl = MassFunction(transfer_model="EH", Mmin=10.0, Mmax=15.0, dlog10m=1.0, lnk_min=-12.0, lnk_max=10.0, dlnk=0.2)
        if not (np.all(mi.dndm >= 0) and np.allclose(mi.dndm, mfl.dndm, rtol=1e-12)):
            viol("integer-grid", f"integer Mmin/Mmax/dlog10m give a different (or negative) dndm: {mi.dndm}")
        res = eval_lean_many(reqs)
        nbad = 0
        for (name, got, cfg), g in zip(exp, res):
            if isinstance(g, str) or not close(got, g, rtol=1e-10, atol=0).all():
                nbad += 1
                if nbad == 1:
                    out["broken"].append({"kind": "correspondence", "what": f"generated body {name} at Float differs from the real quantity", "detail": {"config": str(cfg), "impl": got[:3].tolist(), "model": g if isinstance(g, str) else g[:3].tolist()}})
    # the same identities on one instance carried through updates of the normalisation, redshift and mass grid (every quantity read at every step)
    try:
        from hmf.mass_function.hmf import MassFunction as MF_
        kwu = dict(transfer_model="EH", lnk_min=-12.0, lnk_max=12.0, dlnk=0.05, Mmin=10.0, Mmax=15.0, dlog10m=0.25, hmf_model="SMT")
        mu = MF_(**kwu)
        mu.dndm
        for chg in ({"sigma_8": 0.9}, {"z": 1.0}, {"sigma_8": 0.7, "n": 0.93}, {"Mmin": 11.0}, {"sigma_8": 0.8159, "z": 0.0}):
            mu.update(**chg)
            kwu.update(chg)
            sig_u = mu.growth_factor * mu.filter_model(mu.k, mu._power0, **mu.filter_params).sigma(mu.radii)
            fr_u = MF_(**kwu)
            if not (np.allclose(mu.sigma, sig_u, rtol=1e-10) and np.allclose(mu.dndm, fr_u.dndm, rtol=1e-10)
                    and np.allclose(mu.dndm, mu.fsigma * mu.mean_density0 * np.abs(mu._dlnsdlnm) / mu.m ** 2, rtol=1e-12)):
                viol("sigma-definition/update-sequence", f"after update({chg}) on an instance whose dndm had been read: sigma is {float(np.max(np.abs(mu.sigma / sig_u - 1))):.3g} away from growth_factor x rms of the normalised spectrum, "
                     f"dndm {float(np.max(np.abs(mu.dndm / fr_u.dndm - 1))):.3g} away from a fresh object's", {"sequence": "MassFunction(SMT, EH); dndm; update(sigma_8=0.9); update(z=1); update(sigma_8=0.7, n=0.93); update(Mmin=11); update(sigma_8=0.8159, z=0)", "failing_step": str(chg)})
                break
    except Exception as e_:
        out["broken"].append({"kind": "harness", "what": f"update-sequence oracle raised {type(e_).__name__}: {str(e_)[:150]}"})
    for key_, what_, script_ in realfuzz.cosmology_scenarios("MassFunction", "dndm"):
        viol(key_, what_, {"script": script_})
    out["coverage"] = {
        "evaluations": len(reqs) + ncase * 8 + nmnl, "programs": len(exp), "disagreements_checked": len(exp), "traces_validated_against_impl": len(exp),
        "distinct_nontrivial": ncase,
        "rule": "random compatible combinations of transfer, filter, growth, fit (18 fits) and mass-definition models, cosmology overrides, z, sigma_8, n, delta_c, mass grids (integer and float arguments); each: 14 regenerated bodies at Float vs real, identity with independent rho0, fit vs stand-alone component on the framework's own inputs, sub-grid embedding; 21 mass_nonlinear cases (inside, outside and many decades outside the grid, z>=0, four filters; sigma at the independently written radius of the returned mass equals delta_c); Behroozi correction at 7 redshifts (up to z = 12)",
        "gen_disagreements": nbad, "configs": ncase, "samples": [{"body": e[0], "config": str(e[2])[:200], "impl": e[1][:2].tolist()} for e in exp[:2]],
        "search": "oracles on the real MassFunction",
    }
    return out


def replay(path):
    j = json.load(open(path))
    print(json.dumps(j.get("replay"), indent=1)[:800])
    res = run({"tier": "quick"})
    hit = [v for v in res["violations"] if v["key"] == j.get("key")]
    print(hit[:1] or "not reproduced on the current tree")
    return 1 if hit else 0
