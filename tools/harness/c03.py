"""C03 — linear power normalised to sigma_8, scales with growth.
tie: regenerated Transfer bodies at Float vs real quantities. oracles: independent top-hat quadrature of the returned z=0 power
(all cheap transfer models, curved and flat cosmologies, any filter_model on MassFunction), value at a wavenumber vs requested
range/resolution (one- and two-sided ranges), growth scaling incl. update sequences, shape k^n T^2, linearity in sigma_8."""
import warnings, copy
import numpy as np
import realfuzz, flowcorr
from exprcorr import *

TR_Q = ["k", "_unnormalised_power", "_normalisation", "_power0", "transfer_function", "power", "delta_k", "nonlinear_power", "growth_factor"]


def tophat_sigma(k, P, R=8.0):
    """independent quadrature: spline of the integrand in ln k, adaptive quad"""
    from scipy.interpolate import InterpolatedUnivariateSpline as Spl
    from scipy.integrate import quad
    x = k * R
    W = np.where(x > 1e-3, 3 * (np.sin(x) - x * np.cos(x)) / x ** 3, 1 - x ** 2 / 10)
    f = Spl(np.log(k), k ** 3 * P * W ** 2 / (2 * np.pi ** 2), k=3)
    val = quad(lambda t: float(f(t)), np.log(k[0]), np.log(k[-1]), limit=2000, points=np.linspace(np.log(0.01), np.log(30), 40))[0]
    return np.sqrt(val)


def run(ctx):
    quick = ctx["tier"] == "quick"
    realfuzz.init()
    from hmf.density_field.transfer import Transfer
    from hmf.mass_function.hmf import MassFunction
    out = {"violations": [], "broken": [], "coverage": {}, "assumptions": [
        "quadrature accuracy: sigma_8 recovered to 1e-3 relative on grids with dlnk <= 0.05 covering [1e-7, 1e4]; range independence to 2e-4",
        "CAMB is exercised in the thorough tier only"]}
    V = out["violations"]

    def viol(key, what, rp=None):
        if not any(v["key"] == key for v in V):
            V.append({"key": key, "what": what, "replay": dict(rp or {}, kind="c03", tree=tree_hash())})
    J, tup = load()
    r = rng("c03")
    reqs, exp = [], []
    ncase = 0
    with warnings.catch_warnings():
        warnings.simplefilter("ignore")
        np.seterr(all="ignore")
        models = ["EH", "BBKS", "EH_NoBAO", "BondEfs"] + ([] if quick else ["CAMB"])
        for rep in range(6 if quick else 60):
            cfg = dict(transfer_model=r.choice(models), sigma_8=r.uniform(0.5, 1.2), n=r.uniform(0.8, 1.1), z=r.choice([0.0, 0.7, 2.0]),
                       cosmo_params=r.choice([{}, {"Om0": 0.25}, {"Om0": 0.4, "H0": 62.0}, {"Om0": 0.3, "Ode0": 0.6}, {"Om0": 0.35, "Ode0": 0.75}]),
                       lnk_min=np.log(1e-7), lnk_max=np.log(1e4), dlnk=0.04, growth_model=r.choice(["GrowthFactor", "Carroll1992"]))
            try:
                T = Transfer(**copy.deepcopy(cfg))
                P0 = T._power0
            except Exception:
                continue
            ncase += 1
            rq, ex = flowcorr.flow_requests(J, tup, T, "Transfer", TR_Q)
            reqs += rq
            exp += [(n, g, cfg) for n, g in ex]
            s8 = tophat_sigma(T.k, P0)
            if abs(s8 / cfg["sigma_8"] - 1) > 1e-3:
                viol("sigma8-normalisation", f"{cfg['transfer_model']}: z=0 power integrates (top-hat R=8, independent quadrature) to {s8:.5f}, requested sigma_8={cfg['sigma_8']:.5f}", {"config": str(cfg)})
            D = T.growth_factor
            if not (np.allclose(T.power, D ** 2 * P0, rtol=1e-13) and np.allclose(T.delta_k, T.k ** 3 * T.power / (2 * np.pi ** 2), rtol=1e-13)):
                viol("growth-scaling", "power != growth_factor^2 * power(0) or delta_k != k^3 P/(2 pi^2)", {"config": str(cfg)})
            shape = P0 / (T.k ** cfg["n"] * np.exp(T._unnormalised_lnT) ** 2)
            if np.ptp(shape) > 1e-10 * abs(shape[0]):
                viol("shape", "P(z=0) is not proportional to k^n T(k)^2", {"config": str(cfg)})
            # update sequence: z -> z' on the same object vs fresh
            T.power
            T.update(z=1.3)
            a = T.power.copy()
            T.update(z=2.6)
            b = T.power
            fb = Transfer(**dict(copy.deepcopy(cfg), z=2.6)).power
            if not np.allclose(b, fb, rtol=1e-12):
                viol("growth-scaling/update-sequence", f"after power at z=1.3 then update(z=2.6) the power differs from a fresh object's by {float(np.max(np.abs(b / fb - 1))):.3g}", {"config": str(cfg)})
        # the frameworks that inherit from Transfer (warm dark matter) obey the same scaling across redshifts: separate objects at z and at 0
        try:
            from hmf.alternatives.wdm import TransferWDM, MassFunctionWDM
            for cls_, kw_ in ((TransferWDM, {}), (MassFunctionWDM, dict(Mmin=10.0, Mmax=14.0, dlog10m=0.5)), (TransferWDM, {"wdm_model": "Bode01"})):
                b_ = dict(transfer_model="EH", lnk_min=-10.0, lnk_max=6.0, dlnk=0.1, wdm_mass=0.5, **kw_)
                o0 = cls_(z=0.0, **b_)
                for z_ in (1.0, 4.0):
                    oz = cls_(z=z_, **b_)
                    ncase += 1
                    Dz = oz.growth_factor
                    if not np.allclose(oz.power, Dz ** 2 * o0.power, rtol=1e-10, atol=0):
                        viol("growth-scaling/wdm-frameworks", f"{cls_.__name__}{kw_ or ''}: power(z={z_}) differs from growth_factor^2 * power(z=0) by up to {float(np.max(np.abs(oz.power / (Dz ** 2 * o0.power) - 1))):.3g}", {"class": cls_.__name__, "z": z_})
                    if hasattr(oz, "sigma") and not np.allclose(oz.sigma, Dz * o0.sigma, rtol=1e-10):
                        viol("sigma-linearity/wdm-frameworks", f"{cls_.__name__}: sigma(m, z={z_}) differs from growth_factor * sigma(m, 0) by up to {float(np.max(np.abs(oz.sigma / (Dz * o0.sigma) - 1))):.3g}", {"class": cls_.__name__, "z": z_})
        except ImportError:
            pass
        # at z = 0 the returned spectrum is the normalised one (growth factor exactly 1) for every growth model, also for the second and third
        # object of a session whose cosmologies share Om0 but not their curvature
        from astropy.cosmology import LambdaCDM as _LCDM
        for gm_ in ("Carroll1992", "GrowthFactor", "GenMFGrowth"):
            for ode_ in (0.7, 0.4, 0.0):
                if gm_ == "GenMFGrowth" and ode_ not in (0.7, 0.0):
                    continue
                try:
                    Tg = Transfer(transfer_model="EH", lnk_min=np.log(1e-7), lnk_max=np.log(1e4), dlnk=0.05, z=0.0, sigma_8=0.8, growth_model=gm_, cosmo_model=_LCDM(H0=70.0, Om0=0.3, Ode0=ode_, Ob0=0.05, Tcmb0=0.0, name="curv"))
                    pz0 = Tg.power
                except ValueError:
                    continue
                ncase += 1
                s8g = tophat_sigma(Tg.k, pz0)
                if abs(float(np.atleast_1d(Tg.growth_factor)[0]) - 1) > 1e-12 or abs(s8g / 0.8 - 1) > 1e-3:
                    viol("sigma8-normalisation/z=0-power", f"Transfer(growth_model={gm_}, Om0=0.3, Ode0={ode_}, z=0): growth_factor = {float(np.atleast_1d(Tg.growth_factor)[0])!r}, and the returned z=0 power integrates (top-hat R=8) to {s8g:.5f}, requested 0.8",
                         {"growth_model": gm_, "Ode0": ode_})
        # value at a wavenumber vs requested range / resolution
        nrange = 0
        for model in ("EH", "BBKS", "EH_NoBAO", "BondEfs"):
            ref = Transfer(transfer_model=model, lnk_min=-18.0, lnk_max=12.0, dlnk=0.02)
            from scipy.interpolate import InterpolatedUnivariateSpline as Spl
            lref = Spl(np.log(ref.k), np.log(ref.power), k=3)
            for (lo, hi, d) in [(-12.0, 10.0, 0.05), (-3.0, 10.0, 0.05), (-4.0, 10.0, 0.02), (-18.0, -1.0, 0.05), (-18.0, 0.0, 0.05), (-18.0, 3.0, 0.05),
                                (-5.0, 3.0, 0.05), (-3.0, 1.0, 0.05), (-16.0, 9.5, 0.05), (-15.5, 8.0, 0.1), (-11.0, 11.0, 0.1), (-6.0, 7.0, 0.01)]:
                t = Transfer(transfer_model=model, lnk_min=lo, lnk_max=hi, dlnk=d)
                dev = np.max(np.abs(np.log(t.power) - lref(np.log(t.k))))
                nrange += 1
                if dev > 2e-4:
                    viol("range-dependence", f"{model}: P(k) on lnk in [{lo},{hi}] (dlnk={d}) differs from the wide-grid value at the same wavenumbers by {dev:.3g} in ln P",
                         {"model": model, "lnk_min": lo, "lnk_max": hi, "dlnk": d})
        # the default transfer model (CAMB: a table extended beyond its k range) — wide grid vs a grid starting inside CAMB's table
        try:
            import camb  # noqa
            ref = Transfer(transfer_model="CAMB", lnk_min=-18.0, lnk_max=9.0, dlnk=0.05)
            lref = Spl(np.log(ref.k), np.log(ref.power), k=3)
            for (lo, hi) in [(-6.0, 8.0)] + ([] if quick else [(-8.0, 8.0), (-4.0, 2.0)]):
                t = Transfer(transfer_model="CAMB", lnk_min=lo, lnk_max=hi, dlnk=0.05)
                dl = np.abs(np.log(t.power) - lref(np.log(t.k)))
                nrange += 1
                if dl.max() > 2e-3:
                    i_ = int(np.argmax(dl))
                    viol("range-dependence/CAMB", f"CAMB: P(k) at k={t.k[i_]:.4g} on lnk in [{lo},{hi}] differs from the value on the wide grid [-18,9] by {dl[i_]:.3g} in ln P",
                         {"model": "CAMB", "lnk_min": lo, "lnk_max": hi, "k": float(t.k[i_])})
            # two live CAMB-backed objects with different cosmologies on a narrow range: a later change on the first one must still
            # normalise with *its* cosmology (sigma_8 by independent quadrature, and equality with a fresh object)
            kwc = dict(transfer_model="CAMB", lnk_min=-7.0, lnk_max=6.0, dlnk=0.1)
            a_ = Transfer(cosmo_params={"Om0": 0.25}, **kwc); a_.power
            b_ = Transfer(cosmo_params={"Om0": 0.4, "H0": 62.0}, **kwc); b_.power
            a_.update(n=1.0)
            fa_ = Transfer(cosmo_params={"Om0": 0.25}, n=1.0, **kwc)
            nrange += 1
            if not np.allclose(a_.power, fa_.power, rtol=1e-9):
                viol("CAMB/two-instances/normalisation", f"with a second CAMB-backed object of another cosmology alive, update(n=1.0) on the first gives a power spectrum {float(np.max(np.abs(a_.power / fa_.power - 1))):.3g} away from a fresh object's",
                     {"sequence": "a=Transfer(CAMB, Om0=0.25, narrow k); b=Transfer(CAMB, Om0=0.4,H0=62, narrow k); a.update(n=1.0); a.power vs fresh"})
        except ImportError:
            out["assumptions"].append("CAMB not importable: range independence not exercised for the default transfer model")
        # MassFunction: normalisation does not depend on its smoothing filter; sigma(m) linear in sigma_8 and growth
        for filt in ("TopHat", "Gaussian", "SharpK"):
            kw = dict(transfer_model="EH", lnk_min=np.log(1e-7), lnk_max=np.log(1e4), dlnk=0.05, Mmin=11.0, Mmax=14.0, dlog10m=0.5, filter_model=filt)
            mf = MassFunction(sigma_8=0.8, **kw)
            s8 = tophat_sigma(mf.k, mf._power0)
            if abs(s8 / 0.8 - 1) > 1e-3:
                viol("sigma8-normalisation/massfunction-filter", f"MassFunction(filter_model={filt}): z=0 power integrates with a real-space top-hat to {s8:.4f}, requested 0.8", {"filter_model": filt})
            mf2 = MassFunction(sigma_8=0.9, z=1.0, **kw)
            if not np.allclose(mf2.sigma / mf.sigma, 0.9 / 0.8 * mf2.growth_factor, rtol=1e-10):
                viol("sigma-linearity", f"sigma(m) is not linear in sigma_8 and the growth factor (filter {filt})")
            # the same configurations reached by updates of one instance whose sigma (and normalised filter) has been read at every step,
            # including a change of the mass grid in between
            mu = MassFunction(sigma_8=0.8, **kw)
            kwu = dict(kw, sigma_8=0.8, z=0.0)
            mu.sigma; mu.normalised_filter
            for chg in ({"sigma_8": 0.9}, {"z": 1.0}, {"Mmin": 11.5}, {"sigma_8": 0.6}, {"sigma_8": 0.8, "z": 0.0}, {"sigma_8": 1.1, "z": 2.0, "Mmin": 11.0}):
                mu.update(**chg)
                kwu.update(chg)
                ref_u = MassFunction(**dict(kwu, sigma_8=0.8, z=0.0)).sigma
                want_u = kwu["sigma_8"] / 0.8 * float(np.atleast_1d(mu.growth.growth_factor(kwu["z"]))[0]) * ref_u
                got_u = np.array(mu.sigma)
                nf_u = mu.normalised_filter.sigma(mu.radii)
                if not (np.allclose(got_u, want_u, rtol=1e-10, atol=0) and np.allclose(nf_u, got_u, rtol=1e-10)):
                    viol("sigma-linearity/update-sequence", f"after update({chg}) on an instance whose sigma and normalised filter had been read, sigma(m) differs from (sigma_8/0.8) D(z) sigma(m; 0.8, z=0) "
                         f"by up to {float(np.max(np.abs(got_u / want_u - 1))):.3g} (normalised_filter.sigma(radii) vs sigma: {float(np.max(np.abs(nf_u / got_u - 1))):.3g}; filter {filt})",
                         {"filter_model": filt, "failing_step": str(chg), "sequence": "MassFunction(sigma_8=0.8); sigma; normalised_filter; update(sigma_8=0.9); update(z=1); update(Mmin=11.5); update(sigma_8=0.6); update(sigma_8=0.8,z=0); update(sigma_8=1.1,z=2,Mmin=11)"})
                    break
            # ... also where sigma is tiny (high redshift, cluster masses) or large (dwarf masses, high sigma_8)
            for (s8b, zb, lo, hi) in ((0.6, 25.0, 14.0, 16.0), (1.2, 0.0, 6.0, 8.0), (0.6, 40.0, 13.0, 15.5), (0.8, 12.0, 14.5, 16.0)):
                if filt != "TopHat" and zb not in (25.0, 0.0):
                    continue
                kb = dict(kw, Mmin=lo, Mmax=hi)
                a0 = MassFunction(sigma_8=0.8, z=0.0, **kb)
                a1 = MassFunction(sigma_8=s8b, z=zb, **kb)
                want = s8b / 0.8 * a1.growth.growth_factor(zb) * a0.sigma
                if not np.allclose(a1.sigma, want, rtol=1e-10, atol=0):
                    i = int(np.argmax(np.abs(a1.sigma / want - 1)))
                    viol("sigma-linearity", f"sigma(m) is not linear in sigma_8 and the growth factor (filter {filt}): at m=1e{np.log10(a1.m[i]):.2f}, z={zb}, sigma_8={s8b}: sigma={a1.sigma[i]:.5g} but (s8/0.8)*D(z)*sigma(z=0, s8=0.8)={want[i]:.5g}",
                         {"filter_model": filt, "z": zb, "sigma_8": s8b, "Mmin": lo, "Mmax": hi})
            # the normalised filter object carries the spectrum at the object's redshift: its sigma(R) is sigma(m), linear in the growth factor
            nf_ = mf2.normalised_filter.sigma(mf2.radii)
            if not np.allclose(nf_, mf2.sigma, rtol=1e-10):
                viol("sigma-linearity/normalised_filter", f"normalised_filter.sigma(radii) at z=1 differs from sigma(m) = D(z) sigma_0(m) by up to {float(np.max(np.abs(nf_ / mf2.sigma - 1))):.3g} (filter {filt})", {"filter_model": filt, "z": 1.0})
            tt = Transfer(sigma_8=0.8, **{k: v for k, v in kw.items() if k in ("transfer_model", "lnk_min", "lnk_max", "dlnk")})
            if not np.allclose(mf.power, tt.power, rtol=1e-12):
                viol("massfunction-vs-transfer-power", f"MassFunction(filter_model={filt}).power differs from Transfer.power for the same parameters")
        res = eval_lean_many(reqs)
        nbad = 0
        for (name, got, cfg), g in zip(exp, res):
            if isinstance(g, str) or not close(got, g, rtol=1e-10, atol=0).all():
                nbad += 1
                if nbad == 1:
                    out["broken"].append({"kind": "correspondence", "what": f"generated body {name} at Float differs from the real quantity", "detail": {"config": str(cfg), "impl": got[:3].tolist(), "model": g if isinstance(g, str) else g[:3].tolist()}})
    out["coverage"] = {
        "evaluations": len(reqs) + ncase * 5 + nrange, "programs": len(exp), "disagreements_checked": len(exp), "traces_validated_against_impl": len(exp),
        "distinct_nontrivial": ncase + nrange,
        "rule": "random (transfer model, sigma_8, n, z, flat/curved cosmology, growth model) on a grid covering [1e-7,1e4]: regenerated bodies at Float vs real, independent top-hat quadrature, growth scaling (also along update sequences), shape; 12 one-/two-sided (lnk_min,lnk_max,dlnk) per model against a wide fine reference; MassFunction with each filter",
        "gen_disagreements": nbad, "samples": [{"body": e[0], "config": str(e[2])[:200], "impl": e[1][:2].tolist()} for e in exp[:2]],
        "search": "oracles on the real Transfer / MassFunction",
    }
    return out


def replay(path):
    j = json.load(open(path))
    print(json.dumps(j.get("replay"), indent=1)[:800])
    res = run({"tier": "quick"})
    hit = [v for v in res["violations"] if v["key"] == j.get("key")]
    print(hit[:1] or "not reproduced on the current tree")
    return 1 if hit else 0
