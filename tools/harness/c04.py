"""C04 — sigma(R) equals its defining integral for every filter.
tie: the discretised sigma model (Quad.sigmaDisc with the regenerated window) at Float vs Filter.sigma; regenerated windows and
mass<->radius maps at Float vs the real filters.  real code: independent high-accuracy quadrature, positivity, sqrt(a) scaling,
scalar/vector/any-order agreement, W(0)=1, |W|<=1 (dense sweep through the small-argument guards), exact inverses (all filters,
non-default parameters), non-increasing in R for CDM-like spectra, instances do not share tables."""
import warnings
import numpy as np
import realfuzz, quadcorr
from exprcorr import *


def spectra(r):
    k = np.exp(np.arange(np.log(1e-5), np.log(1e3), r.choice([0.05, 0.1, 0.02])))
    out = []
    n = r.uniform(-2.5, 1.0)
    out.append(("powerlaw", k, k ** n * np.exp(-(k / 200.0) ** 2)))
    from hmf.density_field import transfer_models as tm
    from astropy.cosmology import Planck15
    for name in ("EH", "BBKS", "BondEfs", "EH_NoBAO"):
        T = np.exp(getattr(tm, name)(Planck15).lnt(np.log(k)))
        out.append((name, k, k ** r.uniform(0.9, 1.05) * T ** 2))
    bumps = np.exp(sum(r.uniform(-0.3, 0.3) * np.sin(r.uniform(0.2, 1.5) * np.log(k) + r.uniform(0, 6)) for _ in range(4)))
    out.append(("smooth-table", k, k ** 0.96 * np.exp(-np.log(1 + k / 0.02) * 3.5) * bumps))
    return out


def reference_sigma(window, k, P, R, order):
    from scipy.interpolate import InterpolatedUnivariateSpline as Spl
    from scipy.integrate import quad
    lnP = Spl(np.log(k), np.log(P), k=3)

    def W(x):
        if window == "TopHat":
            return 3 * (np.sin(x) - x * np.cos(x)) / x ** 3 if x > 1e-3 else 1 - x ** 2 / 10
        if window == "Gaussian":
            return np.exp(-x ** 2 / 2)
        raise ValueError
    f = lambda t: np.exp(t) ** (3 + 2 * order) * np.exp(float(lnP(t))) * W(np.exp(t) * R) ** 2 / (2 * np.pi ** 2)
    pts = np.log(np.clip(np.array([0.01, 0.1, 0.5, 1, 2, 4, 8, 20]) / R, k[0], k[-1]))
    return np.sqrt(quad(f, np.log(k[0]), np.log(k[-1]), limit=3000, points=np.unique(pts))[0])


def resolved(window, k, P, R, order, tol):
    """does the tabulated grid resolve the integrand?  composite Simpson on the given grid vs on the 8x refined grid (spectrum
    interpolated by a cubic spline in log-log): where the two differ by more than tol/2 the discretisation error of *any* rule
    on that grid exceeds the tolerance (top-hat oscillations of period pi/(kR) in ln k carrying weight at high k for order >= 1)
    and the comparison with the continuous integral is not meaningful"""
    from scipy.interpolate import InterpolatedUnivariateSpline as Spl
    from scipy.integrate import simpson
    lnk = np.log(k)
    lnP = Spl(lnk, np.log(P), k=3)

    def W(x):
        if window == "TopHat":
            return np.where(x > 1e-3, 3 * (np.sin(x) - x * np.cos(x)) / np.maximum(x, 1e-30) ** 3, 1 - x ** 2 / 10)
        return np.exp(-x ** 2 / 2)

    def S(t):
        return simpson(np.exp(t) ** (3 + 2 * order) * np.exp(lnP(t)) * W(np.exp(t) * R) ** 2, x=t)
    fine = np.linspace(lnk[0], lnk[-1], 8 * (len(lnk) - 1) + 1)
    a, b = S(lnk), S(fine)
    return abs(a / b - 1) < tol          # (sigma is the square root: relative error halves)


def run(ctx):
    quick = ctx["tier"] == "quick"
    realfuzz.init()
    from hmf.density_field import filters
    out = {"violations": [], "broken": [], "coverage": {}, "assumptions": [
        "agreement with the independent quadrature is required to 2e-3 (top-hat) / 1e-4 (Gaussian) on grids with dlnk <= 0.1 over [1e-5,1e3], for the (window, spectrum, radius, order) cases whose integrand the tabulated grid resolves (Simpson on the grid vs on its 8x refinement agree to that tolerance); unresolved cases are counted in coverage.unresolved_skipped",
        "sharp-k filters are checked against the analytic integral of the spline of P up to k=1/R (c=1)"]}
    V = out["violations"]

    def viol(key, what, rp=None):
        if not any(v["key"] == key for v in V):
            V.append({"key": key, "what": what, "replay": dict(rp or {}, kind="c04", tree=tree_hash())})
    J, tup = load()
    comp = J["components"]["Filters"]
    r = rng("c04")
    lines, exp = [], []
    nref = 0
    nunres = 0
    reqs, rexp = [], []
    with warnings.catch_warnings():
        warnings.simplefilter("ignore")
        np.seterr(all="ignore")
        for rep in range(1 if quick else 6):
            for sname, k, P in spectra(r):
                radii = np.sort(10 ** np.array([r.uniform(-1.5, 1.7) for _ in range(5)]))
                for window in ("TopHat", "Gaussian"):
                    f = getattr(filters, window)(k, P)
                    for order in (0, 1, 2):
                        s = f.sigma(radii, order)
                        lines.append(quadcorr.sigma_requests(window, k, P, order, radii))
                        exp.append((window, sname, order, s, radii))
                        if not (np.all(np.isfinite(s)) and np.all(s > 0)):
                            viol(f"{window}/not-positive", f"{window}.sigma not finite-positive on {sname}")
                        if order == 0 or not quick:
                            tol = 2e-3 if window == "TopHat" else 1e-4
                            # top-hat moments of order >= 1 weight the high-k oscillations of W^2 (period pi/(kR) in ln k, far below any
                            # tabulated step): the Simpson sum is then an aliased estimate by construction and is tied to the code through
                            # the discrete model (Quad.sigmaDisc) only, not through the continuous integral
                            ok_r = [i for i in range(3) if not (window == "TopHat" and order > 0) and resolved(window, k, P, radii[i], order, tol)]
                            nunres += 3 - len(ok_r)
                            ref = np.array([reference_sigma(window, k, P, radii[i], order) for i in ok_r])
                            nref += len(ok_r)
                            if len(ok_r) and not np.allclose(s[ok_r], ref, rtol=tol):
                                viol(f"{window}/defining-integral", f"{window}.sigma(order={order}) on {sname} differs from an independent quadrature by {float(np.max(np.abs(s[ok_r] / ref - 1))):.3g}",
                                     {"window": window, "spectrum": sname, "order": order, "R": radii[ok_r].tolist()})
                    s0 = f.sigma(radii)
                    # the same instance after its table was replaced (attribute assignment): sigma follows the current table
                    f2_ = getattr(filters, window)(k.copy(), P.copy())
                    s_before = f2_.sigma(radii, 1)
                    f2_.power = 4.0 * P
                    s_after = f2_.sigma(radii, 1)
                    if not np.allclose(s_after, 2.0 * s_before, rtol=1e-12):
                        viol(f"{window}/stale-table-after-assignment", f"{window}: after `filt.power = 4 P` on an instance already used, sigma(order=1) is {float(np.max(np.abs(s_after / (2 * s_before) - 1))):.3g} away from 2 x the previous value",
                             {"window": window, "spectrum": sname})
                    ri_ = np.array([1, 3, 9])
                    if not np.allclose(f.sigma(ri_), f.sigma(ri_.astype(float)), rtol=1e-12):
                        viol(f"{window}/integer-radii", f"{window}.sigma differs between integer-typed and float radii {ri_.tolist()}", {"radii": ri_.tolist()})
                    a = r.uniform(0.1, 7.0)
                    if not np.allclose(getattr(filters, window)(k, a * P).sigma(radii), np.sqrt(a) * s0, rtol=1e-12):
                        viol(f"{window}/scaling", f"{window}.sigma does not scale as sqrt(a) when P is multiplied by a={a:.3f}")
                    # scalar / vector / any order
                    perm = np.array(r.sample(range(len(radii)), len(radii)))
                    each = np.array([float(np.atleast_1d(f.sigma(float(R)))[0]) for R in radii])
                    if not (np.array_equal(f.sigma(radii[perm]), s0[perm]) and np.allclose(each, s0, rtol=1e-13)):
                        viol(f"{window}/row-local", f"{window}.sigma on a vector differs from element-by-element / permuted evaluation")
                    if sname in ("EH", "BBKS", "BondEfs", "EH_NoBAO") and np.any(np.diff(s0) > 0):
                        viol(f"{window}/not-decreasing", f"{window}.sigma increases with R on the CDM-like spectrum {sname}")
                # the sharp-k filters too: the same instance after its table was replaced follows the current table (sqrt(a) scaling), and a second
                # call with the same radii returns the same values
                for wname_ in ("SharpK", "SharpKEllipsoid"):
                    for ord_ in (0, 1):
                        fs_ = getattr(filters, wname_)(k.copy(), P.copy())
                        try:
                            sb_ = np.asarray(fs_.sigma(radii, ord_), float).copy()
                            sb2_ = np.asarray(fs_.sigma(radii, ord_), float)
                            fs_.power = 4.0 * P
                            sa_ = np.asarray(fs_.sigma(radii, ord_), float)
                        except Exception:
                            continue
                        nref += 1
                        if not (np.allclose(sb2_, sb_, rtol=1e-12) and np.allclose(sa_, 2.0 * sb_, rtol=2e-3)):
                            viol(f"{wname_}/stale-table-after-assignment", f"{wname_}: after `filt.power = 4 P` on an instance already used with the same radii, sigma(order={ord_}) is {float(np.max(np.abs(sa_ / (2 * sb_) - 1))):.3g} away from 2 x the previous value",
                                 {"window": wname_, "spectrum": sname, "order": ord_})
                # sharp-k: exact integral of the cubic spline of P up to 1/R, scaling, two instances with different tables
                for cls, cpar in ((filters.SharpK, {"c": 1.0}),):
                    f = cls(k, P, **cpar)
                    s = f.sigma(radii)
                    from scipy.interpolate import InterpolatedUnivariateSpline as Spl
                    from scipy.integrate import quad
                    sp = Spl(k, P)
                    ref = np.array([np.sqrt(quad(lambda t: np.exp(t) ** 3 * float(sp(np.exp(t))) / (2 * np.pi ** 2), np.log(k[0]), np.log(min(k[-1], 1 / R)), limit=2000)[0]) for R in radii])
                    nref += len(radii)
                    if not np.allclose(s, ref, rtol=2e-3):
                        viol("SharpK/defining-integral", f"SharpK.sigma on {sname} differs from the integral of P up to 1/R by {float(np.max(np.abs(s / ref - 1))):.3g}")
                    perm = np.array(r.sample(range(len(radii)), len(radii)))
                    sp_ = f.sigma(radii[perm])
                    if not np.allclose(sp_, s[perm], rtol=1e-12):
                        dev = float(np.max(np.abs(sp_ / s[perm] - 1)))
                        # the recorded finding is a resolution effect (1e-7 .. 1e-4); anything larger is a different failure
                        key = "SharpK/row-local/position-dependent-resolution" if dev < 2e-3 else "SharpK/row-local/order-changes-values"
                        viol(key, f"SharpK.sigma at a radius depends on the position of that radius in the input array (max rel dev {dev:.3g} on {sname}, order {perm.tolist()})",
                             {"radii": radii[perm].tolist(), "spectrum": sname})
                    sd_ = f.sigma(radii[::-1].copy())
                    if not np.allclose(sd_, s[::-1], rtol=2e-3):
                        viol("SharpK/row-local/order-changes-values", f"SharpK.sigma on a descending radius array is not the ascending result reversed (max rel dev {float(np.max(np.abs(sd_ / s[::-1] - 1))):.3g} on {sname})",
                             {"radii": radii[::-1].tolist(), "spectrum": sname})
                    # radii below the resolution of the table (R*c < 1/k_max) mixed with resolved ones, ascending, descending and shuffled:
                    # each value is what the radius gives alone
                    rmix = np.array([0.3 / k[-1], 0.8 / k[-1], 1.5 / k[-1], 5.0 / k[-1], radii[0], radii[-1]])
                    alone = np.array([float(f.sigma(np.array([x_]))[0]) for x_ in rmix])
                    for order_ in (np.arange(len(rmix)), np.arange(len(rmix))[::-1], np.array([4, 0, 5, 1, 3, 2]), np.array([5, 1, 0, 4, 2, 3])):
                        got_ = f.sigma(rmix[order_].copy())
                        nref += 1
                        if not np.allclose(got_, alone[order_], rtol=2e-3):
                            j_ = int(np.argmax(np.abs(got_ / alone[order_] - 1)))
                            viol("SharpK/row-local/order-changes-values", f"SharpK.sigma at R={rmix[order_][j_]:.4g} (k_max R = {rmix[order_][j_] * k[-1]:.2f}) is {got_[j_]:.6g} inside the vector {np.round(rmix[order_], 6).tolist()} but {alone[order_][j_]:.6g} alone ({sname})",
                                 {"radii": rmix[order_].tolist(), "spectrum": sname})
                            break
                    # integer-typed radii (Python int, integer arrays) are radii too
                    ri = np.array([1, 2, 8])
                    si, sf = f.sigma(ri), f.sigma(ri.astype(float))
                    s1i = np.atleast_1d(f.sigma(2))
                    if not (np.allclose(si, sf, rtol=2e-3) and np.allclose(s1i, f.sigma(2.0), rtol=2e-3)):
                        viol("SharpK/integer-radii", f"SharpK.sigma for integer-typed radii {ri.tolist()} gives {np.asarray(si).tolist()}, for the same radii as floats {np.asarray(sf).tolist()}", {"radii": ri.tolist(), "spectrum": sname})
                    g = cls(k, 3.0 * P, **cpar)
                    if not np.allclose(g.sigma(radii), np.sqrt(3.0) * s, rtol=1e-9):
                        viol("SharpK/scaling-or-shared-table", "a second SharpK instance built with 3 x P does not return sqrt(3) x sigma (scaling fails or instances share a table)")
        # windows: W(0)=1, |W|<=1 through the guards; regenerated terms vs real
        x = np.concatenate([[0.0], 10 ** np.linspace(-300, -9, 30), 10 ** np.linspace(-9, -4, 400), 10 ** np.linspace(-4, 3, 400)])
        for window in ("TopHat", "Gaussian", "SharpK", "SharpKEllipsoid"):
            f = getattr(filters, window)(np.array([1.0, 2.0]), np.array([1.0, 1.0]))
            w = np.asarray(f.k_space(x), float)
            if not (w[0] == 1.0 and np.all(np.isfinite(w)) and np.all(np.abs(w) <= 1 + 3e-4)):
                i = int(np.argmax(np.where(np.isfinite(w), np.abs(w), np.inf)))
                viol(f"{window}/window-bounds", f"{window}: W(0)={w[0]!r}; max |W| = {np.abs(w[i])!r} at kR={x[i]:.3g}")
            for meth, arg in (("k_space", "kr"), ("dw_dlnkr", "kr")):
                name = f"{window}_{meth}"
                if "tree" in comp.get(name, {}):
                    t = tup(comp[name]["tree"])
                    xs = x[x > 0]
                    got = np.asarray(getattr(f, meth)(xs), float)
                    env = auto_env(t, f, args={arg: xs})
                    reqs.append((f"Filters/{name}", len(xs), env, []))
                    rexp.append((name, got))
            # inverses with default and non-default parameters
            for params in ({}, {"c": 1.7}) if "c" in getattr(filters, window)._defaults else ({},):
                f = getattr(filters, window)(np.array([1.0, 2.0]), np.array([1.0, 1.0]), **params)
                m = 10 ** np.array([r.uniform(6, 16) for _ in range(6)])
                rad = 10 ** np.array([r.uniform(-2, 2) for _ in range(6)])
                rho = 10 ** r.uniform(10, 11.5)
                if not (np.allclose(f.radius_to_mass(f.mass_to_radius(m, rho), rho), m, rtol=1e-12) and np.allclose(f.mass_to_radius(f.radius_to_mass(rad, rho), rho), rad, rtol=1e-12)):
                    viol(f"{window}/inverse", f"{window}({params}): mass_to_radius and radius_to_mass are not mutual inverses")
                for meth, args in (("mass_to_radius", {"m": m, "rho_mean": rho}), ("radius_to_mass", {"r": rad, "rho_mean": rho})):
                    name = f"{window}_{meth}"
                    if "tree" in comp.get(name, {}):
                        t = tup(comp[name]["tree"])
                        got = np.asarray(getattr(f, meth)(*args.values()), float)
                        reqs.append((f"Filters/{name}", len(got), auto_env(t, f, args=args), []))
                        rexp.append((name, got))
        ans = lean_driver(lines)
        nbad = 0
        for (window, sname, order, s, radii), a in zip(exp, ans):
            g = quadcorr.decode(a)
            if isinstance(g, str) or not np.allclose(s, g, rtol=1e-10):
                nbad += 1
                if nbad == 1:
                    out["broken"].append({"kind": "correspondence", "what": f"discretised-sigma model differs from {window}.sigma(order={order}) on {sname}", "detail": {"impl": s.tolist(), "model": g if isinstance(g, str) else g.tolist()}})
        res = eval_lean_many(reqs)
        nbad2 = 0
        for (name, got), g in zip(rexp, res):
            if isinstance(g, str) or not close(got, g, rtol=1e-11, atol=1e-300).all():
                nbad2 += 1
                if nbad2 == 1:
                    out["broken"].append({"kind": "correspondence", "what": f"generated term {name} differs from the real filter method", "detail": {"impl": got[:3].tolist(), "model": g if isinstance(g, str) else g[:3].tolist()}})
    out["coverage"] = {
        "evaluations": len(lines) * 5 + nref + len(reqs), "programs": len(lines) + len(reqs), "disagreements_checked": len(lines) + len(reqs),
        "traces_validated_against_impl": len(lines) + len(reqs), "distinct_nontrivial": len(lines) + nref,
        "rule": "spectra: a power law with cut-off, four built-in transfer shapes with random n, a random smooth positive table, on log grids with dlnk in {0.02,0.05,0.1}; radii log-uniform in [0.03,50]; orders 0-2: Filter.sigma vs the Lean discretised-sigma model and vs an independent adaptive quadrature; windows on 830 arguments from 0 through 1e-300..1e3",
        "sigma_model_disagreements": nbad, "term_disagreements": nbad2, "reference_integrals": nref, "unresolved_skipped": nunres,
        "samples": [{"window": e[0], "spectrum": e[1], "order": e[2], "sigma": e[3][:2].tolist()} for e in exp[:2]],
        "search": "independent quadrature and algebraic oracles on the real filters",
    }
    return out


def replay(path):
    j = json.load(open(path))
    print(json.dumps(j.get("replay"), indent=1)[:800])
    res = run({"tier": "quick"})
    hit = [v for v in res["violations"] if v["key"] == j.get("key")]
    print(hit[:1] or "not reproduced on the current tree")
    return 1 if hit else 0
