"""C05 — the slope dln(sigma)/dln(m) is the derivative of the sigma returned.
real code: slope vs centred differences of the object's own ln sigma (all filters, transfer models, z), negativity, analytic window
derivative vs finite differences of the window in ln(kR) over the whole argument range (incl. below the guards), n_eff identity on
fresh objects and along direct-assignment sequences.  Lean: window-derivative theorems, n_eff / chain identities on generated terms."""
import warnings, copy
import numpy as np
import realfuzz
from exprcorr import *


def run(ctx):
    quick = ctx["tier"] == "quick"
    realfuzz.init()
    from hmf.mass_function.hmf import MassFunction
    from hmf.density_field import filters
    out = {"violations": [], "broken": [], "coverage": {}, "assumptions": [
        "slope vs numerical derivative of the object's own sigma: tolerance 3e-5 absolute on grids with dlnk=0.02 and dlog10m=0.01 (top-hat/Gaussian), 2e-3 for sharp-k filters",
        "window derivative vs centred differences: 4th-order stencil, relative tolerance 1e-4 for kR >= 0.05; series comparison below"]}
    V = out["violations"]

    def viol(key, what, rp=None):
        if not any(v["key"] == key for v in V):
            V.append({"key": key, "what": what, "replay": dict(rp or {}, kind="c05", tree=tree_hash())})
    r = rng("c05")
    ncase = 0
    with warnings.catch_warnings():
        warnings.simplefilter("ignore")
        np.seterr(all="ignore")
        # analytic window derivative vs finite differences, through and below the guards
        for window in ("TopHat", "Gaussian"):
            f = getattr(filters, window)(np.array([1.0, 2.0]), np.array([1.0, 1.0]))
            s = np.linspace(np.log(0.05), np.log(60.0), 1500)   # below ~0.05 the finite difference of W itself is dominated by cancellation
            h = 2e-3
            Wf = lambda t: np.asarray(f.k_space(np.exp(t)), float)
            num = (-Wf(s + 2 * h) + 8 * Wf(s + h) - 8 * Wf(s - h) + Wf(s - 2 * h)) / (12 * h)     # 4th-order stencil
            ana = np.asarray(f.dw_dlnkr(np.exp(s)), float)
            big = (np.abs(ana) > 1e-9) | (np.abs(num) > 1e-7)
            ncase += len(s)
            if not np.allclose(num[big], ana[big], rtol=1e-4, atol=1e-8):
                i = int(np.argmax(np.abs(num - ana)))
                viol(f"{window}/window-derivative", f"{window}.dw_dlnkr differs from the numerical derivative of the window w.r.t. ln(kR): at kR={np.exp(s[i]):.4g} analytic {ana[i]:.6g}, numerical {num[i]:.6g}")
            # small arguments: compare with the series (true derivative -> -kR^2/5 for the top-hat, -kR^2 for the Gaussian)
            xs = 10 ** np.linspace(-2.9, -1.3, 40)
            ana = np.asarray(f.dw_dlnkr(xs), float)
            series = -xs ** 2 / 5 if window == "TopHat" else -xs ** 2 * np.exp(-xs ** 2 / 2)
            if not np.allclose(ana, series, rtol=2e-3, atol=0):
                i = int(np.argmax(np.abs(ana / series - 1)))
                viol(f"{window}/window-derivative/small-argument", f"{window}.dw_dlnkr at kR={xs[i]:.4g} is {ana[i]:.6g}, the true derivative is {series[i]:.6g}")
            # large arguments (fast oscillation, envelope 3/kR for the top-hat): the derivative written out independently
            xl = 10 ** np.linspace(np.log10(60.0), np.log10(5000.0), 400)
            al = np.asarray(f.dw_dlnkr(xl), float)
            tl = (9 * xl * np.cos(xl) + 3 * (xl ** 2 - 3) * np.sin(xl)) / xl ** 3 if window == "TopHat" else -xl ** 2 * np.exp(-xl ** 2 / 2)
            ncase += len(xl)
            if not np.allclose(al, tl, rtol=1e-6, atol=1e-10):
                i = int(np.argmax(np.abs(al - tl)))
                viol(f"{window}/window-derivative/large-argument", f"{window}.dw_dlnkr at kR={xl[i]:.5g} is {al[i]:.6g}, the derivative of the window w.r.t. ln(kR) is {tl[i]:.6g}", {"kr": float(xl[i])})
            # at and below the top-hat's small-argument guard the closed form is replaced by a constant: absolute comparison with the series
            if window == "TopHat":
                xt = np.concatenate([10 ** np.linspace(-8, -3, 30), [1e-3, 9.99e-4, 5e-4]])
                at = np.asarray(f.dw_dlnkr(xt), float)
                st = -xt ** 2 / 5 + xt ** 4 / 70
                ncase += len(xt)
                if not np.all(np.abs(at - st) <= 2.5e-7):
                    i = int(np.argmax(np.abs(at - st)))
                    viol("TopHat/window-derivative/below-guard", f"TopHat.dw_dlnkr at kR={xt[i]:.4g} is {at[i]:.6g}, the true derivative is {st[i]:.6g} (allowed absolute error 2.5e-7)", {"kr": float(xt[i])})
        # slope vs numerical derivative of own sigma
        for rep in range(4 if quick else 40):
            cfg = dict(transfer_model=r.choice(["EH", "BBKS", "EH_NoBAO", "BondEfs"]), lnk_min=-14.0, lnk_max=11.0, dlnk=0.02,
                       Mmin=9.0, Mmax=15.5, dlog10m=0.01, z=r.choice([0.0, 1.0, 3.0]), filter_model=r.choice(["TopHat", "Gaussian", "SharpK", "SharpKEllipsoid"]),
                       cosmo_params=r.choice([{}, {"Om0": 0.25}]), hmf_model="SMT")
            if rep < 4:
                cfg["filter_model"] = ["SharpKEllipsoid", "TopHat", "SharpK", "Gaussian"][rep]      # every filter at least once (their dlnr/dlnm differ)
            if rep in (1, 3):
                # a wavenumber range narrow enough to truncate the variance integral: slope and sigma must still belong together
                cfg.update(lnk_min=[-14.0, float(np.log(1e-3))][rep // 2], lnk_max=[float(np.log(10.0)), 11.0][rep // 2], Mmin=10.0 if rep == 1 else 9.0)
            mf = MassFunction(**copy.deepcopy(cfg))
            lns, lnm = np.log(mf.sigma), np.log(mf.m)
            num = np.gradient(lns, lnm)
            ana = mf._dlnsdlnm
            sl = slice(20, -20)
            ncase += 1
            tol = 3e-5 if cfg["filter_model"] in ("TopHat", "Gaussian") else 2e-3
            if not np.allclose(num[sl], ana[sl], rtol=0, atol=tol):
                i = int(np.argmax(np.abs(num[sl] - ana[sl]))) + 20
                viol(f"{cfg['filter_model']}/slope-vs-own-sigma", f"{cfg['filter_model']} ({cfg['transfer_model']}, z={cfg['z']}): slope {ana[i]:.6f} vs numerical derivative of ln sigma {num[i]:.6f} at m={mf.m[i]:.3g}", {"config": str(cfg)})
            if np.any(ana[sl] >= 0):
                viol(f"{cfg['filter_model']}/slope-sign", f"{cfg['filter_model']}: dln(sigma)/dln(m) is not negative everywhere in the grid interior", {"config": str(cfg)})
            if not np.allclose(mf.n_eff, -3 * (2 * mf._dlnsdlnm + 1), rtol=1e-13):
                viol("n_eff-identity", f"n_eff != -3(2 dlnsigma/dlnm + 1) for filter {cfg['filter_model']} (max dev {float(np.max(np.abs(mf.n_eff + 3 * (2 * mf._dlnsdlnm + 1)))):.3g})", {"config": str(cfg)})
            # identity must survive any order of reads / direct assignment
            mf2 = MassFunction(**copy.deepcopy(cfg))
            mf2.dndm
            mf2.Mmax = 15.0
            mf2.dndm
            ne, sl2 = mf2.n_eff, mf2._dlnsdlnm
            if not (np.allclose(ne, -3 * (2 * sl2 + 1), rtol=1e-13) and np.all(sl2[20:-20] < 0)):
                viol("n_eff-identity/after-dndm", "after reading dndm, assigning Mmax directly and reading dndm again, n_eff and the slope are no longer consistent/negative", {"config": str(cfg)})
            fr = MassFunction(**dict(copy.deepcopy(cfg), Mmax=15.0))
            if not (np.array_equal(fr._dlnsdlnm, sl2) and np.array_equal(fr.n_eff, ne)):
                viol("slope/modified-in-place", "the cached slope differs from a fresh object's after dndm was read (cached array modified in place)", {"config": str(cfg)})
        # ... and any later change of the mass range on the same object (the slope must follow the sigma the object returns *now*)
        for filt in ("TopHat", "Gaussian"):
            mf3 = MassFunction(transfer_model="EH", lnk_min=-14.0, lnk_max=13.0, dlnk=0.02, Mmin=12.0, Mmax=15.0, dlog10m=0.01, filter_model=filt, hmf_model="SMT")
            mf3.dndm
            mf3.update(Mmin=6.0)
            lns, lnm = np.log(mf3.sigma), np.log(mf3.m)
            num, ana = np.gradient(lns, lnm), mf3._dlnsdlnm
            ncase += 1
            if not np.allclose(num[20:-20], ana[20:-20], rtol=0, atol=3e-5):
                i = int(np.argmax(np.abs(num[20:-20] - ana[20:-20]))) + 20
                viol(f"{filt}/slope-vs-own-sigma/after-update", f"{filt}: after update(Mmin=6) on an object built with Mmin=12, slope {ana[i]:.6f} vs numerical derivative of the object's own ln sigma {num[i]:.6f} at m={mf3.m[i]:.3g}",
                     {"filter": filt, "sequence": "MassFunction(Mmin=12); dndm; update(Mmin=6); _dlnsdlnm vs gradient(ln sigma)"})
        # ... for every filter, also when the new grid has the same number of bins as the old one: slope and sigma are those of a fresh object
        for filt in ("TopHat", "Gaussian", "SharpK", "SharpKEllipsoid"):
            kwf = dict(transfer_model="EH", lnk_min=-12.0, lnk_max=12.0, dlnk=0.05, Mmin=12.0, Mmax=15.0, dlog10m=0.05, filter_model=filt, hmf_model="SMT")
            mf4 = MassFunction(**kwf)
            mf4.dndm; mf4.n_eff
            for chg in ({"Mmin": 12.5, "Mmax": 15.5}, {"Mmin": 9.0, "Mmax": 12.0}, {"z": 1.0}):
                mf4.update(**chg)
                kwf.update(chg)
                fr4 = MassFunction(**kwf)
                ncase += 1
                if not (np.allclose(mf4._dlnsdlnm, fr4._dlnsdlnm, rtol=1e-10) and np.allclose(mf4.sigma, fr4.sigma, rtol=1e-10) and np.allclose(mf4.n_eff, fr4.n_eff, rtol=1e-10)):
                    dev_ = float(np.max(np.abs(mf4._dlnsdlnm / fr4._dlnsdlnm - 1)))
                    viol(f"{filt}/slope-after-grid-shift", f"{filt}: after update({chg}) (same number of mass bins) the slope differs from a fresh object's by up to {dev_:.3g}: it is no longer the slope of the sigma the object returns",
                         {"filter": filt, "sequence": f"MassFunction(Mmin=12, Mmax=15, dlog10m=0.05, filter_model={filt!r}); dndm; update({chg})"})
                    break
        # every fitting function is handed the framework's arrays (m, nu^2, n_eff, ...) by reference: evaluating it first must leave the
        # slope quantities those of an object that never evaluated a fit — on a grid reaching dwarf masses (n_eff close to -3)
        from hmf.mass_function import fitting_functions as ff_
        kwr = dict(transfer_model="EH", lnk_min=-14.0, lnk_max=16.0, dlnk=0.05, Mmin=3.0, Mmax=15.0, dlog10m=0.25)
        ref = MassFunction(**kwr)
        refq = {q: np.array(getattr(ref, q)) for q in ("n_eff", "_dlnsdlnm", "sigma", "nu", "m")}
        for name_ in sorted(ff_.FittingFunction._plugins):
            for zf in (0.0, 2.0):
                try:
                    mfr = MassFunction(hmf_model=name_, z=zf, **kwr)
                    mfr.fsigma
                    mfr.dndm
                except Exception:
                    continue
                ncase += 1
                for q in ("n_eff", "_dlnsdlnm", "m"):
                    if not np.array_equal(np.asarray(getattr(mfr, q)), refq[q]):
                        dev_ = float(np.nanmax(np.abs(np.asarray(getattr(mfr, q)) - refq[q])))
                        viol(f"slope/modified-in-place/{name_}", f"hmf_model={name_}, z={zf}: after fsigma and dndm were read, {q} differs from the value on an object that evaluated no fit (max abs dev {dev_:.3g}); "
                             "n_eff is no longer -3(2 dln sigma/dln m + 1) of the sigma the object returns",
                             {"hmf_model": name_, "z": zf, "quantity": q, "sequence": f"MassFunction(hmf_model={name_!r}, Mmin=3, ...); fsigma; dndm; {q}"})
                        break
                if zf == 0.0 and not np.allclose(mfr.n_eff, -3 * (2 * mfr._dlnsdlnm + 1), rtol=1e-13):
                    viol(f"n_eff-identity/after-fit/{name_}", f"hmf_model={name_}: after the fit was evaluated n_eff != -3(2 dlnsigma/dlnm + 1)", {"hmf_model": name_})
    out["coverage"] = {
        "evaluations": ncase, "distinct_nontrivial": ncase,
        "rule": "window derivatives on 1500 arguments per differentiable window plus 40 small arguments; slopes for random (transfer model, z, cosmology) x all four filters on fine grids (dlnk=0.02, dlog10m=0.01), interior masses; n_eff identity on fresh objects and after dndm / direct assignment sequences",
        "samples": [f"{ncase} cases"], "search": "finite differences of the object's own sigma and window",
    }
    return out


def replay(path):
    j = json.load(open(path))
    print(json.dumps(j.get("replay"), indent=1)[:800])
    res = run({"tier": "quick"})
    hit = [v for v in res["violations"] if v["key"] == j.get("key")]
    print(hit[:1] or "not reproduced on the current tree")
    return 1 if hit else 0
