"""C06 — fitting functions evaluate their documented closed forms.
tie: generated terms (Gen/ExprFits.lean, from the current source) evaluated by the Lean driver at Float vs the real
`fsigma` on random inputs and random overrides of every model parameter.  search / oracle: the real `fsigma` vs the
hand-written specification terms (Spec/Fits.lean) at Float; published defaults vs the reference table; continuity of the
overdensity-interpolated fits across their tabulated values."""
import warnings
import numpy as np
import realfuzz
from exprcorr import *


def build_case(r, name, meta, tup, ff, md, sp, cosmo, n=6, override=True, delta=None, z=None):
    cls = getattr(ff, name)
    t = tup(meta["fsigma"])
    sigma = np.exp(np.array([r.uniform(np.log(0.05), np.log(30)) for _ in range(n)]))
    z = r.choice([0.0, 0.0, 0.3, 1.0, 2.5, 5.9, 6.0, 7.5, 10.0]) if z is None else z
    dc = r.choice([1.686, 1.5, 1.8])
    nu2 = (dc / sigma) ** 2
    m = 10 ** np.array([r.uniform(9, 16) for _ in range(n)])
    neff = np.array([r.uniform(-2.9, -0.1) for _ in range(n)])
    delta = r.choice([200, 300, 400, 600, 800, 1200, 1600, 2400, 3200, 250.0, 500.0, 1000.0, 2000.5, 210.3, 200.5, 400.97, 1600.3, 800.999]) if delta is None else delta   # also strictly inside (d, d+1) above a tabulated d
    if getattr(build_case, "force_cosmo", None) is not None:
        cosmo, z = build_case.force_cosmo
        nu2 = nu2   # (inputs unchanged; only the cosmology and redshift are pinned)
    if getattr(build_case, "force_delta", None) is not None:
        delta = build_case.force_delta
    mdef = md.SOMean(overdensity=delta)
    if delta is not None and getattr(build_case, "vary_definition", False) and getattr(build_case, "force_delta", None) is None and r.random() < 0.35:
        # other definitions and a cosmology that differs from the library default: the overdensity the fit sees then depends on the
        # instance's own cosmology and redshift
        mdef = r.choice([md.SOCritical(overdensity=float(r.choice([200, 300, 500.0]))), md.SOVirial()])
        cosmo = cosmo.clone(Om0=r.choice([0.25, 0.4]), H0=r.choice([62.0, 74.0]))
    params = {}
    if override and r.random() < 0.7:
        d = cls._defaults
        ks = [k for k, v in d.items() if isinstance(v, (int, float)) and not isinstance(v, bool) and k not in ("z_hi", "max_z")]
        for k in r.sample(ks, min(len(ks), r.randint(1, 4))):
            params[k] = float(d[k]) * r.uniform(0.9, 1.1) if d[k] != 0 else r.uniform(-0.05, 0.05)
    if cls._defaults.get("A", 0) is None and override and r.random() < 0.5:
        params["A"] = r.uniform(0.2, 0.4)          # a default of None (automatic amplitude) overridden by a number
    if "A" in cls._defaults and name not in ("Tinker08",) and "A" not in params and (r.random() < 0.25 or getattr(build_case, "force_none", False)) and "isnone:p.A" in free_vars(t):
        params["A"] = None          # a meaningful None: the amplitude that normalises the mass fraction
    with LocalsTracer("fitting_functions") as tr:
        obj = cls(nu2=nu2, m=m, z=z, n_eff=neff, mass_definition=mdef, cosmo=cosmo, delta_c=dc, **params)
    iso_f = None
    if getattr(build_case, "force_cosmo", None) is not None:
        # the same instance inputs with the cosmology under a name of its own (physically identical): the value is a function of the inputs only
        build_case._iso = getattr(build_case, "_iso", 0) + 1
        try:
            iso_f = np.asarray(cls(nu2=nu2, m=m, z=z, n_eff=neff, mass_definition=mdef, cosmo=cosmo.clone(name=f"verif-iso-{build_case._iso}"), delta_c=dc, **params).fsigma, float)
        except Exception:
            iso_f = None
    loc = {}
    for c in meta["mro"]:
        loc.update(tr.locals.get(c, {}))
    ns = dict(loc); ns.update({"self": obj, "np": np, "md": md})
    # the overdensity with respect to the mean, computed independently from the mass definition at the instance's own redshift and
    # cosmology (the documented form is evaluated on this one)
    dh_ind = float(mdef.halo_overdensity_mean(z, cosmo))
    base = {"nu2": nu2, "m": m, "n_eff": neff, "z": float(z), "delta_c": dc, "delta_halo": dh_ind}
    dh_traced = loc.get("delta_halo")

    def env_for(tree):
        env = {}
        for v in free_vars(tree):
            if v in base: env[v] = base[v]
            elif v.startswith("p."): env[v] = float(obj.params[v[2:]]) if obj.params.get(v[2:]) is not None else float("nan")
            elif v.startswith("isnone:p."): env[v] = 1.0 if obj.params.get(v[9:]) is None else 0.0
            elif v.startswith("isnone:"): env[v] = 1.0 if getattr(obj, v[7:]) is None else 0.0
            elif v.startswith("flag:"):
                try: env[v] = 1.0 if eval(v[5:], ns) else 0.0
                except Exception: env[v] = float("nan")
            elif v.startswith("py:"):
                try: env[v] = float(eval(v[3:], ns))
                except Exception: env[v] = float("nan")
            elif v.startswith("loc:"): env[v] = float(loc.get(v.split(".", 1)[1], float("nan")))
            else: env[v] = float("nan")
        return env

    def opq(f, a):
        if f == "Gamma": return sp.gamma(a)
        if f == "cosmo.Om": return obj.cosmo.Om(a)
        return float("nan")
    env = env_for(t)
    calls = []
    for i in range(n):
        try:
            ev_py(t, {k: (v[i] if np.ndim(v) else v) for k, v in env.items()}, opq, calls)
        except Exception:
            pass
    calls = list({(a, b): (a, b, c) for a, b, c in calls}.values())
    return obj, env, calls, {"fit": name, "z": float(z), "delta_c": dc, "delta_halo": base["delta_halo"], "delta_halo_traced": (None if dh_traced is None else float(dh_traced)),
                             "mdef": str(mdef), "Om0": float(cosmo.Om0), "params": params, "fsigma_isolated": (None if iso_f is None else iso_f.tolist()),
                             "sigma": sigma.tolist(), "m": m.tolist(), "n_eff": neff.tolist()}, env_for


def check_interpolated_coefficients(name, obj, desc, env_for):
    """between tabulated overdensities the coefficients must be the spline through *this instance's* tabulated parameters"""
    from scipy.interpolate import InterpolatedUnivariateSpline as Spl
    dv = np.asarray(type(obj).delta_virs, float)
    d = desc["delta_halo"]
    in_table = (d in dv) if name == "Tinker08" else (int(d) in dv)
    if in_table:
        return None
    keys = ("A", "a", "b", "c") if name == "Tinker08" else ("beta", "gamma", "phi", "eta")
    owner = "Tinker08" if name == "Tinker08" else "Tinker10"
    for k in keys:
        want = float(Spl(dv, np.array([obj.params[f"{k}_{int(x)}"] for x in dv]))(d))
        got = env_for(("var", f"loc:{owner}.{k}_0")).get(f"loc:{owner}.{k}_0")
        if got is None or not np.isclose(got, want, rtol=1e-12, atol=1e-15):
            return {"key": f"{name}/interpolated-coefficient", "what": f"{name}: coefficient {k} at overdensity {d} is {got!r}, the spline through this instance's tabulated parameters gives {want!r} (overrides {desc['params']})",
                    "replay": {"kind": "c06", "case": desc}}
    return None


SPEC_VARS = {}


def run(ctx):
    quick = ctx["tier"] == "quick"
    realfuzz.init()
    out = {"violations": [], "broken": [], "coverage": {}, "assumptions": [
        "Γ, cosmo.Om and the overdensity splines are opaque: their values are taken from the real callee",
        "agreement is checked to rtol 1e-10 in binary64; the theorems are about exact reals"]}
    from hmf.mass_function import fitting_functions as ff
    from hmf.halos import mass_definitions as md
    import scipy.special as sp
    from astropy.cosmology import Planck15
    J, tup = load()
    spec_trees = json.load(open(os.path.join(LEAN_DIR, "HmfVerif", "Gen", "spec_vars.json"))) if os.path.exists(os.path.join(LEAN_DIR, "HmfVerif", "Gen", "spec_vars.json")) else {}
    r = rng("c06")
    reps = 9 if quick else 80
    reqs, metas = [], []
    with warnings.catch_warnings():
        warnings.simplefilter("ignore")
        np.seterr(all="ignore")
        for name, meta in sorted(J["fits"].items()):
            for rep_ in range(reps):
                build_case.vary_definition = name in ("Tinker08", "Tinker10", "Behroozi", "Watson")
                build_case.force_none = rep_ == 0          # the meaningful None (automatic amplitude) at least once per fit that has it
                build_case.force_delta = [200.5, 400.97][rep_] if (rep_ < 2 and name in ("Tinker08", "Tinker10", "Behroozi")) else None
                # fits that read the cosmology: two different cosmologies that share their astropy name, at the same redshift, one after the other
                build_case.force_cosmo = (Planck15.clone(Om0=[0.25, 0.4][rep_], H0=[62.0, 74.0][rep_]), 1.0) if (rep_ < 2 and name in ("Watson", "Tinker08", "Tinker10", "Behroozi")) else None
                try:
                    obj, env, calls, desc, env_for = build_case(r, name, meta, tup, ff, md, sp, Planck15)
                except Exception as e:
                    continue   # e.g. Tinker10 parameter overrides that make the constructor raise: outside the fit's domain
                got = np.asarray(obj.fsigma, float)
                # "class defaults overridden by user-supplied values": the instance's parameters are the defaults with exactly the supplied
                # entries replaced (a supplied None included: for the SMT family it is the request for the normalising amplitude)
                want_p = dict(type(obj)._defaults); want_p.update(desc.get("params", {}))
                bad_p = [k_ for k_ in want_p if k_ in desc.get("params", {}) and not (obj.params.get(k_, "<missing>") is want_p[k_] or obj.params.get(k_, "<missing>") == want_p[k_])]
                if bad_p and not any(v["key"] == f"{name}/override-not-applied" for v in out["violations"]):
                    out["violations"].append({"key": f"{name}/override-not-applied", "what": f"{name}: user-supplied model parameter {bad_p[0]}={desc['params'][bad_p[0]]!r} is not what the instance uses (params[{bad_p[0]!r}] = {obj.params.get(bad_p[0])!r})",
                                              "replay": {"kind": "c06", "fit": name, "overrides": {k_: repr(v_) for k_, v_ in desc["params"].items()}}})
                if desc.get("fsigma_isolated") is not None and not np.allclose(got, np.asarray(desc["fsigma_isolated"], float), rtol=1e-12, equal_nan=True):
                    if not any(v["key"] == f"{name}/depends-on-earlier-instances" for v in out["violations"]):
                        out["violations"].append({"key": f"{name}/depends-on-earlier-instances", "what": f"{name} at z={desc['z']}, Om0={desc['Om0']}: f(sigma) differs by up to {float(np.nanmax(np.abs(got / np.asarray(desc['fsigma_isolated'], float) - 1))):.3g} from the same instance inputs with the (identical) cosmology given under another name, after an instance with a different cosmology of the same astropy name was evaluated",
                                                  "replay": {"kind": "c06", "case": {k_: v_ for k_, v_ in desc.items() if k_ not in ("sigma", "m", "n_eff", "fsigma_isolated")}}})
                tr_ = desc.get("delta_halo_traced")
                if tr_ is not None and not np.isclose(tr_, desc["delta_halo"], rtol=1e-12):
                    key_ = f"{name}/overdensity-seen-by-fit"
                    if not any(v["key"] == key_ for v in out["violations"]):
                        out["violations"].append({"key": key_, "what": f"{name}: the halo overdensity used inside the fit ({tr_:.6g}) is not the mass definition's overdensity w.r.t. the mean at the instance's redshift and cosmology ({desc['delta_halo']:.6g}; {desc['mdef']}, z={desc['z']}, Om0={desc['Om0']})",
                                                  "replay": {"kind": "c06", "case": {k_: v_ for k_, v_ in desc.items() if k_ not in ("sigma", "m", "n_eff", "fsigma_isolated")}}})
                if name in ("Tinker08", "Tinker10", "Behroozi"):
                    bad = check_interpolated_coefficients(name, obj, desc, env_for)
                    if bad and not any(v["key"] == bad["key"] for v in out["violations"]):
                        out["violations"].append(bad)
                # spec terms use the same variable vocabulary: send the union (unknown names are ignored by the driver)
                senv = dict(env)
                # the documented form has its own inputs, whatever the code's body happens to mention
                senv.update({"nu2": (desc["delta_c"] / np.asarray(desc["sigma"], float)) ** 2, "m": np.asarray(desc["m"], float), "n_eff": np.asarray(desc["n_eff"], float),
                             "z": desc["z"], "delta_c": desc["delta_c"]})
                for extra in ("isnone:mass_definition", "delta_halo"):
                    if extra not in senv:
                        senv[extra] = 0.0 if extra.startswith("isnone") else desc["delta_halo"]
                for k in obj.params:
                    if f"p.{k}" not in senv and isinstance(obj.params[k], (int, float)):
                        senv[f"p.{k}"] = float(obj.params[k])
                if "isnone:p.A" not in senv:
                    senv["isnone:p.A"] = 1.0 if obj.params.get("A", 0) is None else 0.0
                # the documented form is evaluated on what the *caller asked for*, not on what the instance kept
                for k, v in desc["params"].items():
                    senv[f"p.{k}"] = float("nan") if v is None else float(v)
                    senv[f"isnone:p.{k}"] = 1.0 if v is None else 0.0
                # opaque locals / dynamic table entries the spec refers to by the same names
                for v in list(free_vars(tup(J["fits"]["Tinker08"]["fsigma"])) | free_vars(tup(J["fits"]["Tinker10"]["fsigma"]))):
                    if v not in senv and (v.startswith("loc:") or v.startswith("py:") or v.startswith("flag:")):
                        senv.update({k2: v2 for k2, v2 in env_for(("var", v)).items()})
                reqs.append((f"Fits/{name}_fsigma", len(got), env, calls))
                reqs.append((f"SpecFits/{name}", len(got), senv, calls + [("Gamma", 0.5, float(sp.gamma(0.5)))]))
                metas.append((name, got, desc))
    res = eval_lean_many(reqs)
    n_gen_bad, n_spec_bad, n = 0, 0, 0
    samples = []
    for i, (name, got, desc) in enumerate(metas):
        g, s = res[2 * i], res[2 * i + 1]
        n += 1
        ok_g = (not isinstance(g, str)) and close(got, g, rtol=1e-10).all()
        ok_s = (not isinstance(s, str)) and close(got, s, rtol=1e-10).all()
        if len(samples) < 2:
            samples.append({"case": {k: (v if not isinstance(v, list) else v[:2]) for k, v in desc.items()}, "impl": got[:2].tolist()})
        if not ok_g:
            n_gen_bad += 1
            if n_gen_bad == 1:
                out["broken"].append({"kind": "correspondence", "what": f"generated term Fits/{name}_fsigma at Float differs from the real fsigma (translator or interpreter out of step with the code)",
                                      "detail": {"case": desc, "impl": got.tolist(), "model": g if isinstance(g, str) else g.tolist()}})
        if not ok_s:
            n_spec_bad += 1
            j = 0 if isinstance(s, str) else int(np.argmax(~close(got, s, rtol=1e-10)))
            key = f"{name}/closed-form"
            spec_unevaluable = isinstance(s, str) or (np.isnan(s[j]) and np.isfinite(got[j]))
            if spec_unevaluable:
                # the documented form could not be evaluated on this case (e.g. it refers to an opaque quantity the harness can no longer
                # read off the instance after a restructuring of the source): not a failing input, but the tie is broken
                if not any(b.get("what", "").startswith(f"documented form of {name}") for b in out["broken"]):
                    out["broken"].append({"kind": "correspondence", "what": f"documented form of {name} could not be evaluated on the harness inputs ({s if isinstance(s, str) else 'NaN'})"})
                continue
            if not any(v["key"] == key for v in out["violations"]):
                out["violations"].append({"key": key, "what": f"{name}.fsigma differs from its documented closed form: sigma={desc['sigma'][j]:.6g} z={desc['z']} -> code {got[j]!r} vs documented form {(s if isinstance(s, str) else s[j])!r}",
                                          "replay": {"kind": "c06", "case": desc, "element": j, "impl": got.tolist(), "spec": s if isinstance(s, str) else s.tolist()}})
    # published defaults against the reference table, on the real classes (the theorem does this on the generated table)
    ref = open(os.path.join(LEAN_DIR, "HmfVerif", "Spec", "PublishedFits.lean")).read()
    import re
    ndef = 0
    for m in re.finditer(r'\("(\w+)", \[(.*?)\]\)', ref):
        cls = getattr(ff, m.group(1), None)
        for k, mm, ee in re.findall(r'\("([\w]+)", (-?\d+), (-?\d+)\)', m.group(2)):
            ndef += 1
            v = int(mm) * 10.0 ** int(ee) if int(ee) >= 0 else int(mm) / 10.0 ** (-int(ee))
            w = cls._defaults.get(k) if cls is not None else None
            if w is None or isinstance(w, bool) or abs(v - w) > 1e-15 * max(1.0, abs(v)):
                key = f"{m.group(1)}/default/{k}"
                if not any(x["key"] == key for x in out["violations"]):
                    out["violations"].append({"key": key, "what": f"{m.group(1)}._defaults[{k!r}] = {w!r}, published value {v!r}",
                                              "replay": {"kind": "c06-default", "fit": m.group(1), "key": k, "published": v, "code": w}})
    # alias classes identical to their targets
    for a, tname in (("ST", "SMT"),):
        A, T = getattr(ff, a), getattr(ff, tname)
        if A._defaults != T._defaults or A.fsigma is not T.fsigma or A.cutmask is not T.cutmask:
            out["violations"].append({"key": f"alias/{a}", "what": f"alias class {a} is no longer identical to {tname}", "replay": {"kind": "c06-alias", "alias": a}})
        # ... in every class-level attribute and class-level query too (requirements flags, simulation definition, the mass definition the
        # fit was measured with), and as instances (mass definitions seen, parameters, outputs)
        def desc_(x):
            return None if x is None else (type(x).__name__, sorted((k_, repr(v_)) for k_, v_ in getattr(x, "params", {}).items()))
        diffs = []
        for nm in sorted(set(dir(T)) | set(dir(A))):
            if nm.startswith("__") or nm in ("_plugins",):
                continue
            va, vt = getattr(A, nm, "<missing>"), getattr(T, nm, "<missing>")
            if callable(va) or callable(vt) or isinstance(va, property) or isinstance(vt, property):
                continue
            same = (va is vt) or (repr(va) == repr(vt))
            if not same:
                diffs.append(f"{nm}: {va!r} vs {vt!r}")
        try:
            if desc_(A.get_measured_mdef()) != desc_(T.get_measured_mdef()):
                diffs.append(f"get_measured_mdef(): {desc_(A.get_measured_mdef())} vs {desc_(T.get_measured_mdef())}")
            kw_ = dict(nu2=np.array([0.3, 1.0, 4.0]), m=np.array([1e11, 1e13, 1e15]), z=0.5, cosmo=Planck15, delta_c=1.686, n_eff=np.array([-2.0, -1.5, -1.0]))
            ia, it = A(**kw_), T(**kw_)
            for attr in ("mass_definition", "measured_mass_definition"):
                if desc_(getattr(ia, attr, None)) != desc_(getattr(it, attr, None)):
                    diffs.append(f"instance.{attr}: {desc_(getattr(ia, attr, None))} vs {desc_(getattr(it, attr, None))}")
            if ia.params != it.params or not np.array_equal(ia.fsigma, it.fsigma):
                diffs.append("instance params / fsigma differ")
        except Exception as e:
            diffs.append(f"alias comparison raised {type(e).__name__}: {e}")
        if diffs and not any(x["key"] == f"alias/{a}" for x in out["violations"]):
            out["violations"].append({"key": f"alias/{a}", "what": f"alias class {a} is not identical to {tname}: " + "; ".join(diffs[:4]), "replay": {"kind": "c06-alias", "alias": a, "differences": diffs[:8]}})
    # continuity across tabulated overdensities (numerical clause [N])
    ncont = 0
    with warnings.catch_warnings():
        warnings.simplefilter("ignore")
        for name in ("Tinker08", "Tinker10", "Behroozi"):
            cls = getattr(ff, name)
            for d in cls.delta_virs:
                for z in (0.0, 1.0):
                    sig = np.exp(np.linspace(np.log(0.1), np.log(10), 9))
                    kw = dict(nu2=(1.686 / sig) ** 2, z=z, cosmo=Planck15, delta_c=1.686)
                    at = cls(mass_definition=md.SOMean(overdensity=float(d)), **kw).fsigma
                    # Tinker10 selects the table with int(Δ): approach the node from below for it
                    lo = cls(mass_definition=md.SOMean(overdensity=float(d) * (1 - 1e-9)), **kw).fsigma
                    hi = cls(mass_definition=md.SOMean(overdensity=float(d) * (1 + 1e-9)), **kw).fsigma
                    ncont += 1
                    # at z=0 on a node Tinker10 switches to the tabulated normalisation alpha_Δ (documented); elsewhere continuous
                    tol = 5e-2 if (name != "Tinker08" and z == 0.0) else 1e-6
                    if not (close(at, lo, rtol=tol).all() and close(at, hi, rtol=tol).all()):
                        key = f"{name}/continuity"
                        if not any(x["key"] == key for x in out["violations"]):
                            out["violations"].append({"key": key, "what": f"{name}: f(sigma) jumps across tabulated overdensity {d} at z={z} (max rel. jump {float(np.max(np.abs(lo / at - 1))):.3g})",
                                                      "replay": {"kind": "c06-continuity", "fit": name, "delta": float(d), "z": z}})
    out["coverage"] = {
        "evaluations": n * 6, "programs": n, "disagreements_checked": 2 * n, "traces_validated_against_impl": n,
        "distinct_nontrivial": n,
        "rule": "per registered fit: random sigma in (0.05,30) (log-uniform), z in {0..10 incl. the Watson branch points}, delta_c, overdensity at and between tabulated values, n_eff in (-3,0), random +-10% overrides of 1-4 model parameters; each case evaluated by (a) the real fsigma, (b) the generated term at Float, (c) the specification term at Float",
        "gen_disagreements": n_gen_bad, "spec_disagreements": n_spec_bad, "defaults_checked": ndef, "continuity_nodes": ncont,
        "samples": samples, "search": "real fsigma vs specification terms at Float over the same random grid",
    }
    return out


def replay(path):
    j = json.load(open(path))
    print(json.dumps(j.get("replay"), indent=1)[:1200])
    res = run({"tier": "quick"})
    hit = [v for v in res["violations"] if v["key"] == j.get("key")]
    print(hit[:1] or "not reproduced with the quick generator on the current tree")
    return 1 if hit else 0
