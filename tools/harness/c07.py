"""C07 — fits are pointwise, finite, non-negative, single-peaked and bounded.
Lean: elementwise-ness of every regenerated term (decide) + locality theorem, sign theorems on the generated terms.
real code: exact permutation/subset equivariance, dense (nu, z) sweeps for sign/finiteness/limit/peak/unimodality,
cutmask typing, collapsed fraction of the unit-normalised fits (scipy quad)."""
import warnings
import numpy as np
import realfuzz
from exprcorr import *

PS_PEAK = float(np.sqrt(2 / np.pi) * np.exp(-0.5))


def make(ff, md, name, nu2, z, cosmo, m=None, neff=None, delta=200.0, **params):
    n = len(nu2)
    m = 10 ** np.linspace(9, 16, n) if m is None else m
    neff = np.full(n, -1.5) if neff is None else neff
    return getattr(ff, name)(nu2=nu2, m=m, z=z, n_eff=neff, mass_definition=md.SOMean(overdensity=delta), cosmo=cosmo, delta_c=1.686, **params)


def hypotheses_of_sign_theorems():
    """the sign hypotheses of the `<Fit>_nonneg` theorems, read from Props/C07.lean: {fit: [(relation, variable)]}"""
    import re
    src = open(os.path.join(LEAN_DIR, "HmfVerif", "Props", "C07.lean")).read()
    out = {}
    for m in re.finditer(r"theorem (\w+)_nonneg\b(.*?):=\s*by", src, re.S):
        hyps = re.findall(r"\(\w+ : 0 (<|≤) ρ \"([^\"]+)\"\)", m.group(2))
        out[m.group(1)] = hyps
    return out


def check_hypotheses_nonvacuous(ff, md, sp, J, tup, viol_broken):
    """non-vacuity: the default coefficients of every fit satisfy the hypotheses its sign theorem assumes, at several redshifts and
    overdensities (evaluated on the real instances with the same variable vocabulary as the generated terms)"""
    import c06
    from astropy.cosmology import Planck15
    hyp = hypotheses_of_sign_theorems()
    r = rng("c07-hyp")
    n = 0
    for name, hs in sorted(hyp.items()):
        if name not in J["fits"] or not hs:
            continue
        for z in (0.0, 1.0, 4.0):
            for delta in (200, 300.0, 800):
                try:
                    obj, env, calls, desc, env_for = c06.build_case(r, name, J["fits"][name], tup, ff, md, sp, Planck15, n=3, override=False, delta=delta, z=z)
                except Exception:
                    continue
                for rel, var in hs:
                    val = env_for(("var", var)).get(var)
                    val = float(np.min(val)) if val is not None and np.ndim(val) else val
                    if val is None or (isinstance(val, float) and np.isnan(val)):
                        continue
                    n += 1
                    if not (val > 0 if rel == "<" else val >= 0):
                        viol_broken(f"hypothesis `0 {rel} {var}` of theorem {name}_nonneg is not met by the default coefficients at z={z}, overdensity {delta}: value {val}")
    return n


def run(ctx):
    quick = ctx["tier"] == "quick"
    realfuzz.init()
    from hmf.mass_function import fitting_functions as ff
    from hmf.halos import mass_definitions as md
    from astropy.cosmology import Planck15
    from scipy.integrate import quad
    out = {"violations": [], "broken": [], "coverage": {}, "assumptions": [
        "peak/unimodality/limit clauses are checked on dense grids (not proved) except for PS",
        "collapsed fractions are integrated numerically (scipy quad) over ln(nu) in [-60, 5]"]}
    V = out["violations"]

    def viol(key, what, rp):
        if not any(v["key"] == key for v in V):
            V.append({"key": key, "what": what, "replay": dict(rp, kind="c07", tree=tree_hash())})
    r = rng("c07")
    names = sorted(ff.FittingFunction._plugins)
    n_eval = 0
    samples = []
    zs = [0.0, 0.1, 0.25, 0.5, 1.0, 2.0, 3.0, 5.0, 5.99, 6.0, 8.0, 10.0, 12.0, 20.0] if quick else list(np.round(np.linspace(0, 12, 49), 3)) + [5.99, 6.0, 15.0, 20.0, 30.0]
    with warnings.catch_warnings():
        warnings.simplefilter("ignore")
        np.seterr(all="ignore")
        for name in names:
            # ---- pointwise: permutation and subset, exact
            for rep in range(2 if quick else 10):
                n = r.randint(3, 40)
                nu2 = np.exp(np.array([r.uniform(np.log(1e-6), np.log(1e6)) for _ in range(n)]))
                m = 10 ** np.array([r.uniform(8, 17) for _ in range(n)])
                neff = np.array([r.uniform(-2.9, -0.1) for _ in range(n)])
                if rep % 2 == 1:
                    for j in r.sample(range(n), min(n, 2)):
                        neff[j] = r.choice([-3.0, -3.2, -3.5])      # flat or falling sigma(m): allowed array content
                z = r.choice(zs)
                base = make(ff, md, name, nu2, z, Planck15, m, neff)
                f0, c0 = base.fsigma, base.cutmask
                perm = np.array(r.sample(range(n), n))
                fp_obj = make(ff, md, name, nu2[perm], z, Planck15, m[perm], neff[perm])
                sub = np.array(sorted(r.sample(range(n), r.randint(1, n))))
                fs_obj = make(ff, md, name, nu2[sub], z, Planck15, m[sub], neff[sub])
                n_eval += 3
                if not (np.array_equal(fp_obj.fsigma, f0[perm], equal_nan=True) and np.array_equal(fs_obj.fsigma, f0[sub], equal_nan=True)):
                    viol(f"{name}/not-pointwise", f"{name}: permuting/subsetting the inputs does not permute/subset fsigma exactly",
                         {"fit": name, "z": z, "nu2": nu2.tolist()[:6], "perm": perm.tolist()[:6]})
                if not (np.array_equal(np.asarray(fp_obj.cutmask), np.asarray(c0)[perm]) and np.array_equal(np.asarray(fs_obj.cutmask), np.asarray(c0)[sub])):
                    viol(f"{name}/cutmask-not-pointwise", f"{name}: cutmask is not pointwise", {"fit": name, "z": z})
                cm = np.asarray(c0)
                if cm.dtype != np.bool_ or cm.shape != (n,):
                    viol(f"{name}/cutmask-type", f"{name}: cutmask has dtype {cm.dtype} shape {cm.shape} for {n} inputs", {"fit": name, "z": z})
            # ---- dense sweeps
            lnnu = np.linspace(np.log(1e-3), np.log(1e3), 1201 if quick else 6001)
            nu = np.exp(lnnu)
            alone = {}
            for z in zs:
                try:
                    o = make(ff, md, name, nu ** 2, z, Planck15)
                except Exception as e:
                    viol(f"{name}/ctor-raises", f"{name} raised at z={z}: {e}", {"fit": name, "z": z}); continue
                f = np.asarray(o.fsigma, float)
                alone[z] = f
                n_eval += 1
                if not np.all(np.isfinite(f)):
                    i = int(np.argmax(~np.isfinite(f)))
                    viol(f"{name}/not-finite", f"{name}: f is not finite at nu={nu[i]:.4g}, z={z}: {f[i]}", {"fit": name, "z": z, "nu": float(nu[i])})
                    continue
                if np.any(f < 0):
                    i = int(np.argmin(f))
                    viol(f"{name}/negative", f"{name}: f={f[i]:.4g} < 0 at nu={nu[i]:.4g}, z={z}", {"fit": name, "z": z, "nu": float(nu[i])})
                if f[-1] > 1e-12:
                    viol(f"{name}/no-decay", f"{name}: f(nu=1e3)={f[-1]:.3g} at z={z}: does not tend to zero for large peak height", {"fit": name, "z": z})
                # peak bound and single peak (in sigma, default coefficients)
                pk = float(f.max())
                if pk > PS_PEAK * (1 + 1e-9):
                    zkey = ("z>=z_hi" if z >= 6 else "0<z<z_hi" if z > 0 else "z=0") if name == "Watson" else f"z={z}"
                    viol(f"{name}/peak-bound/{zkey}", f"{name}: peak {pk:.4g} at sigma={1.686 / nu[int(f.argmax())]:.4g} exceeds the PS peak {PS_PEAK:.4g} at z={z}",
                         {"fit": name, "z": z, "sigma": float(1.686 / nu[int(f.argmax())]), "f": pk})
                d = np.diff(f)
                scale = pk * 1e-9
                sgn = np.sign(np.where(np.abs(d) < scale, 0, d))
                sgn = sgn[sgn != 0]
                changes = int(np.sum(sgn[1:] != sgn[:-1]))
                if changes > 1:
                    # where is the extra turning point?  a shallow minimum in the large-sigma tail (nu << 1) is the
                    # signature of a Warren-type form with exponent > 2 approaching its plateau A*c from below
                    idx = np.where(sgn[1:] != sgn[:-1])[0]
                    nz = np.where(np.abs(d) >= scale)[0]
                    turn_nu = nu[nz[idx]]
                    where = "large-sigma-tail" if (changes == 2 and turn_nu.min() < 0.3) else "interior"
                    viol(f"{name}/not-unimodal/{where}", f"{name}: f(sigma) has {changes} monotonicity changes at z={z} (turning points at nu={np.round(turn_nu, 4).tolist()}): not single-peaked", {"fit": name, "z": z, "turning_nu": turn_nu.tolist()})
                if len(samples) < 3 and z == 1.0:
                    samples.append({"fit": name, "z": z, "peak": pk, "nu_at_peak": float(nu[int(f.argmax())])})
            # ---- the value depends only on the inputs of the instance: several live instances of one fit (different redshifts),
            #      all constructed before any is evaluated, give exactly what each gives alone
            zz = [z for z in (0.0, 2.0, 0.5, 8.0, 1.0) if z in alone]
            try:
                objs = [make(ff, md, name, nu ** 2, z, Planck15) for z in zz]
                for z, o in zip(zz, objs):
                    f = np.asarray(o.fsigma, float)
                    n_eval += 1
                    if not np.array_equal(f, alone[z], equal_nan=True):
                        dev = float(np.nanmax(np.abs(f / alone[z] - 1)))
                        viol(f"{name}/depends-on-other-instances", f"{name}: f at z={z} changes when other instances of the fit (z={zz}) are constructed before it is evaluated (max rel. diff {dev:.3g}): the value does not depend on the instance's inputs only",
                             {"fit": name, "z": z, "constructed_first": zz})
                        break
            except Exception as e:
                pass
        # ---- collapsed fraction of the fits that claim all mass is in haloes
        nfrac = 0
        unit = [("PS", {}, 0.0, 200.0), ("SMT", {"A": None}, 0.0, 200.0), ("Manera", {}, 0.0, 200.0), ("Peacock", {}, 0.0, 200.0),
                ("Tinker10", {}, 1.0, 250.0), ("Tinker10", {}, 0.0, 250.0), ("Tinker10", {}, 1.0, 200.0), ("Tinker10", {}, 3.0, 800.0),
                ("Courtin", {"A": None}, 0.0, 200.0), ("SMT", {"A": None, "p": 0.15}, 0.0, 200.0), ("Bhattacharya", None, 0.0, 200.0)]
        for name, params, z, delta in unit:
            if params is None:
                continue

            def integrand(lnnu, name=name, params=params, z=z, delta=delta):
                nu = np.exp(lnnu)
                o = make(ff, md, name, np.array([nu ** 2]), z, Planck15, delta=delta, **params)
                return float(o.fsigma[0])
            val, err = quad(integrand, -60, 5, limit=800, points=[-30, -14, -6, -3, -1, 0, 1, 2])
            nfrac += 1
            tol = 2e-3 if name != "Peacock" else 2e-2
            if abs(val - 1) > tol:
                viol(f"{name}/collapsed-fraction", f"{name}{params or ''} z={z}: integral of f dln(nu) = {val:.6f}, expected 1", {"fit": name, "z": z, "integral": val})
    nhyp = 0
    try:
        import scipy.special as sp_
        J_, tup_ = load()
        with warnings.catch_warnings():
            warnings.simplefilter("ignore")
            nhyp = check_hypotheses_nonvacuous(ff, md, sp_, J_, tup_, lambda what: out["broken"].append({"kind": "hypothesis", "what": what}) if not any(b.get("what") == what for b in out["broken"]) else None)
    except Exception as e:
        out["assumptions"].append(f"hypotheses of the sign theorems not re-checked on the defaults: {type(e).__name__}: {e}")
    out["coverage"] = {
        "sign_theorem_hypotheses_checked_on_defaults": nhyp,
        "evaluations": n_eval, "distinct_nontrivial": n_eval,
        "rule": "per fit: random permutations/subsets of random inputs (exact comparison), and 1201-point sweeps over nu in [1e-3,1e3] at each z of the grid (sign, finiteness, decay, peak vs PS peak, number of monotonicity changes); several live instances of one fit evaluated after all are constructed vs each alone; unit-normalised fits integrated over ln nu",
        "fits": len(names), "redshifts": zs, "collapsed_fraction_integrals": nfrac, "samples": samples,
        "search": "dense (nu, z) sweeps on the real fits",
    }
    return out


def replay(path):
    j = json.load(open(path))
    print(json.dumps(j.get("replay"), indent=1)[:800])
    res = run({"tier": "quick"})
    hit = [v for v in res["violations"] if v["key"] == j.get("key")]
    print(hit[:1] or "not reproduced on the current tree")
    return 1 if hit else 0
