"""C08 — cumulative number and mass densities consistent with dn/dm.
tie: the list model of hmf_integral_gtm (Lean, at Float) vs the real stand-alone integrator on random positive tables (with NaN /
short / truncated patterns). oracles on the real code: sign, monotonicity, differences == trapezoid integral between masses,
independence from where the grid stops (MassFunction and stand-alone, number and mass), rho_ltm and how_big at z>=0, collapsed
fraction of the unit-normalised fits, high-z grids where dndm underflows."""
import warnings, copy
import numpy as np
import realfuzz, quadcorr
from exprcorr import *


def run(ctx):
    quick = ctx["tier"] == "quick"
    realfuzz.init()
    from hmf.mass_function.hmf import MassFunction
    from hmf.mass_function.integrate_hmf import hmf_integral_gtm, NaNException
    from scipy.special import erfc
    out = {"violations": [], "broken": [], "coverage": {}, "assumptions": [
        "independence from the grid end is required to 1e-9 when the extended grids coincide and to 2e-3 (power-law tables, stand-alone) otherwise",
        "Behroozi is the documented exception to automatic tail extension and is not used in the grid-end checks"]}
    V = out["violations"]

    def viol(key, what, rp=None):
        if not any(v["key"] == key for v in V):
            V.append({"key": key, "what": what, "replay": dict(rp or {}, kind="c08", tree=tree_hash())})
    r = rng("c08")
    lines, exp = [], []
    with warnings.catch_warnings():
        warnings.simplefilter("ignore")
        np.seterr(all="ignore")
        # ---- stand-alone integrator vs the Lean list model
        for rep in range(12 if quick else 150):
            n = r.randint(5, 60)
            dl = r.choice([0.05, 0.1, 0.23, 0.5])
            lo = r.uniform(8, 13)
            M = 10 ** (lo + dl * np.arange(n))
            slope = r.uniform(-2.2, -1.5)
            dndm = M ** slope * np.exp(-(M / 10 ** r.uniform(13, 16)) ** r.uniform(0.3, 1.0)) * 10 ** r.uniform(5, 12)
            dndm = dndm[dndm > 0]; M = M[: len(dndm)]
            if len(M) < 5:
                continue
            for md in (False, True):
                got = hmf_integral_gtm(M, dndm, md)
                extend = bool(M[-1] < M[0] * 10 ** 18 / M[3])
                nup = len(np.arange(np.log(M[-1]), np.log(10 ** 18), np.log(M[1]) - np.log(M[0]))) if extend else 0
                lines.append(f"QUAD gtm {int(md)} {int(extend)} {nup} {len(M)} " + " ".join(bits(x) for x in M) + " " + " ".join(bits(x) for x in dndm))
                exp.append((got, {"n": len(M), "dlog10m": dl, "mass_density": md}))
                # the same table with NaN rows (at the top; sometimes also inside): the raw-table model (dropNaN, then the same program)
                if rep % 3 == 0 and len(M) >= 9:
                    dn_ = dndm.copy()
                    dn_[-r.randint(1, 3):] = np.nan
                    if rep % 6 == 0:
                        dn_[r.randint(4, len(M) - 4)] = np.nan
                    keep_ = ~np.isnan(dn_)
                    Mf_ = M[keep_]
                    if len(Mf_) >= 4:
                        got_n = hmf_integral_gtm(M, dn_, md)
                        ext_n = bool(Mf_[-1] < Mf_[0] * 10 ** 18 / Mf_[3])
                        nup_n = len(np.arange(np.log(Mf_[-1]), np.log(10 ** 18), np.log(Mf_[1]) - np.log(Mf_[0]))) if ext_n else 0
                        lines.append(f"QUAD gtmraw {int(md)} {int(ext_n)} {nup_n} {len(M)} " + " ".join(bits(x) for x in M) + " " + " ".join(bits(x) for x in dn_))
                        exp.append((got_n, {"n": len(M), "dlog10m": dl, "mass_density": md, "nan_rows": int(np.sum(~keep_))}))
                if not (np.all(got >= 0) and np.all(np.diff(got) <= 1e-12 * got[:-1].max())):
                    viol("standalone/sign-monotone", f"hmf_integral_gtm(mass_density={md}) is negative or increasing", {"n": len(M)})
                integ = M * dndm * (M if md else 1.0)
                i, j = sorted(r.sample(range(len(M)), 2))
                want = np.trapezoid(integ[i:j + 1], dx=np.log(M[1] / M[0]))
                if not np.isclose(got[i] - got[j], want, rtol=1e-9, atol=1e-12 * got[0]):
                    viol("standalone/difference-is-integral", f"n(>m_i)-n(>m_j) != trapezoid integral of the table between them (mass_density={md})")
        # NaNs are dropped, too few points raise
        M = 10 ** np.arange(10, 15, 0.25); d = M ** -1.9
        d2 = d.copy(); d2[[3, 7]] = np.nan
        a = hmf_integral_gtm(M, d2)
        b = hmf_integral_gtm(M[~np.isnan(d2)], d2[~np.isnan(d2)])
        if not np.array_equal(a, b):
            viol("standalone/nan-filter", "NaN entries are not simply dropped")
        # NaN in the top rows of a table (a mass function that was not evaluated up there) is the same as a table that stops earlier
        for md_ in (False, True):
            for ntop in (1, 3, 10):
                for slope in (-1.9, -2.5):
                    Mt = 10 ** np.arange(10, 16, 0.1); dt = Mt ** slope
                    dn_ = dt.copy(); dn_[-ntop:] = np.nan
                    a_ = hmf_integral_gtm(Mt, dn_, md_)
                    b_ = hmf_integral_gtm(Mt[:-ntop], dt[:-ntop], md_)
                    if not (a_.shape == b_.shape and np.allclose(a_, b_, rtol=1e-12, atol=0)):
                        dev_ = float(np.max(np.abs(a_ / b_ - 1))) if a_.shape == b_.shape else float("nan")
                        viol("standalone/nan-top-rows", f"hmf_integral_gtm(mass_density={md_}) with the top {ntop} rows NaN differs from the same table stopped {ntop} rows earlier by up to {dev_:.3g} (dn/dm ~ m^{slope})",
                             {"mass_density": md_, "nan_rows": ntop, "slope": slope})
        try:
            hmf_integral_gtm(M[:3], d[:3]); viol("standalone/too-few", "fewer than 4 points accepted")
        except NaNException:
            pass
        # where the table stops must not matter (exact power law: the log-log extrapolation is exact)
        M = 10 ** np.arange(9, 17.5, 0.1); d = 3e4 * M ** -1.9
        for md in (False, True):
            full = hmf_integral_gtm(M, d, md)
            for cut in (30, 45, 60):
                part = hmf_integral_gtm(M[:cut], d[:cut], md)
                if not np.allclose(part, full[:cut], rtol=2e-3):
                    viol(f"standalone/grid-end/{'mass' if md else 'number'}", f"stand-alone integrator (mass_density={md}) on a power-law table stopped at 10^{np.log10(M[cut - 1]):.1f}: value at the lowest mass {part[0]:.4g} vs {full[0]:.4g} for the long table")
        # ---- MassFunction level
        nmf = 0
        base = dict(transfer_model="EH", lnk_min=-12.0, lnk_max=10.0, dlnk=0.1)
        # the identity rho_ltm = mean_density0 - rho_gtm holds as stated also where an un-normalised fit on a deep grid integrates to more
        # than the mean density (rho_ltm is then negative, not clipped)
        for fit_, kw_ in (("Watson_FoF", dict(Mmin=1.0, Mmax=16.0, dlog10m=0.1, sigma_8=1.5)), ("AnguloBound", dict(Mmin=1.0, Mmax=16.0, dlog10m=0.1, sigma_8=1.5)),
                          ("Warren", dict(Mmin=2.0, Mmax=16.0, dlog10m=0.1, sigma_8=1.3))):
            try:
                deep = MassFunction(hmf_model=fit_, z=0.0, **dict(base, lnk_min=-14.0, lnk_max=16.0), **kw_)
                rg_, rl_ = deep.rho_gtm, deep.rho_ltm
            except Exception:
                continue
            nmf += 1
            if not np.allclose(rl_, deep.mean_density0 - rg_, rtol=1e-12, atol=1e-12 * deep.mean_density0):
                i_ = int(np.argmax(np.abs(rl_ - (deep.mean_density0 - rg_))))
                viol("massfunction/rho_ltm-identity/overshoot", f"{fit_} (sigma_8={kw_['sigma_8']}, Mmin={kw_['Mmin']}): rho_ltm = {rl_[i_]:.6g} but mean_density0 - rho_gtm = {deep.mean_density0 - rg_[i_]:.6g} at m=10^{np.log10(deep.m[i_]):.1f} (rho_gtm/mean_density0 = {rg_[i_] / deep.mean_density0:.4f})",
                     {"hmf_model": fit_, **kw_})
        # high redshift, where dn/dm underflows to zero at the top of the grid: the cumulative quantities stay finite, non-negative and
        # non-increasing whichever of them (or of the quantities derived from them) is read first, and reading one does not alter another
        for zhi in (20.0, 30.0):
            for first in ("how_big", "rho_ltm", "ngtm"):
                try:
                    hz = MassFunction(hmf_model="SMT", z=zhi, Mmin=10.0, Mmax=15.0, dlog10m=0.1, **base)
                    with np.errstate(all="ignore"):
                        getattr(hz, first)
                        nz, rz = np.array(hz.ngtm), np.array(hz.rho_gtm)
                        hb = np.array(hz.how_big)
                except Exception:
                    continue
                nmf += 1
                if not (np.all(np.isfinite(nz)) and np.all(nz >= 0) and np.all(np.diff(nz) <= 0) and np.all(np.isfinite(rz)) and np.all(rz >= 0) and np.all(np.diff(rz) <= 0)):
                    viol("massfunction/sign-monotone/high-z", f"SMT z={zhi}, {first} read first: ngtm/rho_gtm not finite, negative or increasing (ngtm[-3:]={nz[-3:].tolist()})", {"z": zhi, "first": first})
                with np.errstate(all="ignore"):
                    want_hb = (0.366362 / nz) ** (1 / 3)
                if not np.allclose(hb, want_hb, rtol=1e-13, equal_nan=False):
                    viol("massfunction/how_big/high-z", f"SMT z={zhi}, {first} read first: how_big != (0.366362/ngtm)^(1/3) (infinite where ngtm = 0)", {"z": zhi, "first": first})
        for fit in (["Tinker08", "SMT", "Warren"] if quick else ["Tinker08", "SMT", "Warren", "PS", "Jenkins", "Watson", "Tinker10", "Bhattacharya"]):
            for z in (0.0, 2.0):
                ref = MassFunction(hmf_model=fit, z=z, Mmin=10.0, Mmax=15.0, dlog10m=0.1, **base)
                n0, r0 = ref.ngtm, ref.rho_gtm
                nmf += 1
                if not (np.all(n0 >= 0) and np.all(np.diff(n0) <= 0) and np.all(r0 >= 0) and np.all(np.diff(r0) <= 0)):
                    viol("massfunction/sign-monotone", f"{fit} z={z}: ngtm/rho_gtm negative or increasing")
                if not (np.allclose(ref.rho_ltm, ref.mean_density0 - r0, rtol=1e-13) and np.allclose(ref.how_big, (0.366362 / n0) ** (1 / 3), rtol=1e-13)):
                    viol("massfunction/rho_ltm-how_big", f"{fit} z={z}: rho_ltm != mean_density0 - rho_gtm or how_big != (0.366362/ngtm)^(1/3)")
                dn = ref.dndm
                i, j = 5, 30
                if not np.isclose(n0[i] - n0[j], np.trapezoid((ref.m * dn)[i:j + 1], dx=np.log(ref.m[1] / ref.m[0])), rtol=1e-9):
                    viol("massfunction/difference-is-integral", f"{fit} z={z}: ngtm differences != integral of dndm")
                for Mmax in (13.0, 14.0, 13.02, 12.55):
                    t = MassFunction(hmf_model=fit, z=z, Mmin=10.0, Mmax=Mmax, dlog10m=0.1, **base)
                    k = len(t.m)
                    tol = 1e-9 if abs(Mmax * 10 - round(Mmax * 10)) < 1e-9 else 5e-3
                    if not (np.allclose(t.ngtm, n0[:k], rtol=tol) and np.allclose(t.rho_gtm, r0[:k], rtol=tol)):
                        dev = max(float(np.max(np.abs(t.ngtm / n0[:k] - 1))), float(np.max(np.abs(t.rho_gtm / r0[:k] - 1))))
                        viol("massfunction/grid-end", f"{fit} z={z}: ngtm/rho_gtm at fixed masses change by {dev:.3g} when the grid stops at Mmax={Mmax} instead of 15", {"fit": fit, "z": z, "Mmax": Mmax})
        # ... with every filter (the automatic high-mass extension works on a copy of the object, filter included)
        for filt_ in ("Gaussian", "SharpK", "SharpKEllipsoid"):
            kwg = dict(transfer_model="EH", hmf_model="PS", z=0.0, dlog10m=0.05, filter_model=filt_)      # (default wavenumber range)
            refg = MassFunction(Mmin=6.0, Mmax=18.0, **kwg)
            ng_, rg_ = refg.ngtm, refg.rho_gtm
            for lo_, hi_ in ((6.0, 9.0), (8.0, 10.0), (6.0, 12.0)):
                tg = MassFunction(Mmin=lo_, Mmax=hi_, **kwg)
                i0 = int(np.argmin(np.abs(refg.m - tg.m[0])))
                kk_ = len(tg.m)
                nmf += 1
                if not (np.allclose(tg.ngtm, ng_[i0:i0 + kk_], rtol=2e-3) and np.allclose(tg.rho_gtm, rg_[i0:i0 + kk_], rtol=2e-3)):
                    dev = max(float(np.max(np.abs(tg.ngtm / ng_[i0:i0 + kk_] - 1))), float(np.max(np.abs(tg.rho_gtm / rg_[i0:i0 + kk_] - 1))))
                    viol(f"massfunction/grid-end/{filt_}", f"PS with the {filt_} filter: ngtm/rho_gtm at fixed masses change by {dev:.3g} when the grid is [{lo_}, {hi_}) instead of [6, 18)", {"filter_model": filt_, "Mmin": lo_, "Mmax": hi_})
                    break
        # fits that put all mass in haloes keep doing so when their shape parameters are changed: Manera is the SMT form with its own (a, p)
        # and the amplitude that normalises it, so its cumulative mass density equals SMT's with A=None and the same (a, p)
        for hp_ in ({"p": 0.2}, {"a": 0.8, "p": 0.1}, {}):
            kwm = dict(base, z=0.0, Mmin=8.0, Mmax=16.0, dlog10m=0.1)
            a_ = MassFunction(hmf_model="Manera", hmf_params=dict(hp_), **kwm).rho_gtm
            b_ = MassFunction(hmf_model="SMT", hmf_params=dict({"A": None, "a": 0.709, "p": 0.289}, **hp_), **kwm).rho_gtm
            nmf += 1
            if not np.allclose(a_, b_, rtol=1e-9):
                viol("massfunction/collapsed-fraction/Manera", f"Manera with hmf_params={hp_}: rho_gtm differs from the normalised SMT form with the same shape parameters by {float(np.max(np.abs(a_ / b_ - 1))):.3g} (the fit no longer puts all mass in haloes)", {"hmf_params": hp_})
        # collapsed fraction of unit-normalised fits
        for fit, z in (("PS", 0.0), ("PS", 1.0)):
            mf = MassFunction(hmf_model=fit, z=z, Mmin=6.0, Mmax=16.0, dlog10m=0.05, transfer_model="EH", lnk_min=-14.0, lnk_max=14.0, dlnk=0.05)
            frac = mf.rho_gtm / mf.mean_density0
            ana = erfc(mf.delta_c / (np.sqrt(2) * mf.sigma))
            if not np.allclose(frac[20:], ana[20:], rtol=1e-2, atol=1e-4):
                viol("collapsed-fraction", f"{fit} z={z}: rho_gtm/mean_density0 differs from erfc(delta_c/(sqrt2 sigma)) by up to {float(np.max(np.abs(frac[20:] - ana[20:]))):.3g}")
        # high z: dndm underflows to 0 in part of the range
        mf = MassFunction(hmf_model="Tinker08", z=20.0, Mmin=8.0, Mmax=15.0, dlog10m=0.1, **base)
        n0 = mf.ngtm
        if not (len(n0) == len(mf.m) and np.all(np.isfinite(n0)) and np.all(n0 >= 0) and np.all(np.diff(n0[n0 > 0]) <= 0)):
            viol("massfunction/high-z", "z=20: ngtm has NaN/negative/increasing entries or the wrong length")
        # sequences on one object: after parameter changes (dict-valued ones replaced, not merged) the cumulative densities must be
        # those of the *current* dn/dm including the automatically supplied high-mass tail, i.e. those of a fresh object
        seqs = [[dict(hmf_params={}), dict(hmf_params={"p": 0.25})], [dict(z=1.0), dict(cosmo_params={}), dict(cosmo_params={"H0": 72.0})],
                [dict(hmf_model="PS", hmf_params={}), dict(z=0.5)]]
        for seq, between in [(q_, b_) for q_ in seqs for b_ in (False, True)]:
            o = MassFunction(hmf_model="SMT", hmf_params={"a": 0.8}, cosmo_params={"Om0": 0.3}, Mmin=10.0, Mmax=14.0, dlog10m=0.1, **base)
            o.ngtm; o.rho_gtm
            for step in seq:
                o.update(**step)
                if between:
                    o.ngtm
            fr = MassFunction(**{k_: (dict(v_) if isinstance(v_, dict) else v_) for k_, v_ in o.parameter_values.items()})
            nmf += 1
            for q in ("ngtm", "rho_gtm"):
                a_, b_ = getattr(o, q), getattr(fr, q)
                if not np.allclose(a_, b_, rtol=1e-10, atol=0):
                    viol(f"massfunction/sequence/{q}", f"after {seq} on one object, {q} differs from a fresh object's by up to {float(np.max(np.abs(a_ / b_ - 1))):.3g} (stale high-mass tail?)", {"sequence": str(seq)})
        ans = lean_driver(lines)
        nbad = 0
        for (got, desc), a in zip(exp, ans):
            g = quadcorr.decode(a)
            if isinstance(g, str) or not np.allclose(got, g, rtol=1e-9, atol=0):
                nbad += 1
                if nbad == 1:
                    out["broken"].append({"kind": "correspondence", "what": "list model of hmf_integral_gtm at Float differs from the real integrator", "detail": {"case": desc, "impl": got[:3].tolist(), "model": g if isinstance(g, str) else g[:3].tolist()}})
    out["coverage"] = {
        "evaluations": len(lines) + nmf * 6, "programs": len(lines), "disagreements_checked": len(lines), "traces_validated_against_impl": len(lines),
        "distinct_nontrivial": len(lines) + nmf,
        "rule": "stand-alone: random positive tables (power law x exponential cut-off, 5-60 points, dlog10m in {0.05,0.1,0.23,0.5}), number and mass density, vs the Lean list model; differences vs trapezoid integrals; NaN / short tables; truncated power-law tables. MassFunction: fits x z in {0,2}, grids stopping at 13, 14, 13.02, 12.55 vs 15; collapsed fraction for PS; z=20",
        "model_disagreements": nbad, "samples": [e[1] for e in exp[:2]], "search": "oracles on the real integrator / MassFunction",
    }
    return out


def replay(path):
    j = json.load(open(path))
    print(json.dumps(j.get("replay"), indent=1)[:800])
    res = run({"tier": "quick"})
    hit = [v for v in res["violations"] if v["key"] == j.get("key")]
    print(hit[:1] or "not reproduced on the current tree")
    return 1 if hit else 0
