"""C09 — growth factor normalised, monotone, consistent across interfaces (mostly numerical: quadrature, splines, astropy).
tie: regenerated Carroll1992 closed forms at Float vs the real model.  real code: D(0)=1, strict decrease over z in [0,1000],
Einstein-de Sitter and flat-LCDM behaviour of (1+z)D, callable/spline/inverse vs point evaluation (zmin >= 0), growth_rate vs
-dlnD/dln(1+z), approximate models vs the integral model, Transfer.growth_factor vs the model for both spline settings with
customised cosmologies."""
import warnings, copy
import numpy as np
import realfuzz
from exprcorr import *


def run(ctx):
    quick = ctx["tier"] == "quick"
    realfuzz.init()
    from hmf.cosmology import growth_factor as gf
    from hmf.density_field.transfer import Transfer
    from astropy.cosmology import FlatLambdaCDM, LambdaCDM, Planck15
    out = {"violations": [], "broken": [], "coverage": {}, "assumptions": [
        "the integral model is a Simpson quadrature with dlna=0.01: agreement tolerances 2e-4 (EdS), 3% between models",
        "CambGrowth: two cosmologies (Planck15, flat wCDM), five redshifts"]}
    V = out["violations"]

    def viol(key, what, rp=None):
        if not any(v["key"] == key for v in V):
            V.append({"key": key, "what": what, "replay": dict(rp or {}, kind="c09", tree=tree_hash())})
    J, tup = load()
    comp = J["components"]["Growth"]
    r = rng("c09")
    reqs, exp = [], []
    ncase = 0
    zs = np.array([0.0, 0.1, 0.5, 1.0, 2.0, 5.0, 10.0, 50.0, 200.0, 1000.0])
    with warnings.catch_warnings():
        warnings.simplefilter("ignore")
        np.seterr(all="ignore")
        cosmos = [("EdS", LambdaCDM(H0=70, Om0=1.0, Ode0=0.0, Tcmb0=0)), ("flat", FlatLambdaCDM(H0=70, Om0=0.3, Tcmb0=0)), ("flat-rad", Planck15),
                  ("open", LambdaCDM(H0=70, Om0=0.3, Ode0=0.0, Tcmb0=0)), ("open-L", LambdaCDM(H0=70, Om0=0.3, Ode0=0.5, Tcmb0=0)),
                  ("closed", LambdaCDM(H0=70, Om0=0.4, Ode0=0.8, Tcmb0=0))]
        # flat LCDM written as a generic LambdaCDM(Om0, Ode0 = 1 - Om0): Ok0 is then a rounding residue (0, +-1.1e-16), not an exact 0
        for om_, ol_ in ((0.307, 0.693), (0.18, 0.82), (0.42, 0.58), (0.25, 0.75)):
            cosmos.append(("flat", LambdaCDM(H0=70, Om0=om_, Ode0=ol_, Tcmb0=0)))
        for _ in range(0 if quick else 8):
            tc = r.choice([0, 2.7])
            cosmos.append(("random-flat" if tc == 0 else "random-flat-rad", FlatLambdaCDM(H0=r.uniform(55, 80), Om0=r.uniform(0.15, 0.6), Tcmb0=tc)))
        models = {"GrowthFactor": gf.GrowthFactor, "Carroll1992": gf.Carroll1992, "GenMFGrowth": gf.GenMFGrowth}
        for cname, cosmo in cosmos:
            ref = gf.GrowthFactor(cosmo)
            Dref = np.array([ref.growth_factor(z) for z in zs])
            for mname, cls in models.items():
                if mname == "GenMFGrowth" and cname in ("open-L", "closed", "flat-rad", "random-flat-rad"):
                    continue          # not supported / radiation not modelled by the closed form
                m = cls(cosmo)
                try:
                    D = np.array([float(np.atleast_1d(m.growth_factor(z))[0]) for z in zs])
                except ValueError:
                    continue
                ncase += 1
                if abs(D[0] - 1) > 1e-12:
                    viol(f"{mname}/normalisation", f"{mname} ({cname}): growth_factor(0) = {D[0]!r}")
                if np.any(np.diff(D) >= 0):
                    viol(f"{mname}/not-decreasing", f"{mname} ({cname}): growth factor does not decrease strictly with z: {D.tolist()}")
                g = (1 + zs) * D
                if cname == "EdS" and not np.allclose(g, 1.0, rtol=2e-4 if mname == "GrowthFactor" else 1e-12):
                    viol(f"{mname}/EdS", f"{mname}: (1+z)D(z) in Einstein-de Sitter deviates from 1 by {float(np.max(np.abs(g - 1))):.3g}")
                if cname in ("flat", "random-flat") and (np.any(np.diff(g) < -1e-6) or g[0] != 1.0 or not np.isfinite(g[-1]) or g[-1] > 2):
                    viol(f"{mname}/flat-plateau", f"{mname} ({cname}): (1+z)D(z) does not rise monotonically from 1 to a finite plateau: {np.round(g, 4).tolist()}")
                # approximate models vs the integral model
                tol = 0.03
                if mname != "GrowthFactor":
                    dev = np.abs(D / Dref - 1)
                    geo = "non-flat" if cname in ("open", "open-L", "closed") else ("flat-with-radiation" if cname in ("flat-rad", "random-flat-rad") else "flat")
                    for rng_name, sel in (("z<=10", zs <= 10), ("z>10", zs > 10)):
                        if np.any(dev[sel] > tol):
                            i = int(np.argmax(np.where(sel, dev, 0)))
                            viol(f"{mname}/vs-integral-model/{geo}/{rng_name}", f"{mname} ({cname}) differs from the integral model by {float(dev[i]):.3g} at z={zs[i]}", {"cosmology": cname})
                # interfaces
                for zmin in (0.0, 1.0):
                    try:
                        fn = m.growth_factor_fn(zmin)
                        inv = m.growth_factor_fn(zmin, inverse=True)
                    except Exception as e:
                        viol(f"{mname}/fn-raises", f"{mname}.growth_factor_fn(zmin={zmin}) raised {e}"); continue
                    zz = np.array([1.5, 2.0, 4.0]) if zmin > 0 else np.array([0.3, 1.0, 4.0])
                    pt = np.array([float(np.atleast_1d(m.growth_factor(z))[0]) for z in zz])
                    if not np.allclose(np.asarray(fn(zz), float), pt, rtol=2e-4):
                        viol(f"{mname}/callable-vs-point", f"{mname} ({cname}): growth_factor_fn(zmin={zmin}) at z={zz.tolist()} gives {np.asarray(fn(zz)).tolist()}, point evaluation {pt.tolist()}", {"zmin": zmin})
                    if zmin == 0.0:
                        # ... over the whole quantified range [0, 1000], one redshift at a time
                        zh = np.array([0.0, 10.0, 50.0, 250.0, 600.0, 950.0])
                        pth = np.array([float(np.atleast_1d(m.growth_factor(z))[0]) for z in zh])
                        fnh = np.array([float(np.atleast_1d(fn(z))[0]) for z in zh])
                        if not np.allclose(fnh, pth, rtol=5e-4):
                            i_ = int(np.argmax(np.abs(fnh / pth - 1)))
                            viol(f"{mname}/callable-vs-point/high-z", f"{mname} ({cname}): growth_factor_fn()(z={zh[i_]}) = {fnh[i_]:.6g}, point evaluation {pth[i_]:.6g} (rel. dev {fnh[i_] / pth[i_] - 1:.3g})", {"z": float(zh[i_]), "cosmology": cname})
                        # ... and evaluated on one array spanning the range (the natural way to use a callable)
                        fna = np.asarray(fn(zh), float)
                        if fna.shape == pth.shape and not np.allclose(fna, pth, rtol=2e-3):
                            i_ = int(np.argmax(np.abs(fna / pth - 1)))
                            viol(f"{mname}/callable-vs-point/array-spanning-low-and-high-z", f"{mname} ({cname}): the callable evaluated on the array {zh.tolist()} gives {fna[i_]:.6g} at z={zh[i_]}, point evaluation {pth[i_]:.6g} (rel. dev {fna[i_] / pth[i_] - 1:.3g})",
                                 {"z": zh.tolist(), "cosmology": cname})
                    if not np.allclose(np.asarray(inv(pt), float), zz, rtol=2e-3, atol=2e-3):
                        viol(f"{mname}/inverse-vs-point", f"{mname} ({cname}): inverse growth function (zmin={zmin}) does not invert point evaluation", {"zmin": zmin})
                # growth rate vs numerical -dlnD/dln(1+z)
                if hasattr(m, "growth_rate"):
                    for z in (0.0, 1.0):
                        h = 1e-3
                        num = -(np.log(float(np.atleast_1d(m.growth_factor(z + h))[0])) - np.log(float(np.atleast_1d(m.growth_factor(max(z - h, 0)))[0]))) / (np.log(1 + z + h) - np.log(1 + max(z - h, 0)))
                        gr = float(np.atleast_1d(m.growth_rate(z))[0])
                        if abs(gr - num) > 0.02:
                            viol("growth_rate/normalised-D", f"{mname} ({cname}): growth_rate({z}) = {gr:.4f}, -dlnD/dln(1+z) = {num:.4f}", {"model": mname, "cosmology": cname, "z": z})
                # regenerated Carroll closed forms
                if mname == "Carroll1992":
                    for meth in ("_d_plus", "growth_factor"):
                        if "tree" not in comp.get(f"Carroll1992_{meth}", {}):
                            if not any(b.get("what", "").endswith(f"Carroll1992_{meth}") for b in out["broken"]):
                                out["broken"].append({"kind": "translator", "what": f"no generated term for Carroll1992_{meth}"})
                            continue
                        t = tup(comp[f"Carroll1992_{meth}"]["tree"])
                        got = np.array([float(getattr(m, meth)(z)) for z in zs])
                        env = auto_env(t, m, args={"z": zs})
                        reqs.append((f"Growth/Carroll1992_{meth}", len(zs), env, []))
                        exp.append((f"Carroll1992_{meth}", got, cname))
        # CAMB-based growth (the default for wCDM cosmologies): normalisation, strict decrease, agreement with the integral model in LCDM, and
        # element-wise evaluation of arrays in any order
        if hasattr(gf, "CambGrowth"):
            from astropy.cosmology import FlatwCDM
            from astropy.cosmology import LambdaCDM as _LC
            for cname, cosmo in (("Planck15", Planck15), ("wCDM w0=-0.8", FlatwCDM(H0=68.0, Om0=0.3, w0=-0.8, Ob0=0.048, Tcmb0=2.725)),
                                 ("flat Om0=0.3", _LC(H0=70.0, Om0=0.3, Ode0=0.7 - 8.5e-5, Ob0=0.048, Tcmb0=2.725)), ("open Om0=0.3 Ode0=0.3", _LC(H0=70.0, Om0=0.3, Ode0=0.3, Ob0=0.048, Tcmb0=2.725))):
                try:
                    cg = gf.CambGrowth(cosmo)
                except Exception as e:
                    out["assumptions"].append(f"CambGrowth({cname}) not exercised: {type(e).__name__}")
                    continue
                za = np.array([0.0, 0.5, 1.0, 2.0, 5.0])
                sc = np.array([float(np.atleast_1d(cg.growth_factor(z))[0]) for z in za])
                ncase += 1
                if abs(sc[0] - 1) > 1e-9 or np.any(np.diff(sc) >= 0):
                    viol("CambGrowth/normalisation-monotone", f"CambGrowth ({cname}): growth_factor at z={za.tolist()} is {sc.tolist()} (expected 1 at z=0, strictly decreasing)", {"cosmology": cname})
                for label, order in (("ascending", [0, 1, 2, 3, 4]), ("descending", [4, 3, 2, 1, 0]), ("shuffled", [2, 0, 4, 1, 3])):
                    arr = np.asarray(cg.growth_factor(za[order].copy()), float)
                    if arr.shape != (5,) or not np.allclose(arr, sc[order], rtol=1e-9):
                        viol("CambGrowth/array-order", f"CambGrowth ({cname}): growth_factor on the {label} array {za[order].tolist()} gives {arr.tolist()}, element-wise evaluation gives {sc[order].tolist()}", {"cosmology": cname, "z": za[order].tolist()})
                if not cname.startswith("wCDM"):
                    ref_ = np.array([gf.GrowthFactor(cosmo).growth_factor(z) for z in za])
                    if np.max(np.abs(sc / ref_ - 1)) > 0.03:
                        viol("CambGrowth/vs-integral-model", f"CambGrowth ({cname}) differs from the integral model by {float(np.max(np.abs(sc / ref_ - 1))):.3g}", {"cosmology": cname})
            # the framework with the CAMB-based model, for either setting of the spline option
            for spl in (False, True):
                try:
                    Tc = Transfer(transfer_model="EH", lnk_min=-8.0, lnk_max=4.0, dlnk=0.5, z=1.0, growth_model="CambGrowth", use_splined_growth=spl)
                    got_ = float(np.atleast_1d(Tc.growth_factor)[0])
                    want_ = float(np.atleast_1d(gf.CambGrowth(Tc.cosmo).growth_factor(1.0))[0])
                    ncase += 1
                    if abs(got_ / want_ - 1) > (2e-3 if spl else 1e-12):
                        viol("transfer/growth-dispatch/CambGrowth", f"Transfer(growth_model='CambGrowth', use_splined_growth={spl}, z=1).growth_factor = {got_!r}, the model gives {want_!r}", {"use_splined_growth": spl})
                except AttributeError as e:
                    viol("CambGrowth/no-callable-form" if spl else "transfer/growth-dispatch/CambGrowth/raises", f"Transfer(growth_model='CambGrowth', use_splined_growth={spl}, z=1).growth_factor raises AttributeError: {e}", {"use_splined_growth": spl})
                except Exception as e:
                    viol("transfer/growth-dispatch/CambGrowth/raises", f"Transfer(growth_model='CambGrowth', use_splined_growth={spl}, z=1).growth_factor raises {type(e).__name__}: {e}", {"use_splined_growth": spl})
        # Transfer.growth_factor == selected model at the object's z, both spline settings, customised cosmology
        for rep in range(4 if quick else 30):
            cp = r.choice([{}, {"Om0": 0.45}, {"Om0": 0.25, "H0": 60.0}])
            z = r.choice([0.0, 0.7, 2.0])
            gm = r.choice(["GrowthFactor", "Carroll1992", "GenMFGrowth"])
            for spl in (False, True):
                T = Transfer(transfer_model="EH", lnk_min=-8.0, lnk_max=6.0, dlnk=0.25, z=z, cosmo_params=cp, growth_model=gm, use_splined_growth=spl,
                             cosmo_model="Planck13" if gm == "GenMFGrowth" else "Planck15")
                try:
                    want = float(np.atleast_1d(getattr(gf, gm)(T.cosmo).growth_factor(z))[0])
                    got = float(np.atleast_1d(T.growth_factor)[0])
                except ValueError:
                    continue
                ncase += 1
                if abs(got / want - 1) > (5e-4 if spl else 1e-12):
                    viol("transfer/growth-dispatch", f"Transfer(growth_model={gm}, cosmo_params={cp}, z={z}, use_splined_growth={spl}).growth_factor = {got!r}, the model at the framework's cosmology gives {want!r}", {"cosmo_params": cp, "z": z})
        # ... also with user-supplied tabulation parameters of the model and a redshift beyond the tabulated range (the tabulation range of
        # the inverse function is not a validity range of the model), after construction and after update(z=...)
        for gm, gp in (("Carroll1992", {"zmax": 10.0, "dz": 0.05}), ("GenMFGrowth", {"zmax": 10.0, "dz": 0.05}), ("GenMFGrowth", {"zmax": 10.0}), ("GrowthFactor", {"dlna": 0.02})):
            for spl in (False, True):
                for z in (5.0, 40.0, 800.0):
                    try:
                        T = Transfer(transfer_model="EH", lnk_min=-8.0, lnk_max=6.0, dlnk=0.25, z=0.0, growth_model=gm, growth_params=dict(gp), use_splined_growth=spl,
                                     cosmo_model="Planck13" if gm == "GenMFGrowth" else "Planck15")
                        T.growth_factor
                        T.update(z=z)
                        want = float(np.atleast_1d(getattr(gf, gm)(T.cosmo, **gp).growth_factor(z))[0])
                        got = float(np.atleast_1d(T.growth_factor)[0])
                    except ValueError:
                        continue
                    ncase += 1
                    if abs(got / want - 1) > (2e-3 if spl else 1e-12):
                        viol("transfer/growth-dispatch/model-parameters", f"Transfer(growth_model={gm}, growth_params={gp}, use_splined_growth={spl}) after update(z={z}): growth_factor = {got!r}, the model gives {want!r}", {"growth_model": gm, "growth_params": gp, "z": z, "use_splined_growth": spl})
        res = eval_lean_many(reqs)
        nbad = 0
        for (name, got, cname), g in zip(exp, res):
            if isinstance(g, str) or not close(got, g, rtol=1e-11).all():
                nbad += 1
                if nbad == 1:
                    out["broken"].append({"kind": "correspondence", "what": f"generated term {name} differs from the real model ({cname})", "detail": {"impl": got[:3].tolist(), "model": g if isinstance(g, str) else g[:3].tolist()}})
    out["coverage"] = {
        "evaluations": ncase * len(zs) + len(reqs), "programs": len(exp), "disagreements_checked": len(exp), "traces_validated_against_impl": len(exp),
        "distinct_nontrivial": ncase,
        "rule": "cosmologies: EdS, flat LCDM with/without radiation, open, open with Lambda, closed (plus random flat ones in the thorough tier) x three growth models; z in {0,...,1000}; interfaces with zmin in {0,1}; growth rate by centred differences; Transfer dispatch for both spline settings and customised cosmo_params",
        "gen_disagreements": nbad, "samples": [{"term": e[0], "cosmology": e[2], "impl": e[1][:3].tolist()} for e in exp[:2]],
        "search": "numerical oracles on the real growth models",
    }
    return out


def replay(path):
    j = json.load(open(path))
    print(json.dumps(j.get("replay"), indent=1)[:800])
    res = run({"tier": "quick"})
    hit = [v for v in res["violations"] if v["key"] == j.get("key")]
    print(hit[:1] or "not reproduced on the current tree")
    return 1 if hit else 0
