"""C10 — transfer functions pointwise in k, -> 1 on large scales, <= 1.
tie: generated lnt terms (BBKS, BondEfs, EH_NoBAO, EH_BAO/EH) at Float vs the real models; spec terms (BBKS, BondEfs) vs real.
real code: array vs element-by-element in any order, limits/bounds/monotonicity sweeps, table-driven models (nodes, extension,
caller arrays untouched, call-order independence), CAMB large-scale value, transfer_function/T constant vs k range."""
import warnings, os, tempfile
import numpy as np
import realfuzz
from exprcorr import *

ANALYTIC = ["BBKS", "BondEfs", "EH_NoBAO", "EH_BAO", "EH"]


def run(ctx):
    quick = ctx["tier"] == "quick"
    realfuzz.init()
    from hmf.density_field import transfer_models as tm
    from hmf.density_field.transfer import Transfer
    from astropy.cosmology import Planck15
    out = {"violations": [], "broken": [], "coverage": {}, "assumptions": [
        "cosmologies are drawn with baryon fraction Ob0/Om0 <= 0.5 (EH_BAO returns NaN for f_b ~ 0.8: outside the harness domain)",
        "EH bounds, limits and the table/CAMB clauses are numerical checks"]}
    V = out["violations"]

    def viol(key, what, rp=None):
        if not any(v["key"] == key for v in V):
            V.append({"key": key, "what": what, "replay": dict(rp or {}, kind="c10", tree=tree_hash())})
    J, tup = load()
    comp = J["components"]["Transfer"]
    r = rng("c10")
    reqs, exp = [], []
    nsweep = 0
    qeff_min, qeff_n = float('inf'), 0
    with warnings.catch_warnings():
        warnings.simplefilter("ignore")
        np.seterr(all="ignore")
        for rep in range(5 if quick else 50):
            Om0 = r.uniform(0.15, 0.6)
            cosmo = Planck15.clone(Om0=Om0, Ob0=Om0 * r.uniform(0.02, 0.5), H0=r.uniform(50, 85), Tcmb0=r.uniform(2.5, 3.0))
            for name in ANALYTIC:
                cls = getattr(tm, name)
                params = {}
                if cls._defaults and r.random() < 0.6:
                    kk = r.choice(sorted(cls._defaults))
                    params[kk] = cls._defaults[kk] * r.uniform(0.8, 1.2)
                o = cls(cosmo, **params)
                lnk = np.array([r.uniform(np.log(1e-8), np.log(1e5)) for _ in range(7)])
                got = np.asarray(o.lnt(lnk), float)
                if "tree" not in comp.get(f"{name}_lnt", {}):
                    if not any(b.get("what", "").startswith(f"no generated term for {name}") for b in out["broken"]):
                        out["broken"].append({"kind": "translator", "what": f"no generated term for {name}_lnt: {comp.get(f'{name}_lnt', {}).get('unsupported')}"})
                    env = {"lnk": lnk, "cosmo.Om0": float(cosmo.Om0), "cosmo.Ob0": float(cosmo.Ob0), "cosmo.h": float(cosmo.h), **{f"p.{k}": float(v) for k, v in o.params.items() if isinstance(v, (int, float))}}
                else:
                    t = tup(comp[f"{name}_lnt"]["tree"])
                    env = auto_env(t, o, args={"lnk": lnk})
                    if name == "EH_NoBAO":
                        # hypothesis of the Lean theorem EH_NoBAO_lnT_nonpos: q_eff >= 0 (same sub-term extraction as `ehQ`)
                        try:
                            qt = t[1][2][2][1][2] if (t[0] == "log" and t[1][0] == "div" and t[1][2][0] == "add" and t[1][2][2][0] == "mul" and t[1][2][2][1][0] == "mul") else None
                        except Exception:
                            qt = None
                        if qt is not None:
                            for i in range(len(lnk)):
                                qv = ev_py(qt, {kk: (vv[i] if np.ndim(vv) else vv) for kk, vv in env.items()}, lambda f, a: float("nan"), [])
                                qeff_min = min(qeff_min, float(qv)); qeff_n += 1
                    reqs.append((f"Transfer/{name}_lnt", len(got), env, []))
                    exp.append((name, got, {"Om0": Om0, "h": float(cosmo.h), "params": params, "lnk": lnk.tolist()}, "gen"))
                if name in ("BBKS", "BondEfs"):
                    reqs.append((f"SpecTransfer/{name}_lnt", len(got), env, []))
                    exp.append((name, got, {"Om0": Om0, "h": float(cosmo.h), "params": params, "lnk": lnk.tolist()}, "spec"))
                # pointwise: whole array vs each element alone vs shuffled / descending / duplicated arrays
                each = np.array([float(np.atleast_1d(o.lnt(np.array([x])))[0]) for x in lnk])
                perm = np.array(r.sample(range(len(lnk)), len(lnk)))
                desc = np.sort(lnk)[::-1]
                ok = np.allclose(got, each, rtol=1e-12, atol=1e-13) and np.allclose(o.lnt(lnk[perm]), got[perm], rtol=1e-12, atol=1e-13) and \
                    np.allclose(o.lnt(desc), np.array([float(np.atleast_1d(o.lnt(np.array([x])))[0]) for x in desc]), rtol=1e-12, atol=1e-13)
                if not ok:
                    viol(f"{name}/not-pointwise", f"{name}: T on an array differs from T at each k alone (array order matters)", {"model": name, "lnk": lnk.tolist()})
                # sweeps
                grid = np.linspace(np.log(1e-8), np.log(1e5), 400)
                lt = np.asarray(o.lnt(grid), float)
                nsweep += 1
                if not np.all(np.isfinite(lt)):
                    viol(f"{name}/not-finite", f"{name}: ln T not finite for Om0={Om0:.3f}", {"model": name, "Om0": Om0})
                    continue
                if lt.max() > 1e-6:
                    viol(f"{name}/exceeds-one", f"{name}: T exceeds 1 (max ln T = {lt.max():.3g}) for Om0={Om0:.3f}, h={cosmo.h:.3f}", {"model": name, "Om0": Om0})
                if abs(lt[0]) > 1e-4:
                    viol(f"{name}/large-scale-limit", f"{name}: T(k=1e-8) = {np.exp(lt[0]):.6g}, expected 1", {"model": name, "Om0": Om0})
                if name in ("BBKS", "BondEfs", "EH_NoBAO") and np.any(np.diff(lt) > 1e-9):
                    viol(f"{name}/not-monotone", f"{name}: T increases with k somewhere (max step {np.diff(lt).max():.3g})", {"model": name, "Om0": Om0})
        res = eval_lean_many(reqs)
        nbad = {"gen": 0, "spec": 0}
        for (name, got, desc, kind), g in zip(exp, res):
            if isinstance(g, str) or not close(got, g, rtol=1e-9, atol=1e-12).all():
                nbad[kind] += 1
                if kind == "gen" and nbad["gen"] == 1:
                    out["broken"].append({"kind": "correspondence", "what": f"generated term {name}_lnt differs from the real model", "detail": {"case": desc, "impl": got.tolist(), "model": g if isinstance(g, str) else g.tolist()}})
                if kind == "spec":
                    viol(f"{name}/documented-form", f"{name}.lnt differs from its documented form: {got[:2].tolist()} vs {(g if isinstance(g, str) else g[:2].tolist())}", {"case": desc})
        # ---- table-driven models
        ntab = 0
        kt = np.exp(np.linspace(np.log(1e-4), np.log(1e2), 60))
        Tt = tm.EH_NoBAO(Planck15).lnt(np.log(kt))
        Tt = np.exp(Tt)
        tmpdir = tempfile.mkdtemp(prefix="c10", dir=os.path.join(VERIF, ".work"))
        fname = os.path.join(tmpdir, "table.dat")
        np.savetxt(fname, np.column_stack([kt, Tt]))
        k0, T0 = kt.copy(), Tt.copy()
        fresh = {"FromArray": lambda: tm.FromArray(Planck15, k=kt, T=Tt), "FromFile": lambda: tm.FromFile(Planck15, fname=fname)}
        for name, mk in fresh.items():
            inside = np.concatenate([np.log(kt[0:50]), np.log(kt[0:3]) + 0.4 * np.diff(np.log(kt[0:4]))])
            inside.sort()
            o = mk()
            a = o.lnt(inside)
            ntab += 1
            at_nodes = o.lnt(np.log(kt[0:50]))
            if not np.allclose(at_nodes, np.log(Tt[0:50]), rtol=1e-9, atol=1e-12):
                viol(f"{name}/nodes", f"{name}: table not reproduced at its nodes for a range inside the table (max dev {np.max(np.abs(at_nodes - np.log(Tt[0:50]))):.3g})")
            wide = np.linspace(np.log(1e-6), np.log(1e4), 80)
            w = o.lnt(wide)
            if not np.all(np.isfinite(w)) or np.max(np.abs(np.diff(w))) > 5:
                viol(f"{name}/extension", f"{name}: extension outside the table is not finite/continuous")
            # call-order independence: after a wide-range call the same object must still reproduce the table inside
            b = o.lnt(inside)
            c = mk().lnt(inside)
            if not (np.array_equal(a, b) and np.array_equal(b, c)):
                viol(f"{name}/call-order", f"{name}: values inside the table change after an earlier call with a grid starting below the table (max dev {np.max(np.abs(b - c)):.3g})")
            if not (np.array_equal(kt, k0) and np.array_equal(Tt, T0)):
                viol(f"{name}/caller-arrays", f"{name}: the caller's k/T arrays were modified")
                kt[:] = k0; Tt[:] = T0
        # a table that starts well inside the suppressed regime (T_table[0] ~ 0.8, not 1): a request reaching below it is extended with
        # the first tabulated value, continuously, and the table is still reproduced at its inner nodes
        ks_ = np.exp(np.linspace(np.log(0.05), np.log(50.0), 40))
        Ts_ = np.exp(tm.EH_NoBAO(Planck15).lnt(np.log(ks_)))
        fname2 = os.path.join(tmpdir, "table_short.dat")
        np.savetxt(fname2, np.column_stack([ks_, Ts_]))
        for name, mk2 in {"FromArray": lambda: tm.FromArray(Planck15, k=ks_.copy(), T=Ts_.copy()), "FromFile": lambda: tm.FromFile(Planck15, fname=fname2)}.items():
            req = np.sort(np.concatenate([np.log(np.array([1e-3, 5e-3, 2e-2])), np.log(ks_[1:30])]))
            got_ = mk2().lnt(req)
            ntab += 1
            at_ = got_[3:]
            if not np.allclose(at_, np.log(Ts_[1:30]), rtol=1e-8, atol=1e-10):
                viol(f"{name}/nodes/short-table", f"{name}: with a request reaching below a table that starts at T={Ts_[0]:.3f}, the inner nodes are not reproduced (max dev of ln T {np.max(np.abs(at_ - np.log(Ts_[1:30]))):.3g})",
                     {"model": name, "table_k_min": 0.05})
            lo_, hi_ = float(np.min(np.log(Ts_[:3]))) - 0.5, float(np.log(Ts_[0])) + 0.05
            if not (np.all(np.isfinite(got_[:3])) and np.all((got_[:3] > lo_) & (got_[:3] < hi_)) and np.max(np.abs(np.diff(got_[:5]))) < 1.0):
                viol(f"{name}/extension/short-table", f"{name}: extension below a table starting at ln T = {np.log(Ts_[0]):.4f} is not finite, continuous and anchored at the first tabulated value: ln T = {got_[:3].tolist()}")
        # a request on exactly the table's own grid (it "lies inside the table": first requested k == first tabulated k) reproduces every node
        for name, mk2 in {"FromArray": lambda: tm.FromArray(Planck15, k=ks_.copy(), T=Ts_.copy()), "FromFile": lambda: tm.FromFile(Planck15, fname=fname2)}.items():
            for lo_i in (0, 1):
                own = mk2().lnt(np.log(ks_[lo_i:]))
                ntab += 1
                if not np.allclose(own, np.log(Ts_[lo_i:]), rtol=1e-8, atol=1e-10):
                    nb_ = int(np.sum(~np.isclose(own, np.log(Ts_[lo_i:]), rtol=1e-8, atol=1e-10)))
                    viol(f"{name}/nodes/own-grid", f"{name}: evaluated on the table's own grid (from node {lo_i}), {nb_} nodes are not reproduced (max dev of ln T {np.max(np.abs(own - np.log(Ts_[lo_i:]))):.3g}; table starts at T={Ts_[0]:.3f})",
                         {"model": name, "request": "np.log(k_table[%d:])" % lo_i})
                    break
        # ... also for a table with a low-k feature (a few-per-cent turn-up on the largest scales followed by the plateau, as some Boltzmann
        # outputs have): inside the table nothing is cut or patched
        ku_ = np.exp(np.arange(np.log(1e-7), np.log(1e2), 0.1))
        Tu_ = 0.97 * np.exp(tm.BBKS(Planck15).lnt(np.log(ku_))) * (1 + 0.03 * np.exp(-ku_ / 5e-7))
        fname3 = os.path.join(tmpdir, "table_turnup.dat")
        np.savetxt(fname3, np.column_stack([ku_, Tu_]))
        for name, mk3 in {"FromArray": lambda: tm.FromArray(Planck15, k=ku_.copy(), T=Tu_.copy()), "FromFile": lambda: tm.FromFile(Planck15, fname=fname3)}.items():
            for lo_i in (0, 2):
                own = mk3().lnt(np.log(ku_[lo_i:]))
                ntab += 1
                if not np.allclose(own, np.log(Tu_[lo_i:]), rtol=1e-8, atol=1e-10):
                    nb_ = int(np.sum(~np.isclose(own, np.log(Tu_[lo_i:]), rtol=1e-8, atol=1e-10)))
                    viol(f"{name}/nodes/own-grid", f"{name}: evaluated on the table's own grid (from node {lo_i}; table with a 3% low-k turn-up), {nb_} nodes are not reproduced (max dev of ln T {np.max(np.abs(own - np.log(Tu_[lo_i:]))):.3g})",
                         {"model": name, "request": "np.log(k_table[%d:])" % lo_i, "table": "0.97*BBKS*(1+0.03*exp(-k/5e-7)) on exp(arange(ln 1e-7, ln 1e2, 0.1))"})
                    break
        # CAMB-format files: the total-matter transfer function is the seventh column, whatever the number of columns (>= 7)
        for ncol in (7, 9, 13):
            cols = [ks_] + [Ts_ * (0.5 + 0.1 * j_) for j_ in range(1, ncol)]
            cols[6] = Ts_
            fnm = os.path.join(tmpdir, f"table_{ncol}col.dat")
            np.savetxt(fnm, np.column_stack(cols))
            got7 = tm.FromFile(Planck15, fname=fnm).lnt(np.log(ks_[2:30]))
            ntab += 1
            if not np.allclose(got7, np.log(Ts_[2:30]), rtol=1e-8, atol=1e-10):
                viol(f"FromFile/nodes/{ncol}-column-file", f"FromFile with a {ncol}-column (CAMB-format) file does not reproduce the total-matter column at its nodes (max dev of ln T {np.max(np.abs(got7 - np.log(Ts_[2:30]))):.3g})",
                     {"columns": ncol})
        # the value at a wavenumber must not depend on where the requested grid starts: same table, one request starting below it and one
        # starting inside it, compared on their common wavenumbers inside the table, at its last node and in the extension above it
        for name, mk2 in {"FromArray": lambda: tm.FromArray(Planck15, k=ks_.copy(), T=Ts_.copy()), "FromFile": lambda: tm.FromFile(Planck15, fname=fname2)}.items():
            common = np.concatenate([np.log(ks_[5:40:5]), [np.log(ks_[-1])], np.log(ks_[-1]) + np.array([0.3, 1.0, 2.5])])
            below = mk2().lnt(np.concatenate([[np.log(1e-3)], common]))[1:]
            inside = mk2().lnt(np.concatenate([[np.log(ks_[2])], common]))[1:]
            ntab += 1
            if not np.allclose(below, inside, rtol=0, atol=1e-9):
                i_ = int(np.argmax(np.abs(below - inside)))
                viol(f"{name}/value-depends-on-request-start", f"{name}: ln T at k={np.exp(common[i_]):.4g} is {below[i_]:.5f} when the requested grid starts below the table and {inside[i_]:.5f} when it starts inside it "
                     f"(table k in [{ks_[0]:.3g}, {ks_[-1]:.3g}])", {"model": name, "k": float(np.exp(common[i_]))})
        # framework level: update() to a narrower grid vs fresh
        t1 = Transfer(transfer_model="FromArray", transfer_params={"k": kt, "T": Tt}, lnk_min=-12.0, lnk_max=6.0, dlnk=0.25)
        t1._unnormalised_lnT
        t1.update(lnk_min=-6.0)
        t2 = Transfer(transfer_model="FromArray", transfer_params={"k": kt, "T": Tt}, lnk_min=-6.0, lnk_max=6.0, dlnk=0.25)
        if not np.array_equal(t1._unnormalised_lnT, t2._unnormalised_lnT):
            viol("FromArray/framework-call-order", "Transfer(FromArray): after update(lnk_min=...) the un-normalised transfer differs from a fresh object's")
        # ---- CAMB largest scale
        try:
            lc = tm.CAMB(Planck15).lnt(np.linspace(-10, 2, 30))
            if abs(lc[0]) > 1e-3:
                viol("CAMB/large-scale", f"CAMB ln T at its largest scale is {lc[0]:.4g}, expected 0")
            ntab += 1
            # ... for every cosmology: closed and wCDM models have tables that are not monotone on their first rows
            from astropy.cosmology import LambdaCDM, FlatwCDM
            for cn_, cos_ in (("closed LCDM (Om0=0.35, Ode0=0.8)", LambdaCDM(H0=68.0, Om0=0.35, Ode0=0.8, Ob0=0.048, Tcmb0=2.725)),
                              ("wCDM (w0=-0.7)", FlatwCDM(H0=68.0, Om0=0.3, w0=-0.7, Ob0=0.048, Tcmb0=2.725)),
                              ("open LCDM (Om0=0.3, Ode0=0.5)", LambdaCDM(H0=68.0, Om0=0.3, Ode0=0.5, Ob0=0.048, Tcmb0=2.725))):
                for grid_ in (np.linspace(-12, 2, 30), np.linspace(-6, 2, 20)):
                    try:
                        lcc = tm.CAMB(cos_).lnt(grid_.copy())
                    except Exception as e_:
                        out["assumptions"].append(f"CAMB with {cn_} not exercised: {type(e_).__name__}")
                        break
                    ntab += 1
                    # the largest scale of the *model* is its first tabulated row (or the requested minimum when that lies below the table)
                    if grid_[0] < -10 and abs(lcc[0]) > 1e-3:
                        viol("CAMB/large-scale", f"CAMB ln T at its largest scale is {lcc[0]:.4g} for {cn_}, expected 0 (T = 1)", {"cosmology": cn_, "lnk_min": float(grid_[0])})
        except Exception as e:
            out["assumptions"].append(f"CAMB not exercised: {e}")
        # ---- transfer_function = T x constant, constant independent of the requested k range (normalisation accuracy)
        nrange = 0
        for model in ("EH", "BBKS"):
            ref = Transfer(transfer_model=model, lnk_min=-18.0, lnk_max=10.0, dlnk=0.05)
            cref = ref.transfer_function[100] / np.exp(ref._unnormalised_lnT[100])
            for (lo, hi) in [(-12.0, 10.0), (-3.0, 10.0), (-4.0, 10.0), (-18.0, 0.0), (-18.0, 3.0), (-5.0, 3.0), (-3.0, 1.0), (-16.0, 9.5)]:
                t = Transfer(transfer_model=model, lnk_min=lo, lnk_max=hi, dlnk=0.05)
                ratio = t.transfer_function / np.exp(t._unnormalised_lnT)
                nrange += 1
                if np.ptp(ratio) > 1e-12 * abs(ratio[0]):
                    viol("transfer_function/not-constant-times-T", f"{model}: transfer_function / T varies with k on the grid [{lo},{hi}]")
                if abs(ratio[0] / cref - 1) > 2e-4:
                    viol("transfer_function/range-dependent-constant", f"{model}: the normalisation constant on lnk in [{lo},{hi}] differs from the wide-grid one by {ratio[0] / cref - 1:.3g}",
                         {"model": model, "lnk_min": lo, "lnk_max": hi})
        import shutil
        shutil.rmtree(tmpdir, ignore_errors=True)
    # ---- the Lean model of the table-driven models (Hmf.Table: lnt, _check_low_k) against the real FromArray / FromFile
    import tablecorr
    tstats, tbad = tablecorr.run_corr(150 if quick else 3000)
    if tstats["caller_arrays_modified"]:
        viol("table/caller-arrays", f"FromArray.lnt modified the caller's k/T/request arrays in {tstats['caller_arrays_modified']} of {tstats['cases']} random table/request cases")
    if tbad:
        b = tablecorr.minimise(tbad[0])
        out["broken"].append({"kind": "correspondence", "what": f"Lean model Hmf.Table (lnt/_check_low_k) differs from the real {b['model']}.lnt on {len(tbad)} of {tstats['cases']} random table/request cases", "detail": {k_: b[k_] for k_ in ("model", "table_kind", "request", "lnk", "lnT", "req", "impl", "lean", "start")}})
        # does the disagreeing case violate the property on the real code?  (nodes reproduced when the request starts inside the table;
        # finite values; a value beyond the patched rows does not depend on where the request starts)
        lk_, lT_, rq_ = np.array(b["lnk"]), np.array(b["lnT"]), np.array(b["req"])
        impl_ = np.array(b["impl"], float)
        if impl_.shape == rq_.shape:
            if not np.all(np.isfinite(impl_)):
                viol("table/not-finite", f"{b['model']}.lnt returns non-finite values for a finite table: {impl_.tolist()}", {"lnk": b["lnk"], "lnT": b["lnT"], "req": b["req"]})
            if rq_[0] >= lk_[0]:
                for x_, v_ in zip(rq_, impl_):
                    j_ = np.where(lk_ == x_)[0]
                    if len(j_) and abs(v_ - lT_[j_[0]]) > 1e-9 * max(1.0, abs(lT_[j_[0]])):
                        viol("table/nodes/model-disagreement-case", f"{b['model']}: the request starts inside the table (first requested ln k = {rq_[0]:.6g} >= first tabulated {lk_[0]:.6g}) but the tabulated value at ln k = {x_:.6g} is not reproduced: {v_:.8g} vs table {lT_[j_[0]]:.8g}",
                             {"lnk": b["lnk"], "lnT": b["lnT"], "req": b["req"]})
                        break
    out["coverage"] = {
        "evaluations": len(reqs) + nsweep + ntab + nrange, "programs": len(exp) + tstats["cases"], "disagreements_checked": len(exp) + tstats["cases"], "traces_validated_against_impl": len(exp) + tstats["cases"],
        "distinct_nontrivial": len(exp) + nsweep + tstats["cases"],
        "rule": "random cosmologies (Om0, Ob0/Om0<=0.5, H0, Tcmb0) and +-20% overrides of one model parameter; k log-uniform in [1e-8,1e5]; each analytic model: real vs generated term (and vs spec term for BBKS/BondEfs), array vs element-by-element vs shuffled vs descending, 400-point sweeps; table models with inside/outside ranges and call sequences; 8 one- and two-sided k ranges for the normalisation constant",
        "gen_disagreements": nbad["gen"], "spec_disagreements": nbad["spec"], "samples": [{"model": e[0], "case": e[2], "impl": e[1][:2].tolist()} for e in exp[:2]],
        "search": "sweeps and sequences on the real models",
        "table_model_correspondence": dict(tstats, disagreements=len(tbad)),
        "EH_NoBAO_q_eff_hypothesis": {"evaluated": qeff_n, "min_q_eff": (qeff_min if qeff_n else None)},
    }
    if qeff_n and not qeff_min >= 0:
        out["broken"].append({"kind": "hypothesis", "what": f"hypothesis q_eff >= 0 of theorem EH_NoBAO_lnT_nonpos is not met in the sampled domain (min {qeff_min})"})
    return out


def replay(path):
    j = json.load(open(path))
    print(json.dumps(j.get("replay"), indent=1)[:800])
    res = run({"tier": "quick"})
    hit = [v for v in res["violations"] if v["key"] == j.get("key")]
    print(hit[:1] or "not reproduced on the current tree")
    return 1 if hit else 0
