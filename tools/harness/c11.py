"""C11 — instances never share mutable state.
tie: heap model vs real classes (identity partition, heapcorr) + bystander-snapshot oracle on random multi-instance
programs over the real classes: other instances (parameters and outputs), class-level defaults, constructor default
arguments, plugin registries, caller-owned dicts/arrays, arrays previously returned."""
import copy, pickle, warnings, inspect
import numpy as np
import realfuzz, heapcorr
from common import *


def class_level_snapshot():
    """canonical snapshot of every class-level mutable: _defaults of every registered model, plugin registries,
    __init__ default arguments of frameworks and components"""
    from hmf._internals._framework import get_base_components, Component
    snap = {}
    for kind in get_base_components():
        if not hasattr(kind, "_plugins"):
            continue
        snap[f"registry:{kind.__name__}"] = tuple(sorted((n, id(c)) for n, c in kind._plugins.items() if not n.startswith("VerifUser")))
        for n, c in kind._plugins.items():
            snap[f"defaults:{kind.__name__}.{n}"] = realfuzz.canon(getattr(c, "_defaults", {}))
            init = vars(c).get("__init__")
            if init is not None and init.__defaults__:
                snap[f"initdefaults:{kind.__name__}.{n}"] = tuple(realfuzz.canon(d) for d in init.__defaults__)
    for cn in ["Cosmology", "Transfer", "MassFunction", "TransferWDM", "MassFunctionWDM"]:
        cls = realfuzz.class_by_name(cn)
        init = vars(cls).get("__init__")
        if init is not None:
            snap[f"initdefaults:{cn}"] = tuple(realfuzz.canon(d) for d in (init.__defaults__ or ())) + tuple(
                sorted((k, realfuzz.canon(v)) for k, v in (init.__kwdefaults__ or {}).items()))
    return snap


def instance_snapshot(obj, qs):
    s = {"params": realfuzz.canon(obj.parameter_values)}
    for q in qs:
        s[q] = realfuzz.read(obj, q)
    return s


def program(r, quick):
    """one random multi-instance program; returns list of violations"""
    realfuzz.init()
    viol = []
    clsnames = ["Transfer", "MassFunction", "TransferWDM", "MassFunctionWDM", "Cosmology"]
    shared = {}          # caller-owned argument objects, reused across instances
    caller_snap = {}
    insts, meta = [], []
    returned = []        # (who, quantity, array object, bytes at the time it was returned)
    nops = 0
    kinds = {}
    script = []
    with warnings.catch_warnings():
        warnings.simplefilter("ignore")
        np.seterr(all="ignore")
        cls0 = class_level_snapshot()

        def caller_arg(cn, k):
            P = realfuzz.pools(cn)
            cands = [v for v in P[k] if isinstance(v, dict)]
            key = (k, r.randrange(len(cands)))
            if key not in shared:
                shared[key] = copy.deepcopy(cands[key[1]])
                caller_snap[key] = realfuzz.canon(shared[key])
            return key, shared[key]

        def check(actor, what):
            # bystanders: every other instance, class level, caller objects, previously returned arrays
            for j, o in enumerate(insts):
                if j == actor or o is None:
                    continue
                now = instance_snapshot(o, meta[j]["qs"])
                if now != meta[j]["snap"]:
                    diff = [k for k in now if now[k] != meta[j]["snap"].get(k)]
                    viol.append({"key": f"bystander-instance/{diff[0]}", "what": f"{what} on instance {actor} changed {diff[:3]} of instance {j} ({meta[j]['cls']})"})
                    meta[j]["snap"] = now
            now = class_level_snapshot()
            if now != cls0:
                diff = [k for k in now if now[k] != cls0.get(k)] + [k for k in cls0 if k not in now]
                viol.append({"key": f"class-level/{diff[0].split(':')[0]}", "what": f"{what} changed class-level state {diff[:3]}"})
                cls0.clear(); cls0.update(now)
            for key, obj in shared.items():
                if realfuzz.canon(obj) != caller_snap[key]:
                    viol.append({"key": f"caller-object/{key[0]}", "what": f"{what} modified the caller's {key[0]} argument object"})
                    caller_snap[key] = realfuzz.canon(obj)
            for rec in returned:
                who, q, arr, b = rec
                if who != actor and arr.tobytes() != b:
                    viol.append({"key": f"returned-array/{q}", "what": f"{what} on instance {actor} modified the array previously returned by instance {who}.{q}"})
                    rec[3] = arr.tobytes()
                elif who == actor and arr.tobytes() != b:
                    viol.append({"key": f"returned-array-self/{q}", "what": f"{what} modified in place the array previously returned as {q}"})
                    rec[3] = arr.tobytes()

        for step in range(r.randint(6, 12 if quick else 24)):
            x = r.random()
            live = [i for i, o in enumerate(insts) if o is not None]
            if not live or x < 0.2:
                cn = r.choice(clsnames)
                P = realfuzz.pools(cn)
                kw = copy.deepcopy(realfuzz.BASE[cn])
                if cn != "Cosmology" and r.random() < 0.5:
                    kw.update(lnk_min=r.choice([-12.0, -5.0, -4.0]), lnk_max=r.choice([10.0, 6.0]))
                for k in [k for k in P if k.endswith("_params")]:
                    if r.random() < 0.4:
                        kw[k] = caller_arg(cn, k)[1]
                try:
                    o = realfuzz.class_by_name(cn)(**kw)
                except Exception:
                    o = None
                if o is not None:
                    qs = realfuzz.quantities(type(o))
                    qs = r.sample(qs, min(len(qs), 6))
                    insts.append(o); meta.append({"cls": cn, "qs": qs, "snap": None})
                    meta[-1]["snap"] = instance_snapshot(o, qs)
                    actor, what = len(insts) - 1, f"constructing {cn}"
                    script.append(f"i{actor} = {cn}(...)")
                else:
                    actor, what = -1, f"failed construction of {cn}"
            else:
                actor = r.choice(live)
                o, cn = insts[actor], meta[actor]["cls"]
                P = realfuzz.pools(cn)
                if x < 0.45:
                    q = r.choice(realfuzz.quantities(type(o)))
                    what = f"reading {q}"
                    try:
                        v = getattr(o, q)
                        if isinstance(v, np.ndarray):
                            returned.append([actor, q, v, v.tobytes()])
                    except Exception:
                        pass
                    script.append(f"i{actor}.{q}")
                elif x < 0.75:
                    ks = r.sample(sorted(P), min(len(P), r.randint(1, 2)))
                    kw = {}
                    for k in ks:
                        if k.endswith("_params") and r.random() < 0.5:
                            kw[k] = caller_arg(cn, k)[1]
                        else:
                            kw[k] = copy.deepcopy(r.choice(P[k]))
                    what = f"update({', '.join(kw)})"
                    try:
                        o.update(**kw)
                    except Exception:
                        pass
                    script.append(f"i{actor}.update({', '.join(f'{k}={realfuzz.show(v)}' for k, v in kw.items())})")
                elif x < 0.9:
                    how = r.choice(["deepcopy", "clone", "pickle"])
                    what = how
                    try:
                        c = copy.deepcopy(o) if how == "deepcopy" else (o.clone() if how == "clone" else pickle.loads(pickle.dumps(o)))
                        insts.append(c); meta.append({"cls": cn, "qs": meta[actor]["qs"], "snap": None})
                        meta[-1]["snap"] = instance_snapshot(c, meta[-1]["qs"])
                        script.append(f"i{len(insts) - 1} = {how}(i{actor})")
                    except Exception:
                        pass
                else:
                    what = "discarding"
                    insts[actor] = None
                    script.append(f"del i{actor}")
            nops += 1
            kinds[what.split("(")[0].split(" ")[0]] = kinds.get(what.split("(")[0].split(" ")[0], 0) + 1
            if actor >= 0 and insts[actor] is not None:
                meta[actor]["snap"] = instance_snapshot(insts[actor], meta[actor]["qs"])
            check(actor, what)
            if viol:
                break
    for v in viol:
        v["replay"] = {"kind": "c11-program", "script": script}
    return viol, nops, kinds, script


def read_purity_sweep(r, quick):
    """reads never change anything already handed out: for each class and several k/mass grids (incl. grids entirely
    above HALOFIT's low-k cut) read every quantity in several orders, keeping every returned array, parameter dict and
    class-level default; after each read all of them must be bit-identical"""
    realfuzz.init()
    viol, nreads = [], 0
    grids = [{}, {"lnk_min": -5.0, "lnk_max": 6.0}, {"lnk_min": -4.0, "lnk_max": 3.0, "dlnk": 0.1}, {"lnk_min": -16.0, "lnk_max": 10.0}]
    with warnings.catch_warnings():
        warnings.simplefilter("ignore")
        np.seterr(all="ignore")
        for cn in ["Transfer", "MassFunction", "TransferWDM", "MassFunctionWDM"]:
            cls = realfuzz.class_by_name(cn)
            qs = realfuzz.quantities(cls)
            for g in (grids if not quick else grids[:3]):
                for order in ("sorted", "reversed", "random"):
                    seq = sorted(qs) if order == "sorted" else (sorted(qs, reverse=True) if order == "reversed" else r.sample(qs, len(qs)))
                    kw = dict(copy.deepcopy(realfuzz.BASE[cn]), **g)
                    try:
                        o = cls(**kw)
                    except Exception:
                        continue
                    cls0 = class_level_snapshot()
                    held = []
                    for q in seq:
                        try:
                            v = getattr(o, q)
                        except Exception:
                            continue
                        nreads += 1
                        for q0, arr, b in held:
                            if arr.tobytes() != b:
                                viol.append({"key": f"read-mutates-returned-array/{q0}", "what": f"{cn}({g}): reading {q} modified the array previously returned as {q0}",
                                             "replay": {"kind": "c11-program", "script": [f"o = {cn}(**{kw})"] + [f"o.{x}" for x in seq[:seq.index(q) + 1]]}})
                                return viol, nreads
                        if isinstance(v, np.ndarray):
                            held.append((q, v, v.tobytes()))
                    if class_level_snapshot() != cls0:
                        viol.append({"key": "read-mutates-class-level", "what": f"{cn}: reading quantities changed class-level defaults",
                                     "replay": {"kind": "c11-program", "script": [f"o = {cn}(**{kw})"] + [f"o.{x}" for x in seq]}})
                        return viol, nreads
    return viol, nreads


def camb_wcdm_scenario():
    """the CAMB transfer model with a non-LambdaCDM (wCDM) cosmology: building and reading it must leave class-level defaults and a
    caller-held nested parameter dict untouched, and a second instance with another w0 must not be affected by the first"""
    realfuzz.init()
    viol = []
    try:
        import camb  # noqa
        from astropy.cosmology import FlatwCDM
        from hmf.density_field.transfer import Transfer
    except Exception:
        return viol, 0
    with warnings.catch_warnings():
        warnings.simplefilter("ignore")
        np.seterr(all="ignore")
        grid = dict(lnk_min=-8.0, lnk_max=2.0, dlnk=0.5)
        snap0 = class_level_snapshot()
        held = {"dark_energy_params": {}}
        held0 = copy.deepcopy(held)
        a = Transfer(transfer_model="CAMB", cosmo_model=FlatwCDM(H0=70.0, Om0=0.3, w0=-0.9, Tcmb0=2.725, Ob0=0.05), transfer_params=held, **grid)
        la = np.array(a._unnormalised_lnT)
        script = ["held = {'dark_energy_params': {}}", "a = Transfer(transfer_model='CAMB', cosmo_model=FlatwCDM(w0=-0.9, ...), transfer_params=held); a._unnormalised_lnT"]
        if class_level_snapshot() != snap0:
            viol.append({"key": "CAMB-wCDM/class-level-defaults", "what": "building/reading a CAMB transfer with a wCDM cosmology changed class-level defaults (e.g. CAMB._defaults)", "replay": {"kind": "c11-program", "script": script}})
        if held != held0:
            viol.append({"key": "CAMB-wCDM/caller-dict", "what": f"the caller's transfer_params dict was modified: {held}", "replay": {"kind": "c11-program", "script": script}})
        b = Transfer(transfer_model="CAMB", cosmo_model=FlatwCDM(H0=70.0, Om0=0.3, w0=-0.7, Tcmb0=2.725, Ob0=0.05), **grid)
        lb = np.array(b._unnormalised_lnT)
        if np.array_equal(la, lb) and not viol:
            pass        # (w0 may legitimately be ignored by this version: not a sharing question)
        # a CAMBparams object supplied by the caller: once the framework that was given it has been read, nothing done to a *copy* of
        # that framework (clone with another cosmology, deepcopy + update, reads of the copy) may reach the caller's object again, and
        # the original then recomputes like a bystander built from equal arguments
        def cp_state(cp_):
            return (float(cp_.H0), float(cp_.omch2), float(cp_.ombh2), float(cp_.omk))
        for how in ("clone", "deepcopy+update"):
            def mk():
                return camb.CAMBparams(DoLensing=False, Want_CMB=False, Want_CMB_lensing=False, WantCls=False, WantDerivedParameters=False)
            cp = mk()
            a2 = Transfer(transfer_model="CAMB", transfer_params={"camb_params": cp}, **grid)
            a2.power
            by = Transfer(transfer_model="CAMB", transfer_params={"camb_params": mk()}, **grid)
            by.power
            st0 = cp_state(cp)
            chg = {"cosmo_params": {"H0": 60.0, "Om0": 0.35}}
            c2 = a2.clone(**chg) if how == "clone" else copy.deepcopy(a2)
            if how != "clone":
                c2.update(**chg)
            c2.power
            script2 = ["cp = camb.CAMBparams(...)", "a = Transfer(transfer_model='CAMB', transfer_params={'camb_params': cp}); a.power", f"c = a.{how}(cosmo_params={{'H0': 60, 'Om0': 0.35}}); c.power"]
            if cp_state(cp) != st0:
                viol.append({"key": f"CAMB-user-params/{how}/caller-object", "what": f"the caller's CAMBparams object was modified through a copy of the framework it was given to: (H0, omch2, ombh2, omk) {st0} -> {cp_state(cp)}",
                             "replay": {"kind": "c11-program", "script": script2}})
            a2.update(dlnk=0.4); by.update(dlnk=0.4)
            if not np.allclose(a2.power, by.power, rtol=1e-9):
                viol.append({"key": f"CAMB-user-params/{how}/original-vs-bystander", "what": f"after work on a copy ({how}), the original recomputes a power spectrum {float(np.max(np.abs(a2.power / by.power - 1))):.3g} away from a bystander built from equal arguments",
                             "replay": {"kind": "c11-program", "script": script2 + ["a.update(dlnk=0.4); b.update(dlnk=0.4); a.power vs b.power"]}})
    return viol, 4


def caller_arrays_scenario():
    """arrays owned by the caller and passed as model parameters (the k/T table of the FromArray transfer model; stand-alone component and
    through the framework, one instance and two instances built from the same arrays) are never modified, arrays already returned are never
    modified by building/reading another instance, and both instances give the same outputs"""
    realfuzz.init()
    viol, n = [], 0
    from astropy.cosmology import Planck15
    from hmf.density_field.transfer import Transfer
    from hmf.density_field import transfer_models as tm
    with warnings.catch_warnings():
        warnings.simplefilter("ignore")
        np.seterr(all="ignore")
        for label, amp, lo in (("unit-amplitude table", 1.0, 1e-5), ("raw-unit table (T ~ 1e3)", 1761.0, 1e-5), ("table starting inside the requested range", 35.0, 1e-2)):
            k = np.exp(np.linspace(np.log(lo), np.log(50.0), 50))
            T = amp * np.exp(tm.BBKS(Planck15).lnt(np.log(k)))
            k0, T0 = k.copy(), T.copy()
            script = [f"k = exp(linspace(ln {lo}, ln 50, 50)); T = {amp} * T_BBKS(k)"]

            def unchanged(step):
                if not (np.array_equal(k, k0) and np.array_equal(T, T0)):
                    viol.append({"key": "caller-arrays/FromArray", "what": f"{label}: the caller's k/T arrays were modified by `{step}` (T[0] {T0[0]:.6g} -> {T[0]:.6g})",
                                 "replay": {"kind": "c11-program", "script": script + [step]}})
                    k[:] = k0; T[:] = T0
                    return False
                return True
            c = tm.FromArray(Planck15, k=k, T=T)
            unchanged("c = FromArray(Planck15, k=k, T=T)")
            for req in (np.linspace(-14, 3, 40), np.linspace(-3, 3, 20)):
                c.lnt(req.copy()); n += 1
                unchanged(f"c.lnt(linspace({req[0]}, {req[-1]}, {len(req)}))")
            grid = dict(lnk_min=-12.0, lnk_max=3.0, dlnk=0.25)
            a = Transfer(transfer_model="FromArray", transfer_params={"k": k, "T": T}, **grid)
            unchanged("a = Transfer(transfer_model='FromArray', transfer_params={'k': k, 'T': T}, ...)")
            tf_a = a.transfer_function; n += 1
            keep = tf_a.copy()
            pa = a.power.copy()
            unchanged("a.transfer_function; a.power")
            b = Transfer(transfer_model="FromArray", transfer_params={"k": k, "T": T}, **grid)
            tf_b = b.transfer_function; n += 1
            unchanged("b = Transfer(... same arrays ...); b.transfer_function")
            if not np.array_equal(tf_a, keep):
                viol.append({"key": "returned-array/FromArray-second-instance", "what": f"{label}: the array returned by a.transfer_function changed when a second instance was built from the same caller arrays and read",
                             "replay": {"kind": "c11-program", "script": script + ["a = Transfer(FromArray, k, T); x = a.transfer_function", "b = Transfer(FromArray, k, T); b.transfer_function", "x changed"]}})
            if not (np.array_equal(tf_b, keep) and np.array_equal(b.power, pa)):
                viol.append({"key": "equal-arguments/FromArray", "what": f"{label}: two instances built from equal arguments (the same caller arrays) give different transfer_function/power (max rel diff {float(np.max(np.abs(tf_b / keep - 1))):.3g})",
                             "replay": {"kind": "c11-program", "script": script + ["a = Transfer(FromArray, k, T); a.transfer_function", "b = Transfer(FromArray, k, T); b.transfer_function != a.transfer_function"]}})
            a.update(lnk_min=-6.0); a.transfer_function; n += 1
            unchanged("a.update(lnk_min=-6.0); a.transfer_function")
        # caller-owned arrays handed to the other components that take arrays: WDM recalibrations (m, dndm0), fits (nu2, m, n_eff), filters (k, power)
        from hmf.alternatives import wdm as wdm_
        from hmf.mass_function import fitting_functions as ff_
        from hmf.density_field import filters as flt_
        m_ = 10 ** np.linspace(7, 14, 12); d_ = m_ ** -1.9
        m0_, d0_ = m_.copy(), d_.copy()
        for cname_ in ("Schneider12_vCDM", "Schneider12", "Lovell14"):
            comp_ = getattr(wdm_, cname_)(m=m_, dndm0=d_, wdm=wdm_.Viel05(mx=1.0))
            r1_ = np.array(comp_.dndm_alter(), float); r2_ = np.array(comp_.dndm_alter(), float); n += 1
            if not (np.array_equal(m_, m0_) and np.array_equal(d_, d0_)):
                viol.append({"key": f"caller-arrays/{cname_}", "what": f"{cname_}.dndm_alter() modified the caller's m/dndm0 arrays (dndm0[0] {d0_[0]:.6g} -> {d_[0]:.6g})", "replay": {"kind": "c11-program", "script": [f"c = {cname_}(m=m, dndm0=d, wdm=Viel05(mx=1.0)); c.dndm_alter()", "d changed"]}})
                m_[:] = m0_; d_[:] = d0_
            elif not np.array_equal(r1_, r2_):
                viol.append({"key": f"repeat-call/{cname_}", "what": f"{cname_}.dndm_alter() gives different values when called twice", "replay": {"kind": "c11-program", "script": [f"c = {cname_}(...); c.dndm_alter(); c.dndm_alter()"]}})
        nu2_ = np.array([0.3, 1.0, 4.0]); mm_ = np.array([1e10, 1e12, 1e14]); ne_ = np.array([-2.0, -1.5, -1.0])
        snap_ = (nu2_.copy(), mm_.copy(), ne_.copy())
        for fname_ in sorted(ff_.FittingFunction._plugins):
            try:
                fo_ = ff_.FittingFunction._plugins[fname_](nu2=nu2_, m=mm_, n_eff=ne_, z=0.5, delta_c=1.686)
                fo_.fsigma; fo_.cutmask; n += 1
            except Exception:
                continue
            if not (np.array_equal(nu2_, snap_[0]) and np.array_equal(mm_, snap_[1]) and np.array_equal(ne_, snap_[2])):
                viol.append({"key": f"caller-arrays/fit/{fname_}", "what": f"{fname_}: evaluating fsigma/cutmask modified the caller's nu2/m/n_eff arrays", "replay": {"kind": "c11-program", "script": [f"f = {fname_}(nu2=nu2, m=m, n_eff=n_eff, z=0.5); f.fsigma; f.cutmask"]}})
                nu2_[:], mm_[:], ne_[:] = snap_
        kk_ = np.exp(np.linspace(-8, 4, 80)); pp_ = kk_ ** 0.96 / (1 + (kk_ / 0.02) ** 3.5)
        kp_ = (kk_.copy(), pp_.copy()); rr_ = np.array([1.0, 4.0, 8.0]); rr0_ = rr_.copy()
        for wname_ in ("TopHat", "Gaussian", "SharpK", "SharpKEllipsoid"):
            fo_ = getattr(flt_, wname_)(kk_, pp_)
            try:
                fo_.sigma(rr_); fo_.sigma(rr_, 1); fo_.dlnss_dlnm(rr_); fo_.mass_to_radius(mm_, 1e11); n += 1
            except Exception:
                pass
            if not (np.array_equal(kk_, kp_[0]) and np.array_equal(pp_, kp_[1]) and np.array_equal(rr_, rr0_)):
                viol.append({"key": f"caller-arrays/filter/{wname_}", "what": f"{wname_}: sigma/dlnss_dlnm modified the caller's k/power/radius arrays", "replay": {"kind": "c11-program", "script": [f"f = {wname_}(k, P); f.sigma(r); f.sigma(r, 1); f.dlnss_dlnm(r)"]}})
                kk_[:], pp_[:] = kp_; rr_[:] = rr0_
    seen, outv = set(), []
    for v in viol:
        if v["key"] not in seen:
            seen.add(v["key"]); outv.append(v)
    return outv, n


def registry_scenario():
    """plugin registries are class-level state: constructing / updating / cloning instances with models given as *class objects* (built-in
    classes, a run-time abstract class, a run-time subclass that shadows a built-in name) never adds, removes or re-points an entry, and
    two instances built from equal arguments (a model *name*) stay equal whatever a third instance was built with"""
    realfuzz.init()
    viol, n = [], 0
    from hmf.mass_function import fitting_functions as ff
    from hmf.density_field import transfer_models as tm, filters as flt
    from hmf.cosmology import growth_factor as gfm
    from hmf._internals._framework import get_base_components
    MF = realfuzz.class_by_name("MassFunction")
    base = dict(copy.deepcopy(realfuzz.BASE["MassFunction"]))

    def regs():
        return {kind.__name__: {nm: id(c) for nm, c in kind._plugins.items()} for kind in get_base_components() if hasattr(kind, "_plugins")}
    saved = {kind: dict(kind._plugins) for kind in get_base_components() if hasattr(kind, "_plugins")}
    try:
        with warnings.catch_warnings():
            warnings.simplefilter("ignore")
            np.seterr(all="ignore")
            builtin_t08 = ff.Tinker08

            class Tinker08(ff.Tinker08):        # a user model shadowing a built-in name: from now on the *name* means this class
                _defaults = dict(ff.Tinker08._defaults, A_200=0.25)

            class VerifUserAbstractFit(ff.SMT, abstract=True):
                pass
            before = regs()
            by_name_1 = MF(**dict(base, hmf_model="Tinker08", mdef_model="SOMean")).fsigma.copy()
            script = ["class Tinker08(ff.Tinker08): _defaults = {..., 'A_200': 0.25}", "class VerifUserAbstractFit(ff.SMT, abstract=True): pass",
                      "a = MassFunction(hmf_model='Tinker08', mdef_model='SOMean'); a.fsigma"]
            steps = [("MassFunction(hmf_model=<built-in class Tinker08>)", lambda: MF(**dict(base, hmf_model=builtin_t08, mdef_model="SOMean")).fsigma),
                     ("MassFunction(hmf_model=<abstract user class>)", lambda: MF(**dict(base, hmf_model=VerifUserAbstractFit)).fsigma),
                     ("MassFunction(transfer_model=tm.EH_BAO, filter_model=flt.Gaussian, growth_model=gfm.Carroll1992)", lambda: MF(**dict(base, transfer_model=tm.EH_BAO, filter_model=flt.Gaussian, growth_model=gfm.Carroll1992)).sigma),
                     ("o.update(hmf_model=ff.PS); o.clone(hmf_model=ff.Jenkins)", lambda: (lambda o: (o.update(hmf_model=ff.PS), o.clone(hmf_model=ff.Jenkins).fsigma))(MF(**base)))]
            for label, f in steps:
                try:
                    f()
                except Exception:
                    pass
                n += 1
                script.append(label)
                after = regs()
                if after != before:
                    d = []
                    for kname in before:
                        for nm in sorted(set(before[kname]) | set(after[kname])):
                            if before[kname].get(nm) != after[kname].get(nm):
                                d.append(f"{kname}._plugins[{nm!r}] " + ("added" if nm not in before[kname] else "removed" if nm not in after[kname] else "re-pointed to another class"))
                    viol.append({"key": "registry/changed-by-instance-operation", "what": f"plugin registry changed by `{label}`: " + "; ".join(d[:4]), "replay": {"kind": "c11-program", "script": list(script)}})
                    break
            by_name_2 = MF(**dict(base, hmf_model="Tinker08", mdef_model="SOMean")).fsigma
            n += 1
            if not np.array_equal(by_name_1, by_name_2):
                viol.append({"key": "registry/equal-arguments-diverge", "what": f"two MassFunction(hmf_model='Tinker08') built from equal arguments differ (max rel diff {float(np.nanmax(np.abs(by_name_2 / by_name_1 - 1))):.3g}) after other instances were built with models given as classes",
                             "replay": {"kind": "c11-program", "script": script + ["b = MassFunction(hmf_model='Tinker08', mdef_model='SOMean'); b.fsigma != a.fsigma"]}})
    finally:
        for kind, d in saved.items():
            kind._plugins.clear()
            kind._plugins.update(d)
    return viol, n


def isolation_scenario(quick):
    """outputs do not depend on which other instances (frameworks or components) were created earlier in the process: configurations that a
    careless class- or module-level memo would confuse (equal densities but another CMB temperature; equal Om0 but another Ode0; clones of one
    astropy model, which share their name; the same redshift) are evaluated one after the other and compared with their value in a fresh
    interpreter"""
    import isolation
    F = lambda **kw: dict({"class": "FlatLambdaCDM", "H0": 70.0, "Om0": 0.3, "Ob0": 0.05, "Tcmb0": 2.725}, **kw)
    L = lambda **kw: dict({"class": "LambdaCDM", "H0": 70.0, "Om0": 0.3, "Ode0": 0.7, "Ob0": 0.05, "Tcmb0": 2.725}, **kw)
    lnk = [-6.0, -3.0, -1.0, 0.5, 2.0]
    nu2 = [0.3, 1.0, 3.0, 8.0]; mm = [1e10, 1e12, 1e14, 1e15]
    cfgs = []
    for model in ("EH_BAO", "EH_NoBAO", "BBKS"):
        cfgs += [{"kind": "transfer_model", "model": model, "cosmo": F(), "lnk": lnk, "note": f"{model}, Tcmb0=2.725"},
                 {"kind": "transfer_model", "model": model, "cosmo": F(Tcmb0=2.0), "lnk": lnk, "note": f"{model}, same Om0/Ob0/H0, Tcmb0=2.0"},
                 {"kind": "transfer_model", "model": model, "cosmo": F(H0=60.0, Om0=0.36, Ob0=0.06), "lnk": lnk, "note": f"{model}, same Om0 h^2 and Ob0 h^2, other h"}]
    for model in ("Carroll1992", "GrowthFactor", "GenMFGrowth"):
        cfgs += [{"kind": "growth", "model": model, "cosmo": L(Tcmb0=0.0), "z": [0.0, 1.0, 3.0], "note": f"{model}, Om0=0.3 Ode0=0.7"},
                 {"kind": "growth", "model": model, "cosmo": L(Ode0=0.0, Tcmb0=0.0), "z": [0.0, 1.0, 3.0], "note": f"{model}, same Om0, Ode0=0"}]
    cfgs += [{"kind": "fit", "model": "Watson", "z": 1.0, "nu2": nu2, "m": mm, "mdef_params": {"overdensity": 200}, "cosmo": {"class": "x", "clone_of": "Planck15", "Om0": 0.25}, "note": "Watson z=1, Planck15.clone(Om0=0.25)"},
             {"kind": "fit", "model": "Watson", "z": 1.0, "nu2": nu2, "m": mm, "mdef_params": {"overdensity": 200}, "cosmo": {"class": "x", "clone_of": "Planck15", "Om0": 0.4}, "note": "Watson z=1, Planck15.clone(Om0=0.4): same astropy name"},
             {"kind": "fit", "model": "Tinker08", "z": 1.0, "nu2": nu2, "m": mm, "mdef": "SOCritical", "mdef_params": {"overdensity": 300}, "cosmo": {"class": "x", "clone_of": "Planck15", "Om0": 0.25}, "note": "Tinker08/SOCritical z=1, Om0=0.25"},
             {"kind": "fit", "model": "Tinker08", "z": 1.0, "nu2": nu2, "m": mm, "mdef": "SOCritical", "mdef_params": {"overdensity": 300}, "cosmo": {"class": "x", "clone_of": "Planck15", "Om0": 0.4}, "note": "Tinker08/SOCritical z=1, Om0=0.4: same astropy name"}]
    fw = dict(transfer_model="EH", lnk_min=-8.0, lnk_max=4.0, dlnk=0.25, Mmin=10.0, Mmax=14.0, dlog10m=0.5, z=1.0, mdef_model="SOCritical", hmf_model="Tinker08")
    cfgs += [{"kind": "framework", "cls": "MassFunction", "kwargs": fw, "cosmo": {"class": "x", "clone_of": "Planck15", "Om0": 0.27}, "quantities": ["dndm", "halo_overdensity_mean", "power"], "note": "MassFunction, Planck15.clone(Om0=0.27)"},
             {"kind": "framework", "cls": "MassFunction", "kwargs": fw, "cosmo": {"class": "x", "clone_of": "Planck15", "Om0": 0.33}, "quantities": ["dndm", "halo_overdensity_mean", "power"], "note": "MassFunction, Planck15.clone(Om0=0.33): same astropy name"}]
    # the non-linear spectrum is found by a numerical search: its result must not depend on earlier searches in the same process
    tw = dict(transfer_model="EH", lnk_min=-8.0, lnk_max=5.0, dlnk=0.1)
    cfgs += [{"kind": "framework", "cls": "Transfer", "kwargs": dict(tw, z=z_), "cosmo": {"class": "x", "clone_of": "Planck15", "Om0": 0.3}, "quantities": ["nonlinear_power", "nonlinear_delta_k"],
              "note": f"Transfer z={z_}: HALOFIT after other HALOFIT evaluations"} for z_ in (0.0, 3.0, 1.0, 0.0)]
    if not quick:
        cfgs += [{"kind": "growth", "model": "CambGrowth", "cosmo": L(), "z": [0.0, 1.0], "note": "CambGrowth flat"}, {"kind": "growth", "model": "CambGrowth", "cosmo": L(Ode0=0.4), "z": [0.0, 1.0], "note": "CambGrowth same Om0, Ode0=0.4"}]
    bad = isolation.check_sequence(cfgs, "isolation")
    viol = []
    for i, what in bad[:3]:
        viol.append({"key": f"isolation/{cfgs[i]['kind']}/{cfgs[i].get('model', cfgs[i].get('cls'))}", "what": what,
                     "replay": {"kind": "c11-isolation", "sequence": [c.get("note") for c in cfgs[: i + 1]], "failing": cfgs[i]}})
    return viol, len(cfgs)


def run(ctx):
    quick = ctx["tier"] == "quick"
    out = {"violations": [], "broken": [], "coverage": {}, "assumptions": [
        "numpy copy/view behaviour is observed on the real arrays (bytes snapshots), not modelled",
        "the heap model covers dict-valued parameters, caller dicts and class-level defaults; arrays and component instances are covered by the snapshot oracle only"]}
    st, bad = heapcorr.run_corr(40 if quick else 800)
    if bad:
        out["broken"].append({"kind": "correspondence", "what": f"heap model vs real classes: {len(bad)} identity-partition/content disagreements", "detail": bad[0]})
        out["violations"].append({"key": "heap/identity-partition", "what": "aliasing or content of dict parameters / caller dicts differs from the separation-respecting model",
                                  "replay": {"kind": "heap", **bad[0]}})
    r = rng("c11")
    pv, npure = read_purity_sweep(r, quick)
    out["violations"] += pv
    cv, ncamb = camb_wcdm_scenario()
    out["violations"] += cv
    av, narr = caller_arrays_scenario()
    out["violations"] += av
    gv, nreg_ = registry_scenario()
    out["violations"] += gv
    narr += nreg_
    iv, niso_ = isolation_scenario(quick)
    out["violations"] += iv
    narr += niso_
    nprog = 40 if quick else 400
    tot, kinds = ncamb + narr, {}
    samples = []
    for _ in range(nprog):
        v, nops, k, script = program(r, quick)
        tot += nops
        for a, b in k.items():
            kinds[a] = kinds.get(a, 0) + b
        if len(samples) < 2:
            samples.append(script[:8])
        for x in v:
            if not any(y["key"] == x["key"] for y in out["violations"]):
                out["violations"].append(x)
    out["coverage"] = {
        "evaluations": tot + st["ops"], "programs": st["programs"] + nprog, "disagreements_checked": st["programs"],
        "traces_validated_against_impl": st["programs"], "distinct_nontrivial": nprog + st["programs"],
        "rule": "heapcorr: random programs over 2-3 MassFunctionWDM instances (construction from shared caller dicts, update/assign, deepcopy/clone/pickle, caller-side mutation, component instantiation), identity partition + contents compared with the Lean heap model. snapshot oracle: random programs over all five classes with bystander snapshots after every operation; caller-owned k/T arrays of FromArray (3 tables; component and framework, two instances from the same arrays); plugin registries under models given as class objects (built-in, abstract, name-shadowing user classes); isolation: look-alike configurations evaluated in sequence vs each alone in a fresh interpreter",
        "heap": st, "read_purity_reads": npure, "snapshot_ops": tot, "snapshot_op_kinds": kinds, "samples": [st["sample"]] + samples,
        "search": "bystander-snapshot oracle on random multi-instance programs",
    }
    return out


def replay(path):
    j = json.load(open(path))
    rp = j.get("replay") or {}
    if rp.get("kind") == "heap":
        real = heapcorr.run_real(rp["program"], rp["ninst"])
        model = lean_driver([heapcorr.to_line(rp["program"], rp["ninst"])])[0]
        print("impl :", real); print("model:", model)
        return 1 if real != model else 0
    print("\n".join(rp.get("script", [])))
    print("(re-run ./check C11 with the same VERIF_SEED to regenerate this program)")
    return 1
