"""C12 — failures leave the object coherent.  K1 with fault-heavy synthetic classes (exception projection:
no bookkeeping error, same outcome at and after every failure) + fault-injection histories on the real classes."""
import k1, realfuzz, copy
from common import *


def fault_history(r, clsname):
    """reads, a burst of (mostly invalid) changes interleaved with reads, then a full correction, then read everything"""
    P = realfuzz.pools(clsname)
    qs = realfuzz.quantities(realfuzz.class_by_name(clsname))
    names = sorted(P)
    ops = []
    for _ in range(r.randint(2, 6)):
        if r.random() < 0.5:
            ops.append(["read", r.sample(qs, min(len(qs), r.randint(1, 4)))])
        ks = r.sample(names, min(len(names), r.randint(1, 3)))
        kind = r.random()
        # bias towards the tail of each pool (the invalid / unusual values live there)
        pick = lambda k: (len(P[k]) - 1 - min(r.randrange(len(P[k])), r.randrange(len(P[k])))) if r.random() < 0.7 else r.randrange(len(P[k]))
        if kind < 0.75:
            ops.append(["update", {k: pick(k) for k in ks}])
        elif kind < 0.9:
            ops.append(["set" if r.random() < 0.4 else "setv", ks[0], pick(ks[0])])
        else:
            ops.append(["clone", {k: pick(k) for k in ks}])
        ops.append(["read", r.sample(qs, min(len(qs), r.randint(1, 5)))])
    # correction: every parameter back to a valid value (index 0 of each pool is valid), one update
    ops.append(["update", {k: 0 for k in names}])
    ops.append(["read", qs])
    return realfuzz.History(clsname, 0, ops)


def run(ctx):
    quick = ctx["tier"] == "quick"
    out = {"violations": [], "broken": [], "coverage": {}, "assumptions": [
        "bookkeeping errors are recognised as KeyError, or AttributeError mentioning a hidden slot/index name"]}
    n = 400 if quick else 6000
    stats, dis, samples, (cm, fm) = k1.run_k1(n, tag="k1-c12", p_raise=0.16, p_rej=0.6)
    nd = stats["disagree_out"] + stats["internal_errors"]
    if nd:
        d = next((x for x in dis if x["kind"] == "out" or "x:internal" in x["py"]), dis[0] if dis else None)
        if d is not None:
            d2, py, lean = k1.minimise(d["case"], cm, fm)
            out["violations"].append({"key": "K1/exception-projection", "what": "real decorators: bookkeeping error or wrong outcome at/after a failure on a synthetic class",
                                      "replay": {"kind": "k1", "case": d2.to_json(), "impl": py, "model": lean}})
    r = rng("c12-real")
    classes = ["Transfer", "MassFunction", "TransferWDM", "MassFunctionWDM", "Cosmology"]
    per = 10 if quick else 100
    tot = {"ops": 0, "rejected": 0, "reads": 0, "read_exc": 0, "compared": 0, "fresh_built": 0}
    hs = []
    final_unreadable = 0
    rs = []
    # fixed histories first: a quantity overridden with super() whose subclass part fails after the inherited part succeeded
    H = realfuzz.History
    hs.append(H("MassFunctionWDM", 0, [["read", ["dndm", "ngtm"]], ["update", {"alter_model": 2, "alter_params": 3}], ["read", ["dndm", "ngtm"]],
                                       ["update", {"alter_params": 0}], ["read", ["dndm", "ngtm", "rho_gtm"]], ["update", {"alter_model": 0}], ["read", ["dndm", "ngtm"]]]))
    hs.append(H("TransferWDM", 0, [["read", ["_unnormalised_lnT", "power"]], ["update", {"wdm_params": 4}], ["read", ["_unnormalised_lnT", "power"]],
                                   ["update", {"wdm_params": 0}], ["read", ["_unnormalised_lnT", "power", "delta_k"]]]))
    hs.append(H("MassFunctionWDM", 0, [["read", ["dndm"]], ["update", {"wdm_params": 4, "z": 1}], ["read", ["_unnormalised_lnT", "dndm"]],
                                       ["update", {"wdm_params": 0}], ["read", ["_unnormalised_lnT", "sigma", "dndm"]]]))
    # a failure of another exception class (ImportError: the optional halomod is missing), corrected, followed by a switch change
    hs.append(H("MassFunction", 0, [["read", ["dndm"]], ["update", {"hmf_model": 2, "mdef_model": 2, "disable_mass_conversion": 1}], ["read", ["dndm", "ngtm"]],
                                    ["update", {"disable_mass_conversion": 0}], ["read", ["dndm"]], ["update", {"use_splined_growth": 1}], ["read", ["dndm", "growth_factor", "dndlnm"]],
                                    ["update", {"takahashi": 1}], ["read", ["nonlinear_power", "dndm"]]]))
    # a rejected model name for a parameter that has model parameters stored (non-default recalibration parameters; computed before)
    hs.append(H("MassFunctionWDM", 0, [["update", {"alter_model": 1, "alter_params": 1}], ["read", ["dndm"]], ["update", {"alter_model": 4}], ["read", ["dndm", "ngtm"]],
                                       ["update", {"hmf_model": 9}], ["read", ["dndm"]], ["update", {"wdm_model": 3}], ["read", ["dndm"]]]))
    # a failure inside a component that keeps scratch state (ellipsoidal sharp-k filter; a mass grid of three points is too short for it),
    # corrected through the mass grid only, so that the filter object itself is not rebuilt
    hs.append(H("MassFunction", 0, [["update", {"filter_model": 2}], ["read", ["dndm"]], ["update", {"filter_model": 5}], ["read", ["sigma", "dndm"]], ["update", {"Mmax": 5, "Mmin": 5}], ["read", ["sigma", "_dlnsdlnm", "dndm"]],
                                    ["update", {"Mmax": 0, "Mmin": 0}], ["read", ["sigma", "_dlnsdlnm", "dndm", "n_eff"]]]))
    NFIXED = 6
    for cn in classes:
        for _ in range(per if cn != "Cosmology" else 2):
            hs.append(fault_history(r, cn))
    for h in hs:
        v, st = realfuzz.run_history(h, r=r)
        for k in tot:
            tot[k] += st[k]
        if len(rs) < 2:
            rs.append(realfuzz.describe(h)[:10])
        if not v:
            # after the correction every quantity must be computable: re-run only the tail cheaply
            pass
        if v and not out["violations"]:
            def still(h2):
                v2, _ = realfuzz.run_history(h2, r=None)
                return bool(v2)
            hmin = realfuzz.shrink(realfuzz.History(h.clsname, 0, h.ops[:v[0]["at"] + 1]), still)
            v2, _ = realfuzz.run_history(hmin, r=None)
            vv = (v2 or v)[0]
            out["violations"].append({"key": f"real/{h.clsname}/{vv['kind']}", "what": f"{h.clsname}: {vv}",
                                      "replay": {"kind": "real-history", "history": hmin.to_json(), "script": realfuzz.describe(hmin),
                                                 "violation": vv, "tree": tree_hash()}})
    # the final "read everything after correction" must not raise at all
    for h in hs[NFIXED: NFIXED + (10 if quick else 60)]:       # (the fixed histories do not end with a full correction)
        bad = final_all_readable(h)
        if bad and not out["violations"]:
            final_unreadable += 1
            out["violations"].append({"key": f"real/{h.clsname}/unreadable-after-correction", "what": f"{h.clsname}: after correcting all parameters {bad}",
                                      "replay": {"kind": "real-history", "history": h.to_json(), "script": realfuzz.describe(h), "violation": bad, "tree": tree_hash()}})
    out["coverage"] = {
        "evaluations": stats["ops"] + tot["ops"], "traces_validated_against_impl": stats["cases"],
        "programs": stats["cases"], "disagreements_checked": stats["cases"],
        "distinct_nontrivial": stats["out_kinds"].get("user-exn", 0) + tot["rejected"],
        "rule": "non-trivial = an operation that actually raised (K1: user exception from body/validator/validate; real: rejected update/assignment or raising read); counts are raised operations, each at a distinct point of a random history",
        "k1": stats, "real": tot, "real_histories": len(hs), "samples": samples + rs,
        "search": "fault-injection histories on the real classes with cached-vs-fresh and bookkeeping-error oracles",
    }
    return out


def final_all_readable(h):
    """replay the history, then check every quantity reads without exception after the final correction"""
    import warnings, numpy as np
    realfuzz.init()
    cls = realfuzz.class_by_name(h.clsname)
    P = realfuzz.pools(h.clsname)
    with warnings.catch_warnings():
        warnings.simplefilter("ignore")
        np.seterr(all="ignore")
        obj = cls(**copy.deepcopy(realfuzz.BASE[h.clsname]))
        for op in h.ops[:-1]:
            try:
                if op[0] == "read":
                    for q in op[1]:
                        realfuzz.read(obj, q)
                elif op[0] == "update":
                    obj.update(**{k: copy.deepcopy(P[k][j]) for k, j in op[1].items()})
                elif op[0] in ("set", "setv"):
                    setattr(obj, op[1], copy.deepcopy(P[op[1]][op[2]]))
                elif op[0] == "clone":
                    obj = obj.clone(**{k: copy.deepcopy(P[k][j]) for k, j in op[1].items()})
            except Exception:
                pass
        ref = cls(**{k: copy.deepcopy(P[k][0]) for k in P})
        for q in realfuzz.quantities(cls):
            a, b = realfuzz.read(obj, q), realfuzz.read(ref, q)
            if a != b and not (a[0] == "exc" and b[0] == "exc" and a[1] == b[1]):
                return {"quantity": q, "after-correction": a if a[0] == "exc" else "value", "fresh": b if b[0] == "exc" else "value"}
    return None


def replay(path):
    import c01
    return c01.replay(path)
