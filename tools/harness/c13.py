"""C13 — minimal recomputation.  K1 execution-trace projection (which bodies execute, per op) + identity /
call-count oracles on the real classes for the independence relation stated in the property."""
import k1, k2, realfuzz, copy, warnings
from common import *
import numpy as np

# (class, changed-parameter, quantities that must be untouched) — from the property text
TRANSFER_CORE = ["_unnormalised_lnT", "transfer", "k"]
INDEP_OF_TRANSFER_FN = ["z", "sigma_8", "delta_c", "hmf_model", "hmf_params", "filter_model", "filter_params",
                        "Mmin", "Mmax", "dlog10m", "mdef_model", "mdef_params", "growth_model", "growth_params",
                        "disable_mass_conversion", "takahashi", "use_splined_growth"]


def relation(clsname):
    realfuzz.init()
    cls = realfuzz.class_by_name(clsname)
    ps = realfuzz.parameters(cls)
    rel = []
    tq = realfuzz.quantities(realfuzz.class_by_name("TransferWDM" if "WDM" in clsname else "Transfer"))
    tp = set(realfuzz.parameters(realfuzz.class_by_name("TransferWDM" if "WDM" in clsname else "Transfer")))
    for p in ps:
        if p in INDEP_OF_TRANSFER_FN:
            rel.append((p, TRANSFER_CORE))
        if clsname.startswith("MassFunction") and p not in tp:
            rel.append((p, tq))          # mass-function-only changes never recompute a power-spectrum quantity
    return rel


def valid_alternatives(clsname, p, obj):
    """valid values of p different from the current one (tried in order)"""
    P = realfuzz.pools(clsname)
    out = []
    for v in P.get(p, []):
        t = copy.deepcopy(obj)
        try:
            before = realfuzz.canon(getattr(t, p))
            t.update(**{p: copy.deepcopy(v)})
            if realfuzz.canon(getattr(t, p)) != before:
                out.append(v)
        except Exception:
            pass
    return out


def real_checks(clsname, r, quick):
    realfuzz.init()
    cls = realfuzz.class_by_name(clsname)
    viol, n_pairs, n_ident, n_noop = [], 0, 0, 0
    samples = []
    with warnings.catch_warnings():
        warnings.simplefilter("ignore")
        np.seterr(all="ignore")
        base = copy.deepcopy(realfuzz.BASE[clsname])
        obj = cls(**base)
        qs = realfuzz.quantities(cls)
        # (1) second read returns the identical object
        first = {}
        for q in qs:
            try:
                first[q] = getattr(obj, q)
            except Exception:
                continue
        for q, v in first.items():
            n_ident += 1
            if getattr(obj, q) is not v:
                viol.append({"key": f"{clsname}/second-read/{q}", "what": f"{clsname}.{q}: second read returns a different object"})
        # (2) equal-value set is a no-op (also through the other spelling of a model: name vs class)
        for p in realfuzz.parameters(cls):
            cur = getattr(obj, p)
            spellings = [copy.deepcopy(cur) if isinstance(cur, dict) else cur]
            if isinstance(cur, type):
                spellings.append(cur.__name__)
            if isinstance(cur, (int, float, np.floating, np.integer)) and not isinstance(cur, (bool, np.bool_)):
                # the same number written with another numeric type
                spellings += [float(cur), np.float64(cur)]
                if float(cur) == int(cur):
                    spellings.append(int(cur))
            if isinstance(cur, (bool, np.bool_)):
                spellings.append(int(cur))
            for sp in spellings:
                try:
                    obj.update(**{p: sp})
                except Exception as e:
                    viol.append({"key": f"{clsname}/equal-set-raises/{p}", "what": f"{clsname}.update({p}=<current value>) raised {type(e).__name__}: {e}"})
                    continue
                n_noop += 1
                for q, v in first.items():
                    if getattr(obj, q) is not v:
                        viol.append({"key": f"{clsname}/equal-set-invalidates/{p}->{q}",
                                     "what": f"{clsname}: update({p}=<equal value {realfuzz.show(sp)}>) recomputed {q}"})
                        first[q] = getattr(obj, q)
        # (3) independence relation: same object returned and the transfer model not re-run
        from hmf.density_field import transfer_models as tm
        calls = {"n": 0}
        has_t = hasattr(cls, "transfer")
        tcls = type(obj.transfer) if has_t else None
        orig = tcls.lnt if has_t else None

        def counting(self, lnk, _orig=orig):
            calls["n"] += 1
            return _orig(self, lnk)
        if has_t:
            tcls.lnt = counting
        try:
            for p, qlist in relation(clsname):
                for v in valid_alternatives(clsname, p, obj)[: (1 if quick else 3)]:
                    t = copy.deepcopy(obj)
                    before = {}
                    for q in qs:
                        try:
                            before[q] = getattr(t, q)
                        except Exception:
                            pass
                    c0 = calls["n"]
                    t.update(**{p: copy.deepcopy(v)})
                    for q in qlist:
                        if q not in before:
                            continue
                        n_pairs += 1
                        try:
                            after = getattr(t, q)
                        except Exception as e:
                            continue
                        if after is not before[q]:
                            viol.append({"key": f"{clsname}/{p}->{q}", "what": f"{clsname}: changing {p} to {realfuzz.show(v)} recomputed {q}"})
                    # reading everything else may legitimately run other things, but never the transfer model
                    if p in INDEP_OF_TRANSFER_FN:
                        for q in qs:
                            try:
                                getattr(t, q)
                            except Exception:
                                pass
                        if calls["n"] != c0 and not (clsname.startswith("MassFunction") and p in ("Mmin", "Mmax", "dlog10m") and False):
                            # _unn_sig8's fixed-grid branch calls transfer.lnt on its own grid; that is a
                            # recomputation of the transfer function only if it was triggered by p
                            viol.append({"key": f"{clsname}/{p}->transfer.lnt", "what": f"{clsname}: changing {p} re-ran the transfer model ({calls['n'] - c0} calls)"})
                    if len(samples) < 3:
                        samples.append(f"{clsname}: update({p}={realfuzz.show(v)}) leaves {qlist[:3]}... identical")
        finally:
            if has_t:
                tcls.lnt = orig
    return viol, {"pairs": n_pairs, "second_reads": n_ident, "equal_sets": n_noop}, samples


def component_checks(quick):
    """the instantiated components (cosmology object, growth model and its callable, transfer model, filter) are not rebuilt by
    parameters they do not take — for every growth model, not only the default one (mirrors the Lean cone upper bounds)"""
    realfuzz.init()
    viol, n = [], 0
    allowed = {"cosmo": {"cosmo_model", "cosmo_params"}, "growth": {"cosmo_model", "cosmo_params", "growth_model", "growth_params"},
               "_growth_factor_fn": {"cosmo_model", "cosmo_params", "growth_model", "growth_params"},
               "transfer": {"cosmo_model", "cosmo_params", "transfer_model", "transfer_params"},
               "filter": {"cosmo_model", "cosmo_params", "transfer_model", "transfer_params", "lnk_min", "lnk_max", "dlnk", "n", "filter_model", "filter_params"}}
    changes = [("z", 1.0), ("z", 2.5), ("sigma_8", 0.9), ("n", 1.0), ("delta_c", 1.5), ("Mmin", 11), ("takahashi", False), ("use_splined_growth", True), ("hmf_model", "PS")]
    with warnings.catch_warnings():
        warnings.simplefilter("ignore")
        np.seterr(all="ignore")
        for cn in ("Transfer", "MassFunction"):
            cls = realfuzz.class_by_name(cn)
            pars = set(realfuzz.parameters(cls))
            for gm in ("GrowthFactor", "GenMFGrowth", "Carroll1992"):
                o = cls(**dict(copy.deepcopy(realfuzz.BASE[cn]), growth_model=gm))
                for p, v in changes:
                    if p not in pars:
                        continue
                    held = {}
                    for q in allowed:
                        try:
                            held[q] = getattr(o, q)
                        except Exception:
                            pass
                    try:
                        o.update(**{p: v})
                    except Exception:
                        continue
                    for q, before in held.items():
                        if p in allowed[q]:
                            continue
                        n += 1
                        try:
                            after = getattr(o, q)
                        except Exception:
                            continue
                        if after is not before:
                            viol.append({"key": f"{cn}/{p}->{q}/component", "what": f"{cn}(growth_model={gm}): changing {p} to {v!r} rebuilt the component `{q}`",
                                         "replay": {"kind": "c13", "script": [f"o = {cn}(growth_model={gm!r}, ...)", f"c = o.{q}", f"o.update({p}={v!r})", f"o.{q} is c"]}})
    # the underlying growth model is not re-run by parameters it does not take (splined and direct evaluation)
    from hmf.cosmology import growth_factor as gfm
    with warnings.catch_warnings():
        warnings.simplefilter("ignore")
        np.seterr(all="ignore")
        for cn in ("Transfer", "MassFunction"):
            cls = realfuzz.class_by_name(cn)
            pars = set(realfuzz.parameters(cls))
            for gm in ("GrowthFactor", "GenMFGrowth", "Carroll1992"):
                gcls = getattr(gfm, gm)
                orig = gcls.growth_factor_fn
                count = [0]

                def counted(self, *a, _o=orig, **k):
                    count[0] += 1
                    return _o(self, *a, **k)
                gcls.growth_factor_fn = counted
                try:
                    o = cls(**dict(copy.deepcopy(realfuzz.BASE[cn]), growth_model=gm, use_splined_growth=True))
                    o.growth_factor
                    getattr(o, "power")
                    for p, v in [("z", 0.5), ("z", 2.0), ("sigma_8", 0.9), ("n", 1.0), ("delta_c", 1.5), ("Mmin", 11), ("hmf_model", "PS"), ("z", 0.0)]:
                        if p not in pars:
                            continue
                        before = count[0]
                        o.update(**{p: v})
                        o.growth_factor
                        getattr(o, "power")
                        n += 1
                        if count[0] != before:
                            viol.append({"key": f"{cn}/{p}->growth.growth_factor_fn/model-run", "what": f"{cn}(growth_model={gm}, use_splined_growth=True): changing {p} to {v!r} re-ran the growth model's tabulation (growth_factor_fn calls {before}->{count[0]})",
                                         "replay": {"kind": "c13", "script": [f"o = {cn}(growth_model={gm!r}, use_splined_growth=True, ...)", "o.growth_factor", f"o.update({p}={v!r})", "o.growth_factor", "count calls of growth.growth_factor_fn"]}})
                finally:
                    gcls.growth_factor_fn = orig
    # (a) re-applying *all* current parameter values in one update() call (models together with their non-empty *_params) is setting every
    #     parameter to a value equal to its current one: nothing may be invalidated; (b) the helper loop get_hmf changes one parameter
    #     at a time on one instance: the transfer model must run once however many redshifts / fits / mass grids are looped over
    from hmf.density_field import transfer_models as tmm
    from hmf.helpers.functional import get_hmf
    with warnings.catch_warnings():
        warnings.simplefilter("ignore")
        np.seterr(all="ignore")
        for cn, extra in (("MassFunction", {"hmf_model": "SMT", "hmf_params": {"a": 0.8, "p": 0.25}, "filter_model": "SharpK", "filter_params": {"c": 2.2},
                                            "transfer_model": "BondEfs", "transfer_params": {"nu": 1.2}, "growth_model": "Carroll1992", "growth_params": {"zmax": 20.0, "dz": 0.02},
                                            "mdef_model": "SOMean", "mdef_params": {"overdensity": 300}, "cosmo_params": {"Om0": 0.3}}),
                          ("Transfer", {"transfer_model": "BBKS", "transfer_params": {"a": 2.4}, "growth_model": "GrowthFactor", "growth_params": {"dlna": 0.02}, "cosmo_params": {"H0": 68.0}})):
            cls = realfuzz.class_by_name(cn)
            o = cls(**dict(copy.deepcopy(realfuzz.BASE[cn]), **copy.deepcopy(extra)))
            held = {}
            for q in realfuzz.quantities(cls):
                try:
                    held[q] = getattr(o, q)
                except Exception:
                    pass
            for how, kw in (("update(**parameter_values)", lambda: copy.deepcopy(dict(o.parameter_values))),
                            ("update(<every model together with its params>)", lambda: {k_: copy.deepcopy(v_) for k_, v_ in o.parameter_values.items() if k_.endswith("_model") or k_.endswith("_params")})):
                o.update(**kw())
                n += 1
                changed = [q for q, b in held.items() if getattr(o, q) is not b]
                if changed:
                    viol.append({"key": f"{cn}/equal-update-all/invalidates", "what": f"{cn}: {how} (every value equal to the current one) recomputed {sorted(changed)[:6]}",
                                 "replay": {"kind": "c13", "script": [f"o = {cn}(**{extra})", "read every quantity", f"o.{how}", "read every quantity again: same objects expected"]}})
                    break
        # introspection helpers between two reads change nothing (same objects afterwards; the helpers may themselves be unusable)
        for cn in ("Transfer", "MassFunction"):
            cls = realfuzz.class_by_name(cn)
            o = cls(**copy.deepcopy(realfuzz.BASE[cn]))
            held = {}
            for q in realfuzz.quantities(cls):
                try:
                    held[q] = getattr(o, q)
                except Exception:
                    pass
            for label, call in (("get_dependencies(<each quantity>)", lambda: [o.get_dependencies(q_) for q_ in list(held)]), ("parameter_values", lambda: o.parameter_values),
                                ("get_all_parameter_defaults()", lambda: cls.get_all_parameter_defaults()), ("get_all_parameter_names()", lambda: list(cls.get_all_parameter_names())),
                                ("quantities_available()", lambda: cls.quantities_available()), ("parameter_info()", lambda: cls.parameter_info())):
                try:
                    call()
                except Exception:
                    try:      # (get_dependencies raises on this tree: call it quantity by quantity so that every one is attempted)
                        if label.startswith("get_dependencies"):
                            for q_ in list(held):
                                try:
                                    o.get_dependencies(q_)
                                except Exception:
                                    pass
                    except Exception:
                        pass
                n += 1
                changed = [q for q, b in held.items() if getattr(o, q) is not b]
                if changed:
                    viol.append({"key": f"{cn}/introspection-invalidates", "what": f"{cn}: calling {label} between two reads recomputed {sorted(changed)[:5]}",
                                 "replay": {"kind": "c13", "script": [f"o = {cn}(...)", "read every quantity", f"o.{label}", "read every quantity again: same objects expected"]}})
                    break
        runs = {}
        orig_lnt = tmm.EH_BAO.lnt
        cnt = [0]

        def counted_lnt(self, lnk, _o=orig_lnt):
            cnt[0] += 1
            return _o(self, lnk)
        tmm.EH_BAO.lnt = counted_lnt
        try:
            fast = dict(transfer_model="EH_BAO", lnk_min=-8.0, lnk_max=4.0, dlnk=0.25, Mmin=10.0, Mmax=14.0, dlog10m=0.5)
            for label, small, large, qs in (("z", {"z": [0.0, 1.0]}, {"z": [0.0, 0.5, 1.0, 2.0, 3.0]}, ["dndm"]),
                                            ("z (framework=Transfer)", {"z": [0.0, 1.0]}, {"z": [0.0, 0.5, 1.0, 2.0, 3.0]}, ["power"]),
                                            ("hmf_model", {"hmf_model": ["PS", "SMT"]}, {"hmf_model": ["PS", "SMT", "Jenkins", "Warren", "Reed03"]}, ["dndm", "power"]),
                                            ("z x delta_c", {"z": [0.0, 1.0], "delta_c": [1.6, 1.686]}, {"z": [0.0, 1.0, 2.0], "delta_c": [1.6, 1.686, 1.7]}, ["dndm"])):
                res = []
                for lists in (small, large):
                    cnt[0] = 0
                    kw = dict(fast)
                    if "framework=Transfer" in label:
                        kw = {k_: v_ for k_, v_ in kw.items() if not k_.startswith("M") and k_ != "dlog10m"}
                        kw["framework"] = realfuzz.class_by_name("Transfer")
                    for item in get_hmf(qs, get_label=False, **dict(kw, **lists)):
                        pass
                    res.append(cnt[0])
                n += 1
                if res[1] > res[0]:
                    viol.append({"key": f"get_hmf/{label}/transfer-model-re-run", "what": f"get_hmf over {label}: the transfer model ran {res[0]} times for {sum(len(v) for v in small.values())} values and {res[1]} times for {sum(len(v) for v in large.values())} values; changes of {label} never recompute the transfer function",
                                 "replay": {"kind": "c13", "script": [f"count EH_BAO.lnt calls during list(get_hmf({qs}, **{small})) and list(get_hmf({qs}, **{large}))"]}})
        finally:
            tmm.EH_BAO.lnt = orig_lnt
    return viol, n


def run(ctx):
    quick = ctx["tier"] == "quick"
    out = {"violations": [], "broken": [], "coverage": {}, "assumptions": [
        "independence relation = the pairs named in the property text (z, sigma_8, delta_c, fit, filter, mass-grid, mdef, growth vs transfer function / k; mass-function-only parameters vs every Transfer quantity)"]}
    n = 400 if quick else 6000
    stats, dis, samples, (cm, fm) = k1.run_k1(n, tag="k1-c13")
    nd = stats["disagree_trace"]
    if nd:
        d = next((x for x in dis if x["kind"] == "trace"), None)
        if d:
            d2, py, lean = k1.minimise(d["case"], cm, fm)
            out["violations"].append({"key": "K1/trace-projection", "what": "real decorators execute a different set of bodies than the machine M' on a synthetic class (over- or under-recomputation)",
                                      "replay": {"kind": "k1", "case": d2.to_json(), "impl": py, "model": lean}})
    r = rng("c13-real")
    tot = {"pairs": 0, "second_reads": 0, "equal_sets": 0}
    rs = []
    for cn in ["Cosmology", "Transfer", "MassFunction", "TransferWDM", "MassFunctionWDM"]:
        v, st, sm = real_checks(cn, r, quick)
        for k in tot:
            tot[k] += st[k]
        rs += sm[:1]
        seen = set()
        for x in v:
            if x["key"] in seen:
                continue
            seen.add(x["key"])
            out["violations"].append({"key": x["key"], "what": x["what"], "replay": {"kind": "c13-real", "cls": cn, "key": x["key"], "tree": tree_hash()}})
    cv, ncomp = component_checks(quick)
    tot["pairs"] += ncomp
    seen = set()
    for x in cv:
        if x["key"] not in seen:
            seen.add(x["key"])
            out["violations"].append(x)
    k2res = k2.run_k2(quick)
    if k2res["bad_edges"] or k2res["bad_index"]:
        out["broken"].append({"kind": "correspondence", "what": "K2: real dependency index / observed reads outside the generated static cone",
                              "detail": (k2res["bad_edges"] + k2res["bad_index"])[:5]})
    out["coverage"] = {
        "k2": {k: v for k, v in k2res.items() if k not in ("bad_edges", "bad_index")},
        "evaluations": stats["ops"] + sum(tot.values()), "traces_validated_against_impl": stats["cases"],
        "programs": stats["cases"], "disagreements_checked": stats["cases"],
        "distinct_nontrivial": tot["pairs"] + tot["equal_sets"],
        "rule": "K1: per-op executed-body traces of random histories on synthetic classes compared with M'. real: every (parameter, quantity) pair of the independence relation with a valid different value (object identity + transfer-model call count), every parameter re-set to an equal value (both spellings of models), every quantity read twice; non-trivial = a (parameter,value,quantity) triple actually exercised",
        "k1": stats, "real": tot, "samples": samples + rs,
        "search": "identity/call-count oracles on the real classes over the whole independence relation",
    }
    return out


def replay(path):
    j = json.load(open(path))
    rp = j.get("replay") or {}
    if rp.get("kind") == "c13-real":
        v, _, _ = real_checks(rp["cls"], rng("c13-real"), False)
        hit = [x for x in v if x["key"] == rp["key"]]
        print(hit[:1] or "not reproduced on the current tree")
        return 1 if hit else 0
    import c01
    return c01.replay(path)
