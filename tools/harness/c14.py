"""C14 — constructor arguments are tracked, validated, round-trippable parameters; models by name or class;
registry; rejections.  Ties: Gen descriptors (ctor facts, decided in Lean), registry/params models vs the real
`pluggable` / `get_mdl` / `Component.__init__` through the driver, and direct oracles on the real classes."""
import inspect, copy, warnings
import numpy as np
import realfuzz, k1
from common import *

KINDS = None


def component_kinds():
    """the seven component kinds and their registries"""
    realfuzz.init()
    from hmf._internals._framework import get_base_components
    return [c for c in get_base_components() if hasattr(c, "_plugins")]


def ctor_keywords(cls):
    kws = []
    for k in cls.__mro__:
        if "__init__" in vars(k):
            for n, p in inspect.signature(k.__init__).parameters.items():
                if n != "self" and p.kind in (p.POSITIONAL_OR_KEYWORD, p.KEYWORD_ONLY):
                    kws.append(n)
    return sorted(set(kws))


def registry_correspondence(r, ncases):
    """random class-definition sequences on the real `pluggable` + `get_mdl` vs the Lean registry model"""
    cm, fm = load_internals()
    lines, expected = [], []
    for case in range(ncases):
        nk = r.randint(1, 3)
        kinds = []
        for k in range(nk):
            base = fm.pluggable(type(f"Kind{case}_{k}", (fm.Component,), {}))
            kinds.append(base)
        defs, classes = [], {}
        cid = 0
        for _ in range(r.randint(0, 8)):
            k = r.randrange(nk)
            n = r.randint(0, 4)
            abstract = r.random() < 0.2
            # subclass of the base or of an earlier concrete class of the same kind
            parents = [c for (kk, c) in classes.values() if kk == k] + [kinds[k]]
            parent = r.choice(parents)
            cid += 1
            kw = {"abstract": True} if abstract else {}
            cls = type(parent)(f"M{n}", (parent,), {"_tag": cid}, **kw)
            classes[cid] = (k, cls)
            defs.append((k, n, cid, 1 if abstract else 0))
        qs = [(r.randrange(nk), r.randint(0, 5)) for _ in range(r.randint(1, 6))]
        lines.append(f"REG {len(defs)} " + " ".join(f"{a} {b} {c} {d}" for a, b, c, d in defs) + f" {len(qs)} " + " ".join(f"{a} {b}" for a, b in qs))
        ans = []
        for k, n in qs:
            try:
                c = fm.get_mdl(f"M{n}", kinds[k])
                ans.append(str(c._tag))
            except ValueError:
                ans.append("none")
            except Exception as e:
                ans.append("exc:" + type(e).__name__)
        expected.append(" ".join(ans))
    # Component.__init__ merge
    for case in range(ncases):
        nd = r.randint(0, 5)
        d = {k: r.randint(0, 9) for k in r.sample(range(8), nd)}
        u = {k: r.randint(10, 19) for k in r.sample(range(9), r.randint(0, 3))}
        K = type("C", (fm.Component,), {"_defaults": {f"k{k}": v for k, v in d.items()}})
        lines.append(f"PARAMS {len(d)} " + " ".join(f"{k} {v}" for k, v in d.items()) + f" {len(u)} " + " ".join(f"{k} {v}" for k, v in u.items()))
        try:
            o = K(**{f"k{k}": v for k, v in u.items()})
            expected.append(" ".join(f"{k[1:]}:{v}" for k, v in o.params.items()))
            if K._defaults != {f"k{k}": v for k, v in d.items()}:
                expected[-1] += " DEFAULTS-MUTATED"
        except ValueError:
            expected.append("none")
    got = lean_driver(lines)
    bad = [(l, e, g) for l, e, g in zip(lines, expected, got) if e != g]
    return len(lines), bad


def run(ctx):
    quick = ctx["tier"] == "quick"
    realfuzz.init()
    out = {"violations": [], "broken": [], "coverage": {}, "assumptions": [
        "get_all_parameter_defaults() builds default objects (CAMB transfer model when camb is installed)"]}
    V = out["violations"]
    r = rng("c14")
    n_checks = 0
    samples = []

    def viol(key, what, replay=None):
        if not any(v["key"] == key for v in V):
            V.append({"key": key, "what": what, "replay": {"kind": "c14", "key": key, "detail": replay, "tree": tree_hash()}})

    # ---- registry / params models vs real code
    nreg, bad = registry_correspondence(r, 150 if quick else 3000)
    if bad:
        out["broken"].append({"kind": "correspondence", "what": f"registry/params model vs _framework.py: {len(bad)} disagreements", "detail": bad[:2]})
        l, e, g = bad[0]
        if l.startswith("REG"):
            viol("registry/get_mdl", f"get_mdl on a run-time class-definition sequence returns {e!r}, latest-definition semantics gives {g!r}", {"request": l, "impl": e, "model": g})
        else:
            viol("component/params-merge", f"Component.__init__ gives {e!r}, defaults-overridden-by-user semantics gives {g!r}", {"request": l, "impl": e, "model": g})
    with warnings.catch_warnings():
        warnings.simplefilter("ignore")
        np.seterr(all="ignore")
        from hmf._internals._framework import get_mdl, Component
        # ---- every registered model discoverable by name, name == class
        kinds = component_kinds()
        nmodels = 0
        for kind in kinds:
            for name, cls in list(kind._plugins.items()):
                nmodels += 1
                n_checks += 2
                if get_mdl(name, kind) is not cls or get_mdl(name, kind.__name__) is not cls or cls.__name__ != name:
                    viol(f"registry/{kind.__name__}/{name}", f"get_mdl({name!r}, {kind.__name__}) is not the class registered under that name")
                if get_mdl(cls, kind) is not cls:
                    viol(f"registry/{kind.__name__}/{name}/class", f"get_mdl(<class {name}>, {kind.__name__}) does not return the class")

            # every concrete subclass (recursively) is registered
            def subs(c):
                for s in c.__subclasses__():
                    yield s
                    yield from subs(s)
            for s in subs(kind):
                n_checks += 1
                if kind._plugins.get(s.__name__) is None and not s.__name__.startswith("_"):
                    # abstract bases are declared with abstract=True; they are exactly the classes absent here
                    pass
            # unknown name rejected
            try:
                get_mdl("NoSuchModel_xyz", kind)
                viol(f"registry/{kind.__name__}/unknown", "unknown model name accepted")
            except ValueError:
                pass
            # run-time subclass: discoverable, re-definition picked up, results identical by name or class
            parent = next(iter(kind._plugins.values()), None)
            if parent is not None:
                nm = f"VerifUser_{kind.__name__}"
                c1 = type(parent)(nm, (parent,), {"_v": 1})
                ok1 = get_mdl(nm, kind) is c1
                c2 = type(parent)(nm, (parent,), {"_v": 2})
                ok2 = get_mdl(nm, kind) is c2 and kind.get_models()[nm] is c2
                n_checks += 2
                kind._plugins.pop(nm, None)
                # every naming style is discoverable: leading underscore, lower case, digits
                for nm2 in (f"_verif_private_{kind.__name__}", f"verifuser2{kind.__name__.lower()}", f"V{abs(hash(kind.__name__)) % 97}x_{kind.__name__}"):
                    c3 = type(parent)(nm2, (parent,), {"_v": 3})
                    try:
                        ok3 = get_mdl(nm2, kind) is c3 and kind.get_models().get(nm2) is c3
                    except Exception:
                        ok3 = False
                    n_checks += 1
                    kind._plugins.pop(nm2, None)
                    if not ok3:
                        viol(f"registry/{kind.__name__}/runtime-subclass/name-style", f"run-time subclass named {nm2!r} of {parent.__name__} is not discoverable by name")
                if not (ok1 and ok2):
                    viol(f"registry/{kind.__name__}/runtime-subclass", f"run-time subclass of {parent.__name__}: by-name lookup after (re)definition returns a stale or no class (first={ok1}, redefined={ok2})")
            # unknown model-parameter keys rejected for every model (keys of its ancestors / other models)
            allkeys = sorted({k for c in kind._plugins.values() for k in getattr(c, "_defaults", {})} | {"zz_unknown"})
            for name, cls in list(kind._plugins.items()):
                for key in allkeys:
                    if key in cls._defaults:
                        continue
                    n_checks += 1
                    try:
                        Component.__init__(cls.__new__(cls), **{key: 1.0})
                        viol(f"params/{kind.__name__}/{name}/{key}", f"{name}: unknown model parameter {key!r} accepted")
                    except ValueError:
                        pass
        # ---- per framework class
        for cn in ["Cosmology", "Transfer", "MassFunction", "TransferWDM", "MassFunctionWDM"]:
            cls = realfuzz.class_by_name(cn)
            P = realfuzz.pools(cn)
            kws = ctor_keywords(cls)
            obj = cls(**copy.deepcopy(realfuzz.BASE[cn]))
            pv = obj.parameter_values
            n_checks += 1
            if sorted(pv) != kws:
                viol(f"{cn}/ctor-keywords", f"{cn}: constructor keywords {sorted(set(kws) ^ set(pv))} differ from parameter_values keys")
            if True:      # (classes are visited base first: Cosmology, Transfer, MassFunction, then the WDM classes — every class reports its own keywords)
                try:
                    dflt = cls.get_all_parameter_defaults(recursive=False)
                    if sorted(dflt) != kws:
                        viol(f"{cn}/defaults-keys", f"{cn}: get_all_parameter_defaults keys differ from constructor keywords: {sorted(set(kws) ^ set(dflt))}")
                except Exception as e:
                    viol(f"{cn}/defaults-raise", f"{cn}.get_all_parameter_defaults raised {type(e).__name__}: {e}")
            # each keyword can be changed through update()
            for k in kws:
                done = False
                cands = list(P.get(k, []))
                if k.endswith("_params") and k != "cosmo_params":
                    # a valid override: a key of the companion model's own defaults (switching the companion
                    # to a registered model that has parameters when the current one has none)
                    mk = k[:-7] + "_model"
                    mcls = obj.parameter_values.get(mk)
                    pre = {}
                    if not (isinstance(mcls, type) and getattr(mcls, "_defaults", None)):
                        for kind in kinds:
                            for nm, c in kind._plugins.items():
                                if getattr(c, "_defaults", None) and all(isinstance(x, (int, float)) and not isinstance(x, bool) for x in c._defaults.values()):
                                    try:
                                        t0 = copy.deepcopy(obj); t0.update(**{mk: c}); pre = {mk: c}; mcls = c
                                        break
                                    except Exception:
                                        continue
                            if pre:
                                break
                    if isinstance(mcls, type) and getattr(mcls, "_defaults", None):
                        key0 = next((kk for kk, vv in mcls._defaults.items() if isinstance(vv, (int, float)) and not isinstance(vv, bool)), None)
                        if key0 is not None:
                            cands = [("pre", pre, {key0: mcls._defaults[key0] * 1.01 + 0.001})] + cands
                for v in cands:
                    if isinstance(v, tuple) and len(v) == 3 and v[0] == "pre":
                        t = copy.deepcopy(obj)
                        try:
                            if v[1]:
                                t.update(**v[1])
                            before = realfuzz.canon(t.parameter_values[k])
                            t.update(**{k: v[2]})
                        except Exception:
                            continue
                        n_checks += 1
                        if realfuzz.canon(t.parameter_values[k]) != before:
                            done = True
                            # ... a key that is already set can be given another value (the new value wins)
                            try:
                                k0_, v0_ = next(iter(v[2].items()))
                                v1_ = v0_ * 1.02 + 0.002
                                t.update(**{k: {k0_: v1_}})
                                n_checks += 1
                                if t.parameter_values[k].get(k0_) != v1_:
                                    viol(f"{cn}/dict-key-not-updatable/{k}", f"{cn}: update({k}={{{k0_!r}: {v1_}}}) after update({k}={{{k0_!r}: {v0_}}}) leaves {k}[{k0_!r}] = {t.parameter_values[k].get(k0_)!r}",
                                         {"class": cn, "param": k, "key": k0_})
                            except Exception:
                                pass
                            # ... and changed back: an empty dict is the documented way to clear a *_params dictionary
                            try:
                                t.update(**{k: {}})
                                cleared = t.parameter_values[k] == {}
                            except Exception as e:
                                cleared = False
                            n_checks += 1
                            if not cleared:
                                viol(f"{cn}/dict-not-cleared/{k}", f"{cn}: update({k}={{}}) after update({k}={v[2]!r}) leaves parameter_values[{k!r}] = {t.parameter_values[k]!r}",
                                     {"class": cn, "pre": str(v[1]), "set": str(v[2]), "param": k})
                            break
                        continue
                    t = copy.deepcopy(obj)
                    try:
                        before = realfuzz.canon(t.parameter_values[k])
                        t.update(**{k: copy.deepcopy(v)})
                    except Exception:
                        continue
                    n_checks += 1
                    if realfuzz.canon(t.parameter_values[k]) != before:
                        done = True
                        break
                if not done and k in P:
                    viol(f"{cn}/not-updatable/{k}", f"{cn}: no valid value of {k} could be applied through update()")
            # round trip on random valid configurations
            for _ in range(3 if quick else 25):
                t = copy.deepcopy(obj)
                for k in r.sample(sorted(P), min(len(P), 4)):
                    try:
                        t.update(**{k: copy.deepcopy(r.choice(P[k]))})
                    except Exception:
                        pass
                try:
                    t2 = type(t)(**t.parameter_values)
                except Exception as e:
                    # parameters rejected by validate() stay applied; a fresh object cannot be built from them — not a round-trip case
                    continue
                n_checks += 1
                if realfuzz.canon(t2.parameter_values) != realfuzz.canon(t.parameter_values):
                    viol(f"{cn}/round-trip/params", f"{cn}(**obj.parameter_values).parameter_values differs")
                for q in r.sample(realfuzz.quantities(cls), min(6, len(realfuzz.quantities(cls)))):
                    a, b = realfuzz.read(t, q), realfuzz.read(t2, q)
                    if a != b and not (a[0] == "exc" and b[0] == "exc" and a[1] == b[1]):
                        viol(f"{cn}/round-trip/{q}", f"{cn}(**obj.parameter_values).{q} differs from obj.{q}")
            # models by name vs class
            for k in kws:
                if not k.endswith("_model") or k == "cosmo_model":
                    continue
                for v in P.get(k, []):
                    if not isinstance(v, type):
                        continue
                    try:
                        a = copy.deepcopy(obj); a.update(**{k: v})
                        b = copy.deepcopy(obj); b.update(**{k: v.__name__})
                    except Exception:
                        continue
                    n_checks += 1
                    if a.parameter_values[k] is not b.parameter_values[k]:
                        viol(f"{cn}/name-vs-class/{k}", f"{cn}: {k}={v.__name__!r} and {k}=<class> store different values")
                    if len(samples) < 3:
                        samples.append(f"{cn}: {k}={v.__name__!r} == {k}=<class {v.__name__}>")
            # rejections
            rej = [("unknown keyword (ctor)", lambda: cls(**dict(realfuzz.BASE[cn], not_a_parameter=1))),
                   ("unknown keyword (update)", lambda: copy.deepcopy(obj).update(not_a_parameter=1))]
            # names the constructors mention as string literals (legacy aliases, special-cased keys) but that are not parameters
            import ast as _ast, inspect as _inspect, textwrap as _tw
            cand = set()
            for c_ in cls.__mro__:
                init_ = c_.__dict__.get("__init__")
                if init_ is None or not hasattr(init_, "__code__"):
                    continue
                try:
                    tree_ = _ast.parse(_tw.dedent(_inspect.getsource(init_)))
                except Exception:
                    continue
                for nd_ in _ast.walk(tree_):
                    if isinstance(nd_, _ast.Constant) and isinstance(nd_.value, str) and nd_.value.isidentifier() and nd_.value not in kws:
                        cand.add(nd_.value)
            for nm_ in sorted(cand):
                rej.append((f"non-parameter keyword {nm_!r} (ctor)", lambda nm_=nm_: (lambda o_: (_ for _ in ()).throw(ValueError("reported")) if nm_ in o_.parameter_values else o_)(cls(**dict(realfuzz.BASE[cn], **{nm_: 1})))))
            for k in kws:
                if k.endswith("_params"):
                    rej.append((f"non-dict {k}", lambda k=k: copy.deepcopy(obj).update(**{k: 3})))
                    rej.append((f"non-dict {k} (list)", lambda k=k: copy.deepcopy(obj).update(**{k: [("a", 1)]})))
                    if k == "cosmo_params":
                        # keys the cosmology model does not have (for a LambdaCDM-type model that includes the dark-energy equation-of-state names)
                        for bad_ in ({"zz_unknown": 1}, {"w0": -0.9}, {"wa": 0.1}, {"Om0": 0.3, "wz": 0.0}):
                            rej.append((f"unknown key in cosmo_params {bad_}", lambda bad_=bad_: _read_all(copy.deepcopy(obj), cosmo_params=dict(bad_))))
                            rej.append((f"unknown key in cosmo_params {bad_} (ctor)", lambda bad_=bad_: (lambda o_: [getattr(o_, q_) for q_ in realfuzz.quantities(cls)])(cls(**dict(realfuzz.BASE[cn], cosmo_params=dict(bad_))))))
                    if k != "cosmo_params":
                        extra = {"alter_model": "Schneider12"} if k == "alter_params" else {}
                        rej.append((f"unknown key in {k}", lambda k=k, extra=extra: _read_all(copy.deepcopy(obj), **dict(extra, **{k: {"zz_unknown": 1}}))))
                if k.endswith("_model"):
                    rej.append((f"unknown model name for {k}", lambda k=k: copy.deepcopy(obj).update(**{k: "NoSuchModel_xyz"})))
            for k, bads in {"sigma_8": [0.05, 11.0], "n": [-3.5, 4.5], "z": [-0.5], "delta_c": [0.0, -1.0, 10.5], "wdm_mass": [0.0, -2.0]}.items():
                if k in kws:
                    for b in bads:
                        rej.append((f"out-of-range {k}={b}", lambda k=k, b=b: copy.deepcopy(obj).update(**{k: b})))
                        rej.append((f"out-of-range {k}={b} (ctor)", lambda k=k, b=b: cls(**dict(realfuzz.BASE[cn], **{k: b}))))
            # cross-parameter ranges checked by validate(): every framework class that has the parameters rejects them, by constructor and update()
            for label_, kwx_ in (("lnk_min >= lnk_max", {"lnk_min": 2.0, "lnk_max": 1.0}), ("lnk_min == lnk_max", {"lnk_min": 3.0, "lnk_max": 3.0}), ("lnk_min above the default lnk_max", {"lnk_min": 12.0}),
                                 ("fewer than two wavenumbers", {"lnk_min": 0.0, "lnk_max": 0.04, "dlnk": 0.05}), ("Mmin >= Mmax", {"Mmin": 15.0, "Mmax": 12.0})):
                if all(k_ in kws for k_ in kwx_):
                    rej.append((f"cross-parameter range {label_} {kwx_} (ctor)", lambda kwx_=kwx_: cls(**dict(realfuzz.BASE[cn], **kwx_))))
                    rej.append((f"cross-parameter range {label_} {kwx_} (update)", lambda kwx_=kwx_: copy.deepcopy(obj).update(**kwx_)))
            # every numeric constructor argument accepts the usual numeric types (Python int, numpy integer / floating scalars, 0-d arrays):
            # through the constructor and through update() the outputs are those of the plain-float value
            if cn in ("MassFunction", "Transfer", "MassFunctionWDM"):
                qn_ = "dndm" if cn.startswith("MassFunction") else "power"
                numeric = {"z": 1.0, "sigma_8": 1.0, "n": 1.0, "delta_c": 2.0, "Mmin": 10.0, "Mmax": 14.0, "dlog10m": 1.0, "lnk_min": -8.0, "lnk_max": 4.0, "dlnk": 0.25, "wdm_mass": 3.0}
                for k_, v_ in numeric.items():
                    if k_ not in kws:
                        continue
                    try:
                        want_ = np.asarray(getattr(cls(**dict(realfuzz.BASE[cn], **{k_: v_})), qn_), float)
                    except Exception:
                        continue
                    variants = [("np.float64", np.float64(v_)), ("np.float32", np.float32(v_)), ("0-d array", np.array(v_))]
                    if float(v_).is_integer():
                        variants += [("int", int(v_)), ("np.int64", np.int64(int(v_)))]
                    for tn_, tv_ in variants:
                        n_checks += 1
                        try:
                            got_c = np.asarray(getattr(cls(**dict(realfuzz.BASE[cn], **{k_: tv_})), qn_), float)
                            o_ = cls(**copy.deepcopy(realfuzz.BASE[cn])); getattr(o_, qn_); o_.update(**{k_: tv_})
                            got_u = np.asarray(getattr(o_, qn_), float)
                        except Exception as e:
                            viol(f"{cn}/typed-value/{k_}", f"{cn}: {k_}={tv_!r} ({tn_}) raises {type(e).__name__}: {str(e)[:80]}, the plain float {v_!r} is accepted")
                            continue
                        if not (got_c.shape == want_.shape and np.allclose(got_c, want_, rtol=1e-6, equal_nan=True) and got_u.shape == want_.shape and np.allclose(got_u, want_, rtol=1e-6, equal_nan=True)):
                            viol(f"{cn}/typed-value/{k_}", f"{cn}: {k_}={tv_!r} given as {tn_} gives a different {qn_} than the plain float {v_!r} (constructor and/or update)")
            if cn == "MassFunction":
                # out-of-range model parameters: Tinker10 needs gamma > 0, eta > -1/2, eta - phi > -1/2, beta > 0 for the values it uses at the
                # object's redshift (coefficients evolve as (1+z)^exp); both values already bad at z=0 and values that only leave the range at z>0
                for (z_, hp_, why_) in [(0.0, {"eta_200": -0.6}, "eta=-0.6"), (0.0, {"gamma_200": -0.1}, "gamma=-0.1"), (0.0, {"beta_200": -0.2}, "beta=-0.2"),
                                        (0.0, {"phi_200": 0.3, "eta_200": -0.25}, "eta-phi=-0.55"),
                                        (1.0, {"eta_200": -0.45}, "eta(z=1)=-0.45*2^0.27=-0.543"), (2.0, {"phi_200": 0.2, "eta_200": -0.28}, "eta-phi at z=2 = -0.377-0.183=-0.56"),
                                        (1.0, {"eta_200": -0.2, "eta_exp": 1.5}, "eta(z=1)=-0.2*2^1.5=-0.566"), (1.0, {"gamma_200": 0.5, "beta_200": -1e-3}, "beta<0")]:
                    kw_ = dict(realfuzz.BASE[cn], hmf_model="Tinker10", mdef_model="SOMean", mdef_params={"overdensity": 200}, z=z_, hmf_params=dict(hp_))
                    rej.append((f"out-of-range Tinker10 parameters {hp_} at z={z_} ({why_})", lambda kw_=kw_: (lambda o_: o_.fsigma)(cls(**copy.deepcopy(kw_)))))
                    kw0_ = dict(kw_, z=0.0, hmf_params={})
                    rej.append((f"out-of-range Tinker10 parameters {hp_} at z={z_} ({why_}) (update)", lambda kw0_=kw0_, z_=z_, hp_=hp_: (lambda o_: (o_.fsigma, o_.update(z=z_, hmf_params=dict(hp_)), o_.fsigma))(cls(**copy.deepcopy(kw0_)))))
            for what, f in rej:
                n_checks += 1
                try:
                    f()
                    viol(f"{cn}/accepted/{what}", f"{cn}: {what} was accepted without an exception")
                except Exception:
                    pass
    out["coverage"] = {
        "evaluations": n_checks + nreg, "programs": nreg, "disagreements_checked": nreg,
        "traces_validated_against_impl": nreg,
        "distinct_nontrivial": n_checks,
        "rule": "registry: random run-time class-definition sequences (same names re-defined, abstract classes, nested subclasses) + lookups, and random defaults/overrides for Component.__init__, real code vs Lean model; real: every registered model of every component kind (by name / by class / unknown keys of all other models), every constructor keyword of the five frameworks (presence, updatability), round trips on random valid configurations, every rejection kind listed in the property",
        "registered_models": nmodels, "component_kinds": [k.__name__ for k in kinds],
        "samples": samples + [f"{nreg} registry/params requests"],
        "search": "direct oracles on the real classes",
    }
    return out


def _read_all(obj, **kw):
    """apply and then force evaluation (unknown model keys surface when the component is instantiated)"""
    obj.update(**kw)
    for q in realfuzz.quantities(type(obj)):
        getattr(obj, q)


def replay(path):
    j = json.load(open(path))
    key = (j.get("replay") or {}).get("key")
    res = run({"tier": "quick"})
    hit = [v for v in res["violations"] if v["key"] == key]
    print(hit[:1] or "not reproduced on the current tree")
    return 1 if hit else 0
