"""C15 — copies, clones and pickles are faithful and independent.
real classes: at random points of random histories take deepcopy / clone(**changes) / pickle round trip; the copy must equal
a fresh object (all parameters, sampled outputs), continue to work after further updates (recomputation), and operations on
either object must not affect the other. Includes CAMB-backed frameworks."""
import copy, pickle, warnings
import numpy as np
import realfuzz, heapcorr
from common import *


def one(r, cn, camb=False, quick=True):
    realfuzz.init()
    cls = realfuzz.class_by_name(cn)
    P = realfuzz.pools(cn)
    qs_all = realfuzz.quantities(cls)
    viol = []
    script = []
    with warnings.catch_warnings():
        warnings.simplefilter("ignore")
        np.seterr(all="ignore")
        base = copy.deepcopy(realfuzz.BASE[cn])
        if camb:
            base.update(transfer_model="CAMB", lnk_min=-10.0, lnk_max=5.0, dlnk=0.25)
        o = cls(**base)
        script.append(f"o = {cn}(**{base})")
        names = [k for k in sorted(P) if not (camb and k in ("transfer_model", "transfer_params"))]
        for _ in range(r.randint(0, 4)):      # prior history
            if r.random() < 0.5:
                q = r.choice(qs_all); realfuzz.read(o, q); script.append(f"o.{q}")
            else:
                k = r.choice(names); v = copy.deepcopy(r.choice(P[k]))
                try:
                    o.update(**{k: v})
                except Exception:
                    pass
                script.append(f"o.update({k}={realfuzz.show(v)})")
        how = r.choice(["deepcopy", "clone", "clone+changes", "pickle"])
        changes = {}
        if how == "clone+changes":
            for k in r.sample(names, min(len(names), r.randint(1, 2))):
                changes[k] = copy.deepcopy(r.choice(P[k]))
        qs = r.sample(qs_all, min(len(qs_all), 6 if quick else 12))
        before = {"params": realfuzz.canon(o.parameter_values)}
        try:
            c = copy.deepcopy(o) if how == "deepcopy" else (pickle.loads(pickle.dumps(o)) if how == "pickle" else o.clone(**copy.deepcopy(changes)))
        except Exception as e:
            # clone(**invalid) may be rejected like update(): then a fresh object with those values is rejected too
            script.append(f"c = {how}({', '.join(changes)}) -> {type(e).__name__}")
            if how != "clone+changes":
                # clone() re-validates: if the prior history left the original in a rejected state (an invalid value stays stored after
                # a failed update), a fresh object with the same parameter values is rejected in the same way and clone() may be too
                same = False
                if how == "clone":
                    try:
                        type(o)(**copy.deepcopy(dict(o.parameter_values)))      # constructed *and* validated, like clone()
                    except Exception as e2:
                        same = type(e2) is type(e)
                if not same:
                    viol.append({"key": f"{cn}/{how}/raises", "what": f"{how} of a {cn} raised {type(e).__name__}: {str(e)[:80]}"})
            return viol, script, how
        script.append(f"c = o.{how}(" + ", ".join(f"{k}={realfuzz.show(v)}" for k, v in changes.items()) + ")")
        # faithful: parameters and outputs of the copy == fresh object with (changed) parameters
        try:
            fr = realfuzz.fresh_from(c)
        except Exception as e:
            viol.append({"key": f"{cn}/{how}/fresh", "what": f"cannot build a fresh object from the copy's parameter_values: {e}"})
            return viol, script, how
        if how != "clone+changes" and realfuzz.canon(c.parameter_values) != before["params"]:
            viol.append({"key": f"{cn}/{how}/params", "what": f"{how}: parameter values of the copy differ from the original's"})
        for q in qs:
            a, b = realfuzz.read(c, q), realfuzz.read(fr, q)
            if a != b and not (a[0] == "exc" and b[0] == "exc" and a[1] == b[1]):
                viol.append({"key": f"{cn}/{how}/output/{q}", "what": f"{how}: copy.{q} differs from a fresh object's ({a[0]} vs {b[0]}: {(a[1:] if a[0] == 'exc' else '')})"})
                break
        # the original is unaffected by the copy and by reading it
        if realfuzz.canon(o.parameter_values) != before["params"]:
            viol.append({"key": f"{cn}/{how}/original-params", "what": f"{how}: the original's parameters changed"})
        # independence + continued use: change the copy (forces recomputation), original must not move; and vice versa
        osnap = {q: realfuzz.read(o, q) for q in qs}
        k = r.choice(names); v = copy.deepcopy(r.choice(P[k]))
        try:
            c.update(**{k: v})
        except Exception:
            pass
        script.append(f"c.update({k}={realfuzz.show(v)})")
        if realfuzz.canon(o.parameter_values) != before["params"]:
            viol.append({"key": f"{cn}/{how}/independence/params", "what": f"updating the copy ({k}) changed the original's parameters"})
        for q in qs:
            if realfuzz.read(o, q) != osnap[q]:
                viol.append({"key": f"{cn}/{how}/independence/{q}", "what": f"updating the copy ({k}) changed original.{q}"})
                break
        try:
            fr2 = realfuzz.fresh_from(c)
            for q in qs:
                a, b = realfuzz.read(c, q), realfuzz.read(fr2, q)
                if a != b and not (a[0] == "exc" and b[0] == "exc" and a[1] == b[1]):
                    viol.append({"key": f"{cn}/{how}/after-update/{q}", "what": f"{how}, then update({k}) on the copy: copy.{q} differs from a fresh object's ({a[0]} {a[1:3] if a[0] == 'exc' else ''} vs {b[0]})"})
                    break
        except Exception:
            pass
        csnap = {q: realfuzz.read(c, q) for q in qs}
        cpar = realfuzz.canon(c.parameter_values)
        k2 = r.choice(names); v2 = copy.deepcopy(r.choice(P[k2]))
        try:
            o.update(**{k2: v2})
        except Exception:
            pass
        script.append(f"o.update({k2}={realfuzz.show(v2)})")
        try:
            fo = realfuzz.fresh_from(o)
            for q in qs:
                a, b = realfuzz.read(o, q), realfuzz.read(fo, q)
                if a != b and not (a[0] == "exc" and b[0] == "exc" and a[1] == b[1]):
                    viol.append({"key": f"{cn}/{how}/original-after-update/{q}", "what": f"after {how} (and an update of the copy), update({k2}) on the original: original.{q} differs from a fresh object's"})
                    break
        except Exception:
            pass
        if realfuzz.canon(c.parameter_values) != cpar:
            viol.append({"key": f"{cn}/{how}/independence-rev/params", "what": f"updating the original ({k2}) changed the copy's parameters"})
        for q in qs:
            if realfuzz.read(c, q) != csnap[q]:
                viol.append({"key": f"{cn}/{how}/independence-rev/{q}", "what": f"updating the original ({k2}) changed copy.{q}"})
                break
    return viol, script, how


def none_changes(quick):
    """clone(**changes) with a meaningful None among the changes must apply it"""
    realfuzz.init()
    viol, n = [], 0
    with warnings.catch_warnings():
        warnings.simplefilter("ignore")
        np.seterr(all="ignore")
        for cn, k, nonnull in [("MassFunction", "mdef_model", "SOCritical"), ("MassFunctionWDM", "alter_model", "Schneider12_vCDM"),
                               ("MassFunctionWDM", "mdef_model", "SOMean")]:
            cls = realfuzz.class_by_name(cn)
            o = cls(**dict(copy.deepcopy(realfuzz.BASE[cn]), **{k: nonnull}))
            o.dndm
            c = o.clone(**{k: None})
            n += 1
            if c.parameter_values[k] is not None:
                viol.append({"key": f"{cn}/clone-none/{k}", "what": f"{cn}: clone({k}=None) kept {k}={realfuzz.show(c.parameter_values[k])}",
                             "replay": {"kind": "c15", "script": [f"o = {cn}(..., {k}={nonnull!r})", "o.dndm", f"c = o.clone({k}=None)", f"c.parameter_values[{k!r}]"]}})
                continue
            fr = cls(**dict(copy.deepcopy(realfuzz.BASE[cn]), **{k: None}))
            if realfuzz.read(c, "dndm") != realfuzz.read(fr, "dndm"):
                viol.append({"key": f"{cn}/clone-none/{k}/dndm", "what": f"{cn}: clone({k}=None).dndm differs from a fresh object's",
                             "replay": {"kind": "c15", "script": [f"o = {cn}(..., {k}={nonnull!r})", f"c = o.clone({k}=None)", "c.dndm"]}})
    return viol, n


def model_changes(quick):
    """clone(<x>_model=M) on an object with non-empty <x>_params, M accepting the same keys, no <x>_params among the changes: the clone
    equals a fresh object built from the original's parameter values with the model changed (the model parameters are carried over,
    exactly as update() does)"""
    realfuzz.init()
    viol, n = [], 0
    cases = [("MassFunction", {"mdef_model": "SOMean", "mdef_params": {"overdensity": 300}, "hmf_model": "Tinker08"}, {"mdef_model": "SOCritical"}, "dndm"),
             ("MassFunction", {"filter_model": "SharpK", "filter_params": {"c": 2.2}}, {"filter_model": "SharpKEllipsoid"}, "sigma"),
             ("Transfer", {"growth_model": "Carroll1992", "growth_params": {"zmax": 50.0, "dz": 0.02}}, {"growth_model": "GenMFGrowth"}, "growth_factor"),
             ("MassFunction", {"hmf_model": "SMT", "hmf_params": {"a": 0.8, "p": 0.25}}, {"hmf_model": "ST"}, "fsigma"),
             ("Transfer", {"transfer_model": "BBKS", "transfer_params": {"a": 2.4}}, {"transfer_model": "BondEfs"}, "power"),
             ("MassFunctionWDM", {"wdm_model": "Viel05", "wdm_params": {"mu": 1.3}}, {"wdm_mass": 2.5}, "dndm"),
             # a cosmology change through clone() reaches the components that survive it (mass definition, filter, growth): thresholds that
             # depend on Omega_m(z) belong to the clone's cosmology
             ("MassFunction", {"mdef_model": "SOCritical", "hmf_model": "Tinker08", "z": 1.0}, {"cosmo_params": {"Om0": 0.25}}, "halo_overdensity_mean"),
             ("MassFunction", {"mdef_model": "SOVirial", "hmf_model": "Tinker10", "z": 1.0}, {"cosmo_params": {"Om0": 0.4, "H0": 62.0}}, "dndm"),
             ("MassFunction", {"mdef_model": "SOCritical", "mdef_params": {"overdensity": 500}, "hmf_model": "Watson", "z": 0.5}, {"cosmo_model": "WMAP9"}, "fsigma")]
    with warnings.catch_warnings():
        warnings.simplefilter("ignore")
        np.seterr(all="ignore")
        for cn, extra, change, q in cases:
            cls = realfuzz.class_by_name(cn)
            for computed in (False, True):
                try:
                    o = cls(**dict(copy.deepcopy(realfuzz.BASE[cn]), **copy.deepcopy(extra)))
                    if computed:
                        realfuzz.read(o, q)
                    o.update(z=0.5)
                    fr = cls(**dict(copy.deepcopy(dict(o.parameter_values)), **copy.deepcopy(change)))
                    want = realfuzz.read(fr, q)
                except Exception:
                    continue
                n += 1
                script = [f"o = {cn}(**{dict(realfuzz.BASE[cn], **extra)})"] + ([f"o.{q}"] if computed else []) + ["o.update(z=0.5)", f"c = o.clone(**{change})", f"fresh = {cn}(**dict(o.parameter_values, **{change}))"]
                try:
                    c = o.clone(**copy.deepcopy(change))
                except Exception as e:
                    viol.append({"key": f"{cn}/clone-model-change/{sorted(change)[0]}/raises", "what": f"{cn}: clone({change}) raised {type(e).__name__}: {e} although a fresh object with those parameters is valid", "replay": {"kind": "c15", "script": script}})
                    continue
                if realfuzz.canon(c.parameter_values) != realfuzz.canon(fr.parameter_values):
                    diff = [k for k in fr.parameter_values if realfuzz.canon({k: c.parameter_values.get(k)}) != realfuzz.canon({k: fr.parameter_values[k]})]
                    viol.append({"key": f"{cn}/clone-model-change/{sorted(change)[0]}/params", "what": f"{cn}: clone({change}) has parameter values differing from a fresh object with the changed parameters: " +
                                 ", ".join(f"{k}: clone={realfuzz.show(c.parameter_values.get(k))} fresh={realfuzz.show(fr.parameter_values[k])}" for k in diff[:3]), "replay": {"kind": "c15", "script": script}})
                    continue
                if realfuzz.read(c, q) != want:
                    viol.append({"key": f"{cn}/clone-model-change/{sorted(change)[0]}/output", "what": f"{cn}: clone({change}).{q} differs from a fresh object's", "replay": {"kind": "c15", "script": script}})
    return viol, n


def tiny_changes(quick):
    """clone(**changes) with changes that are small but real (relative 1e-6 ... 1e-9): the clone carries exactly the requested values and
    equals a fresh object with them"""
    realfuzz.init()
    viol, n = [], 0
    with warnings.catch_warnings():
        warnings.simplefilter("ignore")
        np.seterr(all="ignore")
        for cn, k, v0, rel in [("MassFunction", "z", 1.0, 1e-6), ("MassFunction", "sigma_8", 0.8, 1e-7), ("Transfer", "n", 0.96, 1e-6), ("MassFunction", "delta_c", 1.686, 1e-8),
                               ("MassFunction", "Mmin", 10.0, 1e-9), ("Transfer", "z", 0.0, None)]:
            cls = realfuzz.class_by_name(cn)
            o = cls(**dict(copy.deepcopy(realfuzz.BASE[cn]), **{k: v0}))
            q = "dndm" if cn == "MassFunction" else "power"
            realfuzz.read(o, q)
            v1 = v0 * (1 + rel) if rel is not None else 1e-9
            c = o.clone(**{k: v1})
            n += 1
            script = [f"o = {cn}(..., {k}={v0!r}); o.{q}", f"c = o.clone({k}={v1!r})", f"c.parameter_values[{k!r}]; c.{q} vs fresh"]
            if c.parameter_values[k] != v1:
                viol.append({"key": f"{cn}/clone-tiny-change/{k}/params", "what": f"{cn}: clone({k}={v1!r}) of an object with {k}={v0!r} reports {k}={c.parameter_values[k]!r}", "replay": {"kind": "c15", "script": script}})
                continue
            fr = cls(**dict(copy.deepcopy(realfuzz.BASE[cn]), **{k: v1}))
            if realfuzz.read(c, q) != realfuzz.read(fr, q):
                viol.append({"key": f"{cn}/clone-tiny-change/{k}/output", "what": f"{cn}: clone({k}={v1!r}).{q} differs from a fresh object's", "replay": {"kind": "c15", "script": script}})
    return viol, n


def component_state_copies(quick):
    """copies of objects whose *components* hold state beyond their parameters: the callable growth function of every growth model with
    use_splined_growth=True (computed before copying), and the CAMB transfer model with its Eisenstein-Hu extrapolation helper; every copy
    kind, then a change on the copy that makes the copied component run again"""
    realfuzz.init()
    viol, n = [], 0
    from hmf.density_field.transfer import Transfer
    kinds = (("deepcopy", copy.deepcopy), ("clone", lambda o: o.clone()), ("pickle", lambda o: pickle.loads(pickle.dumps(o))))
    with warnings.catch_warnings():
        warnings.simplefilter("ignore")
        np.seterr(all="ignore")
        for gm in ("GrowthFactor", "Carroll1992", "GenMFGrowth"):
            base = dict(transfer_model="EH", lnk_min=-8.0, lnk_max=4.0, dlnk=0.25, growth_model=gm, use_splined_growth=True, z=1.0, cosmo_model="Planck13")
            for how, f in kinds:
                o = Transfer(**base)
                p0 = o.power.copy()
                n += 1
                script = [f"o = Transfer(growth_model={gm!r}, use_splined_growth=True, z=1.0, ...); o.power", f"c = {how}(o); c.power; c.update(z=2.5); c.power"]
                try:
                    c = f(o)
                    ok1 = np.array_equal(c.power, p0)
                    c.update(z=2.5)
                    ok2 = np.allclose(c.power, Transfer(**dict(base, z=2.5)).power, rtol=1e-12)
                except Exception as e:
                    viol.append({"key": f"Transfer/splined-growth/{gm}/{how}/raises", "what": f"{how} of a Transfer with growth_model={gm}, use_splined_growth=True (growth already computed) fails: {type(e).__name__}: {str(e)[:120]}", "replay": {"kind": "c15", "script": script}})
                    continue
                if not (ok1 and ok2):
                    viol.append({"key": f"Transfer/splined-growth/{gm}/{how}", "what": f"{how} of a Transfer with growth_model={gm}, use_splined_growth=True: outputs of the copy differ from the original's / a fresh object's after update(z=2.5)", "replay": {"kind": "c15", "script": script}})
        try:
            import camb  # noqa
            basec = dict(transfer_model="CAMB", transfer_params={"extrapolate_with_eh": True}, lnk_min=-8.0, lnk_max=3.0, dlnk=0.25)
            for how, f in (kinds[:2] if quick else kinds):
                o = Transfer(**copy.deepcopy(basec))
                p0 = o.power.copy()
                n += 1
                script = ["o = Transfer(transfer_model='CAMB', transfer_params={'extrapolate_with_eh': True}, ...); o.power", f"c = {how}(o); c.update(lnk_max=4.0, dlnk=0.2); c.power"]
                try:
                    c = f(o)
                    ok1 = np.array_equal(c.power, p0)
                    c.update(lnk_max=4.0, dlnk=0.2)
                    fr = Transfer(**dict(copy.deepcopy(basec), lnk_max=4.0, dlnk=0.2)).power
                    ok2 = c.power.shape == fr.shape and np.allclose(c.power, fr, rtol=1e-9)
                    # ... and the object that was copied goes on working: a grid change on the original afterwards gives a fresh object's power
                    try:
                        o.update(lnk_min=-7.0, lnk_max=3.5)
                        po = o.power
                        fo = Transfer(**dict(copy.deepcopy(basec), lnk_min=-7.0, lnk_max=3.5)).power
                        if not (po.shape == fo.shape and np.allclose(po, fo, rtol=1e-9)):
                            viol.append({"key": f"Transfer/CAMB/{how}/original-after-copy", "what": f"after {how} of a computed CAMB transfer, a grid change on the original gives a power spectrum that differs from a fresh object's",
                                         "replay": {"kind": "c15", "script": script + ["o.update(lnk_min=-7.0, lnk_max=3.5); o.power vs fresh"]}})
                    except Exception as e2:
                        viol.append({"key": f"Transfer/CAMB/{how}/original-after-copy/raises", "what": f"after {how} of a computed CAMB transfer, update(lnk_min=-7.0, lnk_max=3.5) and power on the ORIGINAL fail: {type(e2).__name__}: {str(e2)[:120]}",
                                     "replay": {"kind": "c15", "script": script + ["o.update(lnk_min=-7.0, lnk_max=3.5); o.power"]}})
                except Exception as e:
                    viol.append({"key": f"Transfer/CAMB-eh-extrapolation/{how}/raises", "what": f"{how} of a computed CAMB transfer with extrapolate_with_eh=True, then a grid change on the copy, fails: {type(e).__name__}: {str(e)[:120]}", "replay": {"kind": "c15", "script": script}})
                    continue
                if not (ok1 and ok2):
                    viol.append({"key": f"Transfer/CAMB-eh-extrapolation/{how}", "what": f"{how} of a computed CAMB transfer with extrapolate_with_eh=True: the copy's power differs from the original's / from a fresh object's after a grid change", "replay": {"kind": "c15", "script": script}})
        except ImportError:
            pass
    return viol, n


def dict_changes(quick):
    """clone(**changes) with a non-empty dict-valued change must leave the original's parameters (deep comparison) and its
    later recomputations untouched"""
    realfuzz.init()
    viol, n = [], 0
    cases = [("MassFunction", "hmf_params", {"hmf_model": "SMT", "hmf_params": {"a": 0.8}}, {"p": 0.25}),
             ("MassFunction", "cosmo_params", {"cosmo_params": {"Om0": 0.3}}, {"H0": 75.0}),
             ("Transfer", "transfer_params", {"transfer_model": "EH"}, {"use_sugiyama_baryons": True}),
             ("Transfer", "growth_params", {}, {"dlna": 0.02}),
             ("MassFunctionWDM", "wdm_params", {}, {"mu": 1.2}),
             ("Cosmology", "cosmo_params", {}, {"Om0": 0.25})]
    with warnings.catch_warnings():
        warnings.simplefilter("ignore")
        np.seterr(all="ignore")
        for cn, k, extra, change in cases:
            cls = realfuzz.class_by_name(cn)
            o = cls(**dict(copy.deepcopy(realfuzz.BASE[cn]), **copy.deepcopy(extra)))
            qs = [q for q in ("dndm", "power", "mean_density0") if q in realfuzz.quantities(cls)][:1]
            for q in qs:
                realfuzz.read(o, q)
            before = realfuzz.canon(o.parameter_values)
            c = o.clone(**{k: copy.deepcopy(change)})
            n += 1
            script = [f"o = {cn}(**{dict(realfuzz.BASE[cn], **extra)})", f"c = o.clone({k}={change})", "o.parameter_values", "o.update(<another parameter>)", f"o.{qs[0]}"]
            if realfuzz.canon(o.parameter_values) != before:
                viol.append({"key": f"{cn}/clone-dict-change/{k}/original-params", "what": f"{cn}: clone({k}={change}) changed the original's {k} to {realfuzz.show(o.parameter_values[k])}",
                             "replay": {"kind": "c15", "script": script}})
                continue
            # force the original to recompute, compare with a fresh object
            try:
                o.update(**({"z": 0.5} if cn != "Cosmology" else {"cosmo_params": {"Tcmb0": 2.7}}))
                fo = realfuzz.fresh_from(o)
                if realfuzz.read(o, qs[0]) != realfuzz.read(fo, qs[0]):
                    viol.append({"key": f"{cn}/clone-dict-change/{k}/original-output", "what": f"{cn}: after clone({k}={change}) the original's recomputed {qs[0]} differs from a fresh object's",
                                 "replay": {"kind": "c15", "script": script}})
            except Exception as e:
                viol.append({"key": f"{cn}/clone-dict-change/{k}/raises", "what": f"{cn}: original unusable after clone({k}={change}): {type(e).__name__}: {e}", "replay": {"kind": "c15", "script": script}})
    return viol, n


def camb_user_params(quick):
    """CAMB transfer with a user-supplied CAMBparams: copy, change the copy's cosmology and read it, then force the
    original to recompute; both must equal fresh objects"""
    realfuzz.init()
    viol, n = [], 0
    try:
        import camb
    except Exception:
        return viol, n
    from hmf.density_field.transfer import Transfer
    with warnings.catch_warnings():
        warnings.simplefilter("ignore")
        np.seterr(all="ignore")
        plan_ = [("deepcopy", (False, 0, None)), ("deepcopy", (True, 8, None)), ("clone", (False, 0, -0.7)), ("clone", (False, 0, None))]
        if not quick:
            plan_ += [("pickle", (False, 0, -0.7)), ("pickle", (True, 8, None)), ("deepcopy", (False, 0, -0.7)), ("clone", (True, 8, None))]
        for how, (hp_, kpl_, w_) in plan_:
            def mk():
                cp = camb.CAMBparams(DoLensing=False, Want_CMB=False, Want_CMB_lensing=False, WantCls=False, WantDerivedParameters=False)
                cp.Transfer.high_precision = hp_          # (the second setting differs from what the model would choose itself)
                cp.Transfer.k_per_logint = kpl_
                if w_ is not None:
                    cp.set_dark_energy(w=w_)              # a non-default dark-energy model set directly on the user's CAMB object
                return cp
            base = dict(transfer_model="CAMB", lnk_min=-10.0, lnk_max=5.0, dlnk=0.25)
            o = Transfer(transfer_params={"camb_params": mk()}, **base)
            p0 = o.power.copy()
            c = copy.deepcopy(o) if how == "deepcopy" else (o.clone() if how == "clone" else pickle.loads(pickle.dumps(o)))
            # the copied *component* has to run again without being rebuilt: change only the wavenumber grid on a second copy
            c3 = copy.deepcopy(o) if how == "deepcopy" else (o.clone() if how == "clone" else pickle.loads(pickle.dumps(o)))
            c3.update(lnk_max=4.0)
            pc3 = c3.power
            fc3 = Transfer(transfer_params={"camb_params": mk()}, **dict(base, lnk_max=4.0)).power
            if not (pc3.shape == fc3.shape and np.allclose(pc3, fc3, rtol=1e-9, atol=0)):
                viol.append({"key": f"Transfer/CAMB-user-params/{how}/copy-grid-change-only", "what": f"{how} of a CAMB transfer with user CAMBparams (high_precision={hp_}, k_per_logint={kpl_}, dark energy w={w_}) after power was read, then update(lnk_max=4) on the copy: power differs from a fresh object's by up to {float(np.max(np.abs(pc3 / fc3 - 1))) if pc3.shape == fc3.shape else 'shape'}",
                             "replay": {"kind": "c15", "script": [f"o = Transfer(transfer_model='CAMB', transfer_params={{'camb_params': CAMBparams(Transfer.high_precision={hp_}, Transfer.k_per_logint={kpl_}, set_dark_energy(w={w_}))}}); o.power", f"c = {how}(o); c.update(lnk_max=4.0); c.power"]}})
            c.update(cosmo_params={"Om0": 0.25})
            pc = c.power
            c.update(lnk_max=4.0)
            pc2 = c.power
            fc2 = Transfer(transfer_params={"camb_params": mk()}, cosmo_params={"Om0": 0.25}, **dict(base, lnk_max=4.0)).power
            if not (pc2.shape == fc2.shape and np.allclose(pc2, fc2, rtol=1e-9, atol=0)):
                viol.append({"key": f"Transfer/CAMB-user-params/{how}/copy-after-grid-change", "what": f"{how} of a CAMB transfer with user CAMBparams (high_precision={hp_}, k_per_logint={kpl_}, dark energy w={w_}), then update(lnk_max=4) on the copy: power differs from a fresh object's by up to {float(np.max(np.abs(pc2 / fc2 - 1))) if pc2.shape == fc2.shape else 'shape'}",
                             "replay": {"kind": "c15", "script": [f"o = Transfer(transfer_model='CAMB', transfer_params={{'camb_params': CAMBparams(Transfer.high_precision={hp_}, Transfer.k_per_logint={kpl_}, set_dark_energy(w={w_}))}}); o.power", f"c = {how}(o); c.update(cosmo_params={{'Om0':0.25}}); c.update(lnk_max=4.0); c.power"]}})
            try:
                o.update(dlnk=0.2)
                po = o.power
            except Exception as e_:
                viol.append({"key": f"Transfer/CAMB-user-params/{how}/original/raises", "what": f"after {how} of a CAMB transfer with user CAMBparams (power read before), update(dlnk=0.2) and power on the ORIGINAL fail: {type(e_).__name__}: {str(e_)[:120]}",
                             "replay": {"kind": "c15", "script": [f"o = Transfer(transfer_model='CAMB', transfer_params={{'camb_params': CAMBparams(...)}}, ...); o.power", f"c = {how}(o); c.update(cosmo_params={{'Om0': 0.25}}); c.power", "o.update(dlnk=0.2); o.power"]}})
                continue
            n += 1
            fo = Transfer(transfer_params={"camb_params": mk()}, **dict(base, dlnk=0.2)).power
            fc = Transfer(transfer_params={"camb_params": mk()}, cosmo_params={"Om0": 0.25}, **base).power
            script = [f"o = Transfer(transfer_model='CAMB', transfer_params={{'camb_params': CAMBparams(...)}}, ...); o.power", f"c = {how}(o); c.update(cosmo_params={{'Om0': 0.25}}); c.power", "o.update(dlnk=0.2); o.power"]
            if not (po.shape == fo.shape and np.allclose(po, fo, rtol=1e-9, atol=0)):
                viol.append({"key": f"Transfer/CAMB-user-params/{how}/original", "what": f"after {how} and a cosmology change on the copy, the original's recomputed power differs from a fresh object's (max rel {float(np.max(np.abs(po / fo - 1))) if po.shape == fo.shape else 'shape'})",
                             "replay": {"kind": "c15", "script": script}})
            if not (pc.shape == fc.shape and np.allclose(pc, fc, rtol=1e-9, atol=0)):
                viol.append({"key": f"Transfer/CAMB-user-params/{how}/copy", "what": f"{how} + cosmology change: the copy's power differs from a fresh object's",
                             "replay": {"kind": "c15", "script": script}})
    return viol, n


def run(ctx):
    quick = ctx["tier"] == "quick"
    out = {"violations": [], "broken": [], "coverage": {}, "assumptions": [
        "pickle's byte format and CAMB's __getstate__/__setstate__ are opaque to the model; they are exercised, not proved"]}
    st, bad = heapcorr.run_corr(25 if quick else 400, tag="heap-c15")
    if bad:
        out["broken"].append({"kind": "correspondence", "what": f"heap model vs real classes: {len(bad)} disagreements", "detail": bad[0]})
    r = rng("c15")
    n, hows, samples = 0, {}, []
    plan = [(cn, False) for cn in ["Cosmology", "Transfer", "MassFunction", "TransferWDM", "MassFunctionWDM"] for _ in range(7 if quick else 60)]
    plan += [("Transfer", True)] * (3 if quick else 20) + [("MassFunction", True)] * (2 if quick else 20)
    for cn, camb in plan:
        v, script, how = one(r, cn, camb, quick)
        n += 1
        hows[how + ("+CAMB" if camb else "")] = hows.get(how + ("+CAMB" if camb else ""), 0) + 1
        if len(samples) < 3:
            samples.append(script)
        for x in v:
            if not any(y["key"] == x["key"] for y in out["violations"]):
                x["replay"] = {"kind": "c15", "script": script, "cls": cn, "camb": camb}
                out["violations"].append(x)
    for fn in (none_changes, model_changes, tiny_changes, component_state_copies, dict_changes, camb_user_params):
        v, k = fn(quick)
        n += k
        for x in v:
            if not any(y["key"] == x["key"] for y in out["violations"]):
                out["violations"].append(x)
    out["coverage"] = {
        "evaluations": n + st["ops"], "programs": st["programs"], "disagreements_checked": st["programs"],
        "traces_validated_against_impl": st["programs"], "distinct_nontrivial": n,
        "rule": "each case = random prior history, one of deepcopy / clone() / clone(**changes) / pickle round trip, comparison of the copy with a fresh object, an update on the copy (forcing recomputation) and on the original with independence snapshots; CAMB-backed Transfer/MassFunction included; clone(<x>_model=M) with non-empty <x>_params (6 cases, before and after computing)",
        "copy_kinds": hows, "heap": st, "samples": samples,
        "search": "copy/clone/pickle scenarios on the real classes",
    }
    return out


def replay(path):
    j = json.load(open(path))
    print("\n".join((j.get("replay") or {}).get("script", [])))
    return 1
