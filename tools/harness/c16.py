"""C16 — mass definitions: overdensity algebra (generated terms and spec terms at Float vs the real classes, with the opaque
cosmology functions taken *directly from astropy*), mutual inverses, colossus names, conversions with a harness-supplied NFW
profile (halomod is not installed): identity, A->B->A, denser => smaller, in default and non-default cosmologies."""
import warnings
import numpy as np
import realfuzz
from exprcorr import *


class NFW:
    """minimal NFW profile with the interface `change_definition` uses"""

    def __init__(self, mdef, z, cosmo):
        self.mdef, self.z, self.cosmo = mdef, z, cosmo

    @staticmethod
    def _h(x):
        return np.log(1.0 + x) - x / (1.0 + x)

    def cm_relation(self, m):
        return 6.71 / (1 + self.z) ** 0.44 * (np.asarray(m) / 2e12) ** -0.091

    def _rho_s(self, c):
        c = np.asarray(c, float)
        return self.mdef.halo_density(self.z, self.cosmo) * c ** 3 / (3 * self._h(c))


def install_halomod_standin():
    """halomod is not installed here; MassFunction.dndm's conversion branch imports `halomod.profiles.NFW` and
    `halomod.concentration.Duffy08` only to build the default profile. Provide those two names (backed by the harness NFW above) so
    the branch can run. Nothing is installed when a real halomod is importable."""
    import sys, types
    try:
        import halomod.profiles  # noqa
        return "real"
    except Exception:
        pass

    class Duffy08:
        def __init__(self, cosmo=None, **kw):
            self.cosmo = cosmo

    class NFWStub(NFW):
        def __init__(self, cm_relation=None, mdef=None, z=0.0, **kw):
            c = cm_relation.cosmo
            NFW.__init__(self, mdef, z, getattr(c, "cosmo", c))
    hm, hp, hc = types.ModuleType("halomod"), types.ModuleType("halomod.profiles"), types.ModuleType("halomod.concentration")
    hp.NFW, hc.Duffy08, hm.profiles, hm.concentration = NFWStub, Duffy08, hp, hc
    sys.modules.update({"halomod": hm, "halomod.profiles": hp, "halomod.concentration": hc})
    return "stand-in"


def _cum(m, dn, x):
    from scipy.interpolate import InterpolatedUnivariateSpline as S
    s = S(np.log(m), np.log(dn), k=3)
    out = []
    for xx in x:
        l = np.linspace(np.log(xx), np.log(m[-1]), 4000)
        out.append(np.trapezoid(np.exp(s(l) + l), l))
    return np.array(out)


def conservation(viol, quick):
    """n'(>m_new(m)) = n(>m): MassFunction with conversion enabled vs the same object in the fit's measured definition, where
    m_new is the conversion of m at the *object's own* redshift and cosmology"""
    from hmf.mass_function.hmf import MassFunction
    install_halomod_standin()
    cases = [("SMT", "SOCritical", {"overdensity": 200}, 0.0, {}), ("SMT", "SOMean", {"overdensity": 500}, 1.0, {}),
             ("Warren", "SOCritical", {"overdensity": 200}, 0.0, {"Om0": 0.25}), ("Behroozi", "SOMean", {"overdensity": 200}, 1.0, {"Om0": 0.4, "H0": 62.0})]
    if not quick:
        cases += [("Jenkins", "SOVirial", {}, 2.0, {}), ("ST", "SOCritical", {"overdensity": 500}, 0.5, {"Om0": 0.35}), ("Crocce", "SOMean", {"overdensity": 200}, 3.0, {"H0": 75.0})]
    n = 0
    for fit, mdl, mp, z, cp in cases:
        kw = dict(transfer_model="EH", hmf_model=fit, Mmin=10.0, Mmax=15.5, dlog10m=0.05, z=z, cosmo_params=dict(cp), lnk_min=-12.0, lnk_max=10.0, dlnk=0.1)
        try:
            a = MassFunction(mdef_model=mdl, mdef_params=dict(mp), disable_mass_conversion=False, **kw)
            # the reference in the fit's own definition is tabulated on a wider range, so that the outermost intervals of the converted
            # function (which the code fills by extrapolating its splines) have a reference too
            b = MassFunction(disable_mass_conversion=True, **kw)
            bw = MassFunction(disable_mass_conversion=True, **dict(kw, Mmin=9.0, Mmax=16.5))
            meas = a.hmf.measured_mass_definition
            m = 10 ** np.linspace(11, 14, 7)
            mnew = meas.change_definition(m, a.mdef, profile=NFW(meas, z, a.cosmo), z=z, cosmo=a.cosmo)[0]
            n0, n1 = _cum(b.m, b.dndm, m), _cum(a.m, a.dndm, mnew)
        except Exception as e:
            viol("dndm-conversion/raises", f"MassFunction.dndm with mass conversion enabled raises {type(e).__name__}: {e} ({fit} -> {mdl}, z={z})", {"fit": fit, "mdef": mdl, "z": z, "cosmo_params": cp})
            continue
        n += 1
        # interval by interval over the whole range on which both tables are defined, including the outermost intervals
        try:
            from scipy.interpolate import InterpolatedUnivariateSpline as S_
            okw = np.isfinite(bw.dndm) & (bw.dndm > 0)
            bwm, bwd = bw.m[okw], bw.dndm[okw]
            lo_m, hi_m = bwm[0], bwm[-1]
            edges = 10 ** np.linspace(np.log10(lo_m), np.log10(hi_m), 151)
            enew = meas.change_definition(edges, a.mdef, profile=NFW(meas, z, a.cosmo), z=z, cosmo=a.cosmo)[0]
            ok_ = (enew >= a.m[0]) & (enew <= a.m[-1])
            s0_, s1_ = S_(np.log(bwm), np.log(bwd), k=3), S_(np.log(a.m), np.log(a.dndm), k=3)
            worst, where, cnt = 0.0, None, []
            for i_ in range(len(edges) - 1):
                if not (ok_[i_] and ok_[i_ + 1]):
                    continue
                l0 = np.linspace(np.log(edges[i_]), np.log(edges[i_ + 1]), 200); l1 = np.linspace(np.log(enew[i_]), np.log(enew[i_ + 1]), 200)
                cnt.append((np.trapezoid(np.exp(s0_(l0) + l0), l0), np.trapezoid(np.exp(s1_(l1) + l1), l1), i_))
            top = max((c_[0] for c_ in cnt), default=0.0)
            # the converted table is interpolated where m' lies between the images of the first and last tabulated mass, and
            # extrapolated (cubic in log-log: 15 % off at the very edge on the unchanged tree) in the outermost intervals
            g_lo, g_hi = meas.change_definition(np.array([a.m[0], a.m[-1]]), a.mdef, profile=NFW(meas, z, a.cosmo), z=z, cosmo=a.cosmo)[0]
            for i0, i1, i_ in cnt:
                if not i0 > 1e-9 * top:
                    continue           # far exponential tail: no haloes to conserve
                interior = enew[i_] >= max(g_lo, a.m[0]) and enew[i_ + 1] <= min(g_hi, a.m[-1])
                dev_ = abs(i1 / i0 - 1)
                if dev_ > (0.05 if interior else 0.35) and dev_ > worst:
                    worst, where = dev_, (float(edges[i_]), float(edges[i_ + 1]))
            if where is not None:
                viol("dndm-conversion/interval-number-not-conserved", f"{fit} converted from {meas} to {a.mdef} at z={z}, cosmo_params={cp}: the number of haloes in the mass interval {where} changes by {worst:.3g} under the conversion",
                     {"fit": fit, "mdef": mdl, "mdef_params": mp, "z": z, "cosmo_params": cp, "interval": where})
        except Exception as e:
            viol("dndm-conversion/interval-check-raises", f"interval conservation check failed: {type(e).__name__}: {e}")
        err = float(np.max(np.abs(n1 / n0 - 1)))
        if not err < 0.03:
            viol("dndm-conversion/number-not-conserved", f"{fit} converted from {meas} to {a.mdef} at z={z}, cosmo_params={cp}: n'(>m_new(m)) differs from n(>m) by up to {err:.3g} "
                 f"(m_new at the object's own redshift and cosmology)", {"fit": fit, "mdef": mdl, "mdef_params": mp, "z": z, "cosmo_params": cp})
    return n


def run(ctx):
    quick = ctx["tier"] == "quick"
    realfuzz.init()
    from hmf.halos import mass_definitions as md
    from hmf.mass_function import fitting_functions as ff
    from astropy.cosmology import Planck15
    import astropy.units as u
    out = {"violations": [], "broken": [], "coverage": {}, "assumptions": [
        "halo-mass conversion uses a harness-supplied NFW profile with a Duffy-like c(m); brentq accuracy 1e-8 relative is tolerated",
        "halomod is not installed: MassFunction.dndm's conversion branch is run with a stand-in for halomod.profiles.NFW / halomod.concentration.Duffy08 backed by the harness NFW (tolerance 3% on cumulative number: spline + quadrature)"]}
    V = out["violations"]

    def viol(key, what, rp=None):
        if not any(v["key"] == key for v in V):
            V.append({"key": key, "what": what, "replay": dict(rp or {}, kind="c16", tree=tree_hash())})
    J, tup = load()
    comp = J["components"]["Mdef"]
    r = rng("c16")
    reqs, exp = [], []
    with warnings.catch_warnings():
        warnings.simplefilter("ignore")
        np.seterr(all="ignore")
        prev_z = None
        for rep in range(8 if quick else 80):
            # cosmologies that share a *name* (astropy names every clone "<name> (modified)") and redshifts that repeat
            cosmo = Planck15.clone(Om0=r.uniform(0.2, 0.45), H0=r.uniform(55, 80)) if r.random() < 0.8 else Planck15
            if rep in (1, 4):
                from astropy.cosmology import LambdaCDM as _LCDM         # curved models too: the definitions are stated for any FLRW cosmology
                cosmo = _LCDM(H0=r.uniform(60, 75), Om0=r.uniform(0.25, 0.4), Ode0=r.uniform(0.5, 0.8), Ob0=0.048, Tcmb0=2.725)
            z = prev_z if (prev_z is not None and r.random() < 0.4) else r.choice([0.0, 0.5, 1.0, 3.0, 10.0])
            prev_z = z
            rc_direct = float((cosmo.critical_density(z) / cosmo.h ** 2).to(u.Msun / u.Mpc ** 3).value)
            # thresholds that are not whole numbers come up on every other case (18 pi^2, a published 337.5, ...)
            so_mean_D = r.choice([200, 178.0, 500, 1600.5]) if rep % 2 else r.choice([177.652879, 337.5, 1600.5, 200.9])
            so_crit_D = r.choice([200, 500, 2500.0]) if rep % 2 else r.choice([101.1, 177.652879, 500.4])
            for cname, params in (("SOMean", {"overdensity": so_mean_D}), ("SOCritical", {"overdensity": so_crit_D}),
                                  ("SOVirial", {}), ("FOF", {"linking_length": r.choice([0.2, 0.168, 0.25])})):
                o = getattr(md, cname)(**params)
                m = 10 ** np.array([r.uniform(8, 16) for _ in range(4)])
                rad = 10 ** np.array([r.uniform(-2, 1) for _ in range(4)])
                for meth, args in (("halo_density", {}), ("halo_overdensity_mean", {}), ("halo_overdensity_crit", {}), ("m_to_r", {"m": m}), ("r_to_m", {"r": rad})):
                    name = f"{cname}_{meth}"
                    if "tree" not in comp.get(name, {}):
                        out["broken"].append({"kind": "translator", "what": f"no generated term for {name}"}); continue
                    t = tup(comp[name]["tree"])
                    got = np.atleast_1d(np.asarray(getattr(o, meth)(*(list(args.values()) + [z, cosmo])), float))
                    env = auto_env(t, o, args=dict(args, z=float(z)), extra={"cosmo.h": float(cosmo.h)})
                    calls = [("cosmo.Om", float(z), float(cosmo.Om(z))), ("cosmo.critical_density", float(z), float(cosmo.critical_density(z).value))]
                    reqs.append((f"Mdef/{name}", len(got), env, calls))
                    reqs.append((f"SpecMdef/{name}", len(got), env, calls))
                    exp.append((name, got, {"z": z, "Om0": float(cosmo.Om0), "h": float(cosmo.h), "params": params}))
                # absolute values against astropy, independent of hmf's helpers
                D = params.get("overdensity")
                hd = o.halo_density(z, cosmo)
                want = {"SOMean": lambda: D * cosmo.Om(z) * rc_direct, "SOCritical": lambda: D * rc_direct,
                        "SOVirial": lambda: (18 * np.pi ** 2 + 82 * (cosmo.Om(z) - 1) - 39 * (cosmo.Om(z) - 1) ** 2) * rc_direct,
                        "FOF": lambda: 9 / (2 * np.pi * params["linking_length"] ** 3) * cosmo.Om(z) * rc_direct}[cname]()
                if not np.isclose(hd, want, rtol=1e-10):
                    viol(f"{cname}/absolute-density", f"{cname}({params}).halo_density(z={z}, Om0={cosmo.Om0:.3f}, h={cosmo.h:.3f}) = {hd:.6g}, expected {want:.6g} from astropy directly",
                         {"cls": cname, "z": z, "Om0": float(cosmo.Om0)})
                # inverses
                if not (np.allclose(o.m_to_r(o.r_to_m(rad, z, cosmo), z, cosmo), rad, rtol=1e-12) and np.allclose(o.r_to_m(o.m_to_r(m, z, cosmo), z, cosmo), m, rtol=1e-12)):
                    viol(f"{cname}/inverse", f"{cname}: m_to_r and r_to_m are not mutual inverses at z={z}", {"cls": cname, "z": z})
        res = eval_lean_many(reqs)
        ngen_bad = nspec_bad = 0
        for i, (name, got, desc) in enumerate(exp):
            g, s = res[2 * i], res[2 * i + 1]
            if isinstance(g, str) or not close(got, g, rtol=1e-11).all():
                ngen_bad += 1
                if ngen_bad == 1:
                    out["broken"].append({"kind": "correspondence", "what": f"generated term {name} differs from the real method", "detail": {"case": desc, "impl": got.tolist(), "model": g if isinstance(g, str) else g.tolist()}})
            if isinstance(s, str) or not close(got, s, rtol=1e-11).all():
                nspec_bad += 1
                viol(f"{name}/documented-form", f"{name} differs from the documented algebra: code {got[:2].tolist()} vs documented {(s if isinstance(s, str) else s[:2].tolist())} for {desc}", {"case": desc})
        # names
        ncol = 0
        for nm in ["vir", "fof", "200c", "500c", "2500c", "200m", "178m", "1600m"]:
            o = md.from_colossus_name(nm)
            ncol += 1
            if nm != "fof" and o.colossus_name != nm:
                viol("colossus/round-trip", f"from_colossus_name({nm!r}).colossus_name = {o.colossus_name!r}")
        for o in [md.SOMean(overdensity=200), md.SOCritical(overdensity=500), md.SOVirial(), md.FOF(),
                  md.SOMean(overdensity=200.0), md.SOMean(overdensity=np.float64(300.0)), md.SOCritical(overdensity=500.0), md.SOCritical(overdensity=np.float64(2500.0)),
                  md.SOMean(overdensity=np.int64(800))]:       # integer-valued overdensities however they are typed
            ncol += 1
            try:
                nm_ = o.colossus_name
                back_ = md.from_colossus_name(nm_)
            except Exception as e:
                viol("colossus/round-trip-object", f"{type(o).__name__}(overdensity={o.params.get('overdensity')!r}): colossus name {getattr(o, 'colossus_name', None)!r} does not parse back ({type(e).__name__}: {e})",
                     {"definition": type(o).__name__, "overdensity": repr(o.params.get("overdensity"))})
                continue
            if back_ != o:
                viol("colossus/round-trip-object", f"{o}: name {nm_!r} -> definition does not give an equal definition", {"definition": type(o).__name__, "overdensity": repr(o.params.get("overdensity"))})
            if isinstance(o, (md.SOMean, md.SOCritical)) and nm_ != f"{int(o.params['overdensity'])}{'m' if isinstance(o, md.SOMean) else 'c'}":
                viol("colossus/name-format", f"{type(o).__name__}(overdensity={o.params['overdensity']!r}).colossus_name = {nm_!r}, colossus writes integer overdensities as '<int>m' / '<int>c'", {"definition": type(o).__name__, "overdensity": repr(o.params.get("overdensity"))})
        if not (md.SOMean(overdensity=200) == md.SOMean(overdensity=200) and md.SOMean(overdensity=200) != md.SOMean(overdensity=300)
                and md.SOMean(overdensity=200) != md.SOCritical(overdensity=200) and md.SOGeneric() == md.SOCritical(overdensity=7)):
            viol("eq-semantics", "MassDefinition.__eq__ no longer compares class name and parameters (SOGeneric equal to any SO)")
        # conversions
        nconv = 0
        defs = [md.SOMean(overdensity=200), md.SOMean(overdensity=500), md.SOCritical(overdensity=200), md.SOCritical(overdensity=500), md.SOVirial()]
        # same-family pairs whose parameters differ only slightly (they share an integer part / a colossus-style name) come first
        close_pairs = [(md.SOMean(overdensity=200), md.SOMean(overdensity=200.9)), (md.FOF(linking_length=0.2), md.FOF(linking_length=0.168)),
                       (md.SOCritical(overdensity=177.65), md.SOCritical(overdensity=177)), (md.SOMean(overdensity=500.4), md.SOMean(overdensity=500))]
        for rep in range(len(close_pairs) + (4 if quick else 40)):
            cosmo = Planck15 if rep % 2 == 0 else Planck15.clone(Om0=r.uniform(0.2, 0.4), H0=r.uniform(60, 78))
            z = r.choice([0.0, 1.0, 3.0])
            a, b = close_pairs[rep] if rep < len(close_pairs) else r.sample(defs, 2)
            m = 10 ** np.array([r.uniform(9, 15.5) for _ in range(3)])
            c = np.array([r.uniform(2, 20) for _ in range(3)]) if r.random() < 0.5 else None
            nconv += 1
            mi, ri, ci = a.change_definition(m, a, profile=NFW(a, z, cosmo), c=c, z=z, cosmo=cosmo)
            if not np.allclose(mi, m, rtol=1e-7):
                viol("conversion/identity", f"converting {a} to itself at z={z} (Om0={cosmo.Om0:.3f}) changes the mass by up to {float(np.max(np.abs(mi / m - 1))):.3g}",
                     {"a": str(a), "z": z, "Om0": float(cosmo.Om0)})
            mb, rb, cb = a.change_definition(m, b, profile=NFW(a, z, cosmo), c=c, z=z, cosmo=cosmo)
            ma, ra, ca = b.change_definition(mb, a, profile=NFW(b, z, cosmo), c=np.atleast_1d(cb), z=z, cosmo=cosmo)
            if not np.allclose(ma, m, rtol=1e-6):
                viol("conversion/round-trip", f"{a} -> {b} -> {a} at z={z} (Om0={cosmo.Om0:.3f}) returns {float(np.max(np.abs(ma / m - 1))):.3g} away from the original mass",
                     {"a": str(a), "b": str(b), "z": z, "Om0": float(cosmo.Om0)})
            # one profile object built at another redshift and re-used (the redshift passed to change_definition is the one that counts), with
            # the concentration taken from the profile's own relation: same result as with a profile built at the requested redshift
            if z > 0:
                p_other = NFW(a, 0.0, cosmo)
                with warnings.catch_warnings():
                    warnings.simplefilter("ignore")
                    m1_, r1_, c1_ = a.change_definition(m, b, profile=p_other, z=z, cosmo=cosmo)
                m2_, r2_, c2_ = a.change_definition(m, b, profile=NFW(a, z, cosmo), z=z, cosmo=cosmo)
                nconv += 1
                if not (np.allclose(m1_, m2_, rtol=1e-9) and np.allclose(c1_, c2_, rtol=1e-9)):
                    viol("conversion/profile-built-at-another-redshift", f"{a} -> {b} at z={z} with a profile object built at z=0 gives masses {float(np.max(np.abs(m1_ / m2_ - 1))):.3g} away from those with a profile built at z={z}",
                         {"a": str(a), "b": str(b), "z": z})
            da, db = a.halo_density(z, cosmo), b.halo_density(z, cosmo)
            if (db > da and not np.all(mb < m)) or (db < da and not np.all(mb > m)):
                viol("conversion/denser-smaller", f"{a} -> {b} at z={z}: denser definition does not give a smaller mass", {"a": str(a), "b": str(b), "z": z})
        # the type of the numbers handed in is immaterial: integer-typed concentrations / masses (scalar or array) convert like the same floats
        for (a, b, z) in ((md.SOMean(overdensity=200), md.SOCritical(overdensity=200), 0.0), (md.SOCritical(overdensity=500), md.SOVirial(), 1.0)):
            for m_i, c_i in ((np.array([10 ** 10, 10 ** 12, 10 ** 14], dtype=np.int64), np.array([5, 7, 12], dtype=np.int64)), (10 ** 13, 7),
                             (np.array([1e11, 1e13]), np.array([4, 9], dtype=np.int32)), (np.array([10 ** 11, 10 ** 15], dtype=np.int64), None)):
                nconv += 1
                try:
                    got_i = a.change_definition(m_i, b, profile=NFW(a, z, Planck15), c=c_i, z=z, cosmo=Planck15)
                    m_f = np.asarray(m_i, dtype=float) if np.ndim(m_i) else float(m_i)
                    c_f = None if c_i is None else (np.asarray(c_i, dtype=float) if np.ndim(c_i) else float(c_i))
                    got_f = a.change_definition(m_f, b, profile=NFW(a, z, Planck15), c=c_f, z=z, cosmo=Planck15)
                except Exception as e:
                    viol("conversion/integer-typed-input-raises", f"{a} -> {b} at z={z} with integer-typed input raises {type(e).__name__}: {e}", {"a": str(a), "b": str(b), "z": z})
                    continue
                if not all(np.allclose(np.asarray(x, dtype=float), np.asarray(y, dtype=float), rtol=1e-9) for x, y in zip(got_i, got_f)):
                    dev_ = max(float(np.max(np.abs(np.asarray(x, dtype=float) / np.asarray(y, dtype=float) - 1))) for x, y in zip(got_i, got_f))
                    viol("conversion/integer-typed-input", f"{a} -> {b} at z={z}: integer-typed masses/concentrations (m={np.asarray(m_i).tolist()}, c={None if c_i is None else np.asarray(c_i).tolist()}) "
                         f"convert to values {dev_:.3g} away from those for the same numbers as floats", {"a": str(a), "b": str(b), "z": z, "m": np.asarray(m_i).tolist(), "c": None if c_i is None else np.asarray(c_i).tolist()})
        # a whole mass function converted to another definition conserves cumulative number, at the object's own z and cosmology
        ncons = conservation(viol, quick)
        # measured definitions of the fits parse to the expected classes
        nfit = 0
        for name, cls in ff.FittingFunction._plugins.items():
            sd = cls.sim_definition
            mm = cls.get_measured_mdef()
            nfit += 1
            if sd is None:
                ok = mm is None
            elif str(sd.halo_finder_type).lower() == "fof":
                ok = isinstance(mm, md.FOF) and abs(mm.params["linking_length"] - float(sd.halo_overdensity)) < 1e-12
            else:
                d = sd.halo_overdensity
                ok = (isinstance(mm, md.SOVirial) if d == "vir" else isinstance(mm, md.SOGeneric) if str(d).startswith("*") else
                      isinstance(mm, md.SOCritical) and mm.params["overdensity"] == float(d[:-1]) if str(d).endswith("c") else
                      isinstance(mm, md.SOMean) and mm.params["overdensity"] == float(d[:-1]) if str(d).endswith("m") else mm is None)
            if not ok:
                viol(f"measured-mdef/{name}", f"{name}.get_measured_mdef() = {mm} does not match its sim_definition ({sd.halo_finder_type}, {sd.halo_overdensity})")
    out["coverage"] = {
        "evaluations": len(reqs) + nconv * 3 + ncol + nfit, "programs": len(exp), "disagreements_checked": 2 * len(exp), "traces_validated_against_impl": len(exp),
        "distinct_nontrivial": len(exp) + nconv,
        "rule": "random cosmologies sharing astropy's clone name, repeated redshifts, four definition classes x five methods: real vs generated term vs spec term with Om(z) and rho_crit(z) taken directly from astropy; conversions between random ordered pairs of definitions with random/derived concentrations in default and modified cosmologies",
        "gen_disagreements": ngen_bad, "spec_disagreements": nspec_bad, "conversions": nconv, "fits_parsed": nfit, "mass_function_conversions": ncons,
        "samples": [{"name": e[0], "case": e[2], "impl": e[1][:2].tolist()} for e in exp[:2]],
        "search": "real methods vs spec terms and vs astropy directly",
    }
    return out


def replay(path):
    j = json.load(open(path))
    print(json.dumps(j.get("replay"), indent=1)[:800])
    res = run({"tier": "quick"})
    hit = [v for v in res["violations"] if v["key"] == j.get("key")]
    print(hit[:1] or "not reproduced on the current tree")
    return 1 if hit else 0
