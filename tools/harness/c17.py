"""C17 — WDM only suppresses and reduces to CDM.
tie: generated terms (Viel05/Bode01 quantities, the three recalibrations) at Float vs the real components; spec terms vs
real. framework level: ratio of WDM to CDM transfer = suppression computed from the *framework's own* cosmology; monotone
in particle mass; convergence to CDM; scale ordering and positivity for all z."""
import warnings, copy
import numpy as np
import realfuzz
from exprcorr import *


def run(ctx):
    quick = ctx["tier"] == "quick"
    realfuzz.init()
    from hmf.alternatives import wdm
    from hmf.alternatives.wdm import TransferWDM, MassFunctionWDM
    from hmf.density_field.transfer import Transfer
    from hmf.mass_function.hmf import MassFunction
    from astropy.cosmology import Planck15
    out = {"violations": [], "broken": [], "coverage": {}, "assumptions": ["convergence / monotonicity in the particle mass are grid checks"]}
    V = out["violations"]

    def viol(key, what, rp=None):
        if not any(v["key"] == key for v in V):
            V.append({"key": key, "what": what, "replay": dict(rp or {}, kind="c17", tree=tree_hash())})
    J, tup = load()
    r = rng("c17")
    reqs, exp = [], []
    n_cases = 0
    with warnings.catch_warnings():
        warnings.simplefilter("ignore")
        np.seterr(all="ignore")
        comp = J["components"]["Wdm"]
        for rep in range(6 if quick else 60):
            mx = 10 ** r.uniform(-1, 4)
            z = r.choice([0.0, 1.0, 5.0, 15.0, 30.0])
            cosmo = Planck15.clone(Om0=r.uniform(0.2, 0.45), H0=r.uniform(55, 80))
            params = {"mu": r.uniform(0.6, 2.2), "g_x": r.uniform(1.0, 2.5)} if r.random() < 0.7 else {}
            k = 10 ** np.array([r.uniform(-4, 3) for _ in range(6)])
            for cname in ("Viel05", "Bode01"):
                o = getattr(wdm, cname)(mx=mx, cosmo=cosmo, z=z, **params)
                for meth in ("transfer", "lam_eff_fs", "m_fs", "lam_hm", "m_hm"):
                    name = f"{cname}_{meth}"
                    if "tree" not in comp.get(name, {}):
                        out["broken"].append({"kind": "translator", "what": f"no generated term for {name}"}); continue
                    t = tup(comp[name]["tree"])
                    got = np.atleast_1d(np.asarray(o.transfer(k) if meth == "transfer" else getattr(o, meth), float))
                    env = auto_env(t, o, args={"k": k})
                    nn = len(got)
                    reqs.append((f"Wdm/{name}", nn, {kk: (vv if np.ndim(vv) == 0 or len(np.atleast_1d(vv)) == nn else vv) for kk, vv in env.items()}, []))
                    reqs.append((f"SpecWdm/{name}", nn, env, []))
                    exp.append((name, got, {"mx": mx, "z": z, "params": params, "Om0": float(cosmo.Om0), "h": float(cosmo.h)}))
            # recalibrations
            m = 10 ** np.array([r.uniform(6, 15) for _ in range(6)])
            dn = np.array([r.uniform(0.1, 2) for _ in range(6)])
            w = wdm.Viel05(mx=mx, cosmo=cosmo, z=z, **params)
            for cname, pk in (("Schneider12_vCDM", {"beta": r.uniform(0.5, 2)}), ("Schneider12", {"alpha": r.uniform(0.2, 1.5)}), ("Lovell14", {"beta": r.uniform(0.5, 1.5), "gamma": r.uniform(1, 4)})):
                o = getattr(wdm, cname)(m=m, dndm0=dn, wdm=w, **(pk if r.random() < 0.7 else {}))
                name = f"{cname}_dndm_alter"
                if "tree" not in J["components"].get("WdmAlter", {}).get(name, {}):
                    if not any(b.get("what", "").endswith(name) for b in out["broken"]):
                        out["broken"].append({"kind": "translator", "what": f"no generated term for {name}"})
                    continue
                t = tup(J["components"]["WdmAlter"][name]["tree"])
                got = np.asarray(o.dndm_alter(), float)
                env = auto_env(t, o)
                reqs.append((f"WdmAlter/{name}", len(got), env, []))
                reqs.append((f"SpecWdm/{name}", len(got), env, []))
                exp.append((name, got, {"mx": mx, "z": z, "params": o.params}))
                fac = got / dn
                if not (np.all(fac > 0) and np.all(fac <= 1 + 1e-15)):
                    viol(f"{cname}/factor-range", f"{cname}: recalibration factor outside (0,1]: {fac}", {"mx": mx, "z": z})
                order = np.argsort(m)
                if np.any(np.diff(fac[order]) < -1e-15):
                    viol(f"{cname}/factor-monotone", f"{cname}: recalibration factor not increasing with mass", {"mx": mx, "z": z})
            n_cases += 1
            # scales: positive, half-mode > free-streaming (lengths and masses), for every z
            if not (w.lam_eff_fs > 0 and w.lam_hm > w.lam_eff_fs and w.m_fs > 0 and w.m_hm > w.m_fs):
                viol("Viel05/scale-ordering", f"Viel05(mx={mx:.4g}, z={z}, {params}): lam_fs={w.lam_eff_fs:.4g} lam_hm={w.lam_hm:.4g} m_fs={w.m_fs:.4g} m_hm={w.m_hm:.4g} (need 0 < fs < hm)",
                     {"mx": mx, "z": z, "params": params})
        res = eval_lean_many(reqs)
        ngen_bad = nspec_bad = 0
        for i, (name, got, desc) in enumerate(exp):
            g, s = res[2 * i], res[2 * i + 1]
            if isinstance(g, str) or not close(got, g, rtol=1e-10).all():
                ngen_bad += 1
                if ngen_bad == 1:
                    out["broken"].append({"kind": "correspondence", "what": f"generated term {name} differs from the real component", "detail": {"case": desc, "impl": got.tolist(), "model": g if isinstance(g, str) else g.tolist()}})
            if isinstance(s, str) or not close(got, s, rtol=1e-10).all():
                nspec_bad += 1
                viol(f"{name}/documented-form", f"{name} differs from its documented form: code {got[:3].tolist()} vs documented {(s if isinstance(s, str) else s[:3].tolist())} for {desc}", {"case": desc})
        # ---- framework level
        base = dict(transfer_model="EH", lnk_min=-8.0, lnk_max=6.0, dlnk=0.25)
        nfw = 0
        for rep in range(3 if quick else 20):
            cp = r.choice([{}, {"Om0": 0.4, "H0": 58.0}, {"H0": 78.0}])
            mx = 10 ** r.uniform(-0.5, 1.5)
            z = r.choice([0.0, 2.0])
            wp = r.choice([{}, {"mu": 1.4}])
            wmodel = r.choice(["Viel05", "Bode01"])
            tw = TransferWDM(wdm_mass=mx, wdm_model=wmodel, wdm_params=wp, cosmo_params=cp, z=z, **base)
            tc = Transfer(cosmo_params=cp, z=z, **base)
            ratio = np.exp(tw._unnormalised_lnT - tc._unnormalised_lnT)
            # suppression from the documented form with the framework's own cosmology
            mu = wp.get("mu", 1.12); gx = 1.5
            lam = 0.049 * mx ** -1.11 * ((tw.cosmo.Om0 - tw.cosmo.Ob0) / 0.25) ** 0.11 * (tw.cosmo.h / 0.7) ** 1.22 * (1.5 / gx) ** 0.29
            S = (1 + (lam * tw.k) ** (2 * mu)) ** (-5.0 / mu)
            nfw += 1
            if not np.allclose(ratio, S, rtol=1e-9, atol=0):
                viol("TransferWDM/ratio-is-suppression", f"TransferWDM({wmodel}, mx={mx:.3g}, cosmo_params={cp}): T_wdm/T_cdm differs from the documented suppression for this cosmology by up to {float(np.max(np.abs(ratio / S - 1))):.3g}",
                     {"mx": mx, "cosmo_params": cp, "wdm_model": wmodel})
            if not (np.all(ratio > 0) and np.all(ratio <= 1 + 1e-12) and np.all(np.diff(ratio) <= 1e-15)):
                viol("TransferWDM/ratio-range", "T_wdm/T_cdm is not in (0,1] or not decreasing with k", {"mx": mx})
        # one particle mass, redshift and model across several cosmologies in one process, as separate frameworks and as updates of one:
        # the suppression is that of each framework's own cosmology
        for wmodel in ("Viel05", "Bode01"):
            tw1 = None
            for cp in ({}, {"Om0": 0.4, "H0": 58.0}, {"H0": 78.0}, {}):
                for how in ("fresh", "update"):
                    if how == "fresh":
                        tw = TransferWDM(wdm_mass=2.0, wdm_model=wmodel, cosmo_params=cp, z=0.0, **base)
                    else:
                        if tw1 is None:
                            tw1 = TransferWDM(wdm_mass=2.0, wdm_model=wmodel, z=0.0, **base)
                            tw1._unnormalised_lnT
                        tw1.update(cosmo_params=dict({"Om0": Planck15.Om0, "H0": float(Planck15.H0.value)}, **cp))
                        tw = tw1
                    tc = Transfer(cosmo_params=cp, z=0.0, **base)
                    ratio = np.exp(tw._unnormalised_lnT - tc._unnormalised_lnT)
                    lam = 0.049 * 2.0 ** -1.11 * ((tw.cosmo.Om0 - tw.cosmo.Ob0) / 0.25) ** 0.11 * (tw.cosmo.h / 0.7) ** 1.22
                    S = (1 + (lam * tw.k) ** (2 * 1.12)) ** (-5.0 / 1.12)
                    nfw += 1
                    if not np.allclose(ratio, S, rtol=1e-9, atol=0):
                        viol("TransferWDM/ratio-is-suppression/same-mass-other-cosmology", f"TransferWDM({wmodel}, mx=2 keV, cosmo_params={cp}, reached by {how}) after other frameworks with the same particle mass: "
                             f"T_wdm/T_cdm differs from the documented suppression for this cosmology by up to {float(np.max(np.abs(ratio / S - 1))):.3g}",
                             {"wdm_model": wmodel, "cosmo_params": cp, "how": how, "sequence": "same wdm_mass, z, wdm_model under cosmologies {}, {Om0:0.4,H0:58}, {H0:78}, {} in one process"})
        # very light particles and small scales: the suppression is tiny but still the documented one (compared in log space)
        for mx_ in (0.1, 0.15, 0.3):
            bb_ = dict(transfer_model="EH", lnk_min=-4.0, lnk_max=float(np.log(2e4)), dlnk=0.25)
            tw_ = TransferWDM(wdm_mass=mx_, wdm_model="Viel05", **bb_)
            tc_ = Transfer(**bb_)
            lr_ = tw_._unnormalised_lnT - tc_._unnormalised_lnT
            lam_ = 0.049 * mx_ ** -1.11 * ((tw_.cosmo.Om0 - tw_.cosmo.Ob0) / 0.25) ** 0.11 * (tw_.cosmo.h / 0.7) ** 1.22
            lS_ = (-5.0 / 1.12) * np.log1p((lam_ * tw_.k) ** (2 * 1.12))
            nfw += 1
            if not (np.all(np.isfinite(lr_)) and np.allclose(lr_, lS_, rtol=1e-9, atol=1e-12) and np.all(np.diff(lr_) < 0)):
                i_ = int(np.nanargmax(np.abs(lr_ - lS_)))
                viol("TransferWDM/ratio-is-suppression/log-space", f"TransferWDM(Viel05, mx={mx_} keV): ln(T_wdm/T_cdm) = {lr_[i_]:.6g} at k={tw_.k[i_]:.4g} h/Mpc, the documented suppression gives {lS_[i_]:.6g} (or the ratio stops decreasing with k)",
                     {"mx": mx_, "k": float(tw_.k[i_])})
        # monotone in particle mass, high masses unaffected, convergence to CDM
        mb = dict(base, Mmin=8, Mmax=15, dlog10m=0.5)
        for wmodel in ("Viel05", "Bode01"):
            cdm = MassFunction(**mb)
            prev = None
            for mx in [0.1, 0.3, 1.0, 3.0, 10.0, 100.0, 1e4]:
                w = MassFunctionWDM(wdm_mass=mx, wdm_model=wmodel, **mb)
                dn = w.dndm
                nfw += 1
                if prev is not None and np.any(dn[:6] < prev[:6] * (1 - 1e-9)):
                    viol(f"MassFunctionWDM/{wmodel}/monotone-in-mx", f"{wmodel}: a heavier particle (mx={mx}) gives fewer low-mass haloes than a lighter one", {"mx": mx, "wdm_model": wmodel})
                prev = dn
                if mx >= 3.0 and abs(dn[-1] / cdm.dndm[-1] - 1) > 2e-2:
                    viol(f"MassFunctionWDM/{wmodel}/high-mass-unaffected", f"{wmodel} mx={mx}: dn/dm at the highest mass differs from CDM by {dn[-1] / cdm.dndm[-1] - 1:.3g}", {"mx": mx})
            if not np.allclose(prev, cdm.dndm, rtol=1e-3):
                viol(f"MassFunctionWDM/{wmodel}/cdm-limit", f"{wmodel}: dn/dm at mx=1e4 keV differs from CDM by up to {float(np.max(np.abs(prev / cdm.dndm - 1))):.3g}", {"wdm_model": wmodel})
        # histories on one object with a recalibration model: after the particle mass (or redshift, or the WDM model's parameters) changes, the
        # recalibrated dn/dm is that of a fresh object — in particular it converges to CDM when the particle becomes heavy
        for amodel in ("Schneider12_vCDM", "Schneider12", "Lovell14"):
            kwh = dict(mb, alter_model=amodel, wdm_mass=0.5)
            oh = MassFunctionWDM(**kwh)
            oh.dndm
            for chg in ({"wdm_mass": 1e4}, {"z": 1.0}, {"wdm_params": {"mu": 1.3}}, {"wdm_mass": 2.0}):
                oh.update(**chg)
                kwh.update(chg)
                nfw += 1
                fr_ = MassFunctionWDM(**copy.deepcopy(kwh)).dndm
                if not np.allclose(oh.dndm, fr_, rtol=1e-10):
                    viol(f"MassFunctionWDM/{amodel}/history", f"MassFunctionWDM(alter_model={amodel}): after update({chg}) dn/dm differs from a fresh object's by up to {float(np.max(np.abs(oh.dndm / fr_ - 1))):.3g}",
                         {"alter_model": amodel, "sequence": f"MassFunctionWDM(alter_model={amodel!r}, wdm_mass=0.5); dndm; update({chg}); dndm"})
                    break
        # convergence to CDM must not depend on the wavenumber range: narrow ranges take the framework's separate sigma_8 integration path
        for (lo_, hi_) in ((-4.0, 6.0), (-3.0, 5.0), (-6.0, 3.0)):
            for cls_w, cls_c, q_ in ((TransferWDM, Transfer, "power"), (MassFunctionWDM, MassFunction, "sigma")):
                kw_ = dict(transfer_model="EH", lnk_min=lo_, lnk_max=hi_, dlnk=0.05)
                if cls_c is MassFunction:
                    kw_.update(Mmin=11, Mmax=15, dlog10m=0.5)
                c_ = getattr(cls_c(**kw_), q_)
                w_ = getattr(cls_w(wdm_mass=1e4, **kw_), q_)
                nfw += 1
                sel = slice(None) if q_ == "sigma" else (cls_c(**kw_).k < 5.0)
                if not np.allclose(w_[sel], c_[sel], rtol=1e-4):
                    viol(f"{cls_w.__name__}/cdm-limit/narrow-k-range", f"{cls_w.__name__}(wdm_mass=1e4 keV).{q_} on lnk in [{lo_},{hi_}] differs from the CDM framework's by up to {float(np.max(np.abs(w_[sel] / c_[sel] - 1))):.3g}",
                         {"lnk_min": lo_, "lnk_max": hi_, "quantity": q_})
    out["coverage"] = {
        "evaluations": len(reqs) + nfw, "programs": len(exp), "disagreements_checked": 2 * len(exp), "traces_validated_against_impl": len(exp),
        "distinct_nontrivial": n_cases + nfw,
        "rule": "components: particle mass log-uniform in [0.1,1e4] keV, z in {0,1,5,15,30}, random cosmologies (Om0, H0), random mu/g_x, random recalibration parameters; each quantity: real vs generated term vs spec term. framework: customised cosmo_params, both WDM models, ratio against the documented suppression for the framework's cosmology; mx ladder 0.1..1e4 keV",
        "gen_disagreements": ngen_bad, "spec_disagreements": nspec_bad, "samples": [{"name": e[0], "case": e[2], "impl": e[1][:2].tolist()} for e in exp[:2]],
        "search": "real components vs spec terms; framework-level physics checks",
    }
    return out


def replay(path):
    j = json.load(open(path))
    print(json.dumps(j.get("replay"), indent=1)[:800])
    res = run({"tier": "quick"})
    hit = [v for v in res["violations"] if v["key"] == j.get("key")]
    print(hit[:1] or "not reproduced on the current tree")
    return 1 if hit else 0
