"""C18 — HALOFIT.  tie: regenerated closed form (Gen/ExprHalofit.lean) at Float vs the real halofit() given the real
(k_nl, n_eff, curvature).  real code: low-k identity, positivity, input untouched (also when every k is above the cut), excess over
linear beyond k_nl, defining condition of k_nl by independent quadrature on uniform and non-uniform grids, purity across call
sequences, switch, independence of sigma_8, Transfer.nonlinear_delta_k == direct call (all z with k_nl in range)."""
import warnings
import numpy as np
import realfuzz
from exprcorr import *


def run(ctx):
    quick = ctx["tier"] == "quick"
    realfuzz.init()
    import sys as _sys, importlib
    importlib.import_module('hmf.density_field.halofit')
    hf = _sys.modules['hmf.density_field.halofit']
    from hmf.density_field.transfer import Transfer
    from astropy.cosmology import Planck15
    from scipy.integrate import quad
    from scipy.interpolate import InterpolatedUnivariateSpline as Spl
    out = {"violations": [], "broken": [], "coverage": {}, "assumptions": [
        "Nelder-Mead and the quintic-spline derivatives are opaque: (k_nl, n_eff, curvature) are taken from the real _get_spec",
        "cases are restricted to spectra whose non-linear scale lies inside the k range"]}
    V = out["violations"]

    def viol(key, what, rp=None):
        if not any(v["key"] == key for v in V):
            V.append({"key": key, "what": what, "replay": dict(rp or {}, kind="c18", tree=tree_hash())})
    J, tup = load()
    have_term = "tree" in J.get("halofit", {}).get("halofit_pnl", {})
    if not have_term:
        out["broken"].append({"kind": "translator", "what": "no generated term for halofit (the body no longer translates); generated-term comparison skipped, property oracles still run"})
    r = rng("c18")
    reqs, exp = [], []
    ncase = 0
    with warnings.catch_warnings():
        warnings.simplefilter("ignore")
        np.seterr(all="ignore")
        configs = []
        for rep in range(6 if quick else 60):
            configs.append(dict(z=r.choice([0.0, 0.5, 1.0, 2.0, 4.0]), sigma_8=r.uniform(0.6, 1.0), n=r.uniform(0.85, 1.05),
                                cosmo_params=r.choice([{}, {"Om0": 0.25}, {"Om0": 0.4, "H0": 60.0}]), transfer_model=r.choice(["EH", "BBKS", "EH_NoBAO"]),
                                lnk_min=r.choice([-12.0, -8.0, -5.0, -4.0]), lnk_max=r.choice([8.0, 6.0]), dlnk=r.choice([0.05, 0.1])))
        # dark-energy models other than a cosmological constant (the formulae use w(z) and Omega_m(z) of the cosmology given)
        from astropy.cosmology import FlatwCDM as _FwCDM
        for w0_, z_ in ((-0.8, 0.0), (-1.2, 1.0)):
            configs.insert(1, dict(z=z_, sigma_8=0.8, n=0.96, cosmo_model=_FwCDM(H0=68.0, Om0=0.3, w0=w0_, Ob0=0.048, Tcmb0=2.725), transfer_model="EH", growth_model="GrowthFactor", lnk_min=-8.0, lnk_max=6.0, dlnk=0.1))
        first_outputs = {}
        hyp_n = [0, 0]
        for ci, cfg in enumerate(configs):
            T = Transfer(**cfg)
            k, lin = T.k.copy(), T.delta_k.copy()
            lin0 = lin.copy()
            for tak in (True, False):
                knl, neff, ncur = hf._get_spec(k, lin)
                knl = float(np.atleast_1d(knl)[0])
                if not (k[0] < knl < k[-1]):
                    continue
                nl = hf.halofit(k, lin, None, cfg["z"], T.cosmo, tak)
                ncase += 1
                if not np.array_equal(lin, lin0):
                    viol("input-mutated", f"halofit modified the linear spectrum it was given (k range [{cfg['lnk_min']},{cfg['lnk_max']}])", {"config": str(cfg)})
                    lin[:] = lin0
                low = k <= 0.005
                if not np.array_equal(nl[low], lin[low]):
                    viol("lowk-identity", "non-linear spectrum differs from the linear one at k <= 0.005", {"config": str(cfg)})
                if not (np.all(np.isfinite(nl)) and np.all(nl > 0)):
                    viol("not-positive", "non-linear spectrum not finite/positive", {"config": str(cfg)})
                far = k > 5 * knl
                if far.any() and not np.all(nl[far] > lin[far]):
                    viol("no-excess", f"non-linear spectrum does not exceed the linear one beyond 5 k_nl (k_nl={knl:.3g}, z={cfg['z']})", {"config": str(cfg)})
                # generated closed form at Float
                m = k > 0.005
                env = {"k": k[m], "delta_k": lin[m], "rknl": knl, "neff": float(neff), "rncur": float(ncur), "z": float(cfg["z"]),
                       "flag:takahashi": 1.0 if tak else 0.0, "cosmo.Om0": float(T.cosmo.Om0), "cosmo.Onu0": float(T.cosmo.Onu0)}
                calls = [("cosmo.Om", float(cfg["z"]), float(T.cosmo.Om(cfg["z"]))), ("cosmo.Ode", float(cfg["z"]), float(T.cosmo.Ode(cfg["z"]))),
                         ("cosmo.w", float(cfg["z"]), float(T.cosmo.w(cfg["z"])))]
                # hypotheses of the non-negativity theorems, on the sampled cosmologies (non-vacuity): Om(z) > 0, neutrino factor >= 0,
                # interpolation weight Ode(z)/(1-Om(z)) in [0, 1] where the Smith03 branch uses it (|1 - Om(z)| > 0.01)
                omz_, odez_ = calls[0][2], calls[1][2]
                fnu_ = env["cosmo.Onu0"] / env["cosmo.Om0"]
                hyp_ok = omz_ > 0 and 1.0 + fnu_ * (0.977 - 18.015 * (env["cosmo.Om0"] - 0.3)) >= 0
                if not tak and abs(1 - omz_) > 0.01:
                    w_ = odez_ / (1 - omz_)
                    hyp_ok = hyp_ok and (0 <= w_ <= 1 + 1e-12)
                hyp_n[0] += 1
                hyp_n[1] += int(bool(hyp_ok))
                reqs.append(("Halofit/halofit_pnl", int(m.sum()), env, calls))
                exp.append((nl[m], {"config": {kk: str(vv) for kk, vv in cfg.items()}, "takahashi": tak, "knl": knl}))
                # sigma_8 argument is ignored
                if not np.array_equal(hf.halofit(k, lin, 0.123, cfg["z"], T.cosmo, tak), nl):
                    viol("depends-on-sigma8", "halofit output depends on its sigma_8 argument")
                first_outputs[(ci, tak)] = nl
                # defining condition by independent quadrature of a spline of Delta^2
                spl = Spl(np.log(k), lin, k=3)
                s2 = quad(lambda lk: float(spl(lk)) * np.exp(-(np.exp(lk) / knl) ** 2), np.log(k[0]), np.log(k[-1]), limit=300)[0]
                if abs(s2 - 1) > 0.12:
                    viol("knl-condition", f"Gaussian-filtered variance at the non-linear scale is {s2:.3f}, expected 1 (solver tolerance ~10% in R)", {"config": str(cfg)})
            # switch changes the result
            if (ci, True) in first_outputs and (ci, False) in first_outputs:
                a_, b_ = first_outputs[(ci, True)], first_outputs[(ci, False)]
                # the two coefficient sets differ by tens of per cent to factors of a few beyond the non-linear scale, for every cosmology
                if np.nanmax(np.abs(a_ / b_ - 1)) < 0.02:
                    viol("switch-inert", f"the Takahashi switch hardly changes the non-linear spectrum (max rel. difference {float(np.nanmax(np.abs(a_ / b_ - 1))):.3g}; cosmology {cfg.get('cosmo_model', cfg.get('cosmo_params'))})", {"config": {kk: str(vv) for kk, vv in cfg.items()}})
            # framework quantity == direct call; nonlinear_power identity
            if (ci, True) in first_outputs or (ci, False) in first_outputs:
                for tak in (True, False):
                    T.update(takahashi=tak)
                    if (ci, tak) in first_outputs and not np.allclose(T.nonlinear_delta_k, first_outputs[(ci, tak)], rtol=1e-9):
                        viol("framework-vs-direct", f"Transfer.nonlinear_delta_k differs from halofit(k, delta_k, z, cosmo, takahashi={tak})", {"config": str(cfg)})
                    if not np.allclose(T.nonlinear_power, 2 * np.pi ** 2 * T.nonlinear_delta_k / T.k ** 3, rtol=1e-12):
                        viol("nonlinear-power-identity", "nonlinear_power != 2 pi^2 nonlinear_delta_k / k^3")
        # purity: repeat every call after the whole sequence (and after a spectrum with no non-linear scale in range)
        Thi = Transfer(z=30.0, transfer_model="EH", lnk_min=-8.0, lnk_max=6.0, dlnk=0.1)
        try:
            hf.halofit(Thi.k, Thi.delta_k, None, 30.0, Thi.cosmo, True)
        except Exception:
            pass
        for ci, cfg in enumerate(configs[: (3 if quick else 12)]):
            T = Transfer(**cfg)
            for tak in (True, False):
                if (ci, tak) in first_outputs:
                    again = hf.halofit(T.k, T.delta_k, None, cfg["z"], T.cosmo, tak)
                    if not np.array_equal(again, first_outputs[(ci, tak)]):
                        viol("not-a-function-of-its-inputs", f"halofit returns a different spectrum for identical inputs after other calls (max rel. dev {float(np.max(np.abs(again / first_outputs[(ci, tak)] - 1))):.3g})",
                             {"config": str(cfg)})
        # high redshift with k_nl still in range: framework must still apply the correction
        for zz, s8 in ((10.0, 0.8159), (14.0, 0.8159), (10.0, 0.6)):
            T = Transfer(z=zz, sigma_8=s8, transfer_model="EH", lnk_min=-8.0, lnk_max=np.log(2e4), dlnk=0.05)
            knl = float(np.atleast_1d(hf._get_spec(T.k, T.delta_k)[0])[0])
            if T.k[0] < knl < T.k[-1] / 5:
                far = T.k > 5 * knl
                if not np.all(T.nonlinear_delta_k[far] > T.delta_k[far] * 1.5):
                    viol("no-excess/high-z", f"z={zz}, sigma_8={s8}: Transfer.nonlinear_delta_k does not exceed the linear spectrum beyond 5 k_nl (k_nl={knl:.3g})", {"z": zz, "sigma_8": s8})
        # non-uniform k grid passed directly
        T = Transfer(z=0.0, transfer_model="EH", lnk_min=-8.0, lnk_max=6.0, dlnk=0.05)
        keep = np.r_[np.arange(0, 120, 1), np.arange(120, len(T.k), 3)]
        kk, dd = T.k[keep], T.delta_k[keep]
        knl_u = float(np.atleast_1d(hf._get_spec(T.k, T.delta_k)[0])[0])
        knl_n = float(np.atleast_1d(hf._get_spec(kk, dd)[0])[0])
        if abs(knl_n / knl_u - 1) > 0.15:
            viol("knl-condition/non-uniform-grid", f"non-linear scale on a non-uniform k grid is {knl_n:.4g}, on the uniform grid {knl_u:.4g}")
        # the same array *objects* refilled in place between two calls (one buffer per redshift is a common pattern): the result must follow
        # the current contents
        bk_, bd_ = T.k.copy(), T.delta_k.copy()
        hf.halofit(bk_, bd_, None, 0.0, T.cosmo, True)
        bd_ *= 0.35
        second = hf.halofit(bk_, bd_, None, 0.0, T.cosmo, True)
        fresh_ = hf.halofit(bk_.copy(), bd_.copy(), None, 0.0, T.cosmo, True)
        if not np.array_equal(second, fresh_):
            viol("not-a-function-of-its-inputs/in-place-refill", f"halofit called twice on the same array objects, refilled in place in between, returns a spectrum {float(np.max(np.abs(second / fresh_ - 1))):.3g} away from the one for fresh arrays with the same contents",
                 {"sequence": "halofit(k, d); d *= 0.35; halofit(k, d) vs halofit(k.copy(), d.copy())"})
        # a grid that contains the cut wavenumber 0.005 itself: "k <= 0.005" includes the boundary
        from scipy.interpolate import InterpolatedUnivariateSpline as Spl_
        kb = 0.001 * np.arange(1, 3001)
        db = np.exp(Spl_(np.log(T.k), np.log(T.delta_k), k=3)(np.log(kb)))
        for tak in (True, False):
            nb = hf.halofit(kb, db, None, 0.0, T.cosmo, tak)
            lowb = kb <= 0.005
            if not np.array_equal(nb[lowb], db[lowb]):
                j_ = int(np.argmax(np.abs(nb[lowb] / db[lowb] - 1)))
                viol("lowk-identity/boundary", f"non-linear spectrum differs from the linear one at k={kb[lowb][j_]:.4g} <= 0.005 (rel. dev {float(np.abs(nb[lowb][j_] / db[lowb][j_] - 1)):.3g}) on a grid containing the cut wavenumber itself",
                     {"k": float(kb[lowb][j_]), "takahashi": tak})
        res = eval_lean_many(reqs) if have_term else ["no generated term"] * len(reqs)
        nbad = 0
        for (got, desc), g in zip(exp, res):
            if isinstance(g, str) or not close(got, g, rtol=1e-9).all():
                nbad += 1
                if nbad == 1:
                    out["broken"].append({"kind": "correspondence", "what": "generated HALOFIT closed form at Float differs from the real halofit()", "detail": {"case": desc, "impl": got[:3].tolist(), "model": g if isinstance(g, str) else g[:3].tolist()}})
    for key_, what_, script_ in realfuzz.cosmology_scenarios("Transfer", "nonlinear_delta_k"):
        viol(key_, what_, {"script": script_})
    out["coverage"] = {
        "evaluations": len(reqs) + ncase, "programs": len(exp), "disagreements_checked": len(exp), "traces_validated_against_impl": len(exp),
        "distinct_nontrivial": ncase,
        "rule": "random (z, sigma_8, n, cosmology, transfer model, k range incl. ranges entirely above the low-k cut, resolution) with the non-linear scale inside the range, both switch values; each: real halofit vs generated closed form, identities, quadrature of the defining condition, repetition after the whole sequence",
        "gen_disagreements": nbad, "samples": [e[1] for e in exp[:2]],
        "search": "oracles on the real halofit / Transfer",
        "nonneg_theorem_hypotheses": {"cases": hyp_n[0], "met": hyp_n[1]},
    }
    if hyp_n[0] and not hyp_n[1]:
        out["broken"].append({"kind": "hypothesis", "what": "the hypotheses of halofit_takahashi_nonneg / halofit_smith_nonneg are met by none of the sampled cosmologies (vacuous theorems)"})
    return out


def replay(path):
    j = json.load(open(path))
    print(json.dumps(j.get("replay"), indent=1)[:800])
    res = run({"tier": "quick"})
    hit = [v for v in res["violations"] if v["key"] == j.get("key")]
    print(hit[:1] or "not reproduced on the current tree")
    return 1 if hit else 0
