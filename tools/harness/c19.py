"""C19 — get_hmf enumerates the full grid with fresh-equal values.
tie: Functional model (product / loop structure / insertion order) vs the real get_hmf and get_best_param_order;
oracles on the real code: one result per element of the product, unique labels, values equal to a fresh framework."""
import copy, warnings, itertools
import numpy as np
import realfuzz
from common import *

FAST = {"Transfer": {"transfer_model": "BBKS", "lnk_min": -1, "lnk_max": 1, "dlnk": 1},
        "MassFunction": {"transfer_model": "BBKS", "lnk_min": -1, "lnk_max": 1, "dlnk": 1, "Mmin": 10, "Mmax": 11.5, "dlog10m": 0.5}}
LISTS = {
    "z": [0.0, 0.5, 1.0, 2.0], "sigma_8": [0.7, 0.8, 0.9], "n": [0.95, 1.0], "transfer_model": ["EH", "BBKS", "BondEfs"],
    "hmf_model": ["PS", "SMT", "Warren", "Jenkins"], "delta_c": [1.6, 1.686, 1.7], "Mmin": [10, 11], "dlog10m": [0.5, 0.25],
    "cosmo_params": [{"Om0": 0.28}, {"Om0": 0.3}, {"Om0": 0.32}], "filter_model": ["TopHat", "Gaussian"],
    "takahashi": [True, False], "growth_model": ["GrowthFactor", "Carroll1992"], "lnk_max": [8.0, 9.5],
}
TRANSFER_KEYS = ["z", "sigma_8", "n", "transfer_model", "cosmo_params", "takahashi", "growth_model", "lnk_max"]
QUANTS = {"Transfer": ["power", "delta_k", "growth_factor", "transfer_function"], "MassFunction": ["dndm", "sigma", "fsigma", "m", "power"]}


def run(ctx):
    quick = ctx["tier"] == "quick"
    realfuzz.init()
    from hmf.helpers.functional import get_hmf, get_best_param_order
    out = {"violations": [], "broken": [], "coverage": {}, "assumptions": [
        "dict-valued list elements are drawn with identical key sets (elements with different key sets merge: known finding)",
        "frameworks other than MassFunction are called with their own fast_kwargs"]}
    V = out["violations"]

    def viol(key, what, replay):
        if not any(v["key"] == key for v in V):
            V.append({"key": key, "what": what, "replay": dict(replay, kind="c19", tree=tree_hash())})
    r = rng("c19")
    ncalls, nitems, nfresh = 0, 0, 0
    req_lines, req_meta = [], []
    samples = []
    with warnings.catch_warnings():
        warnings.simplefilter("ignore")
        np.seterr(all="ignore")
        # fixed calls first: two dict-valued lists sharing an inner key and overlapping values (labels differ only by position);
        # a tuple-valued list next to a list-valued one
        fixed = [("MassFunction", {"transfer_model": "BBKS", "hmf_model": "SMT"}, {"transfer_params": [{"a": 2.0}, {"a": 2.34}], "hmf_params": [{"a": 2.34}, {"a": 2.0}]}, ["dndm"], "display", False),
                 ("MassFunction", {"transfer_model": "BBKS", "hmf_model": "SMT"}, {"transfer_params": [{"a": 2.0}, {"a": 2.34}], "hmf_params": [{"a": 2.34}, {"a": 2.0}]}, ["sigma"], "filename", False),
                 ("MassFunction", {}, {"z": [0.0, 1.5], "hmf_model": ["PS", "SMT", "Warren"], "sigma_8": [0.8, 0.9]}, ["dndm"], "display", True),
                 # a meaningful None among the values, reached after a non-None value of the same parameter
                 ("MassFunction", {"hmf_model": "SMT"}, {"mdef_model": ["SOVirial", None, "SOMean"], "z": [0.0, 1.0]}, ["dndm"], "display", False),
                 # values that agree to several significant digits still identify different combinations
                 ("MassFunction", {}, {"delta_c": [1.686, 1.68647, 1.6864700001], "z": [0.0, 1.0]}, ["dndm"], "display", False),
                 ("Transfer", {}, {"sigma_8": [0.8, 0.80004], "cosmo_params": [{"Om0": 0.3}, {"Om0": 0.30001}]}, ["power"], "filename", False),
                 # values that differ only by sign (both label kinds)
                 ("Transfer", {}, {"n": [-1.0, 1.0], "sigma_8": [0.8, 0.9]}, ["power"], "filename", False),
                 ("Transfer", {}, {"n": [-1.0, 1.0], "lnk_min": [-12.0, -1.2]}, ["power"], "display", False),
                 # an empty dict among dict-valued elements, reached after a non-empty one (alone and as the inner loop of a grid)
                 ("MassFunction", {"hmf_model": "SMT"}, {"hmf_params": [{"a": 0.8}, {}]}, ["dndm"], "display", False),
                 ("MassFunction", {"hmf_model": "SMT"}, {"hmf_params": [{"a": 0.8}, {}, {"a": 0.75}], "z": [0.0, 1.0]}, ["dndm"], "display", False),
                 # a list of models next to a scalar (non-list) companion *_params given by the caller: the scalar applies to every combination
                 ("MassFunction", {"mdef_params": {"overdensity": 300}, "hmf_model": "Tinker08"}, {"mdef_model": ["SOMean", "SOCritical"]}, ["dndm"], "display", False),
                 ("Transfer", {"cosmo_params": {"Om0": 0.35}}, {"cosmo_model": ["Planck13", "WMAP7"]}, ["power"], "display", False)]
        for case in range(len(fixed) + (16 if quick else 150)):
            if case < len(fixed):
                cn, extra, lists, qs, label_kind, tup_ = fixed[case]
                extra_ = extra
                fw = realfuzz.class_by_name(cn)
                kw = dict(realfuzz.BASE[cn], **copy.deepcopy(extra))
                lists = copy.deepcopy(lists)
                for i_, (k, vs) in enumerate(lists.items()):
                    kw[k] = tuple(vs) if (tup_ and i_ % 2 == 0) else vs
            else:
                extra_ = {}
                cn = r.choice(["Transfer", "MassFunction"])
                fw = realfuzz.class_by_name(cn)
                keys_all = TRANSFER_KEYS if cn == "Transfer" else sorted(LISTS)
                nl = r.choice([0, 1, 2, 2, 3, 3, 4] if not quick else [0, 1, 2, 2, 3])
                keys = r.sample(keys_all, nl)
                kw = dict(realfuzz.BASE[cn])
                lists = {}
                for k in keys:
                    vals = list(LISTS[k])
                    r.shuffle(vals)
                    ln = r.choice([1, 2, 2, 3]) if len(vals) >= 3 else r.choice([1, 2])
                    lists[k] = copy.deepcopy(vals[:ln])
                    kw[k] = lists[k] if r.random() < 0.5 else tuple(lists[k])
                qs = r.sample(QUANTS[cn], r.randint(1, 2))
                label_kind = r.choice(["display", "filename"])
            call = {"framework": cn, "lists": {k: [realfuzz.show(v) for v in vs] for k, vs in lists.items()}, "quantities": qs, "label_kind": label_kind}
            try:
                res = []
                kept = []
                for item in get_hmf(qs if r.random() < 0.7 else qs[0] if len(qs) == 1 else qs, framework=fw, fast_kwargs=FAST[cn], label_kind=label_kind, **copy.deepcopy(kw)):
                    quants, x, label = item[0], item[1], item[2]
                    pv = x.parameter_values
                    combo = tuple((k, next(i for i, v in enumerate(lists[k]) if realfuzz.canon(_norm(x, k, v)) == realfuzz.canon(pv[k]))) for k in lists if len(lists[k]) > 1)
                    res.append((combo, label, [realfuzz.canon(q) for q in quants], {k: (dict(v) if isinstance(v, dict) else v) for k, v in pv.items()}))
                    kept.append(item)
                # results collected by the caller (`big_list = list(get_hmf(...))`, as in the docstring) keep the quantities and label they were
                # yielded with; only the framework instance is, by design, one and the same object
                for j_, (it_, rec_) in enumerate(zip(kept, res)):
                    if [realfuzz.canon(q) for q in it_[0]] != rec_[2] or it_[2] != rec_[1]:
                        viol("collected-results-overwritten", f"{cn}: result {j_} of {len(kept)} collected from get_hmf no longer holds the quantities/label it was yielded with once the generator has advanced (label now {it_[2]!r}, yielded {rec_[1]!r})", call)
                        break
            except Exception as e:
                viol(f"raises/{cn}", f"get_hmf raised {type(e).__name__}: {str(e)[:100]}", call)
                continue
            ncalls += 1
            nitems += len(res)
            loop = {k: vs for k, vs in lists.items() if len(vs) > 1}
            expect = set(itertools.product(*[[(k, i) for i in range(len(vs))] for k, vs in loop.items()]))
            got = [frozenset(c) for c, *_ in res]
            if len(res) != len(expect) or set(got) != {frozenset(e) for e in expect}:
                viol("enumeration", f"{cn}: get_hmf yielded {len(res)} results for a product of size {len(expect)} (missing {len({frozenset(e) for e in expect} - set(got))}, duplicates {len(got) - len(set(got))})", call)
            labels = [l for _, l, *_ in res]
            if len(set(labels)) != len(labels):
                viol("labels-not-unique", f"{cn}: labels are not unique: {labels[:4]}", call)
            # values equal a fresh framework built with that combination
            for combo, label, quants, pv in (res if len(res) <= 6 else r.sample(res, 6)):
                args = dict(realfuzz.BASE[cn], **copy.deepcopy(extra_))
                for k, vs in lists.items():
                    args[k] = copy.deepcopy(vs[0]) if len(vs) == 1 else None
                for k, i in combo:
                    args[k] = copy.deepcopy(lists[k][i])
                fr = fw(**args)
                nfresh += 1
                fq = [realfuzz.read(fr, q) for q in qs]
                if [("ok", q) for q in quants] != fq:
                    viol("values-not-fresh", f"{cn}: quantities yielded for {dict(combo)} differ from a fresh framework built with that combination", dict(call, combo=str(combo)))
            # model correspondence: order of combinations given the optimiser's order
            if len(loop) > 1:
                order = get_best_param_order(fw, qs, **FAST[cn])
                names = sorted(set(order) | set(lists))
                idx = {n: i for i, n in enumerate(names)}
                line = f"COMBOS {len(order)} " + " ".join(str(idx[o]) for o in order) + f" {len(lists)} " + " ".join(
                    f"{idx[k]} {len(vs)} " + " ".join(str(i) for i in range(len(vs))) for k, vs in lists.items())
                req_lines.append(line)
                req_meta.append((";".join(",".join(f"{a}={b}" for a, b in sorted((idx[k], i) for k, i in c)) for c, *_ in res), call, "combos"))
            # get_best_param_order vs the insertion-loop model, on the real index of a fast object; option keywords change the
            # dependency graph, so the order is asked for again with some of them set (same class, same quantities)
            for variant in ({}, {"use_splined_growth": True}, {"takahashi": False}):
                fkw = dict(FAST[cn], **variant)
                a = fw(**fkw)
                for q in qs:
                    getattr(a, q)
                papr = getattr(a, "_" + cn + "__recalc_par_prop")
                names = list(papr)
                req_lines.append(f"ORDER {len(names)} " + " ".join(f"{i} {len(papr[n])}" for i, n in enumerate(names)))
                real_order = get_best_param_order(fw, qs, **fkw)
                vcall = dict(call, what="get_best_param_order", order_kwargs=str(variant))
                req_meta.append((" ".join(str(names.index(n)) if n in names else "?" for n in real_order), vcall, "order"))
                if sorted(real_order) != sorted(names):
                    viol("order-not-permutation", f"get_best_param_order is not a permutation of all parameters", vcall)
                    continue
                nums = [len(papr[n]) for n in real_order]
                if nums != sorted(nums, reverse=True):
                    viol("order-not-sorted", f"get_best_param_order({cn}, {qs}, **{variant or 'fast kwargs'}) is not ordered by number of dependants: {nums}", vcall)
            if len(samples) < 3:
                samples.append({"call": call, "n_results": len(res), "labels": labels[:3]})
    ans = lean_driver(req_lines)
    nbad = 0
    for (exp, call, kind), got in zip(req_meta, ans):
        if kind == "combos":
            # the order of (key,value) pairs inside one combination is not observable: compare the sequence of combinations
            got = ";".join(",".join(f"{a}={b}" for a, b in sorted(tuple(map(int, kv.split("="))) for kv in c.split(","))) for c in got.split(";"))
        if exp != got:
            nbad += 1
            if nbad == 1:
                out["broken"].append({"kind": "correspondence", "what": "Functional model vs get_hmf/get_best_param_order", "detail": {"impl": exp[:300], "model": got[:300], "call": call}})
                viol("model-disagreement", f"get_hmf / get_best_param_order disagree with the product/insertion model: impl {exp[:120]} model {got[:120]}", call)
    # known finding probe: dict-valued list elements with different key sets merge instead of replacing
    with warnings.catch_warnings():
        warnings.simplefilter("ignore")
        from hmf.density_field.transfer import Transfer
        vals = [{"Om0": 0.25}, {"H0": 75.0}]
        got = [x.parameter_values["cosmo_params"] if True else None for _, x, _ in
               ((q, copy.deepcopy(x), l) for q, x, l in get_hmf("mean_density0", framework=Transfer, fast_kwargs=FAST["Transfer"], transfer_model="EH", cosmo_params=vals))]
        if got[1] != {"H0": 75.0}:
            viol("dict-list-elements-merge", f"get_hmf(cosmo_params=[{{'Om0':0.25}},{{'H0':75.0}}]): second result has cosmo_params={got[1]} (merged), a fresh framework built with that combination has {{'H0': 75.0}}", {"call": "get_hmf('mean_density0', framework=Transfer, transfer_model='EH', cosmo_params=[{'Om0':0.25},{'H0':75.0}])"})
    # user subclasses of the frameworks, whatever their names look like (a leading underscore): same enumeration, same ordering rule
    try:
        with warnings.catch_warnings():
            warnings.simplefilter("ignore")
            from hmf.mass_function.hmf import MassFunction as _MFc
            from hmf.density_field.transfer import Transfer as _Trc

            class _PrivateMF(_MFc):
                pass

            class _PrivateTransfer(_Trc):
                pass
            for fw_, qs_, kwl_ in ((_PrivateMF, ["dndm"], dict(FAST["MassFunction"], z=[0.0, 1.0], hmf_model=["PS", "SMT"])), (_PrivateTransfer, ["power"], dict(FAST["Transfer"], z=[0.0, 1.0], n=[0.9, 1.0]))):
                call_ = {"framework": fw_.__name__, "lists": {k_: v_ for k_, v_ in kwl_.items() if isinstance(v_, list)}, "quantities": qs_}
                try:
                    order_ = get_best_param_order(fw_, qs_, **{k_: v_ for k_, v_ in kwl_.items() if not isinstance(v_, list)})
                    items_ = list(get_hmf(qs_, framework=fw_, fast_kwargs={k_: v_ for k_, v_ in kwl_.items() if not isinstance(v_, list)}, **copy.deepcopy(kwl_)))
                except Exception as e:
                    viol("user-subclass/raises", f"get_hmf / get_best_param_order on the user subclass `{fw_.__name__}` raised {type(e).__name__}: {str(e)[:100]}", call_)
                    continue
                nfresh += 1
                if len(items_) != 4 or sorted(order_) != sorted(fw_(**{k_: v_ for k_, v_ in kwl_.items() if not isinstance(v_, list)}).parameter_values):
                    viol("user-subclass/enumeration", f"user subclass `{fw_.__name__}`: {len(items_)} results for a 2 x 2 grid, or the parameter order is not a permutation of all parameters", call_)
    except Exception as e:
        out["broken"].append({"kind": "harness", "what": f"user-subclass scenario raised {type(e).__name__}: {e}"})
    # list-valued cosmo_model whose elements share their astropy name (clones of one model; all are called "Planck15 (modified)"):
    # each yielded result belongs to its own cosmology
    try:
        with warnings.catch_warnings():
            warnings.simplefilter("ignore")
            from astropy.cosmology import Planck15
            from hmf.mass_function.hmf import MassFunction
            models = [Planck15.clone(Om0=0.30), Planck15.clone(Om0=0.22), Planck15.clone(Om0=0.36)]
            for extra_kw in ({}, {"z": [0.0, 1.0]}):
                got_ = [(np.array(q[0], float).copy(), x.cosmo.Om0) for q, x, l in get_hmf(["dndm"], framework=MassFunction, fast_kwargs=FAST["MassFunction"], cosmo_model=models, transfer_model="EH", **FAST["MassFunction"], **extra_kw)] \
                    if False else [(np.array(item[0][0], float).copy(), float(item[1].cosmo.Om0), float(item[1].z)) for item in get_hmf(["dndm"], framework=MassFunction, fast_kwargs=FAST["MassFunction"], cosmo_model=models, **dict(FAST["MassFunction"], **extra_kw))]
                for val_, om_, z_ in got_:
                    fr_ = MassFunction(**dict(FAST["MassFunction"], cosmo_model=[m_ for m_ in models if abs(m_.Om0 - om_) < 1e-12][0], z=z_)).dndm if any(abs(m_.Om0 - om_) < 1e-12 for m_ in models) else None
                    nfresh += 1
                    if fr_ is None or not np.allclose(val_, fr_, rtol=1e-10, equal_nan=True):
                        viol("same-named-cosmologies", f"get_hmf(cosmo_model=[three clones of Planck15 with Om0 = 0.30, 0.22, 0.36]{', z=[0, 1]' if extra_kw else ''}): a yielded dndm (reported Om0={om_}) differs from a fresh framework with that cosmology",
                             {"call": "get_hmf(['dndm'], cosmo_model=[Planck15.clone(Om0=0.30), Planck15.clone(Om0=0.22), Planck15.clone(Om0=0.36)], ...)"})
                        break
                if sorted(round(x[1], 6) for x in got_) != sorted([0.30, 0.22, 0.36] * (2 if extra_kw else 1)):
                    viol("same-named-cosmologies", f"get_hmf over three same-named cosmologies yields Om0 values {[x[1] for x in got_]}", {"call": "get_hmf(cosmo_model=[Planck15.clone(...) x3])"})
    except Exception as e:
        out["broken"].append({"kind": "harness", "what": f"same-named cosmologies scenario raised {type(e).__name__}: {e}"})
    out["coverage"] = {
        "evaluations": nitems + len(req_lines), "programs": len(req_lines), "disagreements_checked": len(req_lines),
        "traces_validated_against_impl": len(req_lines), "distinct_nontrivial": ncalls,
        "rule": "random get_hmf calls over Transfer/MassFunction with 0-4 list/tuple-valued arguments (scalars, dicts with equal key sets, model names; lengths 1-3), both label kinds, 1-2 requested quantities; each yields checked for product enumeration, label uniqueness, fresh equality; loop order and get_best_param_order compared with the Lean model",
        "calls": ncalls, "results_yielded": nitems, "fresh_objects_compared": nfresh, "samples": samples,
        "search": "oracles on the real get_hmf",
    }
    return out


def _norm(x, k, v):
    """the value as the framework stores it (validators normalise names to classes, ints to floats)"""
    t = copy.deepcopy(x)
    t.update(**{k: copy.deepcopy(v)})
    return t.parameter_values[k]


def replay(path):
    j = json.load(open(path))
    print(json.dumps(j.get("replay"), indent=1)[:1500])
    res = run({"tier": "quick"})
    hit = [v for v in res["violations"] if v["key"] == j.get("key")]
    print(hit[:1] or "not reproduced with the quick generator on the current tree")
    return 1 if hit else 0
