"""C20 — sampled halo masses follow the mass function (statistical clauses: fixed seeds, 4.5 sigma thresholds).
real code: count, minimum, descending order, reproducibility, empirical survival function vs n(>m)/n(>m_min) of the *returned*
MassFunction (also after earlier calls and after the caller changed an earlier returned object), dndm_from_sample with
V = N/n(>m_min) vs dn/dm in well-populated bins for integer bins and explicit edges covering part of the sample."""
import warnings
import numpy as np
import realfuzz
from common import *

NSIG = 4.5


def survival_z(m, h, npts=12):
    """max |z| of the empirical survival function against n(>m)/n(>m_min) at thresholds inside the sampled range"""
    from scipy.interpolate import InterpolatedUnivariateSpline as Spl
    N = len(m)
    S = Spl(np.log10(h.m[h.ngtm > 0]), np.log(h.ngtm[h.ngtm > 0] / h.ngtm[0]), k=3)
    lo, hi = np.log10(h.m[0]), min(np.log10(np.sort(m)[int(0.999 * N)]), np.log10(h.m[-1]))   # the reference is tabulated up to M_max only
    zs = []
    for lm in np.linspace(lo + 0.05 * (hi - lo), hi, npts):
        p = float(np.exp(S(lm)))
        if p * N < 30 or (1 - p) * N < 30:
            continue
        k = float(np.sum(m > 10 ** lm))
        zs.append((k - N * p) / np.sqrt(N * p * (1 - p)))
    return max(abs(z) for z in zs) if zs else 0.0, len(zs)


def run(ctx):
    quick = ctx["tier"] == "quick"
    realfuzz.init()
    from hmf.helpers.sample import sample_mf, dndm_from_sample
    out = {"violations": [], "broken": [], "coverage": {}, "assumptions": [
        f"statistical agreement = |z| < {NSIG} at every tested threshold/bin with fixed numpy seeds (false-alarm probability ~1e-4 per run)",
        "mass ranges are kept where n(>m_max)/n(>m_min) > 1e-12 (beyond that the cubic inverse-CDF spline is ill-conditioned: documented limitation)"]}
    V = out["violations"]

    def viol(key, what, rp=None):
        if not any(v["key"] == key for v in V):
            V.append({"key": key, "what": what, "replay": dict(rp or {}, kind="c20", tree=tree_hash())})
    r = rng("c20")
    ncase = 0
    ntie = 0
    samples = []
    base = dict(transfer_model="EH", lnk_min=-12.0, lnk_max=10.0, dlnk=0.1, dlog10m=0.05)
    configs = [dict(log_mmin=11.0, Mmax=15.0, z=0.0, hmf_model="Tinker08"), dict(log_mmin=13.0, Mmax=14.0, z=0.0, hmf_model="SMT"),
               dict(log_mmin=10.0, Mmax=13.5, z=2.0, hmf_model="Warren"), dict(log_mmin=12.0, Mmax=14.5, z=0.5, hmf_model="PS")]
    # the same minimum mass and the same keyword *names* as the first two configurations, other values (a later call must not reuse
    # anything derived from an earlier one)
    configs += [dict(log_mmin=11.0, Mmax=15.0, z=1.0, hmf_model="SMT"), dict(log_mmin=13.0, Mmax=14.0, z=0.8, hmf_model="PS")]
    if not quick:
        configs += [dict(log_mmin=9.0, Mmax=12.0, z=4.0, hmf_model="Tinker08"), dict(log_mmin=12.5, Mmax=13.5, z=1.0, hmf_model="Jenkins"), dict(log_mmin=11.0, Mmax=14.0, z=0.0, hmf_model="Watson")]
    with warnings.catch_warnings():
        warnings.simplefilter("ignore")
        np.seterr(all="ignore")
        # the requested number of masses, for small, large, odd and round sizes
        for N_ in (1, 7, 1000, 499999, 500001, 750001, 1000000):
            np.random.seed(12345)
            m_, _h = sample_mf(N_, 11.0, sort=False, **dict(base, Mmax=15.0))
            ncase += 1
            if len(m_) != N_:
                viol("count", f"sample_mf returned {len(m_)} masses for N={N_}", {"N": N_})
        for ci, cfg in enumerate(configs):
            N = int(r.choice([20000, 50000] if quick else [20000, 100000, 300000]))
            seed = r.randrange(2 ** 31)
            kw = dict(base, **{k: v for k, v in cfg.items() if k != "log_mmin"})
            np.random.seed(seed)
            m, h = sample_mf(N, cfg["log_mmin"], sort=True, **kw)
            ncase += 1
            if len(m) != N:
                viol("count", f"sample_mf returned {len(m)} masses for N={N}")
            if m.min() < 10 ** cfg["log_mmin"] * (1 - 1e-9):
                viol("below-minimum", f"sampled mass {m.min():.4g} below the requested minimum 10^{cfg['log_mmin']}")
            if np.any(np.diff(m) > 0):
                viol("not-descending", "sort=True does not return masses in descending order")
            # "when sorting is requested": any true flag (a numpy bool from a comparison, 1) requests it, any false one (0, np.False_) does not
            for flag in (np.True_, 1, np.bool_(N > 0), np.array(True)):
                np.random.seed(seed)
                mt, _ht = sample_mf(min(N, 20000), cfg["log_mmin"], sort=flag, **kw)
                if np.any(np.diff(mt) > 0):
                    viol("not-descending", f"sort={flag!r} ({type(flag).__name__}) does not return masses in descending order ({int(np.sum(np.diff(mt) > 0))} of {len(mt) - 1} neighbouring pairs ascending)", {"sort": repr(flag)})
                    break
            # tie of the list model `sampleMasses` (Props/C20: sort_only_reorders, masses_are_the_images_of_the_draws):
            # with the same stream the sorted output is the descending rearrangement of the unsorted one
            np.random.seed(seed)
            mu, _hu = sample_mf(N, cfg["log_mmin"], sort=False, **kw)
            ntie += 1
            if len(mu) != len(m) or not np.array_equal(np.sort(mu)[::-1], m):
                out["broken"].append({"kind": "correspondence", "what": "list model of sample_mf: with the same numpy seed, sort=True is not the descending rearrangement of sort=False (the model's `reverse (sort? (map f us))` no longer describes the code)",
                                      "detail": {"config": str(cfg), "N": N, "seed": seed, "sorted_head": m[:3].tolist(), "unsorted_sorted_head": np.sort(mu)[::-1][:3].tolist()}})
            np.random.seed(seed)
            m2, h2 = sample_mf(N, cfg["log_mmin"], sort=True, **kw)
            if not np.array_equal(m, m2):
                viol("not-reproducible", "the same numpy seed gives a different sample")
            if h.parameter_values["z"] != cfg["z"] or abs(h.parameter_values["Mmin"] - cfg["log_mmin"]) > 1e-12:
                viol("returned-mf-parameters", "the returned MassFunction does not carry the requested parameters")
            z1, npt = survival_z(m, h)
            if z1 > NSIG:
                viol("survival-function", f"empirical survival function deviates from n(>m)/n(>m_min) by {z1:.1f} sigma ({cfg}, N={N})", {"config": cfg, "N": N, "seed": seed})
            # the caller modifies the returned object, then samples again with the same arguments
            h.update(z=cfg["z"] + 2.0)
            np.random.seed(seed + 1)
            m3, h3 = sample_mf(N, cfg["log_mmin"], sort=False, **kw)
            if h3.parameter_values["z"] != cfg["z"]:
                viol("returned-mf-parameters/after-earlier-call", f"after an earlier returned MassFunction was updated, a new call returns an object at z={h3.parameter_values['z']} instead of {cfg['z']}", {"config": cfg})
            z3, _ = survival_z(m3, h3)
            if z3 > NSIG:
                viol("survival-function/after-earlier-call", f"second call with equal arguments: sample deviates from the returned MassFunction by {z3:.1f} sigma", {"config": cfg, "N": N})
            if len(samples) < 2:
                samples.append({"config": cfg, "N": N, "seed": seed, "max_abs_z": round(z1, 2), "thresholds": npt})
            # dndm_from_sample
            Vol = N / h3.ngtm[0]
            from scipy.interpolate import InterpolatedUnivariateSpline as Spl
            lnd = Spl(np.log10(h3.m), np.log(h3.dndm), k=3)
            lo, hi = cfg["log_mmin"], min(np.log10(np.sort(m3)[int(0.995 * N)]), np.log10(h3.m[-1]))
            over_ = np.arange(lo - 0.37, np.log10(m3.max()) + 0.6, 0.25)        # explicit edges overhanging the sample at both ends, m_min strictly inside a bin
            for bins in (30, np.linspace(lo + 0.3 * (hi - lo), lo + 0.8 * (hi - lo), 12), np.linspace(lo, hi, 25), over_):
                c, est = dndm_from_sample(m3, Vol, bins=bins)
                edges = np.histogram_bin_edges(np.log10(m3), bins)
                cnt, _ = np.histogram(np.log10(m3), edges)
                ok = (cnt >= 100) & np.isfinite(est) & (edges[1:] <= np.log10(h3.m[-1]))     # dn/dm is tabulated up to M_max only
                if bins is over_:
                    # the bin that is only partly covered by the sample (it contains m_min) must not be returned as a number
                    ipart = int(np.searchsorted(edges, lo, side="right") - 1)
                    if 0 <= ipart < len(est) and edges[ipart] < lo - 1e-9 and np.isfinite(est[ipart]) and cnt[ipart] > 0:
                        viol("dndm_from_sample/partly-covered-bin", f"bins overhanging both ends: the bin [{edges[ipart]:.3f}, {edges[ipart + 1]:.3f}) contains the minimum mass 10^{lo} and is only partly covered by the sample, but dn/dm = {est[ipart]:.4g} is returned for it (instead of NaN)",
                             {"config": cfg, "bins": "np.arange(log_mmin - 0.37, log10(max m) + 0.6, 0.25)"})
                ok[0] = ok[-1] = False
                # bin-averaged expectation: integrate dn/dm over the bin
                zmax = 0.0
                for i in np.where(ok)[0]:
                    xs = np.linspace(edges[i], edges[i + 1], 21)
                    expct = Vol * np.trapezoid(np.exp(lnd(xs)) * 10 ** xs * np.log(10), xs)
                    zmax = max(zmax, abs(cnt[i] - expct) / np.sqrt(expct))
                    model = est[i] * (10 ** c[i] * Vol * (c[1] - c[0]) * np.log(10))
                    if abs(model - cnt[i]) > 1e-6 * cnt[i]:
                        viol("dndm_from_sample/normalisation", f"dndm_from_sample is not counts/(m V dlog10m ln10): bin {i} holds {cnt[i]} masses, estimate corresponds to {model:.1f} ({'edges' if not np.isscalar(bins) else 'integer bins'})",
                             {"config": cfg, "bins": "array" if not np.isscalar(bins) else bins})
                if zmax > NSIG + 0.5:
                    viol("dndm_from_sample/poisson", f"binned dn/dm deviates from the mass function by {zmax:.1f} sigma in a well-populated bin", {"config": cfg})
    out["coverage"] = {
        "evaluations": ncase * 4, "distinct_nontrivial": ncase,
        "rule": "configs (m_min, M_max, z, fit) incl. narrow ranges whose top is not deep in the tail; N in {2e4,5e4} (quick) up to 3e5; fixed seeds derived from VERIF_SEED; per config: list clauses, survival-function z-scores at up to 12 thresholds, repetition after the caller modified an earlier result, dndm_from_sample with integer bins and three explicit edge arrays (one overhanging the sample at both ends)",
        "list_model_ties": ntie, "samples": samples, "search": "statistical oracles on the real sampler",
    }
    return out


def replay(path):
    j = json.load(open(path))
    print(json.dumps(j.get("replay"), indent=1)[:800])
    res = run({"tier": "quick"})
    hit = [v for v in res["violations"] if v["key"] == j.get("key")]
    print(hit[:1] or "not reproduced on the current tree")
    return 1 if hit else 0
