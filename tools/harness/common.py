"""Shared plumbing for the correspondence harnesses: repo import, Lean driver, PRNG, evidence."""
import os, sys, json, subprocess, time, random, hashlib, importlib.util, warnings, fcntl, contextlib

VERIF = os.path.dirname(os.path.dirname(os.path.dirname(os.path.abspath(__file__))))
REPO = os.environ.get("HMF_REPO", "/repo")
REPO_SRC = os.path.join(REPO, "src")
LEAN_DIR = os.path.join(VERIF, "lean")
sys.path.insert(0, os.path.join(VERIF, "tools", "compat"))
sys.dont_write_bytecode = True


def seed():
    return int(os.environ.get("VERIF_SEED", "0") or 0)


def tier():
    return os.environ.get("VERIF_TIER", "quick")


def rng(tag):
    h = hashlib.sha256(f"{seed()}:{tag}".encode()).digest()
    return random.Random(int.from_bytes(h[:8], "big"))


def import_hmf():
    """Import hmf from /repo/src through the compat shim (never site-packages)."""
    import hmf_compat
    os.environ["HMF_REPO_SRC"] = REPO_SRC
    warnings.simplefilter("ignore")
    hmf = hmf_compat.install(REPO_SRC)
    return hmf


def load_internals(pkg="hmfv_internals"):
    """Load the *real* `_cache.py` and `_framework.py` from /repo/src under a private package name,
    with no other part of hmf imported (K1 isolation)."""
    import types
    base = os.path.join(REPO_SRC, "hmf", "_internals")
    if pkg in sys.modules:
        return sys.modules[pkg]._cache, sys.modules[pkg]._framework
    p = types.ModuleType(pkg)
    p.__path__ = [base]
    sys.modules[pkg] = p
    mods = []
    for name in ("_cache", "_framework"):
        spec = importlib.util.spec_from_file_location(f"{pkg}.{name}", os.path.join(base, name + ".py"))
        m = importlib.util.module_from_spec(spec)
        sys.modules[f"{pkg}.{name}"] = m
        spec.loader.exec_module(m)
        setattr(p, name, m)
        mods.append(m)
    return tuple(mods)


def lean_driver(lines, timeout=600):
    """Pipe request lines to the Lean driver, return answer lines."""
    if not lines:
        return []
    p = subprocess.run(["lake", "env", "lean", "--run", "Main.lean"], cwd=LEAN_DIR,
                       input="\n".join(lines) + "\n", capture_output=True, text=True, timeout=timeout)
    if p.returncode != 0:
        raise RuntimeError("lean driver failed: " + p.stderr[-2000:] + p.stdout[-500:])
    out = p.stdout.splitlines()
    if len(out) != len(lines):
        raise RuntimeError(f"driver answered {len(out)} lines for {len(lines)} requests: {p.stderr[-500:]}")
    return out


def tree_hash():
    """Hash of /repo/src/hmf/**/*.py (recorded in replays)."""
    h = hashlib.sha256()
    for root, _, files in sorted(os.walk(os.path.join(REPO_SRC, "hmf"))):
        for f in sorted(files):
            if f.endswith(".py"):
                h.update(f.encode())
                h.update(open(os.path.join(root, f), "rb").read())
    return h.hexdigest()[:16]
