"""Generated expression terms (tools/pyexpr.py -> Gen/Expr*.lean + expr.json) evaluated by the Lean driver at Float,
against the real implementation.  Also a Python mirror evaluator used only to tabulate opaque calls."""
import struct, math, sys
import numpy as np
from common import *

EXPR_JSON = os.path.join(LEAN_DIR, "HmfVerif", "Gen", "expr.json")


def load():
    def tup(x):
        return tuple(tup(y) for y in x) if isinstance(x, list) else x
    j = json.load(open(EXPR_JSON))
    return j, tup


def bits(x):
    return str(struct.unpack("<Q", struct.pack("<d", float(x)))[0])


def unbits(s):
    return struct.unpack("<d", struct.pack("<Q", int(s)))[0]


def free_vars(t, acc=None):
    acc = acc if acc is not None else set()
    if isinstance(t, tuple):
        if t[0] == "var":
            acc.add(t[1])
        for x in t[1:]:
            free_vars(x, acc)
    return acc


def ev_py(t, env, opq, calls):
    """mirror of evalS on Python floats; records opaque calls (name, arg, result)"""
    tag = t[0]
    f = lambda x: ev_py(x, env, opq, calls)
    if tag == "lit":
        return t[1] * (10.0 ** t[2]) if t[2] >= 0 else t[1] / (10.0 ** (-t[2]))
    if tag == "pi":
        return math.pi
    if tag == "var":
        return env[t[1]]
    with np.errstate(all="ignore"):
        if tag == "neg": return -f(t[1])
        if tag == "exp": return float(np.exp(f(t[1])))
        if tag == "log": return float(np.log(f(t[1])))
        if tag == "log10": return float(np.log(f(t[1])) / np.log(10.0))
        if tag == "sqrt": return float(np.sqrt(f(t[1])))
        if tag == "sin": return float(np.sin(f(t[1])))
        if tag == "cos": return float(np.cos(f(t[1])))
        if tag == "cosh": return float(np.cosh(f(t[1])))
        if tag == "abs": return abs(f(t[1]))
        if tag == "add": return f(t[1]) + f(t[2])
        if tag == "sub": return f(t[1]) - f(t[2])
        if tag == "mul": return f(t[1]) * f(t[2])
        if tag == "div": return float(np.float64(f(t[1])) / np.float64(f(t[2])))
        if tag == "pow": return float(np.power(np.float64(f(t[1])), np.float64(f(t[2]))))
        if tag == "min": return min(f(t[1]), f(t[2]))
        if tag == "max": return max(f(t[1]), f(t[2]))
        if tag == "powi":
            x, n = f(t[1]), t[2]
            r = 1.0
            for _ in range(abs(n)):
                r = r * x
            return r if n >= 0 else float(np.float64(1.0) / np.float64(r))
        if tag == "ite":
            c = t[1]
            a, b = f(c[2]), f(c[3])
            ok = {"lt": a < b, "le": a <= b, "gt": a > b, "ge": a >= b, "eq": a == b, "ne": a != b}[c[1]]
            return f(t[2]) if ok else f(t[3])
        if tag in ("call", "nonElem"):
            a = f(t[2])
            r = float(opq(t[1], a))
            calls.append((t[1], a, r))
            return r
    raise ValueError(t)


def eval_lean_many(reqs):
    """reqs: list of (table/name, n, {var: scalar or array}, calls[(fname,arg,res)]) -> list of numpy arrays"""
    lines = []
    for name, n, vars_, calls in reqs:
        parts = ["EVALV", name, str(n), str(len(vars_))]
        for k, v in vars_.items():
            if np.ndim(v) == 0:
                parts += [k.encode().hex(), "s", bits(v)]
            else:
                assert len(v) == n, (k, len(v), n)
                parts += [k.encode().hex(), "v"] + [bits(x) for x in v]
        parts.append(str(len(calls)))
        for fn, a, r in calls:
            parts += [fn.encode().hex(), bits(a), bits(r)]
        lines.append(" ".join(parts))
    out = lean_driver(lines)
    res = []
    for o in out:
        if not o or not (o[0].isdigit()):
            res.append(o)
        else:
            res.append(np.array([unbits(x) for x in o.split()]))
    return res


class LocalsTracer:
    """capture the locals of every `__init__` (and `_set_params`) frame of a module at return"""

    def __init__(self, filename_part):
        self.part = filename_part
        self.locals = {}

    def __enter__(self):
        def prof(frame, event, arg):
            if event == "return" and self.part in frame.f_code.co_filename and frame.f_code.co_name in ("__init__", "_set_params"):
                qn = getattr(frame.f_code, "co_qualname", frame.f_code.co_name)
                self.locals[qn.split(".")[0]] = dict(frame.f_locals)
        sys.setprofile(prof)
        return self

    def __exit__(self, *a):
        sys.setprofile(None)


def close(a, b, rtol=1e-11, atol=0.0):
    a, b = np.asarray(a, float), np.asarray(b, float)
    with np.errstate(all="ignore"):
        ok = np.isclose(a, b, rtol=rtol, atol=atol, equal_nan=True) | (np.isinf(a) & np.isinf(b) & (np.sign(a) == np.sign(b)))
    return ok


def _num(x):
    if hasattr(x, "value"):
        x = x.value
    return x


def auto_env(tree, obj, args=None, ns=None, extra=None):
    """environment for a generated term from a live object: `p.k` -> obj.params[k]; `cosmo.a` -> obj.cosmo.a; `a.b` -> attribute
    paths; method arguments from `args`; `py:`/`flag:` sources evaluated with self=obj; `isnone:x`; `unitconv:` from g/cm^3"""
    import astropy.units as u
    args = args or {}
    env = {}
    scope = {"self": obj, "np": np, "u": u}
    scope.update(ns or {})
    for v in free_vars(tree):
        try:
            if extra and v in extra:
                env[v] = extra[v]
            elif v in args:
                env[v] = args[v]
            elif v.startswith("p."):
                val = obj.params[v[2:]]
                env[v] = float("nan") if val is None else float(val)
            elif v.startswith("isnone:"):
                tgt = v[7:]
                val = obj.params.get(tgt[2:]) if tgt.startswith("p.") else eval("self." + tgt, scope)
                env[v] = 1.0 if val is None else 0.0
            elif v.startswith("flag:"):
                env[v] = 1.0 if eval(v[5:], scope) else 0.0
            elif v.startswith("py:"):
                env[v] = np.asarray(_num(eval(v[3:], scope)), float)
                if env[v].ndim == 0:
                    env[v] = float(env[v])
            elif v.startswith("unitconv:"):
                env[v] = float((1 * u.g / u.cm ** 3).to(eval(v[9:], scope)).value)
            elif v == "idx":
                env[v] = None          # filled by the caller (needs the length)
            else:
                val = _num(eval("self." + v, scope)) if not v.startswith("super.") else None
                if val is None:
                    env[v] = float("nan")
                else:
                    val = np.asarray(val, float)
                    env[v] = float(val) if val.ndim == 0 else val
        except Exception:
            env[v] = float("nan")
    return env


def tabulate_calls(tree, env, opq, n):
    calls = []
    for i in range(n):
        try:
            ev_py(tree, {k: (v[i] if np.ndim(v) else v) for k, v in env.items()}, opq, calls)
        except Exception:
            pass
    return list({(a, b): (a, b, c) for a, b, c in calls}.values())
