"""generated framework-quantity bodies (Gen/ExprFlow.lean) at Float vs the real quantities"""
import numpy as np
from exprcorr import *


def flow_requests(J, tup, obj, clsname, quantities):
    reqs, exp = [], []
    for q in quantities:
        name = f"{clsname}_{q}"
        meta = J["flow"].get(name)
        if not meta or "tree" not in meta:
            continue
        t = tup(meta["tree"])
        try:
            got = np.atleast_1d(np.asarray(getattr(obj, q), float))
        except Exception:
            continue
        n = len(got)
        extra = {}
        md1 = getattr(getattr(obj, "hmf", None), "measured_mass_definition", None) if "hmf.measured_mass_definition" in free_vars(t) else None
        if "hmf.measured_mass_definition" in free_vars(t):
            extra["hmf.measured_mass_definition"] = 1.0
            extra["mdef"] = 1.0 if (md1 is not None and md1 == obj.mdef) else 2.0
        env = auto_env(t, obj, extra=extra)
        if "idx" in env:
            env["idx"] = np.arange(n, dtype=float)
        bad = False
        for k, v in list(env.items()):
            if np.ndim(v) and len(v) != n:
                bad = True
        if bad:
            continue
        reqs.append((f"Flow/{name}", n, env, []))
        exp.append((name, got))
    return reqs, exp
