"""Heap model (lean/HmfVerif/Model/Heap.lean) vs the real classes: identity partition + contents of every dict-valued
parameter slot, caller-owned dict and class-level `_defaults`, after random multi-instance programs."""
import copy, pickle, warnings
import numpy as np
import realfuzz
from common import *

PARAMS = ["cosmo_params", "transfer_params", "growth_params", "hmf_params", "mdef_params", "filter_params", "wdm_params"]
KEYS = {
    "cosmo_params": [("Om0", lambda n: 0.28 + 0.01 * n), ("H0", lambda n: 65.0 + n), ("Ob0", lambda n: 0.04 + 0.002 * n)],
    "transfer_params": [("a", lambda n: 2.34 + 0.01 * n), ("b", lambda n: 3.89 + 0.01 * n), ("c", lambda n: 16.1 + 0.1 * n)],
    "growth_params": [("dlna", lambda n: 0.02 + 0.005 * n), ("amin", lambda n: 1e-7 * (1 + n))],
    "hmf_params": [("a", lambda n: 0.7 + 0.01 * n), ("p", lambda n: 0.3 + 0.01 * n), ("A", lambda n: 0.32 + 0.01 * n)],
    "mdef_params": [("overdensity", lambda n: 200 + 50 * n)],
    "filter_params": [("c", lambda n: 2.5 + 0.1 * n)],
    "wdm_params": [("mu", lambda n: 1.12 + 0.01 * n), ("g_x", lambda n: 1.5 + 0.1 * n)],
}
BASE = dict(transfer_model="BBKS", growth_model="GrowthFactor", filter_model="SharpK", mdef_model="SOMean", hmf_model="SMT",
            wdm_model="Viel05", lnk_min=-10.0, lnk_max=8.0, dlnk=0.5, Mmin=10, Mmax=14, dlog10m=1.0)
NV = 4


def gen_program(r, ninst=3, nops=14):
    """ops over abstract dict ids; returns list of ops (JSON-able)"""
    prog = []
    callers = []          # (param index) per caller dict

    def new_caller(p):
        nk = len(KEYS[PARAMS[p]])
        ks = r.sample(range(nk), r.randint(0, nk))
        prog.append(["CN", p, [[k, r.randrange(NV)] for k in ks]])
        callers.append(p)
        return len(callers) - 1
    live = []
    for i in range(ninst):
        if live and r.random() < 0.4:
            src = r.choice(live)
            prog.append(["CP", src, i, r.choice(["deepcopy", "clone", "pickle"])])
        else:
            args = {}
            for p in range(len(PARAMS)):
                x = r.random()
                if x < 0.45:
                    continue
                same = [c for c, pp in enumerate(callers) if pp == p]
                args[p] = r.choice(same) if same and x < 0.75 else new_caller(p)
            prog.append(["CO", i, args])
        live.append(i)
        for _ in range(r.randint(1, nops // ninst + 1)):
            x = r.random()
            j = r.choice(live)
            p = r.randrange(len(PARAMS))
            same = [c for c, pp in enumerate(callers) if pp == p]
            if x < 0.55:
                c = r.choice(same) if same and r.random() < 0.6 else new_caller(p)
                prog.append(["UP", j, p, c, r.choice(["update", "assign"])])
            elif x < 0.75 and callers:
                c = r.randrange(len(callers))
                nk = len(KEYS[PARAMS[callers[c]]])
                prog.append(["CW", c, r.randrange(nk), r.randrange(NV)])
            else:
                prog.append(["IN", j, p])
    return prog


def to_line(prog, ninst, cos=1):
    ops = []
    n = 0
    for op in prog:
        if op[0] == "CN":
            ops.append(f"CN {len(op[2])} " + " ".join(f"{k} {v}" for k, v in op[2])); n += 1
        elif op[0] == "CO":
            for p in range(len(PARAMS)):
                ops.append(f"CO {op[1]} {p} " + (f"c{op[2][p]}" if p in op[2] else "-")); n += 1
        elif op[0] == "UP":
            ops.append(f"UP {op[1]} {op[2]} c{op[3]}"); n += 1
        elif op[0] == "CP":
            ops.append(f"CP {op[1]} {op[2]} {len(PARAMS)} " + " ".join(map(str, range(len(PARAMS))))); n += 1
        elif op[0] == "CW":
            ops.append(f"CW c{op[1]} {op[2]} {op[3]}"); n += 1
        elif op[0] == "IN":
            pass
    return f"HEAP {cos} {ninst} {len(PARAMS)} {n} " + " ".join(ops)


def run_real(prog, ninst):
    realfuzz.init()
    from hmf.alternatives.wdm import MassFunctionWDM
    callers, inst = [], {}
    enc = {}

    def mk(p, kvs):
        return {KEYS[PARAMS[p]][k][0]: KEYS[PARAMS[p]][k][1](v) for k, v in kvs}
    with warnings.catch_warnings():
        warnings.simplefilter("ignore")
        np.seterr(all="ignore")
        for op in prog:
            if op[0] == "CN":
                callers.append((op[1], mk(op[1], op[2])))
            elif op[0] == "CO":
                kw = dict(BASE)
                for p, c in op[2].items():
                    kw[PARAMS[int(p)]] = callers[c][1]
                inst[op[1]] = MassFunctionWDM(**kw)
            elif op[0] == "UP":
                if op[4] == "update":
                    inst[op[1]].update(**{PARAMS[op[2]]: callers[op[3]][1]})
                else:
                    setattr(inst[op[1]], PARAMS[op[2]], callers[op[3]][1])
            elif op[0] == "CP":
                src = inst[op[1]]
                inst[op[2]] = copy.deepcopy(src) if op[3] == "deepcopy" else (src.clone() if op[3] == "clone" else pickle.loads(pickle.dumps(src)))
            elif op[0] == "CW":
                p, d = callers[op[1]]
                k, f = KEYS[PARAMS[p]][op[2]]
                d[k] = f(op[3])
            elif op[0] == "IN":
                q = {0: "cosmo", 1: "transfer", 2: "growth", 3: "hmf", 4: "mdef", 5: "filter", 6: "wdm"}[op[2]]
                try:
                    getattr(inst[op[1]], q)
                except Exception:
                    pass
    # dump
    seen = []

    def label(o):
        for k, x in enumerate(seen):
            if x is o:
                return k
        seen.append(o)
        return len(seen) - 1

    def show(p, d):
        items = []
        for k, (name, f) in enumerate(KEYS[PARAMS[p]]):
            if name in d:
                code = next((n for n in range(NV) if abs(f(n) - d[name]) < 1e-12 * max(1, abs(d[name]))), 98)
                items.append(f"{k}:{code}")
        extra = [k for k in d if k not in [n for n, _ in KEYS[PARAMS[p]]]]
        return "{" + ",".join(items) + ("" if not extra else ",?" + "?".join(extra)) + "}"
    out = []
    for c, (p, d) in enumerate(callers):
        out.append(f"c{c}={label(d)}:{show(p, d)}")
    for i in range(ninst):
        if i in inst:
            for p, name in enumerate(PARAMS):
                d = getattr(inst[i], name)
                out.append(f"s{i}.{p}={label(d)}:{show(p, d)}")
    return " ".join(out)


def run_corr(n, tag="heap"):
    r = rng(tag)
    progs = [gen_program(r, ninst=r.randint(2, 3)) for _ in range(n)]
    ninsts = [1 + max(op[1] if op[0] in ("CO", "UP", "IN") else (op[2] if op[0] == "CP" else 0) for op in p) for p in progs]
    model = lean_driver([to_line(p, k) for p, k in zip(progs, ninsts)])
    bad, ops, kinds = [], 0, {}
    for p, k, m in zip(progs, ninsts, model):
        real = run_real(p, k)
        ops += len(p)
        for op in p:
            kinds[op[0] + (":" + op[-1] if op[0] in ("UP", "CP") else "")] = kinds.get(op[0] + (":" + op[-1] if op[0] in ("UP", "CP") else ""), 0) + 1
        if real != m:
            bad.append({"program": p, "ninst": k, "impl": real, "model": m})
    return {"programs": n, "ops": ops, "op_kinds": kinds, "sample": {"request": to_line(progs[0], ninsts[0])[:300], "answer": model[0][:300]}}, bad


if __name__ == "__main__":
    st, bad = run_corr(20)
    print(st["op_kinds"], len(bad))
    for b in bad[:2]:
        print(b["impl"]); print(b["model"]); print(b["program"])
