"""Isolation oracle: the outputs of an object must not depend on which other objects were created earlier in the same process.
Reference = the same configuration evaluated ALONE in a fresh interpreter (one subprocess per configuration, run in parallel); then the
configurations are evaluated one after the other in this process and compared with their references."""
import os, sys, json, subprocess, tempfile, copy, warnings
import numpy as np
from common import *

_CHILD = r'''
import sys, json, warnings
sys.path.insert(0, %(compat)r); sys.path.insert(0, %(harness)r)
import hmf_compat; hmf_compat.install()
warnings.simplefilter("ignore")
import numpy as np
np.seterr(all="ignore")
import isolation
cfg = json.load(open(sys.argv[1]))
print(json.dumps(isolation.evaluate(cfg)))
'''


def build_cosmo(spec):
    from astropy import cosmology as ac
    if isinstance(spec, str):
        return getattr(ac, spec)
    spec = dict(spec)
    kind = spec.pop("class")
    clone = spec.pop("clone_of", None)
    if clone:
        return getattr(ac, clone).clone(**spec)
    return getattr(ac, kind)(**spec)


def evaluate(cfg):
    """cfg: {"kind": "framework"|"component", ...} -> list of floats (flattened outputs)"""
    import realfuzz
    realfuzz.init()
    if cfg["kind"] == "framework":
        cls = realfuzz.class_by_name(cfg["cls"])
        kw = dict(cfg.get("kwargs", {}))
        if "cosmo" in cfg:
            kw["cosmo_model"] = build_cosmo(cfg["cosmo"])
        o = cls(**kw)
        out = []
        for q in cfg["quantities"]:
            out += [float(x) for x in np.atleast_1d(np.asarray(getattr(o, q), float)).ravel()[:64]]
        return out
    if cfg["kind"] == "growth":
        from hmf.cosmology import growth_factor as gf
        m = getattr(gf, cfg["model"])(build_cosmo(cfg["cosmo"]))
        return [float(np.atleast_1d(m.growth_factor(z))[0]) for z in cfg["z"]]
    if cfg["kind"] == "transfer_model":
        from hmf.density_field import transfer_models as tm
        m = getattr(tm, cfg["model"])(build_cosmo(cfg["cosmo"]))
        return [float(x) for x in np.asarray(m.lnt(np.array(cfg["lnk"], float)), float)]
    if cfg["kind"] == "fit":
        from hmf.mass_function import fitting_functions as ff
        from hmf.halos import mass_definitions as md
        mdef = getattr(md, cfg.get("mdef", "SOMean"))(**cfg.get("mdef_params", {}))
        o = getattr(ff, cfg["model"])(nu2=np.array(cfg["nu2"], float), m=np.array(cfg["m"], float), z=cfg["z"], cosmo=build_cosmo(cfg["cosmo"]), mass_definition=mdef, delta_c=1.686,
                                      n_eff=np.full(len(cfg["nu2"]), -1.5))
        return [float(x) for x in np.asarray(o.fsigma, float)]
    raise ValueError(cfg["kind"])


def alone_references(cfgs, timeout=300):
    """evaluate every configuration alone, each in a fresh interpreter (parallel)"""
    tmp = tempfile.mkdtemp(prefix="iso", dir=os.path.join(VERIF, ".work"))
    procs = []
    code = _CHILD % {"compat": os.path.join(VERIF, "tools", "compat"), "harness": os.path.join(VERIF, "tools", "harness")}
    env = dict(os.environ, PYTHONDONTWRITEBYTECODE="1")
    outs = []
    BATCH = 8           # at most eight interpreters at a time
    for b0 in range(0, len(cfgs), BATCH):
        procs = []
        for i, c in list(enumerate(cfgs))[b0:b0 + BATCH]:
            f = os.path.join(tmp, f"c{i}.json")
            json.dump(c, open(f, "w"))
            procs.append(subprocess.Popen(["/venv/bin/python", "-B", "-c", code, f], stdout=subprocess.PIPE, stderr=subprocess.PIPE, text=True, env=env))
        for p in procs:
            try:
                so, se = p.communicate(timeout=timeout)
            except subprocess.TimeoutExpired:
                p.kill()
                so, se = p.communicate()
                outs.append({"error": "timeout"})
                continue
            try:
                outs.append(json.loads(so.strip().splitlines()[-1]))
            except Exception:
                outs.append({"error": (se or so)[-300:]})
    import shutil
    shutil.rmtree(tmp, ignore_errors=True)
    return outs


def check_sequence(cfgs, label, rtol=1e-9):
    """[(index, description)] of configurations whose outputs in this process (evaluated in the given order) differ from their alone value"""
    refs = alone_references(cfgs)
    bad = []
    with warnings.catch_warnings():
        warnings.simplefilter("ignore")
        np.seterr(all="ignore")
        for i, (c, ref) in enumerate(zip(cfgs, refs)):
            if isinstance(ref, dict):
                continue            # the configuration does not evaluate alone (environment): nothing to compare
            try:
                got = evaluate(copy.deepcopy(c))
            except Exception as e:
                bad.append((i, f"{label}: configuration {i} ({c.get('note', c['kind'])}) raises {type(e).__name__} after the earlier ones were evaluated, but evaluates alone"))
                continue
            a, b = np.array(got, float), np.array(ref, float)
            if a.shape != b.shape or not np.allclose(a, b, rtol=rtol, atol=0, equal_nan=True):
                dev = float(np.nanmax(np.abs(a / b - 1))) if a.shape == b.shape else float("nan")
                bad.append((i, f"{label}: configuration {i} ({c.get('note', c['kind'])}) gives outputs {dev:.3g} away from its value in a fresh interpreter once configurations 0..{i - 1} have been evaluated in the same process"))
    return bad
