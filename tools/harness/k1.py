"""K1 runner: synthetic classes on the real decorators vs the Lean machine M', per-property projections."""
from synth import *


def shrink_ops(d, cm, fm, differs):
    """delta-debug the op list (model and implementation are both re-run)"""
    ops = list(d.ops)
    n = 2
    while len(ops) >= 2:
        chunk = max(1, len(ops) // n)
        reduced = False
        for i in range(0, len(ops), chunk):
            cand = ops[:i] + ops[i + chunk:]
            d2 = copy.copy(d); d2.ops = cand
            if differs(d2):
                ops = cand; n = max(n - 1, 2); reduced = True
                break
        if not reduced:
            if chunk == 1:
                break
            n = min(n * 2, len(ops))
    d2 = copy.copy(d); d2.ops = ops
    return d2


def run_k1(ncases, tag="k1", max_ops=40, **gen_kw):
    cm, fm = load_internals()
    r = rng(tag)
    cases = [gen_desc(r, max_ops=max_ops, **gen_kw) for _ in range(ncases)]
    ans = lean_driver([d.line() for d in cases])
    stats = {"cases": ncases, "ops": 0, "op_kinds": {}, "out_kinds": {}, "hist_len": {}, "bodies_executed": 0,
             "classes_with_super": 0, "classes_with_raise": 0, "disagree_out": 0, "disagree_pv": 0, "disagree_trace": 0,
             "internal_errors": 0}
    dis = []
    samples = []
    for d, a in zip(cases, ans):
        res = run_python(d, cm, fm)
        py = res[0] if isinstance(res, tuple) else res
        stats["ops"] += len(d.ops)
        b = min(len(d.ops) // 10 * 10, 40)
        stats["hist_len"][str(b)] = stats["hist_len"].get(str(b), 0) + 1
        for op in d.ops:
            stats["op_kinds"][op[0]] = stats["op_kinds"].get(op[0], 0) + 1
        s = d.line()
        stats["classes_with_super"] += " s " in s
        stats["classes_with_raise"] += " R " in s
        po, pt, pp = project(py)
        for o in po:
            k = "value" if o.startswith("v:") else ("user-exn" if o.startswith("x:u") else ("bad-kw" if o == "x:kw" else ("internal" if o.startswith("x:internal") else "unit")))
            if o.startswith("ctor"):
                k = "ctor-" + ("ok" if o.endswith(":u") else "raise")
            stats["out_kinds"][k] = stats["out_kinds"].get(k, 0) + 1
        stats["bodies_executed"] += sum(len(t.split()) for t in pt)
        stats["internal_errors"] += "x:internal" in py
        if len(samples) < 2:
            samples.append({"request": s[:400], "answer": a[:400]})
        if py != a:
            ao, at, ap = project(a)
            kind = "out" if po != ao else ("pv" if pp != ap else "trace")
            stats["disagree_" + kind] += 1
            if len(dis) < 5:
                dis.append({"kind": kind, "case": d, "py": py, "lean": a})
    return stats, dis, samples, (cm, fm)


def minimise(d, cm, fm):
    def differs(d2):
        a = lean_driver([d2.line()])[0]
        res = run_python(d2, cm, fm)
        py = res[0] if isinstance(res, tuple) else res
        return py != a
    d2 = shrink_ops(d, cm, fm, differs)
    a = lean_driver([d2.line()])[0]
    res = run_python(d2, cm, fm)
    py = res[0] if isinstance(res, tuple) else res
    return d2, py, a
