"""K2: generated descriptors (tools/pyflow.py -> lean/HmfVerif/Gen/desc.json) vs the real classes.
Observed direct-read edges of every body execution must be edges of the generated read program, and the
real dependency index (`recalc_prop_par`) must lie inside the static cone."""
import copy, warnings
import numpy as np
import realfuzz
from common import *

DESC = os.path.join(LEAN_DIR, "HmfVerif", "Gen", "desc.json")


def static_cone(desc, cls):
    """parameters reachable from each quantity (python re-computation from desc.json edges)"""
    c = desc["classes"][cls]
    params = set(c["params"])
    resolve = c["resolve"]
    memo = {}

    def cone_of(key, stack=()):
        if key in memo:
            return memo[key]
        out = set()
        for e in c["edges"].get(key, []):
            if e.startswith("super:"):
                out |= cone_of(e[6:], stack + (key,))
            elif e in params:
                out.add(e)
            elif e in resolve:
                k2 = f"{resolve[e]}.{e}"
                if k2 not in stack:
                    out |= cone_of(k2, stack + (key,))
        memo[key] = out
        return out
    return {q: cone_of(f"{o}.{q}") for q, o in resolve.items()}


def instrument(cls, log, stack):
    """wrap every parameter/quantity property along the MRO; returns an undo function"""
    saved = []
    for k in cls.__mro__:
        for name, a in list(vars(k).items()):
            if not isinstance(a, property) or name in ("parameter_values",):
                continue
            is_q = a.fset is None and a.fdel is not None
            is_p = a.fset is not None
            if not (is_q or is_p):
                continue

            def fget(self, _a=a, _name=name, _owner=k.__name__, _is_q=is_q):
                if stack and stack[-1][0] == id(self):
                    top = stack[-1][1]
                    tgt = _name
                    if _is_q and top.split(".", 1)[1] == _name and top.split(".", 1)[0] != _owner:
                        tgt = f"super:{_owner}.{_name}"
                    log.add((top, tgt))
                if not _is_q:
                    return _a.fget(self)
                stack.append((id(self), f"{_owner}.{_name}"))
                try:
                    return _a.fget(self)
                finally:
                    stack.pop()
            saved.append((k, name, a))
            setattr(k, name, property(fget, a.fset, a.fdel, a.__doc__))
    def undo():
        for k, name, a in saved:
            setattr(k, name, a)
    return undo


def run_k2(quick=True):
    realfuzz.init()
    desc = json.load(open(DESC))
    r = rng("k2")
    res = {"classes": {}, "edges_observed": 0, "edges_static": 0, "bad_edges": [], "bad_index": [], "configs": 0}
    for cn in ["Cosmology", "Transfer", "MassFunction", "TransferWDM", "MassFunctionWDM"]:
        cls = realfuzz.class_by_name(cn)
        P = realfuzz.pools(cn)
        log, stack = set(), []
        undo = instrument(cls, log, stack)
        index_bad = []
        cone = static_cone(desc, cn)
        try:
            with warnings.catch_warnings():
                warnings.simplefilter("ignore")
                np.seterr(all="ignore")
                for cfg in range(3 if quick else 12):
                    obj = cls(**copy.deepcopy(realfuzz.BASE[cn]))
                    if cfg:
                        for k in r.sample(sorted(P), min(len(P), 4)):
                            try:
                                obj.update(**{k: copy.deepcopy(r.choice(P[k]))})
                            except Exception:
                                pass
                    for q in realfuzz.quantities(cls):
                        try:
                            getattr(obj, q)
                        except Exception:
                            pass
                    res["configs"] += 1
                    prpa = getattr(obj, "_" + cn + "__recalc_prop_par")
                    for q, deps in prpa.items():
                        extra = set(deps) - cone.get(q, set())
                        if extra:
                            index_bad.append({"class": cn, "quantity": q, "indexed_outside_static_cone": sorted(extra)})
        finally:
            undo()
        static = desc["classes"][cn]["edges"]
        st = {(k, e) for k, es in static.items() for e in es}
        obs = {(a, b) for a, b in log}
        bad = sorted(obs - st)
        res["classes"][cn] = {"observed": len(obs), "static": len(st), "missing_in_static": len(bad)}
        res["edges_observed"] += len(obs)
        res["edges_static"] += len(st)
        res["bad_edges"] += [{"class": cn, "body": a, "reads": b} for a, b in bad][:10]
        res["bad_index"] += index_bad[:5]
    return res


if __name__ == "__main__":
    print(json.dumps(run_k2(), indent=1)[:3000])
