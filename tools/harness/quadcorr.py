"""quadrature model (lean/HmfVerif/Model/Quad.lean) at Float vs the code's kernels"""
import numpy as np
from exprcorr import *


def sigma_requests(window, k, P, order, radii):
    dlnk = np.log(k[1] / k[0])
    return "QUAD sigma Filters/%s_k_space %d %d %s %d %s %s %s" % (
        window, len(k), order, bits(dlnk), len(radii), " ".join(bits(x) for x in k), " ".join(bits(x) for x in P), " ".join(bits(x) for x in radii))


def list_request(kind, ys, dx, mode=None):
    head = f"QUAD {kind} " + (f"{mode} " if mode is not None else "") + f"{len(ys)} {bits(dx)} "
    return head + " ".join(bits(y) for y in ys)


def decode(line):
    return np.array([unbits(x) for x in line.split()]) if line and line[0].isdigit() else line
