"""History fuzz on the real framework classes: cached object vs a fresh object built from
`parameter_values` (the C01 oracle, independent of any model).  Also used by C12/C13/C15."""
import copy, pickle, warnings, traceback
import numpy as np
from common import *

hmf = None


def init():
    global hmf, Cosmology, Transfer, MassFunction, TransferWDM, MassFunctionWDM, Component
    if hmf is not None:
        return
    hmf = import_hmf()
    from hmf.cosmology.cosmo import Cosmology
    from hmf.density_field.transfer import Transfer
    from hmf.mass_function.hmf import MassFunction
    from hmf.alternatives.wdm import TransferWDM, MassFunctionWDM
    from hmf._internals._framework import Component


def class_by_name(n):
    init()
    return {"Cosmology": Cosmology, "Transfer": Transfer, "MassFunction": MassFunction,
            "TransferWDM": TransferWDM, "MassFunctionWDM": MassFunctionWDM}[n]


def quantities(cls):
    out = []
    for name in dir(cls):
        a = getattr(cls, name, None)
        if isinstance(a, property) and a.fset is None and a.fdel is not None:
            out.append(name)
    return sorted(out)


def parameters(cls):
    return sorted(n for n in dir(cls) if isinstance(getattr(cls, n, None), property) and getattr(cls, n).fset is not None)


# ---- value pools (cheap configurations: analytic transfer, coarse grids)
BASE = {
    "Cosmology": {},
    "Transfer": {"transfer_model": "EH", "lnk_min": -12.0, "lnk_max": 10.0, "dlnk": 0.25},
    "MassFunction": {"transfer_model": "EH", "lnk_min": -12.0, "lnk_max": 10.0, "dlnk": 0.25, "Mmin": 10, "Mmax": 15, "dlog10m": 0.5},
}
BASE["TransferWDM"] = dict(BASE["Transfer"])
BASE["MassFunctionWDM"] = dict(BASE["MassFunction"])


def pools(clsname):
    init()
    from hmf.density_field import transfer_models as tm
    from hmf.mass_function import fitting_functions as ff
    from hmf.density_field import filters
    from hmf.cosmology import growth_factor as gf
    from astropy.cosmology import Planck15, WMAP9, Planck13, FlatwCDM, LambdaCDM
    P = {
        # (astropy classes other than the default flat LCDM too: a constant-w model and a curved one)
        "cosmo_model": [Planck15, "WMAP9", Planck13, "Planck15", 3.0, FlatwCDM(H0=68.0, Om0=0.3, w0=-0.9, Ob0=0.048, Tcmb0=2.725), LambdaCDM(H0=68.0, Om0=0.3, Ode0=0.65, Ob0=0.048, Tcmb0=2.725)],
        "cosmo_params": [{}, {"Om0": 0.3}, {"H0": 75.0}, {"Om0": 0.25, "Ob0": 0.04}, {"Tcmb0": 2.7}, {"Om0": 0.3075}, {"Om0": 0.3075, "H0": 67.74}],   # (the last two: Planck15's own values)
    }
    if clsname != "Cosmology":
        P.update({
            "sigma_8": [0.8, 0.9, 0.8159, 0.05, 11.0, 0.8000001],
            "n": [0.96, 1.0, 0.9667, -4.0, 5, 0.9600001],
            "z": [0.0, 0.5, 1, 2.0, -1.0, "abc", 6.5, 0.5000001, 1e-9],
            "lnk_min": [-12.0, -16.0, -18.0, -10.0, -5.0, 20.0],
            "lnk_max": [10.0, 8.0, 9.5, 12.0, 3.0],
            "dlnk": [0.25, 0.1, 0.5, 30.0],
            "transfer_model": ["EH", tm.EH_BAO, "EH_NoBAO", tm.BBKS, "BondEfs", "NoSuchModel", filters.TopHat],
            "transfer_params": [{}, {"use_sugiyama_baryons": True}, {"nonsense": 1}, {"a": 2.3}, 7],
            "takahashi": [True, False, 1, 0],
            "growth_model": ["GrowthFactor", gf.GenMFGrowth, "Carroll1992", gf.GrowthFactor, "Nope"],
            "growth_params": [{}, {"dlna": 0.02}, {"amin": 1e-7}, {"bogus": 1}],
            "use_splined_growth": [False, True],
        })
    if clsname.startswith("MassFunction"):
        P.update({
            "Mmin": [10, 11, 12.5, 16, 8, 10.0],
            "Mmax": [15, 14, 13, 17, 9, 10.3],          # (the last pair with dlog10m = 0.1 .. 0.5: a grid of one to three points)
            "dlog10m": [0.5, 0.25, 1.0],
            "hmf_model": [ff.Tinker08, "PS", "SMT", ff.Warren, "Jenkins", "Behroozi", "Watson", "Tinker10", "Bhattacharya", "NotAFit", None],
            "hmf_params": [{}, {"A": 0.2}, {"a": 0.8}, {"zzz": 1}, {"delta_virs": np.array([200.0, 300.0, 400.0, 600.0, 800.0, 1200.0, 1600.0, 2400.0, 3200.0])}],
            "mdef_model": [None, "SOMean", "SOCritical", "FOF", "SOVirial", "none"],
            "mdef_params": [{}, {"overdensity": 300}, {"linking_length": 0.25}, {"overdensity": 500}],
            "delta_c": [1.686, 1.5, 2, 0.0, 11, "x", 1.6860001],
            "filter_model": [filters.TopHat, "Gaussian", "SharpK", "TopHat", "Nope", "SharpKEllipsoid"],
            "filter_params": [{}, {"c": 2.0}],
            "disable_mass_conversion": [True, False],
        })
    if "WDM" in clsname:
        from hmf.alternatives import wdm
        P.update({
            "wdm_mass": [3.0, 1.0, 10.0, 0.5, 3.0000003],
            "wdm_model": [wdm.Viel05, "Viel05", "Bode01" if hasattr(wdm, "Bode01") else "Viel05", "Nah"],
            "wdm_params": [{}, {"mu": 1.2}, {"g_x": 2.0}, {"mu": 1.12, "g_x": 1.5}, {"nonsense": 1.0}],
        })
        if clsname == "MassFunctionWDM":
            P.update({"alter_model": [None, "Schneider12_vCDM", "Schneider12", "Lovell14", "Nix"],
                      "alter_params": [{}, {"beta": 1.0}, {"alpha": 0.5}, {"nonsense": 2.0}]})
    return P


def canon(v, depth=0):
    """canonical comparable form of a quantity/parameter value"""
    init()
    if isinstance(v, np.ndarray):
        return ("arr", v.shape, v.dtype.kind, v.tobytes())
    if isinstance(v, (float, np.floating)):
        return ("f", repr(float(v)))
    if isinstance(v, (bool, np.bool_)):
        return ("b", bool(v))
    if isinstance(v, (int, np.integer)):
        return ("i", int(v))
    if isinstance(v, str) or v is None:
        return ("s", v)
    if isinstance(v, type):
        return ("cls", v.__module__.replace("hmf.", "", 1) + "." + v.__name__)
    if isinstance(v, dict):
        return ("d", tuple(sorted((str(k), canon(w, depth + 1)) for k, w in v.items())))
    if isinstance(v, (list, tuple)):
        return ("l", tuple(canon(w, depth + 1) for w in v))
    if isinstance(v, Component):
        st = {k: w for k, w in vars(v).items() if not k.startswith("_") and not callable(w)}
        if depth > 2:
            return ("cmp", type(v).__name__)
        out = []
        for k in sorted(st):
            try:
                out.append((k, canon(st[k], depth + 1)))
            except Exception:
                out.append((k, "?"))
        return ("cmp", type(v).__name__, tuple(out))
    try:
        from astropy.cosmology import FLRW
        if isinstance(v, FLRW):
            return ("cosmo", type(v).__name__, repr(v))
    except Exception:
        pass
    if callable(v):
        try:
            return ("fn", canon(np.asarray(v(np.array([0.0, 0.5, 1.0, 3.0]))), depth + 1))
        except Exception as e:
            return ("fn", type(e).__name__)
    if hasattr(v, "value") and hasattr(v, "unit"):
        return ("qty", repr(v))
    return ("obj", type(v).__name__)


def read(obj, q):
    try:
        return ("ok", canon(getattr(obj, q)))
    except Exception as e:
        return ("exc", type(e).__name__, str(e)[:80])


def is_internal(exc_rec):
    """bookkeeping errors of the caching layer (C12): KeyError / AttributeError mentioning hidden slots"""
    if exc_rec[0] != "exc":
        return False
    t, msg = exc_rec[1], exc_rec[2]
    return (t == "KeyError") or (t == "AttributeError" and ("__" in msg or "recalc" in msg))


def fresh_from(obj, validate=False):
    """a newly constructed object given the object's current parameter values (constructor only;
    `validate()` is skipped so that rejected-but-applied combinations can still be compared)"""
    cls = type(obj)
    pv = obj.parameter_values
    pv = {k: (dict(v) if isinstance(v, dict) else v) for k, v in pv.items()}
    return type.__call__(cls, **pv)


def show(v):
    if isinstance(v, type):
        return f"<class {v.__name__}>"
    if isinstance(v, np.ndarray):
        return f"array(shape={v.shape})"
    if isinstance(v, dict):
        return "{" + ", ".join(f"{k!r}: {show(w)}" for k, w in v.items()) + "}"
    if hasattr(v, "name") and type(v).__module__.startswith("astropy"):
        return f"<cosmo {v.name}>"
    return repr(v)


class History:
    """a replayable history: list of JSON-able ops over pool indices"""

    def __init__(self, clsname, base_idx, ops):
        self.clsname, self.base_idx, self.ops = clsname, base_idx, ops

    def to_json(self):
        return {"cls": self.clsname, "base": self.base_idx, "ops": self.ops}


def gen_history(r, clsname, nops, only_valid=False):
    P = pools(clsname)
    qs = quantities(class_by_name(clsname))
    names = sorted(P)
    ops = []
    for _ in range(nops):
        x = r.random()
        if x < 0.40:
            ops.append(["read", r.sample(qs, min(len(qs), r.randint(1, 4)))])
        elif x < 0.80:
            ks = r.sample(names, min(len(names), r.randint(1, 3)))
            ops.append(["update", {k: r.randrange(len(P[k])) for k in ks}])
        elif x < 0.88:
            k = r.choice(names)
            ops.append(["set" if r.random() < 0.6 else "setv", k, r.randrange(len(P[k]))])
        elif x < 0.94:
            ks = r.sample(names, min(len(names), r.randint(0, 2)))
            ops.append(["clone", {k: r.randrange(len(P[k])) for k in ks}])
        elif x < 0.97:
            ops.append(["deepcopy"])
        else:
            ops.append(["pickle"])
    return History(clsname, 0, ops)


def run_history(h, check_every=True, qsubset=None, r=None, stop_on_first=True):
    """run on the real class; after every op compare the cached object with a fresh one.
    returns (violations, stats)"""
    init()
    cls = class_by_name(h.clsname)
    P = pools(h.clsname)
    qs = quantities(cls)
    stats = {"ops": 0, "rejected": 0, "reads": 0, "read_exc": 0, "compared": 0, "fresh_built": 0}
    viol = []
    with warnings.catch_warnings():
        warnings.simplefilter("ignore")
        np.seterr(all="ignore")
        obj = cls(**copy.deepcopy(BASE[h.clsname]))
        other = None
        for i, op in enumerate(h.ops):
            stats["ops"] += 1
            if op[0] in ("clone", "deepcopy", "pickle"):
                other = obj
            try:
                applied = {}
                before_dicts = {k_: copy.deepcopy(v_) for k_, v_ in obj.parameter_values.items() if isinstance(v_, dict)}
                pv_before = {k_: canon(v_) for k_, v_ in obj.parameter_values.items()} if op[0] in ("update", "set", "setv") else None
                obj_before = obj
                if op[0] == "read":
                    for q in op[1]:
                        rec = read(obj, q)
                        stats["reads"] += 1
                        if rec[0] == "exc":
                            stats["read_exc"] += 1
                            if is_internal(rec):
                                viol.append({"at": i, "kind": "bookkeeping-error", "quantity": q, "exc": rec[1:]})
                elif op[0] == "update":
                    obj.update(**{k: copy.deepcopy(P[k][j]) for k, j in op[1].items()})
                    applied = {k: P[k][j] for k, j in op[1].items()}
                elif op[0] == "set":
                    setattr(obj, op[1], copy.deepcopy(P[op[1]][op[2]]))
                    applied = {op[1]: P[op[1]][op[2]]}
                elif op[0] == "setv":
                    obj._validate_every_param_set = True
                    try:
                        setattr(obj, op[1], copy.deepcopy(P[op[1]][op[2]]))
                    finally:
                        obj._validate_every_param_set = False
                elif op[0] == "clone":
                    changes_ = {k: P[k][j] for k, j in op[1].items()}
                    # clone(**changes) is "an updated copy": its parameters are those of a deep copy updated with the same changes
                    try:
                        ref_ = copy.deepcopy(obj)
                        ref_.update(**copy.deepcopy(changes_))
                        want_ = canon(ref_.parameter_values)
                    except Exception:
                        want_ = None
                    obj = obj.clone(**copy.deepcopy(changes_))
                    if want_ is not None and canon(obj.parameter_values) != want_:
                        viol.append({"at": i, "kind": "clone-parameters-differ-from-updated-copy", "changes": show(changes_)})
                elif op[0] == "deepcopy":
                    obj = copy.deepcopy(obj)
                elif op[0] == "pickle":
                    obj = pickle.loads(pickle.dumps(obj))
            except Exception as e:
                stats["rejected"] += 1
                applied = {}
                rec = ("exc", type(e).__name__, str(e)[:80])
                if is_internal(rec):
                    viol.append({"at": i, "kind": "bookkeeping-error", "op": op, "exc": rec[1:]})
                # a rejected update / assignment changes no parameter other than the ones it names
                if pv_before is not None and obj is obj_before:
                    named = set(op[1]) if op[0] == "update" else {op[1]}
                    try:
                        now_ = {k_: canon(v_) for k_, v_ in obj.parameter_values.items()}
                        others = [k_ for k_ in pv_before if k_ not in named and now_.get(k_) != pv_before[k_]]
                    except Exception:
                        others = []
                    if others:
                        viol.append({"at": i, "kind": "rejected-change-altered-other-parameters", "op": show(op), "altered": others[:3],
                                     "before": {k_: show(pv_before[k_]) for k_ in others[:3]}, "after": {k_: show(now_.get(k_)) for k_ in others[:3]}})
            # parameters are the last applied: an accepted numeric value must be what the object now reports (however close to the old one)
            for k_, v_ in applied.items():
                if isinstance(v_, (int, float)) and not isinstance(v_, bool):
                    pv_ = obj.parameter_values.get(k_)
                    if not (isinstance(pv_, (int, float, np.integer, np.floating)) and float(pv_) == float(v_)):
                        viol.append({"at": i, "kind": "accepted-value-not-applied", "parameter": k_, "requested": repr(v_), "reported": repr(pv_)})
            # ... and an accepted dict is merged key-wise into the stored one ({} clears it), whatever the values are
            for k_, v_ in applied.items():
                if isinstance(v_, dict) and k_ in before_dicts and all(isinstance(x_, (int, float, str, bool, type(None))) for x_ in v_.values()):
                    want_d = {} if v_ == {} else dict(before_dicts[k_], **v_)
                    got_d = obj.parameter_values.get(k_)
                    if canon(got_d) != canon(want_d):
                        viol.append({"at": i, "kind": "accepted-dict-not-merged", "parameter": k_, "stored_before": show(before_dicts[k_]), "requested": show(v_), "reported": show(got_d), "expected": show(want_d)})
            if viol and stop_on_first:
                break
            # oracle
            try:
                fr = fresh_from(obj)
                stats["fresh_built"] += 1
            except Exception as e:
                # the current parameter values cannot even be passed to the constructor
                viol.append({"at": i, "kind": "fresh-construction-failed", "exc": (type(e).__name__, str(e)[:120])})
                break
            cq = qs if qsubset is None else qsubset
            if r is not None and len(cq) > 8:
                cq = r.sample(cq, 8)
            if other is not None:
                # the object this one was copied from keeps being used as well: it must stay coherent
                try:
                    fo = fresh_from(other)
                    for q in cq[:4]:
                        a, b = read(other, q), read(fo, q)
                        stats["compared"] += 1
                        if a != b and not (a[0] == "exc" and b[0] == "exc" and a[1] == b[1]):
                            viol.append({"at": i, "kind": "stale-or-different", "quantity": q, "object": "original-after-copy",
                                         "cached": a if a[0] == "exc" else "value", "fresh": b if b[0] == "exc" else "value", "internal": is_internal(a)})
                            break
                except Exception:
                    pass
                if viol and stop_on_first:
                    break
            for q in cq:
                a = read(obj, q)
                b = read(fr, q)
                stats["compared"] += 1
                if a != b:
                    if a[0] == "exc" and b[0] == "exc" and a[1] == b[1]:
                        continue
                    viol.append({"at": i, "kind": "stale-or-different", "quantity": q,
                                 "cached": a if a[0] == "exc" else "value", "fresh": b if b[0] == "exc" else "value",
                                 "internal": is_internal(a)})
                    break
            if viol and stop_on_first:
                break
    return viol, stats


def describe(h):
    P = pools(h.clsname)
    out = [f"obj = {h.clsname}(**{BASE[h.clsname]!r})"]
    for op in h.ops:
        if op[0] == "read":
            out.append("; ".join(f"obj.{q}" for q in op[1]))
        elif op[0] == "update":
            out.append("obj.update(" + ", ".join(f"{k}={show(P[k][j])}" for k, j in op[1].items()) + ")")
        elif op[0] == "set":
            out.append(f"obj.{op[1]} = {show(P[op[1]][op[2]])}")
        elif op[0] == "setv":
            out.append(f"obj._validate_every_param_set = True; obj.{op[1]} = {show(P[op[1]][op[2]])}; obj._validate_every_param_set = False")
        elif op[0] == "clone":
            out.append("obj = obj.clone(" + ", ".join(f"{k}={show(P[k][j])}" for k, j in op[1].items()) + ")")
        elif op[0] == "deepcopy":
            out.append("obj = copy.deepcopy(obj)")
        else:
            out.append("obj = pickle.loads(pickle.dumps(obj))")
    return out


def shrink(h, still_fails):
    ops = list(h.ops)
    i = 0
    while i < len(ops):
        cand = ops[:i] + ops[i + 1:]
        if still_fails(History(h.clsname, h.base_idx, cand)):
            ops = cand
        else:
            i += 1
    return History(h.clsname, h.base_idx, ops)


# ---------- the cosmology object of a framework is the base model with the overrides applied (independent expectation)
_COSMO_ATTRS = ("H0", "Om0", "Ode0", "Ob0", "Tcmb0", "Neff", "Ok0", "w0", "wa")


def cosmo_clone_mismatch(obj):
    """None when obj.cosmo is what `cosmo_model.clone(**cosmo_params)` gives (class and every defining attribute), else a description"""
    base = obj.cosmo_model
    want = base.clone(**dict(obj.cosmo_params)) if obj.cosmo_params else base
    got = obj.cosmo
    if type(got) is not type(want):
        return f"cosmo is a {type(got).__name__}, the model with the overrides applied is a {type(want).__name__}"
    bad = []
    for a in _COSMO_ATTRS:
        if hasattr(want, a) or hasattr(got, a):
            w, g = getattr(want, a, None), getattr(got, a, None)
            w = getattr(w, "value", w); g = getattr(g, "value", g)
            try:
                same = (w is None and g is None) or abs(float(w) - float(g)) <= 1e-14 * max(1.0, abs(float(w)))
            except Exception:
                same = (w == g)
            if not same:
                bad.append(f"{a}: {g!r} instead of {w!r}")
    return ("cosmo differs from cosmo_model.clone(**cosmo_params): " + ", ".join(bad)) if bad else None


def cosmology_scenarios(clsname, quantity, extra=None):
    """several objects in one process whose cosmologies differ but look alike to a careless key (same astropy `name`, same overrides;
    unnamed models; an exactly flat model of a non-flat class with Ode0 overridden): each object's cosmology is its own, and `quantity`
    equals that of an object given the *same* cosmology by another route (named base model + overrides).  Returns [(key, what, script)]."""
    init()
    import numpy as np, warnings
    from astropy.cosmology import Planck15, FlatLambdaCDM, LambdaCDM
    cls = class_by_name(clsname)
    base = dict(copy.deepcopy(BASE[clsname]), **(extra or {}))
    out = []
    with warnings.catch_warnings():
        warnings.simplefilter("ignore")
        np.seterr(all="ignore")
        seq = [("Planck15.clone(Om0=0.30)", Planck15.clone(Om0=0.30), {"H0": 70.0}, {"Om0": 0.30, "H0": 70.0}),
               ("Planck15.clone(Om0=0.22)", Planck15.clone(Om0=0.22), {"H0": 70.0}, {"Om0": 0.22, "H0": 70.0}),
               ("Planck15.clone(Om0=0.22)", Planck15.clone(Om0=0.22), {}, {"Om0": 0.22}),
               ("Planck15.clone(Om0=0.36)", Planck15.clone(Om0=0.36), {}, {"Om0": 0.36}),
               ("FlatLambdaCDM(H0=70, Om0=0.3, Tcmb0=2.7, Ob0=0.05)", FlatLambdaCDM(H0=70.0, Om0=0.3, Tcmb0=2.7, Ob0=0.05), {}, None),
               ("FlatLambdaCDM(H0=64, Om0=0.24, Tcmb0=2.7, Ob0=0.045)", FlatLambdaCDM(H0=64.0, Om0=0.24, Tcmb0=2.7, Ob0=0.045), {}, None),
               ("LambdaCDM(H0=70, Om0=0.3, Ode0=0.7, Tcmb0=0, Ob0=0.05, name='flatL')", LambdaCDM(H0=70.0, Om0=0.3, Ode0=0.7, Tcmb0=0.0, Ob0=0.05, name="flatL"), {"Ode0": 0.55}, None)]
        script = []
        for label, model, cp, route in seq:
            script.append(f"o = {clsname}(cosmo_model={label}, cosmo_params={cp}, ...); o.{quantity}")
            try:
                o = cls(**dict(copy.deepcopy(base), cosmo_model=model, cosmo_params=dict(cp)))
                val = read(o, quantity)
            except Exception as e:
                continue
            mm = cosmo_clone_mismatch(o)
            if mm:
                out.append(("cosmology/not-the-requested-one", f"{clsname}(cosmo_model={label}, cosmo_params={cp}): {mm}", list(script)))
                break
            if route is not None:
                ref = read(cls(**dict(copy.deepcopy(base), cosmo_model=Planck15, cosmo_params=dict(route))), quantity)
                if ref != val:
                    out.append(("cosmology/depends-on-earlier-objects", f"{clsname}(cosmo_model={label}, cosmo_params={cp}).{quantity} differs from the same cosmology given as Planck15 + {route}", list(script)))
                    break
        # the same on ONE object taken through these cosmologies by update()
        try:
            o = cls(**copy.deepcopy(base))
            read(o, quantity)
            script2 = [f"o = {clsname}(...); o.{quantity}"]
            for label, model, cp, route in seq:
                o.update(cosmo_model=model)
                o.update(cosmo_params={})
                if cp:
                    o.update(cosmo_params=dict(cp))
                script2.append(f"o.update(cosmo_model={label}); o.update(cosmo_params={{}}); o.update(cosmo_params={cp}); o.{quantity}")
                val = read(o, quantity)
                mm = cosmo_clone_mismatch(o)
                if mm:
                    out.append(("cosmology/not-the-requested-one/after-update", f"{clsname} after update(cosmo_model={label}, cosmo_params={cp}): {mm}", list(script2)))
                    break
        except Exception:
            pass
    return out
