"""K1: random class descriptors -> (a) request lines for the Lean machine M', (b) real Python classes
built with the *real* `parameter` / `cached_quantity` / `Framework` from /repo/src, whose bodies
interpret the same read programs.  Histories are run on both and compared per projection."""
import copy, warnings
from common import *

# ---- oracle shared with Lean (HmfVerif/Model/CacheIO.lean: hV / oracleI / oracleN)
M = 1000003


def hV(v):
    if isinstance(v, int):
        return v % M
    if isinstance(v, tuple):
        _, k, a, b = v
        return (k + 3 * hV(a) + 5 * hV(b) + 1) % M
    if isinstance(v, dict):
        acc = 2
        for k in sorted(v):
            acc = acc + k * 31 + v[k] + 7
        return acc % M
    raise TypeError(v)


def oracle_I(c, v):
    return (c * 7 + hV(v)) % 3 == 0


def oracle_N(c, v):
    return v - v % 2 if isinstance(v, int) else v


class U(Exception):
    def __init__(self, c):
        super().__init__(f"user{c}")
        self.c = c


# user code raises all sorts of exception classes; the caching layer must treat them alike (the model does)
class UImport(U, ImportError):
    pass


class UValue(U, ValueError):
    pass


class UKey(U, LookupError):
    pass


class UArith(U, ArithmeticError):
    pass


class UAttr(U, AttributeError):
    pass


def user_exception(c):
    return (U, UImport, UValue, UKey, UArith, UAttr)[c % 6](c)


def show_val(v):
    if isinstance(v, bool):
        return f"BOOL{v}"
    if isinstance(v, int):
        return f"a{v}"
    if isinstance(v, tuple):
        return f"(n{v[1]} {show_val(v[2])} {show_val(v[3])})"
    if isinstance(v, dict):
        return "{" + ",".join(f"{k}:{v[k]}" for k in sorted(v)) + "}"
    return f"?{v!r}"


# ---- terms as nested tuples: ('p',n) ('q',n) ('s',o,n) ('c',k) ('P',k,a,b) ('I',c,g,t,e) ('R',c,g,k)
def ser_tm(t):
    tag = t[0]
    if tag in "pqc":
        return f"{tag} {t[1]}"
    if tag == "s":
        return f"s {t[1]} {t[2]}"
    if tag == "P":
        return f"P {t[1]} {ser_tm(t[2])} {ser_tm(t[3])}"
    if tag == "I":
        return f"I {t[1]} {ser_tm(t[2])} {ser_tm(t[3])} {ser_tm(t[4])}"
    if tag == "R":
        return f"R {t[1]} {ser_tm(t[2])} {ser_tm(t[3])}"
    raise ValueError(t)


def ser_val(v):
    if isinstance(v, int):
        return f"a {v}"
    return f"d {len(v)} " + " ".join(f"{k} {v[k]}" for k in v) if v else "d 0"


def ser_vd(vd):
    return vd[0] if vd[0] == "id" else f"{vd[0]} {vd[1]}"


def ser_op(op):
    if op[0] in "Gg":
        return f"{op[0]} {op[1]}"
    if op[0] in "SV":
        return f"{op[0]} {op[1]} {ser_val(op[2])}"
    if op[0] == "U":
        return f"U {len(op[1])} " + " ".join(f"{n} {ser_val(v)}" for n, v in op[1])
    raise ValueError(op)


KINDS = ["param", "model", "res", "option", "switch"]


def kind_of(n, P):
    return KINDS[(n * 7 + P) % 5]


class Desc:
    """nparams, vds[n], isdict[n], layers: list of {name: tm}, validate tm, init values, ops"""

    def line(self):
        bodies = [(o, n, t) for o, layer in enumerate(self.layers) for n, t in layer.items()]
        res = {}
        for o, layer in enumerate(self.layers):
            for n in layer:
                res[n] = o
        parts = ["ENV", str(self.np), *[ser_vd(v) for v in self.vds],
                 *[("1" if kind_of(n, self.np) == "switch" else "0") for n in range(self.np)], str(len(bodies)),
                 *[f"{o} {n} {ser_tm(t)}" for o, n, t in bodies], ser_tm(self.validate),
                 "RES", str(len(res)), *[f"{n} {o}" for n, o in res.items()],
                 "INIT", *[ser_val(v) for v in self.init],
                 "OPS", str(len(self.ops)), *[ser_op(o) for o in self.ops]]
        return " ".join(parts)

    def to_json(self):
        return {"np": self.np, "vds": self.vds, "isdict": self.isdict, "layers": [{str(k): v for k, v in l.items()} for l in self.layers],
                "validate": self.validate, "init": self.init, "ops": self.ops}

    @staticmethod
    def from_json(j):
        d = Desc()
        tup = lambda x: tuple(tup(y) for y in x) if isinstance(x, list) else x
        d.np = j["np"]; d.vds = [tuple(v) for v in j["vds"]]; d.isdict = j["isdict"]
        d.layers = [{int(k): tup(v) for k, v in l.items()} for l in j["layers"]]
        d.validate = tup(j["validate"])
        fixv = lambda v: {int(k): w for k, w in v.items()} if isinstance(v, dict) else v
        d.init = [fixv(v) for v in j["init"]]
        ops = []
        for o in j["ops"]:
            if o[0] in "Gg": ops.append((o[0], o[1]))
            elif o[0] in "SV": ops.append((o[0], o[1], fixv(o[2])))
            else: ops.append(("U", [(n, fixv(v)) for n, v in o[1]]))
        d.ops = ops
        return d


def gen_desc(r, max_ops=40, p_raise=0.08, p_rej=0.4):
    d = Desc()
    d.np = P = r.randint(2, 6)
    Q = r.randint(2, 8)
    L = r.randint(1, 3)
    d.isdict = [r.random() < 0.25 for _ in range(P)]
    d.vds = []
    for n in range(P):
        if d.isdict[n]:
            d.vds.append(("id",) if r.random() < 0.7 else ("rej", r.randint(1, 30)))
        else:
            if r.random() < p_rej:
                d.vds.append(r.choice([("rej", r.randint(1, 30)), ("nrej", r.randint(1, 30))]))
            else:
                d.vds.append(r.choice([("id",), ("id",), ("norm", r.randint(1, 9))]))
    qnames = list(range(P, P + Q))

    def gen_tm(depth, j, layer, name, allow_raise=True):
        # j: quantities with index < j may be read
        x = r.random()
        if depth <= 0 or x < 0.25:
            y = r.random()
            if y < 0.5 or j == 0:
                return ("p", r.randrange(P)) if y < 0.9 else ("c", r.randint(0, 9))
            return ("q", qnames[r.randrange(j)])
        if x < 0.60:
            return ("P", r.randint(0, 9), gen_tm(depth - 1, j, layer, name, allow_raise), gen_tm(depth - 1, j, layer, name, allow_raise))
        if x < 0.82:
            return ("I", r.randint(0, 40), gen_tm(depth - 1, j, layer, name, allow_raise), gen_tm(depth - 1, j, layer, name, allow_raise), gen_tm(depth - 1, j, layer, name, allow_raise))
        if x < 0.82 + p_raise and allow_raise:
            return ("R", r.randint(1, 40), gen_tm(depth - 1, j, layer, name, allow_raise), gen_tm(depth - 1, j, layer, name, allow_raise))
        if layer > 0 and name is not None:
            owner = max(o for o in range(layer) if name in d.layers[o])
            return ("s", owner, name)
        return ("p", r.randrange(P))

    d.layers = []
    for layer in range(L):
        bodies = {}
        d.layers.append(bodies)
        for j, n in enumerate(qnames):
            if layer == 0 or r.random() < 0.35:
                bodies[n] = gen_tm(r.randint(1, 3), j, layer, n)
    d.validate = gen_tm(2, Q, 0, None, allow_raise=r.random() < 0.5) if r.random() < 0.7 else ("c", 0)

    def gen_val(n):
        if d.isdict[n]:
            k = r.choice([0, 1, 1, 2])
            return {r.randint(0, 3): r.randint(0, 3) for _ in range(k)}
        return r.randint(0, 7)

    d.gen_val = gen_val
    d.init = []
    for n in range(P):
        v = gen_val(n)
        for _ in range(30):
            if d.vds[n][0] in ("rej", "nrej") and oracle_I(d.vds[n][1], v):
                v = gen_val(n)
            else:
                break
        d.init.append(v)
    ops = []
    for _ in range(r.randint(5, max_ops)):
        x = r.random()
        if x < 0.45:
            ops.append(("G", r.choice(qnames)))
        elif x < 0.50:
            ops.append(("g", r.randrange(P)))
        elif x < 0.70:
            n = r.randrange(P)
            ops.append(("S" if r.random() < 0.7 else "V", n, gen_val(n)))
        else:
            kw = []
            for n in r.sample(range(P), r.randint(0, min(P, 3))):
                kw.append((n, gen_val(n)))
            if r.random() < 0.08:
                kw.insert(r.randrange(len(kw) + 1), (1000 + r.randint(0, 5), r.randint(0, 3)))
            ops.append(("U", kw))
    if r.random() < 0.3:
        # an "echo": a few reads, then one update() call re-applying every initial value (all parameters at once, in declaration or
        # reverse order), then reads again — setting values equal to the current ones must execute nothing, whatever the names are
        import copy as _copy
        pre = [("G", r.choice(qnames)) for _ in range(r.randint(1, 4))]
        order = list(range(P)) if r.random() < 0.5 else list(range(P))[::-1]
        echo = ("U", [(n, _copy.deepcopy(d.init[n])) for n in order])
        post = [("G", q) for q in r.sample(qnames, min(len(qnames), 3))]
        ops = pre + [echo] + post + ops
    d.ops = ops
    return d


TRACE = []


def build_class(d, cache_mod, fw_mod, tag="K"):
    """Materialise the descriptor with the real decorators."""
    P = d.np
    # names matter to the real framework code (`*_params` keys are looked at by update(); models and their parameter dictionaries come in
    # `<x>_model` / `<x>_params` pairs): half of the synthetic classes name the scalar parameter preceding a dict parameter as its model
    paired = (P + len(d.ops)) % 2 == 0

    def pname(n):
        if n >= P:
            return f"zz{n}"
        if d.isdict[n]:
            return f"d{n}_params"
        if paired and n + 1 < P and d.isdict[n + 1]:
            return f"d{n + 1}_model"
        return f"p{n}"
    qname = lambda n: f"q{n}"
    resolve = {}
    for o, layer in enumerate(d.layers):
        for n in layer:
            resolve[n] = o
    classes = []

    def ev(t, self, cls):
        tag_ = t[0]
        if tag_ == "p":
            return getattr(self, pname(t[1]))
        if tag_ == "q":
            return getattr(self, qname(t[1]))
        if tag_ == "s":
            return getattr(super(cls, self), qname(t[2]))
        if tag_ == "c":
            return t[1]
        if tag_ == "P":
            a = ev(t[2], self, cls)
            b = ev(t[3], self, cls)
            return ("n", t[1], a, b)
        if tag_ == "I":
            g = ev(t[2], self, cls)
            return ev(t[3] if oracle_I(t[1], g) else t[4], self, cls)
        if tag_ == "R":
            g = ev(t[2], self, cls)
            if oracle_I(t[1], g):
                raise user_exception(t[1])
            return ev(t[3], self, cls)
        raise ValueError(t)

    def mk_param(n):
        vd = d.vds[n]

        def f(self, val):
            if vd[0] in ("rej", "nrej") and oracle_I(vd[1], val):
                raise user_exception(vd[1])
            if vd[0] in ("norm", "nrej"):
                return oracle_N(vd[1], val)
            return val
        f.__name__ = pname(n)
        f.__doc__ = "p"
        return cache_mod.parameter(r_kind(n))(f)

    r_kind = lambda n: kind_of(n, P)

    base = fw_mod.Framework
    for o, layer in enumerate(d.layers):
        ns = {}
        if o == 0:
            def __init__(self, **kw):
                for n in range(P):
                    setattr(self, pname(n), kw[pname(n)])
            ns["__init__"] = __init__
            for n in range(P):
                ns[pname(n)] = mk_param(n)

        cell = {}

        def mk_q(n, t, o=o, cell=cell):
            def f(self):
                if resolve[n] == o:
                    TRACE.append(n)
                return ev(t, self, cell["cls"])
            f.__name__ = qname(n)
            return cache_mod.cached_quantity(f)
        for n, t in layer.items():
            ns[qname(n)] = mk_q(n, t)
        if o == len(d.layers) - 1:
            vt = d.validate

            def validate(self, cell=cell):
                ev(vt, self, cell["cls"])
            ns["validate"] = validate
        cls = type(base)(f"{tag}{o}", (base,), ns)
        cell["cls"] = cls
        classes.append(cls)
        base = cls
    return classes[-1], pname, qname


def canon_exc(e):
    if isinstance(e, U):
        return f"x:u{e.c}"
    if isinstance(e, ValueError) and str(e).startswith("Invalid arguments"):
        return "x:kw"
    return f"x:internal:{type(e).__name__}:{str(e)[:60]}"


def run_python(d, cache_mod, fw_mod):
    """Run the case on the real decorators; same record format as the Lean driver."""
    cls, pname, qname = build_class(d, cache_mod, fw_mod)
    del TRACE[:]
    recs = []
    with warnings.catch_warnings():
        warnings.simplefilter("ignore")
        try:
            obj = cls(**{pname(n): copy.deepcopy(d.init[n]) for n in range(d.np)})
        except Exception as e:
            tr = " ".join(map(str, TRACE))
            out = canon_exc(e)
            # constructor: validator failure happens before validate()
            return f"ctor:{out}" if not TRACE and not _validate_started(e) else f"ctor:{out}|{tr}"
        recs.append("ctor:u|" + " ".join(map(str, TRACE)))
        for op in d.ops:
            del TRACE[:]
            try:
                if op[0] == "G":
                    out = "v:" + show_val(getattr(obj, qname(op[1])))
                elif op[0] == "g":
                    out = "v:" + show_val(getattr(obj, pname(op[1])))
                elif op[0] == "S":
                    setattr(obj, pname(op[1]), copy.deepcopy(op[2]))
                    out = "u"
                elif op[0] == "V":
                    obj._validate_every_param_set = True
                    try:
                        setattr(obj, pname(op[1]), copy.deepcopy(op[2]))
                    finally:
                        obj._validate_every_param_set = False
                    out = "u"
                else:
                    obj.update(**{pname(n): copy.deepcopy(v) for n, v in op[1]})
                    out = "u"
            except Exception as e:
                out = canon_exc(e)
            recs.append(out + "|" + " ".join(map(str, TRACE)))
        try:
            pvs = " ".join(show_val(getattr(obj, pname(n))) for n in range(d.np))
        except Exception as e:
            pvs = canon_exc(e)
    return ";".join(recs) + ";pv:" + pvs, obj


def _validate_started(e):
    import traceback
    return any(fr.name == "validate" for fr in traceback.extract_tb(e.__traceback__))


def project(rec_line):
    """split an answer into the per-property projections"""
    recs = rec_line.split(";")
    outs, traces, pv = [], [], None
    for r in recs:
        if r.startswith("pv:"):
            pv = r
        else:
            o, _, t = r.partition("|")
            outs.append(o)
            traces.append(t)
    return outs, traces, pv
