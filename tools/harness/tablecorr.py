"""Correspondence of the hand-written Lean model `Hmf.Table` (FromFile.lnt / FromArray.lnt / _check_low_k) with the real code:
random tables (flat, steep, with a low-k turn-up, noisy starts) x random requests (starting below / exactly at / inside the table,
reaching beyond its end) -> the real FromArray.lnt and FromFile.lnt vs the driver's `TABLE lnt` at Float (tolerance 1e-9: scipy's
degree-1 B-spline evaluates the same straight lines with a different operation order)."""
import os, tempfile, shutil, warnings
import numpy as np
from common import *
from exprcorr import bits, unbits, close


def gen_table(r):
    n = r.choice([2, 3, 4, 6, 12, 40])
    lo = r.uniform(-14.0, -2.0)
    lnk = np.sort(np.array([lo + i * r.uniform(0.05, 0.6) for i in range(n)]) + 0.0)
    lnk = lo + np.cumsum(np.array([0.0] + [r.uniform(0.05, 0.6) for _ in range(n - 1)]))
    kind = r.choice(["flat-start", "steep", "turn-up", "noisy", "late-flat", "exactly-flat"])
    x = lnk - lnk[0]
    if kind == "flat-start":
        lnT = -1e-6 * x - 0.02 * np.maximum(x - 2.0, 0) ** 2
    elif kind == "steep":
        lnT = -0.3 * x - 0.05 * x ** 2
    elif kind == "turn-up":
        lnT = 0.03 * np.exp(-x / 0.3) - 0.02 * np.maximum(x - 3.0, 0) ** 2
    elif kind == "noisy":
        lnT = np.array([r.uniform(-0.01, 0.0) for _ in range(n)]) - 0.1 * np.maximum(x - 1.0, 0)
    elif kind == "late-flat":
        lnT = np.where(x < x[min(n - 1, 2)], -0.2 * x, -0.2 * x[min(n - 1, 2)]) - 1e-5 * x
    else:
        lnT = np.zeros(n) - 0.4 * np.maximum(x - x[n // 2], 0)
    if r.random() < 0.3:
        lnT = lnT + r.uniform(2.0, 8.0)          # raw-unit tables
    return lnk, np.asarray(lnT, float), kind


def gen_request(r, lnk):
    mode = r.choice(["below", "equal", "inside", "second-node", "far-below"])
    first = {"below": lnk[0] - r.uniform(0.01, 3.0), "equal": lnk[0], "inside": lnk[0] + r.uniform(0.0, 1.0) * (lnk[-1] - lnk[0]) * 0.5,
             "second-node": lnk[1], "far-below": lnk[0] - r.uniform(5.0, 12.0)}[mode]
    m = r.randint(1, 12)
    top = lnk[-1] + (r.uniform(0.1, 3.0) if r.random() < 0.4 else -r.uniform(0.0, 0.3) * (lnk[-1] - lnk[0]))
    rest = sorted(r.uniform(first, max(top, first + 0.1)) for _ in range(m - 1))
    req = [first] + rest
    if r.random() < 0.5:                                  # put some nodes in
        req = sorted(set(req + [float(z) for z in lnk if z >= first][: r.randint(0, 6)]))
    return np.array(req, float), mode


def run_corr(n_cases, tag="tablecorr"):
    import realfuzz
    realfuzz.init()
    from hmf.density_field import transfer_models as tm
    from astropy.cosmology import Planck15
    r = rng(tag)
    tmp = tempfile.mkdtemp(prefix="tablecorr", dir=os.path.join(VERIF, ".work"))
    lines, exp, meta = [], [], []
    stats = {"cases": 0, "table_kinds": {}, "request_modes": {}, "branch_below": 0, "start_positive": 0, "caller_arrays_modified": 0}
    bad = []
    try:
        with warnings.catch_warnings():
            warnings.simplefilter("ignore")
            np.seterr(all="ignore")
            for c in range(n_cases):
                lnk, lnT, kind = gen_table(r)
                req, mode = gen_request(r, lnk)
                k, T = np.exp(lnk), np.exp(lnT)
                lk, lT = np.log(k), np.log(T)             # what the implementation itself will see
                if mode == "equal":
                    req[0] = lk[0]
                elif mode == "second-node":
                    req[0] = lk[1]; req = np.sort(req)
                k0, T0, req0 = k.copy(), T.copy(), req.copy()
                got_a = np.asarray(tm.FromArray(Planck15, k=k, T=T).lnt(req), float)
                if not (np.array_equal(k, k0) and np.array_equal(T, T0) and np.array_equal(req, req0)):
                    stats["caller_arrays_modified"] += 1
                    k, T, req = k0.copy(), T0.copy(), req0.copy()
                line = "TABLE lnt %d %d " % (len(lk), len(req)) + " ".join(bits(x) for x in list(lk) + list(lT) + list(req))
                lines.append(line); exp.append(("FromArray", got_a)); meta.append((kind, mode, lk, lT, req))
                if c % 3 == 0:
                    fn = os.path.join(tmp, "t.dat")
                    np.savetxt(fn, np.column_stack([k, T]))
                    tab = np.log(np.genfromtxt(fn)[:, [0, 1]].T)
                    reqf = req.copy()
                    if mode == "equal":
                        reqf[0] = tab[0, 0]
                    got_f = np.asarray(tm.FromFile(Planck15, fname=fn).lnt(reqf), float)
                    lines.append("TABLE lnt %d %d " % (tab.shape[1], len(reqf)) + " ".join(bits(x) for x in list(tab[0]) + list(tab[1]) + list(reqf)))
                    exp.append(("FromFile", got_f)); meta.append((kind, mode, tab[0], tab[1], reqf))
                stats["cases"] += 1
                stats["table_kinds"][kind] = stats["table_kinds"].get(kind, 0) + 1
                stats["request_modes"][mode] = stats["request_modes"].get(mode, 0) + 1
                if req[0] < lk[0]:
                    stats["branch_below"] += 1
            # the `start` index, to know how often the patch actually cuts rows
            slines = ["TABLE start %d " % len(m_[2]) + " ".join(bits(x) for x in list(m_[2]) + list(m_[3])) for m_ in meta]
            res = lean_driver(lines + slines)
    finally:
        shutil.rmtree(tmp, ignore_errors=True)
    vals, starts = res[:len(lines)], res[len(lines):]
    for (name, got), ans, st, (kind, mode, lk, lT, req) in zip(exp, vals, starts, meta):
        try:
            model = np.array([unbits(x) for x in ans.split()], float)
            if int(st) > 0 and req[0] < lk[0]:
                stats["start_positive"] += 1
        except Exception:
            model = None
        scale = max(1.0, float(np.max(np.abs(lT))))
        if model is None or model.shape != got.shape or not np.allclose(model, got, rtol=1e-9, atol=1e-9 * scale, equal_nan=True):
            bad.append({"model": name, "table_kind": kind, "request": mode, "lnk": [float(x) for x in lk], "lnT": [float(x) for x in lT], "req": [float(x) for x in req],
                        "impl": [float(x) for x in got], "lean": ans if model is None else [float(x) for x in model], "start": st})
    return stats, bad


def minimise(b):
    """shrink a disagreeing case: fewer request points (keeping the first), then fewer table rows"""
    import realfuzz
    realfuzz.init()
    from hmf.density_field import transfer_models as tm
    from astropy.cosmology import Planck15

    def disagree(lk, lT, req):
        with warnings.catch_warnings():
            warnings.simplefilter("ignore")
            try:
                got = np.asarray(tm.FromArray(Planck15, k=np.exp(np.array(lk)), T=np.exp(np.array(lT))).lnt(np.array(req, float)), float)
            except Exception:
                return False
        # the implementation sees log(exp(.)); feed the model the same
        lk2, lT2 = np.log(np.exp(np.array(lk))), np.log(np.exp(np.array(lT)))
        ans = lean_driver(["TABLE lnt %d %d " % (len(lk2), len(req)) + " ".join(bits(x) for x in list(lk2) + list(lT2) + list(req))])[0]
        try:
            model = np.array([unbits(x) for x in ans.split()], float)
        except Exception:
            return True
        return model.shape != got.shape or not np.allclose(model, got, rtol=1e-9, atol=1e-9 * max(1.0, float(np.max(np.abs(lT2)))))
    lk, lT, req = list(b["lnk"]), list(b["lnT"]), list(b["req"])
    if not disagree(lk, lT, req):
        return b
    changed = True
    while changed:
        changed = False
        for i in range(len(req) - 1, 0, -1):
            r2 = req[:i] + req[i + 1:]
            if disagree(lk, lT, r2):
                req = r2; changed = True
        for i in range(len(lk) - 1, -1, -1):
            if len(lk) <= 2:
                break
            k2, t2 = lk[:i] + lk[i + 1:], lT[:i] + lT[i + 1:]
            if disagree(k2, t2, req):
                lk, lT = k2, t2; changed = True
    return dict(b, lnk=lk, lnT=lT, req=req, minimised=True)
