"""maintain MANIFEST.json:  manifest_add.py <ID> '<level text>' '<level note>' '<technique>' [design_ref]"""
import json, sys
pid, text, note, tech = sys.argv[1:5]
ref = sys.argv[5] if len(sys.argv) > 5 else f"DESIGN.md §4 {pid}"
m = json.load(open('/verif/MANIFEST.json'))
m['checks'] = [c for c in m['checks'] if c['property_id'] != pid]
m['checks'].append({
    "property_id": pid, "quick_cmd": f"./check {pid} --tier quick", "thorough_cmd": f"./check {pid} --tier thorough",
    "evidence_file": f"evidence/{pid}.json", "replay_cmd_template": f"./check {pid} --replay {{path}}", "engine": "lean-model",
    "level_claimed": {"category": "proof", "design_ref": ref, "text": text}, "level_note": note, "technique": tech})
m['checks'].sort(key=lambda c: c['property_id'])
claimed = {c['property_id'] for c in m['checks']}
m['not_applicable'] = [n for n in m.get('not_applicable', []) if n['property_id'] not in claimed]
for e in m['engines']:
    e['serves_properties'] = sorted(claimed)
json.dump(m, open('/verif/MANIFEST.json', 'w'), indent=1)
print(sorted(claimed))
