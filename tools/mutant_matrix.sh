#!/bin/bash
# usage: tools/mutant_matrix.sh "<ids to run>" <mutdir>...   — runs quick checks against each mutant in a scratch copy
# of /verif and a scratch worktree of /repo (so /repo and /verif stay usable meanwhile); results -> /verif/.work/matrix/
ids="$1"; shift
V=/tmp/vcopy; W=/tmp/wt_mut
rm -rf $V; mkdir -p $V; rsync -a --exclude .git --exclude .work --exclude replays /verif/ $V/
git -C /repo worktree remove --force $W 2>/dev/null; git -C /repo worktree add -q --detach $W HEAD
mkdir -p /verif/.work/matrix
for mut in "$@"; do
  tag=$(echo "$mut" | sed 's#/tmp/mut_##; s#/#_#g')
  git -C $W apply "$mut/patch.diff" || { echo "APPLY-FAILED" > /verif/.work/matrix/$tag.txt; continue; }
  : > /verif/.work/matrix/$tag.txt
  for id in $ids; do
    out=$(cd $V && HMF_REPO=$W ./check $id --tier quick 2>&1 | grep -E "^VIOLATION|^KNOWN|^C[0-9]+:|INFRA" | cut -c1-200 | tail -3)
    echo "[$id] $out" >> /verif/.work/matrix/$tag.txt
  done
  git -C $W checkout -- .
done
(cd $V && HMF_REPO=$W /venv/bin/python -B tools/gen_all.py >/dev/null)
git -C /repo worktree remove --force $W; rm -rf $V
echo MATRIX-DONE
