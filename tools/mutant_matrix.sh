#!/bin/bash
# usage: LANE=<n> tools/mutant_matrix.sh "<ids to run>" <mutdir>...   — runs quick checks against each seeded change in a
# scratch copy of /verif and a scratch worktree of /repo (so /repo and /verif stay usable meanwhile; several lanes can
# run side by side); results -> /verif/.work/matrix/<tag>.txt.  Scratch copies are removed at the end.
ids="$1"; shift
L=${LANE:-0}; V=/tmp/vcopy_$L; W=/tmp/wt_mut_$L
rm -rf $V; mkdir -p $V; rsync -a --exclude .git --exclude .work --exclude replays --exclude seeded /verif/ $V/
git -C /repo worktree remove --force $W 2>/dev/null; git -C /repo worktree add -q --detach $W HEAD
mkdir -p /verif/.work/matrix
for mut in "$@"; do
  tag=$(basename "$mut")
  git -C $W apply "$mut/patch.diff" || { echo "APPLY-FAILED" > /verif/.work/matrix/$tag.txt; continue; }
  touch /verif/.work/matrix/$tag.txt   # results are appended; the meta generator takes the latest line per check
  for id in $ids; do
    out=$(cd $V && HMF_REPO=$W timeout 1500 ./check $id --tier quick 2>&1 | grep -E "^VIOLATION|^KNOWN|^C[0-9]+:|INFRA" | cut -c1-200 | tail -3 | tr '\n' ' ')
    echo "[$id] $out" >> /verif/.work/matrix/$tag.txt
  done
  git -C $W checkout -- .
done
git -C /repo worktree remove --force $W; rm -rf $V
echo MATRIX-DONE lane $L
