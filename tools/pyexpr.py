"""pyexpr: static translator (stdlib `ast`; never imports the code under test) of the closed-form numerical bodies of
/repo/src/hmf into deep-embedded expression terms (lean/HmfVerif/Gen/Expr*.lean) + a JSON mirror for the harness.

Symbolic execution of straight-line Python with if/else merging:
  * locals, `self.<attr>` set in `__init__` chains (base first), `self.params[...]` overrides, properties and helper
    methods along the MRO (inlined), `super().x`;
  * numpy elementwise ufuncs, arithmetic, `**` (integer-literal exponent -> powi, else pow), `np.where`/`if` -> ite,
    `min`/`max`;
  * anything else becomes an *opaque local* (`loc:<func>.<name>`, observed by the harness through tracing) or an opaque
    call (`call`), never a guess.  Non-elementwise numpy operations become `nonElem` nodes."""
import ast, re, os, sys, json, decimal

SRC = os.path.join(os.environ.get("HMF_REPO", "/repo"), "src", "hmf")
UFUNC = {"exp": "exp", "log": "log", "sqrt": "sqrt", "abs": "abs", "cosh": "cosh", "sin": "sin", "cos": "cos", "log10": "log10", "fabs": "abs"}
NONELEM = {"cumsum", "sum", "flip", "sort", "argsort", "diff", "gradient", "roll", "cumprod", "trapz", "max", "min", "mean", "interp", "convolve", "concatenate", "hstack"}
CMP = {ast.Lt: "lt", ast.LtE: "le", ast.Gt: "gt", ast.GtE: "ge", ast.Eq: "eq", ast.NotEq: "ne"}


class Unsupported(Exception):
    pass


def lit(v):
    if isinstance(v, bool):
        raise Unsupported("bool literal")
    if isinstance(v, int):
        return ("lit", v, 0)
    d = decimal.Decimal(repr(float(v)))
    sign, digits, exp = d.as_tuple()
    m = int("".join(map(str, digits))) * (-1 if sign else 1)
    while m % 10 == 0 and m != 0:
        m //= 10
        exp += 1
    return ("lit", m, exp)


def lit_value(t):
    return t[1] * (10.0 ** t[2]) if t[2] >= 0 else t[1] / (10.0 ** (-t[2]))


class Module:
    def __init__(self, rel):
        self.rel = rel
        self.tree = ast.parse(open(os.path.join(SRC, rel)).read())
        self.classes = {}
        self.funcs = {}
        for n in ast.walk(self.tree):
            if isinstance(n, ast.ClassDef):
                self.classes.setdefault(n.name, n)
        for n in self.tree.body:
            if isinstance(n, ast.FunctionDef):
                self.funcs[n.name] = n

    def bases(self, c):
        out = []
        for b in self.classes[c].bases:
            n = b.id if isinstance(b, ast.Name) else (b.attr if isinstance(b, ast.Attribute) else None)
            if n in self.classes:
                out.append(n)
        return out

    def mro(self, c):
        out = [c]
        for b in self.bases(c):
            out += [x for x in self.mro(b) if x not in out]
        return out

    def find(self, c, name, start=0):
        for k in self.mro(c)[start:]:
            for n in self.classes[k].body:
                if isinstance(n, ast.FunctionDef) and n.name == name:
                    return k, n
        return None, None

    def class_attr(self, c, name):
        for k in self.mro(c):
            for n in self.classes[k].body:
                if isinstance(n, ast.Assign) and len(n.targets) == 1 and isinstance(n.targets[0], ast.Name) and n.targets[0].id == name:
                    return k, n.value
        return None, None

    def subclasses(self, base):
        return [c for c in self.classes if base in self.mro(c) and c != base]


def simple_helper(fn):
    """a module-level function that is plain arithmetic on its arguments (assignments, conditionals, returns; calls only to numpy
    ufuncs, to its own parameters or to methods of its parameters): safe to inline. Anything with loops, solvers, I/O stays a call."""
    params = {a.arg for a in fn.args.args}
    ok_calls = {"np." + u for u in UFUNC} | {"np.power", "np.square", "np.absolute", "np.where", "np.minimum", "np.maximum", "abs", "min", "max", "float", "np.float64"}

    def stmts(body):
        for s_ in body:
            if isinstance(s_, ast.Expr) and isinstance(s_.value, ast.Constant):
                continue
            if isinstance(s_, ast.If):
                if not (stmts(s_.body) and stmts(s_.orelse)):
                    return False
                continue
            if not isinstance(s_, (ast.Assign, ast.AugAssign, ast.Return)):
                return False
        return True
    if not stmts(fn.body):
        return False
    for n_ in ast.walk(fn):
        if isinstance(n_, (ast.ListComp, ast.GeneratorExp, ast.DictComp, ast.Lambda, ast.Subscript)):
            return False
        if isinstance(n_, ast.Call):
            f_ = ast.unparse(n_.func)
            root = f_.split(".")[0]
            if not (f_ in ok_calls or root in params):
                return False
    return True


def tuple_proj(t, i, n):
    """component i of a tuple-valued term (conditionals are distributed)"""
    if t[0] == "tuple":
        if len(t) - 1 != n:
            raise Unsupported("tuple arity")
        return t[1 + i]
    if t[0] == "ite":
        a, b = tuple_proj(t[2], i, n), tuple_proj(t[3], i, n)
        return ("ite", t[1], a, b) if a != b else a
    raise Unsupported("unpacking a non-tuple")


class Tr:
    """symbolic executor for one class"""

    def __init__(self, mod, cls, inputs, cosmo_attrs=True, self_calls=None, flow=False):
        self.flow = flow
        self.mod, self.cls = mod, cls
        self.inputs = inputs            # self.<attr> names that are inputs (vars)
        self.notes = []                 # untranslatable pieces (reported, never guessed)
        self.attrs = None               # self.<attr> computed by __init__ chain
        self.pover = None               # self.params[...] overrides
        self.depth = 0
        self.self_calls = self_calls or {}
        self.ctor_flags = []

    # ---- constructor chain
    def load_init(self):
        if self.attrs is not None:
            return
        self.attrs, self.pover = {}, {}
        for k in reversed(self.mod.mro(self.cls)):
            for n in self.mod.classes[k].body:
                if isinstance(n, ast.FunctionDef) and n.name in ("__init__", "_set_params"):
                    env = {a.arg: ("var", a.arg) for a in n.args.args[1:]}
                    self.run_ctor(n.body, env, k, n.name)

    def run_ctor(self, body, env, k, fname):
        for s in body:
            if isinstance(s, ast.Expr) and isinstance(s.value, ast.Call) and isinstance(s.value.func, ast.Attribute) \
                    and isinstance(s.value.func.value, ast.Name) and s.value.func.value.id == "self" and not s.value.args and not s.value.keywords:
                # the constructor delegates part of its work to a private method of the same class: run it in place
                kk_, fm_ = self.mod.find(self.cls, s.value.func.attr)
                if fm_ is not None and not fm_.decorator_list and self.depth < 6:
                    self.depth += 1
                    try:
                        self.run_ctor(fm_.body, {}, kk_, fm_.name)
                    finally:
                        self.depth -= 1
                continue
            if isinstance(s, ast.Expr) and isinstance(s.value, ast.Call) and ast.unparse(s.value.func) == "self.params.update" and len(s.value.args) == 1 \
                    and not s.value.keywords:
                # `self.params.update({...})` with statically known keys is a sequence of `self.params[key] = value`
                try:
                    arg = s.value.args[0]
                    pairs_ = None
                    if isinstance(arg, ast.Dict) and all(isinstance(kx, ast.Constant) and isinstance(kx.value, str) for kx in arg.keys):
                        pairs_ = [(kx.value, self.expr(vx, env, k)) for kx, vx in zip(arg.keys, arg.values)]
                    elif isinstance(arg, ast.DictComp) and len(arg.generators) == 1 and not arg.generators[0].ifs and isinstance(arg.generators[0].target, ast.Name) \
                            and isinstance(arg.generators[0].iter, (ast.Tuple, ast.List)) and all(isinstance(x, ast.Constant) for x in arg.generators[0].iter.elts):
                        pairs_ = []
                        for c_ in arg.generators[0].iter.elts:
                            env2_ = dict(env); env2_[arg.generators[0].target.id] = self.expr(c_, env, k)
                            kt_ = self.expr(arg.key, env2_, k)
                            if kt_[0] != "str":
                                raise Unsupported("non-constant key")
                            pairs_.append((kt_[1], self.expr(arg.value, env2_, k)))
                    if pairs_ is not None:
                        for kx, vx in pairs_:
                            self.pover[kx] = vx
                        continue
                except Unsupported as e:
                    self.notes.append(f"{k}.{fname}: params.update opaque ({e})")
                continue
            if isinstance(s, ast.For) and isinstance(s.target, ast.Name) and isinstance(s.iter, (ast.Tuple, ast.List)) and all(isinstance(x, ast.Constant) for x in s.iter.elts) \
                    and not s.orelse:
                # a loop over a literal tuple of names is unrolled
                for c_ in s.iter.elts:
                    env[s.target.id] = self.expr(c_, env, k)
                    self.run_ctor(s.body, env, k, fname)
                continue
            if isinstance(s, ast.Expr):
                continue
            if isinstance(s, ast.Assign) and len(s.targets) == 1:
                t = s.targets[0]
                if isinstance(t, ast.Attribute) and t.attr in self.inputs:
                    continue
                if isinstance(t, ast.Name):
                    la = self.__dict__.setdefault("local_ast", {})
                    la[t.id] = None if (t.id in la and la[t.id] is not None and ast.dump(la[t.id]) != ast.dump(s.value)) else s.value
                try:
                    v = self.expr(s.value, env, k)
                except Unsupported as e:
                    nm = ast.unparse(t).replace("self.", "")
                    v = ("var", f"loc:{k}.{nm}")
                    self.notes.append(f"{k}.{fname}: {nm} opaque ({e})")
                if isinstance(t, ast.Attribute) and isinstance(t.value, ast.Name) and t.value.id == "self":
                    if t.attr not in self.inputs:
                        self.attrs[t.attr] = v
                elif isinstance(t, ast.Name):
                    env[t.id] = v
                elif isinstance(t, ast.Subscript) and ast.unparse(t.value) == "self.params" and isinstance(t.slice, ast.Constant):
                    self.pover[t.slice.value] = v
                elif isinstance(t, ast.Subscript) and ast.unparse(t.value) == "self.params":
                    try:
                        kt_ = self.expr(t.slice, env, k)
                        if kt_[0] == "str":
                            self.pover[kt_[1]] = v
                    except Unsupported:
                        pass
            elif isinstance(s, ast.If):
                self.merge_if(s, env, k, fname)
            elif isinstance(s, (ast.Raise, ast.Assert, ast.Pass)):
                continue
            elif isinstance(s, ast.Try):
                self.run_ctor(s.body, env, k, fname)
            else:
                self.notes.append(f"{k}.{fname}: stmt {type(s).__name__} skipped")

    def merge_if(self, s, env, k, fname):
        """if/else in a constructor: run both branches on copies; merge per assigned name"""
        snap = (dict(env), dict(self.attrs), dict(self.pover))
        self.run_ctor(s.body, env, k, fname)
        a = (dict(env), dict(self.attrs), dict(self.pover))
        env.clear(); env.update(snap[0]); self.attrs = dict(snap[1]); self.pover = dict(snap[2])
        self.run_ctor(s.orelse, env, k, fname)
        b = (dict(env), dict(self.attrs), dict(self.pover))
        raises_a = self.always_raises(s.body, snap[0], k)
        raises_b = self.always_raises(s.orelse, snap[0], k)
        try:
            cond = self.cond(s.test, snap[0], k)
        except Unsupported:
            cond = None
        if cond is not None and cond[0] == "const":
            src_ = a if cond[1] else b
            env.clear(); env.update(src_[0]); self.attrs = dict(src_[1]); self.pover = dict(src_[2])
            return
        for idx, store in enumerate((env, self.attrs, self.pover)):
            keys = set(a[idx]) | set(b[idx])
            for key in keys:
                va, vb = a[idx].get(key, snap[idx].get(key)), b[idx].get(key, snap[idx].get(key))
                if raises_a and not raises_b:
                    store[key] = vb
                elif raises_b and not raises_a:
                    store[key] = va
                elif va == vb:
                    store[key] = va
                elif va is None or vb is None:
                    store[key] = va if vb is None else vb
                elif cond is not None:
                    store[key] = ("ite", cond, va, vb)
                else:
                    nm = key if idx != 2 else f"params.{key}"
                    store[key] = ("var", f"loc:{k}.{nm}")
                    self.notes.append(f"{k}.{fname}: {nm} merged over untranslatable test `{ast.unparse(s.test)[:50]}`")

    def always_raises(self, body, env, k):
        for x in body:
            if isinstance(x, ast.Raise):
                return True
            if isinstance(x, ast.If):
                try:
                    c = self.cond(x.test, env, k)
                except Unsupported:
                    c = None
                if c is not None and c[0] == "const":
                    if self.always_raises(x.body if c[1] else x.orelse, env, k):
                        return True
                elif self.always_raises(x.body, env, k) and self.always_raises(x.orelse, env, k):
                    return True
        return False

    # ---- bodies
    def func(self, fn, k, env):
        self.depth += 1
        if self.depth > 12:
            raise Unsupported("inlining too deep")
        try:
            return self.block(_inline_self_aliases(fn).body, dict(env), k, fn.name)
        finally:
            self.depth -= 1

    def block(self, body, env, k, fname):
        for i, s in enumerate(body):
            if isinstance(s, ast.Expr) and isinstance(s.value, ast.Constant):
                continue
            if isinstance(s, ast.Assign) and all(isinstance(t, ast.Name) for t in s.targets):
                for tg in s.targets:
                    la = self.__dict__.setdefault("local_ast", {})
                    la[tg.id] = None if tg.id in la else s.value        # single-assignment locals only
                    try:
                        env[tg.id] = self.expr(s.value, env, k)
                    except Unsupported as e:
                        if getattr(self, "plain_locals", False):
                            env[tg.id] = ("var", tg.id)
                        elif self.flow:
                            env[tg.id] = ("var", f"loc:{k}.{fname}.{tg.id}")
                        else:
                            # an untranslatable array computation inside a component method: visible as non-elementwise;
                            # inside an inlined call every invocation gets its own name (two calls are two values)
                            self.uid = getattr(self, "uid", 0) + 1
                            suffix = f"#{self.uid}" if self.depth > 1 else ""
                            env[tg.id] = ("nonElem", f"opaque:{tg.id}{suffix}", ("var", f"loc:{k}.{fname}.{tg.id}{suffix}"))
                        self.notes.append(f"{k}.{fname}: {tg.id} opaque ({e})")
            elif isinstance(s, ast.Assign) and len(s.targets) == 1 and isinstance(s.targets[0], ast.Tuple) and not isinstance(s.value, ast.Tuple) \
                    and getattr(self, "plain_locals", False):
                try:
                    if isinstance(s.value, ast.Call) and isinstance(s.value.func, ast.Name) and not (
                            s.value.func.id in self.mod.funcs and simple_helper(self.mod.funcs[s.value.func.id])):
                        raise Unsupported("results of a non-arithmetic helper stay named inputs")
                    tv_ = self.expr(s.value, env, k)
                    vals_ = [tuple_proj(tv_, i_, len(s.targets[0].elts)) for i_ in range(len(s.targets[0].elts))]
                    for tg, v_ in zip(s.targets[0].elts, vals_):
                        env[tg.id] = v_
                except Unsupported:
                    for tg in s.targets[0].elts:
                        env[tg.id] = ("var", tg.id)
            elif isinstance(s, ast.Assign) and len(s.targets) == 1 and isinstance(s.targets[0], ast.Tuple) and isinstance(s.value, ast.Tuple):
                for t, v in zip(s.targets[0].elts, s.value.elts):
                    env[t.id] = self.expr(v, env, k)
            elif isinstance(s, ast.Assign) and len(s.targets) == 1 and isinstance(s.targets[0], ast.Tuple) and all(isinstance(t, ast.Name) for t in s.targets[0].elts):
                # unpacking of a tuple-valued expression (e.g. a helper method returning several coefficients, possibly from different
                # branches): component-wise, conditionals distributed over the components
                try:
                    tv_ = self.expr(s.value, env, k)
                    vals_ = [tuple_proj(tv_, i_, len(s.targets[0].elts)) for i_ in range(len(s.targets[0].elts))]
                except Unsupported:
                    # the components of an opaque value (e.g. the result tuple of a library call) are opaque values of their own
                    vals_ = [("nonElem", f"opaque:{t.id}", ("var", f"loc:{k}.{t.id}")) for t in s.targets[0].elts]
                for t, v_ in zip(s.targets[0].elts, vals_):
                    env[t.id] = v_
            elif isinstance(s, ast.AugAssign) and isinstance(s.target, ast.Name):
                op = {ast.Add: "add", ast.Sub: "sub", ast.Mult: "mul", ast.Div: "div"}[type(s.op)]
                env[s.target.id] = (op, env[s.target.id], self.expr(s.value, env, k))
            elif isinstance(s, ast.Return):
                if s.value is None:
                    raise Unsupported("bare return")
                return self.expr(s.value, env, k)
            elif isinstance(s, ast.If):
                rest = body[i + 1:]
                raises_t = any(isinstance(x, ast.Raise) for x in s.body)
                raises_e = any(isinstance(x, ast.Raise) for x in s.orelse)
                if raises_t:
                    return self.block(s.orelse + rest, dict(env), k, fname)
                if raises_e:
                    return self.block(s.body + rest, dict(env), k, fname)
                c = self.cond(s.test, env, k)
                if c[0] == "const":
                    return self.block((s.body if c[1] else s.orelse) + rest, dict(env), k, fname)
                t = self.block(s.body + rest, dict(env), k, fname)
                e = self.block(s.orelse + rest, dict(env), k, fname)
                return ("ite", c, t, e) if t != e else t
            elif isinstance(s, ast.FunctionDef):
                env[s.name] = ("def", s)
            elif isinstance(s, ast.Try):
                return self.block(s.body + body[i + 1:], env, k, fname)
            elif isinstance(s, (ast.Raise,)):
                raise Unsupported("raise")
            elif isinstance(s, (ast.Assert, ast.Pass, ast.Expr)):
                continue
            else:
                raise Unsupported(f"stmt {type(s).__name__}")
        raise Unsupported("no return")

    def cond(self, e, env, k):
        if isinstance(e, ast.Compare) and len(e.ops) == 1:
            op = type(e.ops[0])
            l, r = e.left, e.comparators[0]
            if op in (ast.Is, ast.IsNot) and isinstance(r, ast.Constant) and r.value is None:
                v = self.expr(l, env, k)
                if v[0] != "var":
                    return ("const", op is ast.IsNot)       # a computed number is never None
                flag = ("var", "isnone:" + v[1])
                # one polarity per test: `x is None` is the negation of `x is not None`, so that `if x is None: B else: A` and
                # `if x is not None: A else: B` give the same term (negations swap the branches when the conditional is lowered)
                pos_ = ("cmp", "le", flag, ("lit", 5, -1))
                return pos_ if op is ast.IsNot else ("not", pos_)
            if op is ast.NotEq:
                return ("not", ("cmp", "eq", self.expr(l, env, k), self.expr(r, env, k)))
            if op is ast.NotIn:
                return ("not", self.cond(ast.copy_location(ast.Compare(left=l, ops=[ast.In()], comparators=[r]), e), env, k))
            if op in CMP:
                return ("cmp", CMP[op], self.expr(l, env, k), self.expr(r, env, k))
        if isinstance(e, ast.Name) and e.id in env and env[e.id][0] == "condterm":
            return env[e.id][1]
        if isinstance(e, ast.BoolOp):
            return (("and" if isinstance(e.op, ast.And) else "or"),) + tuple(self.cond(v, env, k) for v in e.values)
        if isinstance(e, ast.UnaryOp) and isinstance(e.op, ast.Not):
            return ("not", self.cond(e.operand, env, k))
        if isinstance(e, ast.Call) and ast.unparse(e.func) in ("np.logical_and", "np.logical_or") and len(e.args) == 2:
            return ("and" if "and" in ast.unparse(e.func) else "or", self.cond(e.args[0], env, k), self.cond(e.args[1], env, k))
        if isinstance(e, ast.Attribute) and isinstance(e.value, ast.Name) and e.value.id == "self":
            ck, cv = self.mod.class_attr(self.cls, e.attr)
            if isinstance(cv, ast.Constant) and isinstance(cv.value, bool):
                return ("const", cv.value)
        # untranslatable scalar test: a flag the harness evaluates on the real object (`eval` of the source text)
        src = self.canon_src(e)
        self.notes.append(f"{k}: test `{src[:60]}` is a flag")
        return ("cmp", "gt", ("var", "flag:" + src), ("lit", 5, -1))

    def canon_src(self, e):
        """canonical source text of an expression that stays opaque (evaluated by the harness on the live object): single-assignment
        locals are replaced by their defining expressions, and the spellings `'A_%s' % x`, `'A_{}'.format(x)`, `f'A_{x}'` of one
        string are all written as the f-string — so that such refactors do not rename the opaque variable"""
        import copy as _copy
        la = {k_: v_ for k_, v_ in self.__dict__.get("local_ast", {}).items() if v_ is not None
              and not (isinstance(v_, ast.Call) and not (isinstance(v_.func, ast.Name) and v_.func.id in ("int", "float", "str", "round", "abs", "bool")))}

        class T(ast.NodeTransformer):
            def __init__(s_):
                s_.depth = 0

            def visit_Name(s_, n):
                if n.id in la and s_.depth < 4 and not any(isinstance(x, ast.Name) and x.id == n.id for x in ast.walk(la[n.id])):
                    s_.depth += 1
                    out = s_.visit(_copy.deepcopy(la[n.id]))
                    s_.depth -= 1
                    return out
                return n

            def visit_BinOp(s_, n):
                n = s_.generic_visit(n)
                if isinstance(n.op, ast.Mod) and isinstance(n.left, ast.Constant) and isinstance(n.left.value, str):
                    parts = re.split(r"(%[sdr])", n.left.value)
                    args = list(n.right.elts) if isinstance(n.right, ast.Tuple) else [n.right]
                    if sum(1 for p_ in parts if re.fullmatch(r"%[sdr]", p_)) == len(args):
                        vals, it = [], iter(args)
                        for p_ in parts:
                            if re.fullmatch(r"%[sdr]", p_):
                                vals.append(ast.FormattedValue(value=next(it), conversion=-1, format_spec=None))
                            elif p_:
                                vals.append(ast.Constant(value=p_))
                        return ast.JoinedStr(values=vals)
                return n

            def visit_Call(s_, n):
                n = s_.generic_visit(n)
                if isinstance(n.func, ast.Attribute) and n.func.attr == "format" and isinstance(n.func.value, ast.Constant) and isinstance(n.func.value.value, str) \
                        and not n.keywords and n.func.value.value.count("{}") == len(n.args) and "{" not in n.func.value.value.replace("{}", ""):
                    vals, it = [], iter(n.args)
                    for i_, p_ in enumerate(n.func.value.value.split("{}")):
                        if i_:
                            vals.append(ast.FormattedValue(value=next(it), conversion=-1, format_spec=None))
                        if p_:
                            vals.append(ast.Constant(value=p_))
                    return ast.JoinedStr(values=vals)
                return n
        try:
            return ast.unparse(ast.fix_missing_locations(T().visit(_copy.deepcopy(e))))
        except Exception:
            return ast.unparse(e)

    def self_attr(self, a, k, env):
        if a in self.inputs:
            return ("var", a)
        if self.flow:
            kk, fn = self.mod.find(self.cls, a)
            if fn is not None and any(ast.unparse(d) == "property" for d in fn.decorator_list):
                return self.func(fn, kk, {})
            return ("var", a)          # another parameter / cached quantity of the framework: an input of this body
        self.load_init()
        if a in self.attrs:
            return self.attrs[a]
        kk, fn = self.mod.find(self.cls, a)
        if fn is not None and any(ast.unparse(d) in ("property", "cached_quantity", "_cache.cached_quantity") for d in fn.decorator_list):
            return self.func(fn, kk, {})
        ck, cv = self.mod.class_attr(self.cls, a)
        if cv is not None:
            return self.expr(cv, {}, ck)
        raise Unsupported(f"self.{a}")

    def expr(self, e, env, k):
        if not self.flow:
            return self.expr0(e, env, k)
        try:
            return self.expr0(e, env, k)
        except Unsupported as ex:
            if isinstance(e, (ast.Constant, ast.Name)):
                raise
            src = self.canon_src(e)
            if any(isinstance(n, ast.Name) and n.id in env and n.id != "self" for n in ast.walk(ast.parse(src, mode="eval"))):
                raise                     # mentions a local: cannot be re-evaluated from outside
            self.notes.append(f"{k}: `{src[:60]}` opaque ({ex})")
            return ("var", "py:" + src)

    def expr0(self, e, env, k):
        if isinstance(e, (ast.Compare, ast.BoolOp)) or (isinstance(e, ast.UnaryOp) and isinstance(e.op, ast.Not)):
            return ("condterm", self.cond(e, env, k))          # a boolean array held in a local (mask); only usable as a condition
        if isinstance(e, ast.Constant):
            if isinstance(e.value, (int, float)) and not isinstance(e.value, bool):
                return lit(e.value)
            if isinstance(e.value, str):
                return ("str", e.value)          # only ever used as a (statically known) dictionary key
            raise Unsupported(f"const {e.value!r}")
        if isinstance(e, ast.Tuple) or isinstance(e, ast.List):
            return ("tuple",) + tuple(self.expr(x, env, k) for x in e.elts)
        comp = e.args[0] if (isinstance(e, ast.Call) and isinstance(e.func, ast.Name) and e.func.id in ("tuple", "list") and len(e.args) == 1
                             and isinstance(e.args[0], (ast.GeneratorExp, ast.ListComp))) else (e if isinstance(e, (ast.GeneratorExp, ast.ListComp)) else None)
        if comp is not None:
            # a comprehension over a literal tuple/list of constants is unrolled (e.g. `tuple(self.params[n + "_0"] for n in ("A", "alpha"))`)
            if len(comp.generators) == 1 and not comp.generators[0].ifs and isinstance(comp.generators[0].target, ast.Name) \
                    and isinstance(comp.generators[0].iter, (ast.Tuple, ast.List)) and all(isinstance(x, ast.Constant) for x in comp.generators[0].iter.elts):
                out_ = []
                for c_ in comp.generators[0].iter.elts:
                    env2_ = dict(env)
                    env2_[comp.generators[0].target.id] = self.expr(c_, env, k)
                    out_.append(self.expr(comp.elt, env2_, k))
                return ("tuple",) + tuple(out_)
            raise Unsupported("comprehension")
        if isinstance(e, ast.JoinedStr):
            parts_ = []
            for v_ in e.values:
                t_ = self.expr(v_.value if isinstance(v_, ast.FormattedValue) else v_, env, k)
                if t_[0] == "str":
                    parts_.append(t_[1])
                elif t_[0] == "lit" and t_[2] == 0:
                    parts_.append(str(t_[1]))
                else:
                    raise Unsupported("f-string of a non-constant")
            return ("str", "".join(parts_))
        if isinstance(e, ast.Name):
            if e.id in env:
                if env[e.id][0] == "def":
                    raise Unsupported("function object")
                return env[e.id]
            raise Unsupported(f"name {e.id}")
        if isinstance(e, ast.UnaryOp) and isinstance(e.op, ast.USub):
            v = self.expr(e.operand, env, k)
            return ("lit", -v[1], v[2]) if v[0] == "lit" else ("neg", v)
        if isinstance(e, ast.UnaryOp) and isinstance(e.op, ast.UAdd):
            return self.expr(e.operand, env, k)
        if isinstance(e, ast.BinOp):
            op = {ast.Add: "add", ast.Sub: "sub", ast.Mult: "mul", ast.Div: "div", ast.Pow: "pow"}.get(type(e.op))
            if not op:
                raise Unsupported(f"binop {type(e.op).__name__}")
            l, r = self.expr(e.left, env, k), self.expr(e.right, env, k)
            if l[0] == "str" or r[0] == "str":
                if op == "add" and l[0] == "str" and r[0] == "str":
                    return ("str", l[1] + r[1])
                raise Unsupported("string arithmetic")
            if os.environ.get("PYEXPR_SWAP") and op in ("add", "mul"):
                l, r = r, l     # robustness self-test only (tools/robustness.sh): translate as if every commutative operand pair were swapped in the source
            if op == "pow" and r[0] == "lit" and r[2] == 0 and abs(r[1]) <= 12:
                return ("powi", l, r[1])
            return (op, l, r)
        if isinstance(e, ast.IfExp):
            return ("ite", self.cond(e.test, env, k), self.expr(e.body, env, k), self.expr(e.orelse, env, k))
        if isinstance(e, ast.Attribute):
            src = ast.unparse(e)
            if src == "self.params":
                return ("paramsref",)          # a local alias of the parameter dictionary (`par = self.params; par["A"]`)
            if src in ("np.pi", "math.pi"):
                return ("pi",)
            if src in ("np.e", "math.e"):
                return ("exp", ("lit", 1, 0))
            if isinstance(e.value, ast.Name) and e.value.id == "self":
                return self.self_attr(e.attr, k, env)
            if src.startswith("self.cosmo.") and src.count(".") == 2:
                return ("var", "cosmo." + e.attr)
            if e.attr == "value" and isinstance(e.value, (ast.Attribute, ast.Call)):
                return self.expr(e.value, env, k)          # astropy Quantity -> number (unit conversion appears as `unitconv:`)
            if isinstance(e.value, ast.Call) and isinstance(e.value.func, ast.Name) and e.value.func.id == "super":
                if self.flow:
                    return ("var", "super." + e.attr)
                idx = self.mod.mro(self.cls).index(k)
                kk, fn = self.mod.find(self.cls, e.attr, idx + 1)
                if fn is None:
                    raise Unsupported(f"super().{e.attr}")
                return self.func(fn, kk, {})
            if isinstance(e.value, ast.Name) and e.value.id in env and env[e.value.id][0] == "var":
                return ("var", env[e.value.id][1] + "." + e.attr)
            if isinstance(e.value, ast.Attribute):
                base = self.expr(e.value, env, k)
                if base[0] == "var":
                    return ("var", base[1] + "." + e.attr)
            raise Unsupported(f"attr {src}")
        if isinstance(e, ast.Subscript) and isinstance(e.slice, ast.Name) and e.slice.id == "mask":
            return self.expr(e.value, env, k)        # boolean-mask selection: the same element of the array
        if isinstance(e, ast.Subscript):
            src = ast.unparse(e.value)
            if isinstance(e.value, ast.Name) and env.get(e.value.id) == ("paramsref",):
                src = "self.params"
            if src == "self.params":
                key = None
                if isinstance(e.slice, ast.Constant):
                    key = e.slice.value
                else:
                    try:
                        kt_ = self.expr(e.slice, env, k)
                        key = kt_[1] if kt_[0] == "str" else None
                    except Unsupported:
                        key = None
                if key is None:
                    self.notes.append(f"{k}: dynamic key `{ast.unparse(e)[:50]}` is opaque")
                    return ("var", "py:" + self.canon_src(e))
                self.load_init()
                if key in self.pover:
                    return self.pover[key]
                return ("var", "p." + key)
            raise Unsupported(f"subscript {ast.unparse(e)[:40]}")
        if isinstance(e, ast.Call):
            f = ast.unparse(e.func)
            if f.startswith("np.") and f[3:] in UFUNC and len(e.args) == 1 and not e.keywords:
                return (UFUNC[f[3:]], self.expr(e.args[0], env, k))
            if f in ("np.power", "pow", "math.pow") and len(e.args) == 2:
                l_, r_ = self.expr(e.args[0], env, k), self.expr(e.args[1], env, k)
                if r_[0] == "lit" and r_[2] == 0 and abs(r_[1]) <= 12:
                    return ("powi", l_, r_[1])          # same node as `x ** n`
                return ("pow", l_, r_)
            # other spellings of the same arithmetic (so that a refactor between them leaves the generated term unchanged)
            if f in ("np.square",) and len(e.args) == 1 and not e.keywords:
                return ("powi", self.expr(e.args[0], env, k), 2)
            if f in ("np.absolute", "abs", "math.fabs") and len(e.args) == 1 and not e.keywords:
                return ("abs", self.expr(e.args[0], env, k))
            if f in ("np.negative",) and len(e.args) == 1 and not e.keywords:
                return ("neg", self.expr(e.args[0], env, k))
            if f in ("np.reciprocal",) and len(e.args) == 1 and not e.keywords:
                return ("div", ("lit", 1, 0), self.expr(e.args[0], env, k))
            if f in ("np.multiply", "np.add", "np.subtract", "np.divide", "np.true_divide") and len(e.args) == 2 and not e.keywords:
                op_ = {"np.multiply": "mul", "np.add": "add", "np.subtract": "sub", "np.divide": "div", "np.true_divide": "div"}[f]
                return (op_, self.expr(e.args[0], env, k), self.expr(e.args[1], env, k))
            if f.startswith("math.") and f[5:] in UFUNC and len(e.args) == 1 and not e.keywords:
                return (UFUNC[f[5:]], self.expr(e.args[0], env, k))
            if f == "np.select" and len(e.args) >= 2 and isinstance(e.args[0], (ast.List, ast.Tuple)) and isinstance(e.args[1], (ast.List, ast.Tuple)) \
                    and len(e.args[0].elts) == len(e.args[1].elts):
                dflt = e.args[2] if len(e.args) > 2 else next((kw.value for kw in e.keywords if kw.arg == "default"), ast.Constant(value=0))
                out_ = self.expr(dflt, env, k)
                for c_, v_ in reversed(list(zip(e.args[0].elts, e.args[1].elts))):
                    out_ = ("ite", self.cond(c_, env, k), self.expr(v_, env, k), out_)      # first matching condition wins
                return out_
            if f == "np.where" and len(e.args) == 3:
                return ("ite", self.cond(e.args[0], env, k), self.expr(e.args[1], env, k), self.expr(e.args[2], env, k))
            if f == "np.arange" and len(e.args) == 3 and not e.keywords:
                a0, a2 = self.expr(e.args[0], env, k), self.expr(e.args[2], env, k)
                return ("add", a0, ("mul", ("var", "idx"), a2))      # numpy: start + i*step, i = 0,1,…
            if f in ("min", "max", "np.minimum", "np.maximum") and len(e.args) == 2:
                return ("min" if "min" in f else "max", self.expr(e.args[0], env, k), self.expr(e.args[1], env, k))
            if f in ("float", "np.asarray", "np.atleast_1d", "np.array", "np.float64") and len(e.args) == 1:
                return self.expr(e.args[0], env, k)
            if f == "sp.gamma" or f == "gamma":
                return ("call", "Gamma", self.expr(e.args[0], env, k))
            if f.startswith("np.") and f[3:] in NONELEM:
                return ("nonElem", f[3:], self.expr(e.args[0], env, k))
            if f.startswith("self.cosmo.") and len(e.args) == 1 and not e.keywords:
                return ("call", "cosmo." + f[len("self.cosmo."):], self.expr(e.args[0], env, k))
            if f in self.self_calls:
                return self.self_calls[f](self, e, env, k)
            if f.startswith("self.") and f.count(".") == 1:
                kk, fn = self.mod.find(self.cls, f[5:])
                decs = [ast.unparse(d) for d in fn.decorator_list] if fn is not None else []
                if fn is not None and any(d in ("property", "cached_quantity", "_cache.cached_quantity") for d in decs):
                    raise Unsupported(f"call of the value of property {f}")
                if fn is not None:
                    env2 = {}
                    params = fn.args.args if "staticmethod" in decs else fn.args.args[1:]
                    defaults = fn.args.defaults
                    for a, d in zip(params[len(params) - len(defaults):], defaults):
                        try:
                            env2[a.arg] = self.expr(d, {}, kk)
                        except Unsupported:
                            pass
                    for a, v in zip(params, e.args):
                        env2[a.arg] = self.expr(v, env, k)
                    for kw in e.keywords:
                        env2[kw.arg] = self.expr(kw.value, env, k)
                    return self.func(fn, kk, env2)
            if f.startswith("cls.") and f.count(".") == 1:
                kk, fn = self.mod.find(self.cls, f[4:])
                if fn is not None:
                    decs = [ast.unparse(d) for d in fn.decorator_list]
                    params = fn.args.args if "staticmethod" in decs else fn.args.args[1:]
                    env2 = {a.arg: self.expr(v, env, k) for a, v in zip(params, e.args)}
                    return self.func(fn, kk, env2)
            if isinstance(e.func, ast.Attribute) and isinstance(e.func.value, ast.Name) and e.func.value.id in env \
                    and env[e.func.value.id][0] == "var" and len(e.args) == 1 and not e.keywords:
                # method of an argument object (e.g. cosmo.Om(z)): opaque external function of one argument
                return ("call", env[e.func.value.id][1] + "." + e.func.attr, self.expr(e.args[0], env, k))
            if isinstance(e.func, ast.Name) and e.func.id in env and env[e.func.id][0] == "boundmethod":
                # a method of self that was passed around as a callable: the call is the method call
                return self.expr(ast.Call(func=ast.Attribute(value=ast.Name(id="self", ctx=ast.Load()), attr=env[e.func.id][1], ctx=ast.Load()),
                                          args=e.args, keywords=e.keywords), env, k)
            if isinstance(e.func, ast.Name) and e.func.id in self.mod.funcs and e.func.id not in env and simple_helper(self.mod.funcs[e.func.id]):
                # a module-level helper of the same file: inlined like a method (arguments that are methods of self stay callable)
                fn = self.mod.funcs[e.func.id]
                env2 = {}
                for a, d in zip(fn.args.args[len(fn.args.args) - len(fn.args.defaults):], fn.args.defaults):
                    try:
                        env2[a.arg] = self.expr(d, {}, k)
                    except Unsupported:
                        pass

                def bind_(v_):
                    if isinstance(v_, ast.Attribute) and isinstance(v_.value, ast.Name) and v_.value.id == "self":
                        kk_, fm_ = self.mod.find(self.cls, v_.attr)
                        if fm_ is not None and not fm_.decorator_list:
                            return ("boundmethod", v_.attr)
                    return self.expr(v_, env, k)
                for a, v in zip(fn.args.args, e.args):
                    env2[a.arg] = bind_(v)
                for kw in e.keywords:
                    env2[kw.arg] = bind_(kw.value)
                return self.func(fn, k, env2)
            if isinstance(e.func, ast.Name) and e.func.id in env and env[e.func.id][0] == "def":
                fn = env[e.func.id][1]
                env2 = dict(env)
                env2.update({a.arg: self.expr(v, env, k) for a, v in zip(fn.args.args, e.args)})
                return self.block(fn.body, env2, k, fn.name)
            if isinstance(e.func, ast.Name) and e.func.id in self.mod.funcs:
                fn = self.mod.funcs[e.func.id]
                env2 = {a.arg: self.expr(v, env, k) for a, v in zip(fn.args.args, e.args)}
                return self.block(fn.body, env2, k, fn.name)
            if isinstance(e.func, ast.Attribute) and e.func.attr == "to" and len(e.args) == 1:
                # astropy unit conversion: multiplication by a positive constant (opaque; the harness supplies its value)
                return ("mul", self.expr(e.func.value, env, k), ("var", "unitconv:" + ast.unparse(e.args[0])))
            raise Unsupported(f"call {f}")
        raise Unsupported(f"expr {type(e).__name__}: {ast.unparse(e)[:40]}")


# ---------- normalisation of condition trees into E (conditions only appear inside ite)
def canon(t):
    """canonical operand order of the commutative binary nodes (`a*b` and `b*a`, `a+b` and `b+a` give the same term): an exactly
    semantics-preserving normalisation, over the reals and in IEEE arithmetic alike, which makes the generated terms — and hence
    every proof about them — insensitive to operand order in the Python source.  No re-association, no constant folding."""
    if not isinstance(t, tuple):
        return t
    t = (t[0],) + tuple(canon(x) if isinstance(x, tuple) else x for x in t[1:])
    if os.environ.get("PYEXPR_REASSOC") and t[0] in ("add", "mul") and len(t) == 3 and isinstance(t[1], tuple) and t[1][0] == t[0] and len(t[1]) == 3:
        # robustness self-test only (tools/robustness.sh reassoc): translate `(a*b)*c` as if the source said `a*(b*c)`
        t = canon((t[0], t[1][1], (t[0], t[1][2], t[2])))
    if t[0] in ("add", "mul") and len(t) == 3 and _key(t[2]) < _key(t[1]):
        return (t[0], t[2], t[1])
    return t


def _key(t):
    rank = {"lit": 0, "pi": 1, "var": 2}.get(t[0], 3) if isinstance(t, tuple) else 9
    return (rank, json.dumps(t, sort_keys=True, default=str))


def lower(t):
    return canon(_lower(t))


def _lower(t):
    """lower boolean structure: ite(and(c1,c2),a,b) -> ite(c1, ite(c2,a,b), b) etc., so that E needs only `cmp` tests"""
    if not isinstance(t, tuple):
        return t
    if t[0] == "ite":
        c, a, b = t[1], _lower(t[2]), _lower(t[3])
        return lower_ite(c, a, b)
    return (t[0],) + tuple(_lower(x) if isinstance(x, tuple) else x for x in t[1:])


def lower_ite(c, a, b):
    if c[0] == "const":
        return a if c[1] else b
    if c[0] == "cmp":
        return ("ite", ("cmp", c[1], _lower(c[2]), _lower(c[3])), a, b)
    if c[0] == "and":
        out = a
        for ci in reversed(c[1:]):
            out = lower_ite(ci, out, b)
        return out
    if c[0] == "or":
        out = b
        for ci in reversed(c[1:]):
            out = lower_ite(ci, a, out)
        return out
    if c[0] == "not":
        return lower_ite(c[1], b, a)
    raise ValueError(c)


# ---------- emission
def lean_str(s):
    return json.dumps(s)


def to_lean(t):
    tag = t[0]
    if tag == "lit":
        return f"(.lit ({t[1]}) ({t[2]}))"
    if tag == "pi":
        return ".pi"
    if tag == "var":
        return f"(.var {lean_str(t[1])})"
    if tag in ("neg", "exp", "log", "log10", "sqrt", "sin", "cos", "cosh", "abs"):
        return f"(.un .{tag} {to_lean(t[1])})"
    if tag in ("add", "sub", "mul", "div", "pow", "min", "max"):
        return f"(.bin .{tag} {to_lean(t[1])} {to_lean(t[2])})"
    if tag == "powi":
        return f"(.powi {to_lean(t[1])} ({t[2]}))"
    if tag == "ite":
        c = t[1]
        return f"(.ite .{c[1]} {to_lean(c[2])} {to_lean(c[3])} {to_lean(t[2])} {to_lean(t[3])})"
    if tag == "call":
        return f"(.call {lean_str(t[1])} {to_lean(t[2])})"
    if tag == "nonElem":
        return f"(.nonElem {lean_str(t[1])} {to_lean(t[2])})"
    if tag == "ref":
        return t[1]
    raise ValueError(t)


def size(t):
    return 1 + sum(size(x) for x in t[1:] if isinstance(x, tuple)) if isinstance(t, tuple) else 0


def cse(name, t, defs, limit=60):
    """share large repeated subterms as named definitions so that every emitted term stays small"""
    counts = {}

    def walk(x):
        if isinstance(x, tuple) and x[0] not in ("lit", "var", "pi", "ref"):
            if x[0] != "cmp":
                counts[x] = counts.get(x, 0) + 1
            for y in x[1:]:
                walk(y)
    walk(t)
    shared = sorted([x for x, c in counts.items() if c > 1 and size(x) >= 6], key=size)
    names = {}

    def repl(x):
        if not isinstance(x, tuple):
            return x
        if x[0] != "cmp" and x in names:
            return ("ref", names[x])
        return (x[0],) + tuple(repl(y) for y in x[1:])
    for x in shared:
        body = (x[0],) + tuple(repl(y) for y in x[1:])
        nm = f"{name}_s{len(names)}"
        names[x] = nm
        defs.append((nm, body))
    return repl(t)


def emit_module(path, ns, items, extra=""):
    """items: list of (name, tree)"""
    L = ["import HmfVerif.Model.Expr", "/-! GENERATED by tools/pyexpr.py from /repo/src/hmf — do not edit. -/", f"namespace Hmf.Gen.{ns}", "open Hmf", ""]
    table = []
    for name, t in items:
        defs = []
        body = cse(name, t, defs)
        for nm, b in defs:
            L.append(f"abbrev {nm} : E := {to_lean(b)}")
        L.append(f"def {name} : E := {to_lean(body)}")
        L.append("")
        table.append(name)
    L.append("def table : List (String × E) := [" + ", ".join(f'("{n}", {n})' for n in table) + "]")
    L.append(extra)
    L.append(f"end Hmf.Gen.{ns}")
    text = "\n".join(L) + "\n"
    if not os.path.exists(path) or open(path).read() != text:
        open(path, "w").write(text)


def defaults_of(mod, cls):
    """class-level `_defaults` dict literal as exact decimals (None -> 'none'); inherited if absent"""
    k, v = mod.class_attr(cls, "_defaults")
    if v is None or not isinstance(v, ast.Dict):
        return None
    out = {}
    for kk, vv in zip(v.keys, v.values):
        key = ast.literal_eval(kk)
        try:
            val = ast.literal_eval(vv)
        except Exception:
            out[key] = ("opaque", ast.unparse(vv)[:40])
            continue
        if val is None:
            out[key] = ("none",)
        elif isinstance(val, bool):
            out[key] = ("bool", val)
        elif isinstance(val, (int, float)):
            out[key] = lit(val)
        else:
            out[key] = ("opaque", repr(val)[:40])
    return out


# ---------- what to translate
FIT_INPUTS = {"nu2", "z", "n_eff", "m", "delta_c", "cosmo", "mass_definition", "measured_mass_definition"}


def fits():
    mod = Module("mass_function/fitting_functions.py")
    items, meta = [], {}
    for c in mod.subclasses("FittingFunction"):
        tr = Tr(mod, c, FIT_INPUTS, self_calls={"self.mass_definition.halo_overdensity_mean": lambda tr, e, env, k: ("var", "delta_halo")})
        entry = {"mro": mod.mro(c), "notes": tr.notes}
        try:
            kk, fn = mod.find(c, "fsigma")
            t = lower(tr.func(fn, kk, {}))
            items.append((f"{c}_fsigma", t))
            entry["fsigma"] = t
            entry["owner"] = kk
        except Unsupported as e:
            entry["unsupported"] = str(e)
        entry["defaults"] = defaults_of(mod, c)
        dk, _ = mod.class_attr(c, "_defaults")
        entry["defaults_owner"] = dk
        body = [n for n in mod.classes[c].body if not (isinstance(n, ast.Expr) and isinstance(n.value, ast.Constant))]
        entry["is_alias"] = all(isinstance(n, ast.Pass) for n in body) and len(mod.bases(c)) == 1
        try:
            kk, fn = mod.find(c, "cutmask")
            entry["cutmask_cond"] = cutmask_cond(tr, fn, kk)
        except Unsupported as e:
            entry["cutmask_unsupported"] = str(e)
        meta[c] = entry
    return items, meta


def cutmask_cond(tr, fn, kk):
    """cutmask bodies are boolean expressions (possibly under a scalar if): return the condition tree"""
    def blk(body):
        for i, s in enumerate(body):
            if isinstance(s, ast.Return):
                src = ast.unparse(s.value)
                if src.startswith("np.ones("):
                    return ("true",)
                return tr.cond(s.value, {}, kk)
            if isinstance(s, ast.If):
                return ("bite", tr.cond(s.test, {}, kk), blk(s.body + body[i + 1:]), blk(s.orelse + body[i + 1:]))
        raise Unsupported("no return")
    return blk([s for s in fn.body if not (isinstance(s, ast.Expr) and isinstance(s.value, ast.Constant))])


def defaults_lean(meta, ns_items):
    L = ["/-- published default coefficients as exact decimals `(key, mantissa, exponent)`; `none` entries omitted -/",
         "def defaults : List (String × List (String × Int × Int)) := ["]
    rows = []
    for c, e in sorted(meta.items()):
        d = e.get("defaults")
        if d is None:
            continue
        kv = ", ".join(f'("{k}", {v[1]}, {v[2]})' for k, v in sorted(d.items()) if v[0] == "lit")
        rows.append(f'  ("{c}", [{kv}])')
    L.append(",\n".join(rows))
    L.append("]")
    L.append("def aliases : List (String × String) := [" + ", ".join(f'("{c}", "{e["mro"][1]}")' for c, e in sorted(meta.items()) if e.get("is_alias")) + "]")
    return "\n".join(L)


FLOW = [("cosmology/cosmo.py", "Cosmology", ["mean_density0"]),
        ("density_field/transfer.py", "Transfer", ["k", "_unnormalised_power", "_normalisation", "_power0", "transfer_function", "power",
                                                     "delta_k", "nonlinear_power", "growth_factor"]),
        ("mass_function/hmf.py", "MassFunction", ["m", "mean_density", "_sigma_0", "sigma", "nu", "lnsigma", "n_eff", "_dlnsdlnm", "fsigma",
                                                   "dndm", "dndlnm", "dndlog10m", "rho_ltm", "how_big", "radii", "_unn_sigma0"]),
        ("alternatives/wdm.py", "TransferWDM", ["_unnormalised_lnT"]),
        ("alternatives/wdm.py", "MassFunctionWDM", ["dndm"])]


def flow():
    items, meta = [], {}
    for rel, cls, qs in FLOW:
        mod = Module(rel)
        for q in qs:
            tr = Tr(mod, cls, set(), flow=True)
            kk, fn = mod.find(cls, q)
            name = f"{cls}_{q}"
            try:
                t = lower(tr.func(fn, kk, {}))
                items.append((name, t))
                meta[name] = {"tree": t, "notes": tr.notes, "cls": cls, "quantity": q}
            except Unsupported as e:
                meta[name] = {"unsupported": str(e), "cls": cls, "quantity": q}
    return items, meta


WIRING = [("cosmology/cosmo.py", "Cosmology"), ("density_field/transfer.py", "Transfer"), ("mass_function/hmf.py", "MassFunction"),
          ("alternatives/wdm.py", "TransferWDM"), ("alternatives/wdm.py", "MassFunctionWDM")]


def wiring():
    """which quantity feeds which input of every component the framework classes construct: for each `self.<x>_model(...)` call in a
    cached quantity, the callee and the source text of every argument (keywords sorted; positionals by index)"""
    rows = []
    for rel, cls in WIRING:
        mod = Module(rel)
        # package-internal functions imported by name (e.g. `from .halofit import halofit as _hfit`): alias -> (name, parameter names)
        funcs = {}
        for imp in mod.tree.body:
            if isinstance(imp, ast.ImportFrom) and imp.level >= 1 and imp.module:
                base = os.path.dirname(rel)
                for _ in range(imp.level - 1):
                    base = os.path.dirname(base)
                path = os.path.join(SRC, base, imp.module.replace(".", "/") + ".py")
                if not os.path.exists(path):
                    continue
                defs = {n.name: n for n in ast.parse(open(path).read()).body if isinstance(n, ast.FunctionDef)}
                for a in imp.names:
                    if a.name in defs:
                        funcs[a.asname or a.name] = (a.name, [x.arg for x in defs[a.name].args.args])
        pkgmods = set()
        for imp in mod.tree.body:
            if isinstance(imp, ast.ImportFrom) and imp.level >= 1:
                for a in imp.names:
                    pkgmods.add(a.asname or a.name)
        # module-level helpers that a method of this class calls with `self` as an argument are read as helper methods of the class
        # (the parameter standing for the framework object renamed to `self`)
        import copy as _copy0
        adopted = []
        for fn0 in mod.classes[cls].body:
            if not isinstance(fn0, ast.FunctionDef):
                continue
            cached0 = any(ast.unparse(d).split(".")[-1] == "cached_quantity" for d in fn0.decorator_list)
            for c0 in ast.walk(fn0):
                if isinstance(c0, ast.Call) and isinstance(c0.func, ast.Name) and c0.func.id in mod.funcs:
                    g0 = mod.funcs[c0.func.id]
                    bind = {}
                    for i0, a0 in enumerate(c0.args):
                        if i0 < len(g0.args.args):
                            bind[g0.args.args[i0].arg] = a0
                    for kw0 in c0.keywords:
                        if kw0.arg:
                            bind[kw0.arg] = kw0.value
                    if not any(isinstance(x0, ast.Name) and x0.id == "self" for v0 in bind.values() for x0 in ast.walk(v0)):
                        continue
                    # arguments that are single-assignment locals of the caller are replaced by what they stand for
                    once0 = {}
                    for a0 in ast.walk(fn0):
                        if isinstance(a0, ast.Assign) and len(a0.targets) == 1 and isinstance(a0.targets[0], ast.Name):
                            once0.setdefault(a0.targets[0].id, []).append(a0.value)
                    for k0, v0 in list(bind.items()):
                        if isinstance(v0, ast.Name) and len(once0.get(v0.id, [])) == 1 and not isinstance(once0[v0.id][0], ast.Call):
                            bind[k0] = once0[v0.id][0]
                    # the helper specialised to this call: parameters replaced by the argument expressions (only simple ones: names,
                    # attributes, constants), `getattr(self, "x")` read as `self.x`; what it constructs is attributed to the caller
                    bind = {k0: v0 for k0, v0 in bind.items() if isinstance(v0, (ast.Name, ast.Attribute, ast.Constant))}
                    for v0 in bind.values():
                        for x0 in ast.walk(v0):
                            if isinstance(x0, ast.Call) and isinstance(x0.func, ast.Name) and x0.func.id == "super":
                                x0.args = []

                    class Sub(ast.NodeTransformer):
                        def visit_Name(s_, n_):
                            if isinstance(n_.ctx, ast.Load) and n_.id in bind:
                                return _copy0.deepcopy(bind[n_.id])
                            return n_

                        def visit_Call(s_, n_):
                            n_ = s_.generic_visit(n_)
                            if isinstance(n_.func, ast.Name) and n_.func.id == "getattr" and len(n_.args) == 2 and isinstance(n_.args[1], ast.Constant) \
                                    and isinstance(n_.args[1].value, str):
                                return ast.Attribute(value=n_.args[0], attr=n_.args[1].value, ctx=ast.Load())
                            return n_
                    g1 = ast.fix_missing_locations(Sub().visit(_copy0.deepcopy(g0)))
                    g1.args.args = [a for a in g1.args.args if a.arg not in bind]
                    g1.decorator_list = []
                    g1._site0 = f"{cls}.{fn0.name}" if cached0 else f"{cls}.<helper>"
                    adopted.append(g1)
        for fn in list(mod.classes[cls].body) + adopted:
            if not isinstance(fn, ast.FunctionDef):
                continue
            cached = any(ast.unparse(d).split(".")[-1] == "cached_quantity" for d in fn.decorator_list)
            if not cached and fn.decorator_list and not any(ast.unparse(d) == "staticmethod" for d in fn.decorator_list):
                continue            # parameters, properties: not part of the data flow between quantities
            if not cached and fn.name in ("__init__", "validate", "update", "clone"):
                continue
            k = 0
            site0 = getattr(fn, "_site0", f"{cls}.{fn.name}" if cached else f"{cls}.<helper>")      # helpers are interchangeable places: keyed by class only
            # single-assignment locals are written out in the recorded argument texts (so `mask = dndm > 0; f(m[mask])` reads `f(m[dndm > 0])`)
            cnt_ = {}
            for a_ in ast.walk(fn):
                if isinstance(a_, ast.Assign):
                    for t_ in a_.targets:
                        for nm_ in ast.walk(t_):
                            if isinstance(nm_, ast.Name) and isinstance(nm_.ctx, ast.Store):
                                cnt_[nm_.id] = cnt_.get(nm_.id, 0) + 1
                elif isinstance(a_, (ast.AugAssign, ast.For)) :
                    for nm_ in ast.walk(a_.target):
                        if isinstance(nm_, ast.Name):
                            cnt_[nm_.id] = cnt_.get(nm_.id, 0) + 2
            argn_ = {x.arg for x in fn.args.args}
            # reaching definition by source order: the last plain assignment `name = <expr>` above the use (expressions that are calls
            # are kept by name: they are values computed on the spot, not aliases)
            defs_ = {}
            for a_ in ast.walk(fn):
                if isinstance(a_, ast.Assign) and len(a_.targets) == 1 and isinstance(a_.targets[0], ast.Name) and a_.targets[0].id not in argn_:
                    defs_.setdefault(a_.targets[0].id, []).append((a_.lineno, a_.value))
                elif isinstance(a_, ast.Assign) and len(a_.targets) == 1 and isinstance(a_.targets[0], (ast.Tuple, ast.List)):
                    # `a, b = …`: element-wise when the right side is a display of the same length, otherwise each name is a value
                    # computed on the spot (kept by name, like the result of a call)
                    els_ = a_.targets[0].elts
                    same_ = isinstance(a_.value, (ast.Tuple, ast.List)) and len(a_.value.elts) == len(els_)
                    for j_, t_ in enumerate(els_):
                        if isinstance(t_, ast.Name) and t_.id not in argn_:
                            v_ = a_.value.elts[j_] if same_ else ast.Call(func=ast.Name(id="unpacked", ctx=ast.Load()), args=[], keywords=[])
                            defs_.setdefault(t_.id, []).append((a_.lineno, v_))

            full_ = [False]

            def src_(e_, line=None, depth=0):
                import copy as _copy
                line = getattr(e_, "lineno", 10 ** 9) if line is None else line

                class T(ast.NodeTransformer):
                    def visit_Name(s_, n_):
                        cands = [(l_, v_) for l_, v_ in defs_.get(n_.id, []) if l_ < line]
                        if cands and depth < (6 if full_[0] else 3):
                            l_, v_ = max(cands, key=lambda c: c[0])
                            # (the callee may itself be a local alias of a bound method: `lnt = self.transfer.lnt; t = lnt(x)`)
                            fsrc_ = src_(v_.func, l_, depth + 1) if isinstance(v_, ast.Call) else ""
                            pure_call = isinstance(v_, ast.Call) and (fsrc_.startswith("np.") or fsrc_.startswith("self."))
                            if (not isinstance(v_, ast.Call) or (full_[0] and pure_call)) and cnt_.get(n_.id, 0) <= 2:
                                return ast.parse(src_(v_, l_, depth + 1), mode="eval").body
                        return n_

                    def visit_Call(s_, n_):
                        n_ = s_.generic_visit(n_)
                        if isinstance(n_.func, ast.Name) and n_.func.id == "super":
                            n_.args = []          # `super(Class, self)` and `super()` are the same object here
                        return n_
                return ast.unparse(_canon_arith(ast.fix_missing_locations(T().visit(_copy.deepcopy(e_)))))
            for n in ast.walk(fn):
                if not isinstance(n, ast.Call):
                    continue
                callee = ast.unparse(n.func)
                if isinstance(n.func, ast.Attribute) and isinstance(n.func.value, ast.Name) and n.func.attr in ("update", "clone") and not n.args \
                        and ((n.func.value.id != "self") or (n.func.attr == "clone" and not cached)):
                    # a derived framework object built inside a helper (e.g. the high-mass extension of `_gtm`): which parameters it is given
                    rows.append((site0 + (f"#{k}" if k else ""), [("callee", "<derived object>.update")] + sorted(((kw.arg or "**"), src_(kw.value)) for kw in n.keywords)))
                    k += 1
                    continue
                if isinstance(n.func, ast.Name) and n.func.id in funcs:
                    # arguments bound to the callee's parameter names, so positional and keyword spellings give the same row
                    name, params = funcs[n.func.id]
                    bound = [(params[i] if i < len(params) else f"#{i}", src_(a)) for i, a in enumerate(n.args)]
                    bound += [((kw.arg or "**"), src_(kw.value)) for kw in n.keywords]
                    rows.append((site0 + (f"#{k}" if k else ""), [("callee", name)] + sorted(bound)))
                    k += 1
                    continue
                if isinstance(n.func, ast.Name):
                    # a model class bound to a local first (`alter = self.alter_model; alter(m=…)`)
                    try:
                        alias_ = src_(n.func)
                    except Exception:
                        alias_ = callee
                    if re.fullmatch(r"self\.[A-Za-z_]+_model(\.clone)?", alias_):
                        args = [(f"#{i}", src_(a)) for i, a in enumerate(n.args)]
                        args += sorted(((kw.arg or "**"), src_(kw.value)) for kw in n.keywords)
                        rows.append((site0 + (f"#{k}" if k else ""), [("callee", alias_[5:])] + args))
                        k += 1
                    continue
                if not isinstance(n.func, ast.Attribute):
                    continue
                if isinstance(n.func.value, ast.Name) and n.func.value.id in pkgmods and n.func.attr[:1].isupper():
                    # a component class instantiated directly (e.g. the fixed top-hat used for the sigma_8 normalisation): its arguments in
                    # full, locals written out through numpy calls and calls on self
                    full_[0] = True
                    try:
                        args = [(f"#{i}", src_(a)) for i, a in enumerate(n.args)] + sorted(((kw.arg or "**"), src_(kw.value)) for kw in n.keywords)
                    finally:
                        full_[0] = False
                    rows.append((site0 + (f"#{k}" if k else ""), [("callee", callee)] + args))
                    k += 1
                    continue
                if isinstance(n.func, (ast.Name, ast.Attribute)) and not re.fullmatch(r"self\.[A-Za-z_]+_model(\.clone)?", callee):
                    # the model class may have been bound to a local first (`alter = self.alter_model; alter(m=…)`)
                    try:
                        alias_ = src_(n.func)
                    except Exception:
                        alias_ = callee
                    if re.fullmatch(r"self\.[A-Za-z_]+_model(\.clone)?", alias_):
                        callee = alias_
                if re.fullmatch(r"self\.[A-Za-z_]+_model(\.clone)?", callee):
                    args = [(f"#{i}", src_(a)) for i, a in enumerate(n.args)]
                    args += sorted(((kw.arg or "**"), src_(kw.value)) for kw in n.keywords)
                    rows.append((site0 + (f"#{k}" if k else ""), [("callee", callee[5:])] + args))
                    k += 1
    # attributes a component's constructor derives from its arguments (inputs of the generated terms): what they are made of
    for rel, cls in [("alternatives/wdm.py", "WDM")]:
        mod = Module(rel)
        for fn in mod.classes[cls].body:
            if isinstance(fn, ast.FunctionDef) and fn.name == "__init__":
                for a_ in ast.walk(fn):
                    if isinstance(a_, ast.Assign) and len(a_.targets) == 1 and isinstance(a_.targets[0], ast.Attribute) and isinstance(a_.targets[0].value, ast.Name) \
                            and a_.targets[0].value.id == "self":
                        rows.append((f"{cls}.__init__.{a_.targets[0].attr}", [("callee", "="), ("value", ast.unparse(a_.value))]))
    # stable site names: `Class.method`, or `Class.method/callee` when a method makes several recorded calls (independent of the
    # order of the statements)
    import collections
    base = collections.Counter(re.sub(r"#\d+$", "", site) for site, _ in rows)
    named, seen = [], collections.Counter()
    rows.sort(key=lambda r_: (re.sub(r"#\d+$", "", r_[0]), json.dumps(r_[1])))       # duplicates are numbered by content, not by position in the source
    for site, args in rows:
        b = re.sub(r"#\d+$", "", site)
        if base[b] > 1:
            nm = f"{b}/{dict(args)['callee']}"
            seen[nm] += 1
            nm = nm if seen[nm] == 1 else f"{nm}#{seen[nm]}"
        else:
            nm = b
        named.append((nm, args))
    rows = sorted(named)
    L = ["def wiring : List (String × List (String × String)) := ["]
    L.append(",\n".join("  (" + lean_str(site) + ", [" + ", ".join(f"({lean_str(a)}, {lean_str(b)})" for a, b in args) + "])" for site, args in rows))
    L.append("]")
    return "\n".join(L), rows



class _CanonArith(ast.NodeTransformer):
    """argument expressions of the wiring rows in a spelling-independent form: `np.square(x)` / `np.power(x, n)` are `x ** 2` / `x ** n`, and
    the operands of every product and sum are listed in a fixed (textual) order — `a * b` and `b * a` name the same argument"""

    def visit_Call(self, n):
        n = self.generic_visit(n)
        f = ast.unparse(n.func)
        if f in ("np.square", "numpy.square") and len(n.args) == 1 and not n.keywords:
            return ast.BinOp(left=n.args[0], op=ast.Pow(), right=ast.Constant(value=2))
        if f in ("np.power", "numpy.power", "pow") and len(n.args) == 2 and not n.keywords:
            return ast.BinOp(left=n.args[0], op=ast.Pow(), right=n.args[1])
        return n

    def visit_BinOp(self, n):
        n = self.generic_visit(n)
        if isinstance(n.op, (ast.Mult, ast.Add)):
            ops = []

            def flat(x):
                if isinstance(x, ast.BinOp) and type(x.op) is type(n.op):
                    flat(x.left); flat(x.right)
                else:
                    ops.append(x)
            flat(n)
            ops.sort(key=lambda x: ast.unparse(x))
            out = ops[0]
            for x in ops[1:]:
                out = ast.BinOp(left=out, op=type(n.op)(), right=x)
            return out
        return n


def _canon_arith(tree):
    return ast.fix_missing_locations(_CanonArith().visit(tree))



def _inline_self_aliases(fn):
    """`g = self.growth; return g.growth_factor(z)` reads like `return self.growth.growth_factor(z)`: single-assignment locals whose value is a
    plain attribute chain on `self` (a component, a bound method, a parameter) are written out at their uses before translation"""
    import copy as _copy
    cnt, val = {}, {}
    for a_ in ast.walk(fn):
        if isinstance(a_, (ast.Assign, ast.AugAssign, ast.AnnAssign, ast.For)):
            tg = a_.targets if isinstance(a_, ast.Assign) else [a_.target]
            for t_ in tg:
                for n_ in ast.walk(t_):
                    if isinstance(n_, ast.Name) and isinstance(n_.ctx, ast.Store):
                        cnt[n_.id] = cnt.get(n_.id, 0) + (1 if isinstance(a_, ast.Assign) else 2)
        if isinstance(a_, ast.Assign) and len(a_.targets) == 1 and isinstance(a_.targets[0], ast.Name):
            v_ = a_.value
            chain = v_
            while isinstance(chain, ast.Attribute):
                chain = chain.value
            if isinstance(v_, ast.Attribute) and isinstance(chain, ast.Name) and chain.id == "self" and ast.unparse(v_) != "self.params":
                val[a_.targets[0].id] = v_
            elif isinstance(v_, ast.IfExp) and all(isinstance(b_, ast.Attribute) and re.fullmatch(r"self(\.\w+)+", ast.unparse(b_))
                                                   for b_ in (v_.body, v_.orelse)):
                # a callable chosen by a condition (`f = self.a if c else self.b.m; return f(z)`): the call is distributed over the choice
                val[a_.targets[0].id] = v_
    params = {a.arg for a in fn.args.args}
    alias = {n_: v_ for n_, v_ in val.items() if cnt.get(n_) == 1 and n_ not in params}
    if not alias:
        return fn

    class T(ast.NodeTransformer):
        def visit_Name(s_, n_):
            if isinstance(n_.ctx, ast.Load) and n_.id in alias:
                return _copy.deepcopy(alias[n_.id])
            return n_

        def visit_Call(s_, c_):
            c_ = s_.generic_visit(c_)
            if isinstance(c_.func, ast.IfExp):
                f_ = c_.func
                return ast.IfExp(test=f_.test, body=ast.Call(func=f_.body, args=c_.args, keywords=c_.keywords),
                                 orelse=ast.Call(func=f_.orelse, args=_copy.deepcopy(c_.args), keywords=_copy.deepcopy(c_.keywords)))
            return c_

        def visit_Assign(s_, a_):
            if len(a_.targets) == 1 and isinstance(a_.targets[0], ast.Name) and a_.targets[0].id in alias:
                return None            # the alias definition itself disappears
            return s_.generic_visit(a_)
    # a conditional alias is only written out where it is called
    for n_, v_ in list(alias.items()):
        if isinstance(v_, ast.IfExp):
            uses = [x for x in ast.walk(fn) if isinstance(x, ast.Name) and x.id == n_ and isinstance(x.ctx, ast.Load)]
            called = [x for x in ast.walk(fn) if isinstance(x, ast.Call) and isinstance(x.func, ast.Name) and x.func.id == n_]
            if len(uses) != len(called):
                del alias[n_]
    if not alias:
        return fn
    return ast.fix_missing_locations(T().visit(_copy.deepcopy(fn)))


GUARD_FILES = ["mass_function/integrate_hmf.py", "mass_function/fitting_functions.py", "mass_function/hmf.py", "helpers/sample.py",
               "density_field/transfer_models.py", "density_field/filters.py", "density_field/halofit.py", "density_field/transfer.py",
               "alternatives/wdm.py", "halos/mass_definitions.py", "cosmology/growth_factor.py", "cosmology/cosmo.py"]


def guards():
    """every comparison of a quantity with a numeric literal in the numerical modules (thresholds of small-argument branches, validity
    ranges of validators and cut masks, grid limits): (site, canonical text).  Canonical: literal on the right, `not (a op b)` written
    with the negated operator, numeric sub-expressions folded, chained comparisons split, `len(...)` tests left out."""
    flip = {ast.Lt: ast.Gt, ast.Gt: ast.Lt, ast.LtE: ast.GtE, ast.GtE: ast.LtE, ast.Eq: ast.Eq, ast.NotEq: ast.NotEq}
    neg = {ast.Lt: ast.GtE, ast.Gt: ast.LtE, ast.LtE: ast.Gt, ast.GtE: ast.Lt, ast.Eq: ast.NotEq, ast.NotEq: ast.Eq}
    sym = {ast.Lt: "<", ast.Gt: ">", ast.LtE: "<=", ast.GtE: ">=", ast.Eq: "==", ast.NotEq: "!="}

    def num(e):
        if isinstance(e, ast.Constant) and isinstance(e.value, (int, float)) and not isinstance(e.value, bool):
            return float(e.value)
        if isinstance(e, ast.UnaryOp) and isinstance(e.op, ast.USub) and num(e.operand) is not None:
            return -num(e.operand)
        if isinstance(e, ast.BinOp) and num(e.left) is not None and num(e.right) is not None:
            a, b = num(e.left), num(e.right)
            try:
                return {ast.Add: a + b, ast.Sub: a - b, ast.Mult: a * b, ast.Div: a / b, ast.Pow: a ** b}[type(e.op)]
            except Exception:
                return None
        return None
    rows = []
    ctor_rows = set()
    fn_stack = []
    mult_stack = []
    locals_stack = []
    localnames_stack = []

    def inline_(e_, depth=0):
        import copy as _copy
        la = locals_stack[-1] if locals_stack else {}

        class T(ast.NodeTransformer):
            def visit_Name(s_, n_):
                if n_.id in la and depth < 3:
                    return ast.parse(inline_(la[n_.id], depth + 1), mode="eval").body
                return n_
        return ast.unparse(ast.fix_missing_locations(T().visit(_copy.deepcopy(e_))))
    for rel in GUARD_FILES:
        path = os.path.join(SRC, rel)
        if not os.path.exists(path):
            continue
        tree = ast.parse(open(path).read())

        def visit(node, stack, negated=False):
            for ch in ast.iter_child_nodes(node):
                if isinstance(ch, ast.ClassDef):
                    visit(ch, stack + [ch.name])
                    continue
                if isinstance(ch, ast.FunctionDef):
                    # the row is keyed by class (or module) only, so that moving a test into a helper of the same class does not change it;
                    # single-assignment locals of the function are written out
                    cnt = {}
                    for a_ in ast.walk(ch):
                        if isinstance(a_, ast.Assign):
                            for t_ in a_.targets:
                                for nm_ in ast.walk(t_):
                                    if isinstance(nm_, ast.Name) and isinstance(nm_.ctx, ast.Store):
                                        cnt[nm_.id] = cnt.get(nm_.id, 0) + 1
                        elif isinstance(a_, (ast.AugAssign, ast.For)):
                            for nm_ in ast.walk(a_.target):
                                if isinstance(nm_, ast.Name):
                                    cnt[nm_.id] = cnt.get(nm_.id, 0) + 2
                    argn = {x.arg for x in ch.args.args}
                    locals_stack.append({a_.targets[0].id: a_.value for a_ in ast.walk(ch) if isinstance(a_, ast.Assign) and len(a_.targets) == 1
                                         and isinstance(a_.targets[0], ast.Name) and cnt.get(a_.targets[0].id) == 1 and a_.targets[0].id not in argn
                                         and (not isinstance(a_.value, ast.Call) or ast.unparse(a_.value.func).startswith("self."))})
                    # `a, b = x, y` binds element-wise
                    for a_ in ast.walk(ch):
                        if isinstance(a_, ast.Assign) and len(a_.targets) == 1 and isinstance(a_.targets[0], ast.Tuple) and isinstance(a_.value, ast.Tuple) \
                                and len(a_.targets[0].elts) == len(a_.value.elts):
                            for t_, v_ in zip(a_.targets[0].elts, a_.value.elts):
                                if isinstance(t_, ast.Name) and cnt.get(t_.id) == 1 and t_.id not in argn \
                                        and (not isinstance(v_, ast.Call) or ast.unparse(v_.func).startswith("self.")):
                                    locals_stack[-1][t_.id] = v_
                    localnames_stack.append(set(cnt) - argn)
                    # a comparison stored in a local boolean and then tested n times counts n times (the table is a multiset of *tests*):
                    # computing a repeated condition once, or inlining such a local at its uses, leaves the table unchanged
                    loads_ = {}
                    for a_ in ast.walk(ch):
                        if isinstance(a_, ast.Name) and isinstance(a_.ctx, ast.Load):
                            loads_[a_.id] = loads_.get(a_.id, 0) + 1
                    mm_ = {}
                    for a_ in ast.walk(ch):
                        if isinstance(a_, ast.Assign) and len(a_.targets) == 1 and isinstance(a_.targets[0], ast.Name) and cnt.get(a_.targets[0].id) == 1:
                            for c_ in ast.walk(a_.value):
                                if isinstance(c_, ast.Compare):
                                    mm_[id(c_)] = max(1, loads_.get(a_.targets[0].id, 1))
                    mult_stack.append(mm_)
                    fn_stack.append(ch.name)
                    visit(ch, stack)
                    fn_stack.pop()
                    mult_stack.pop()
                    locals_stack.pop()
                    localnames_stack.pop()
                    continue
                if isinstance(ch, ast.UnaryOp) and isinstance(ch.op, ast.Not) and isinstance(ch.operand, ast.Compare):
                    handle(ch.operand, stack, True)
                    continue
                if isinstance(ch, ast.Compare):
                    handle(ch, stack, False)
                visit(ch, stack)

        def handle(c, stack, negated):
            items = [c.left] + list(c.comparators)
            pairs = []
            for (l0, op, r0) in zip(items, c.ops, items[1:]):
                # locals written out; a conditional expression choosing between literals (`lo = -0.6 if z == 0 else -0.2`) gives one row
                # per literal, and its test is visited like any other comparison
                la_ = [ast.parse(inline_(x), mode="eval").body for x in (l0, r0)]
                opts = []
                for x in la_:
                    if isinstance(x, ast.IfExp):
                        visit(ast.Expr(value=x.test), stack)
                        opts.append([x.body, x.orelse])
                    else:
                        opts.append([x])
                for a_ in opts[0]:
                    for b_ in opts[1]:
                        pairs.append((a_, op, b_))
            for (l, op, r) in pairs:
                if type(op) not in flip:
                    continue
                ln, rn = num(l), num(r)
                if (ln is None) == (rn is None):
                    continue
                if ln is not None:
                    l, r, op, rn = r, l, flip[type(op)](), ln
                opc = type(op)
                if negated:
                    opc = neg[opc]
                # a test and its negation describe the same boundary (`x <= c` is `not x > c`): one canonical representative of each pair;
                # `>` vs `>=` (a moved boundary) still differ
                opc = {ast.LtE: ast.Gt, ast.GtE: ast.Lt, ast.NotEq: ast.Eq}.get(opc, opc)
                txt = inline_(l)
                if re.search(r"len\(|\.size\b|\.shape\b|\.ndim\b", txt):
                    continue          # container-size tests are not thresholds of the physics
                # what is still phrased in terms of a local variable is written with positional placeholders (names are arbitrary)
                lnames = localnames_stack[-1] if localnames_stack else set()
                tree_ = ast.parse(txt, mode="eval")
                order_ = {}
                for n_ in ast.walk(tree_):
                    if isinstance(n_, ast.Name) and (n_.id in lnames or n_.id not in ("self", "np", "math", "abs", "float", "int", "min", "max")):
                        order_.setdefault(n_.id, f"_{len(order_) + 1}")
                        n_.id = order_[n_.id]
                txt = ast.unparse(tree_)
                for _rep in range(mult_stack[-1].get(id(c), 1) if mult_stack else 1):
                    rows.append((f"{rel}:{'.'.join(stack)}", f"{txt} {sym[opc]} {rn!r}"))
                if fn_stack and fn_stack[0] == "__init__":
                    ctor_rows.add(rows[-1])
            for sub in items:
                visit(sub, stack)
        visit(tree, [])
    # a set, not a multiset: a multiset (tried in round 6) also sees one of two identical tests being dropped, but two behaviour-preserving
    # refactors that merge duplicated branches (harmless/C07_h2, C08_h2) then alarm; the dropped-duplicate case is left to the oracles
    rows = sorted(set(rows))
    return guards_lean(rows, "Gen", "GENERATED by tools/pyexpr.py from /repo/src/hmf — do not edit.", ctor_rows), rows


GUARD_AREAS = {"mass_function/integrate_hmf.py": "integrate", "mass_function/fitting_functions.py": "fits", "mass_function/hmf.py": "massFunction",
               "helpers/sample.py": "sample", "density_field/transfer_models.py": "transferModels", "density_field/filters.py": "filters",
               "density_field/halofit.py": "halofit", "density_field/transfer.py": "transfer", "alternatives/wdm.py": "wdm",
               "halos/mass_definitions.py": "mdef", "cosmology/growth_factor.py": "growth", "cosmology/cosmo.py": "cosmo"}


def guards_lean(rows, ns, header, ctor_rows=None):
    L = [f"/-! {header} -/", f"namespace Hmf.{ns}.Guards", ""]
    if ctor_rows is not None:
        # the comparisons made while a fitting function is constructed (range checks on its model parameters), separately
        sel = sorted((a.split(":", 1)[1], b) for a, b in ctor_rows if a.split(":", 1)[0] == "mass_function/fitting_functions.py")
        L.append("def fitParameterRanges : List (String × String) := [")
        L.append(",\n".join(f"  ({lean_str(a)}, {lean_str(b)})" for a, b in sel))
        L.append("]")
    for rel, area in GUARD_AREAS.items():
        sel = [(a.split(":", 1)[1], b) for a, b in rows if a.split(":", 1)[0] == rel]
        L.append(f"def {area} : List (String × String) := [")
        L.append(",\n".join(f"  ({lean_str(a)}, {lean_str(b)})" for a, b in sel))
        L.append("]")
    L += ["", f"end Hmf.{ns}.Guards"]
    return "\n".join(L) + "\n"


COMPONENTS = [
    # (namespace, file, base class, [(method, is_property)], input attrs of self)
    ("Wdm", "alternatives/wdm.py", "WDM", [("transfer", False), ("lam_eff_fs", True), ("m_fs", True), ("lam_hm", True), ("m_hm", True)],
     {"mx", "rho_mean", "Oc0", "cosmo"}),
    ("WdmAlter", "alternatives/wdm.py", "WDMRecalibrateMF", [("dndm_alter", False)], {"m", "dndm0", "wdm"}),
    ("Transfer", "density_field/transfer_models.py", "TransferComponent", [("lnt", False)], {"cosmo"}),
    ("Filters", "density_field/filters.py", "Filter", [("k_space", False), ("real_space", False), ("dw_dlnkr", False), ("mass_to_radius", False),
                                                        ("radius_to_mass", False), ("dlnr_dlnm", False), ("dlnss_dlnr", False)], {"k", "power"}),
    ("Mdef", "halos/mass_definitions.py", "MassDefinition", [("halo_density", False), ("halo_overdensity_mean", False), ("halo_overdensity_crit", False),
                                                              ("m_to_r", False), ("r_to_m", False)], set()),
    ("Growth", "cosmology/growth_factor.py", "_GrowthFactor", [("_d_plus", False), ("growth_factor", False), ("growth_rate", False)], {"cosmo"}),
]


def components():
    out_items, out_meta = {}, {}
    for ns, rel, base, methods, inputs in COMPONENTS:
        mod = Module(rel)
        items, meta = [], {}
        classes = [base] + mod.subclasses(base) if base in mod.classes else mod.subclasses(base)
        for c in classes:
            for mname, is_prop in methods:
                kk, fn = mod.find(c, mname)
                if fn is None:
                    continue
                if kk != c and c != base and not _ctor_differs(mod, c, kk):
                    pass            # inherited unchanged: still emitted under the subclass name (aliases are checked by equality)
                tr = Tr(mod, c, set(inputs), flow=False)
                env = {} if is_prop else {a.arg: ("var", a.arg) for a in fn.args.args[1:]}
                name = f"{c}_{mname}"
                try:
                    t = lower(tr.func(fn, kk, env))
                    items.append((name, t))
                    meta[name] = {"tree": t, "cls": c, "method": mname, "owner": kk, "notes": tr.notes,
                                  "args": [a.arg for a in fn.args.args[1:]] if not is_prop else []}
                except Unsupported as e:
                    meta[name] = {"unsupported": str(e), "cls": c, "method": mname, "owner": kk}
            meta[f"{c}._defaults"] = {"defaults": defaults_of(mod, c)}
        out_items[ns], out_meta[ns] = items, meta
    return out_items, out_meta


def _ctor_differs(mod, c, owner):
    return True


def module_functions():
    """closed-form locals of module-level functions: (namespace, file, function, local whose final value is wanted)"""
    items, meta = [], {}
    for rel, fname, local in [("density_field/halofit.py", "halofit", "pnl")]:
        mod = Module(rel)
        fn = mod.funcs[fname]
        body = []
        for st in fn.body:
            body.append(st)
            if isinstance(st, ast.Assign) and any(isinstance(t, ast.Name) and t.id == local for t in st.targets):
                break
        body.append(ast.Return(value=ast.Name(id=local, ctx=ast.Load())))
        # a pseudo-class so that the executor has an MRO
        cls = next(iter(mod.classes), None)
        tr = Tr(mod, cls, set(), flow=False) if cls else None
        if tr is None:
            mod.classes["_M"] = ast.ClassDef(name="_M", bases=[], keywords=[], body=[], decorator_list=[])
            tr = Tr(mod, "_M", set(), flow=False)
        tr.plain_locals = True
        env = {a.arg: ("var", a.arg) for a in fn.args.args}
        name = f"{fname}_{local}"
        try:
            t = lower(tr.block(body, env, fname, fname))
            items.append((name, t))
            meta[name] = {"tree": t, "notes": tr.notes}
        except Unsupported as e:
            meta[name] = {"unsupported": str(e)}
    return items, meta


def main():
    verif = os.path.dirname(os.path.dirname(os.path.abspath(__file__)))
    gen = os.path.join(verif, "lean", "HmfVerif", "Gen")
    out = {}
    items, meta = fits()
    emit_module(os.path.join(gen, "ExprFits.lean"), "Fits", items, extra=defaults_lean(meta, items))
    out["fits"] = meta
    fitems, fmeta = flow()
    wtext, wrows = wiring()
    emit_module(os.path.join(gen, "ExprFlow.lean"), "Flow", fitems, extra=wtext)
    out["flow"] = fmeta
    out["wiring"] = wrows
    gtext, grows = guards()
    gp = os.path.join(gen, "Guards.lean")
    if not os.path.exists(gp) or open(gp).read() != gtext:
        open(gp, "w").write(gtext)
    out["guards"] = grows
    print("pyexpr: flow", len(fitems), "unsupported", {k: v["unsupported"] for k, v in fmeta.items() if "unsupported" in v})
    mitems, mmeta = module_functions()
    emit_module(os.path.join(gen, "ExprHalofit.lean"), "Halofit", mitems)
    out["halofit"] = mmeta
    print("pyexpr: halofit", len(mitems), {k: v.get("unsupported") for k, v in mmeta.items() if "unsupported" in v})
    citems, cmeta = components()
    for ns, items in citems.items():
        emit_module(os.path.join(gen, f"Expr{ns}.lean"), ns, items)
        bad = {k: v["unsupported"][:70] for k, v in cmeta[ns].items() if "unsupported" in v}
        print(f"pyexpr: {ns}", len(items), "unsupported", bad)
    out["components"] = cmeta
    jt = json.dumps(out, indent=1, sort_keys=True, default=list)
    p = os.path.join(gen, "expr.json")
    if not os.path.exists(p) or open(p).read() != jt:
        open(p, "w").write(jt)
    bad = {c: e.get("unsupported") for c, e in meta.items() if "unsupported" in e}
    print("pyexpr: fits", len(meta), "unsupported", bad)
    for c, e in meta.items():
        if e["notes"]:
            print("   ", c, e["notes"][:4])


if __name__ == "__main__":
    main()
